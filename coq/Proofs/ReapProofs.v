(* Sowing establishes the crop invariant, re-sowing keeps it (and the results), a reap of a
   fully grown crop is the direct run, a partial reap is the direct run of the masked function. *)
From XV Require Import Prelude Grid Perm Runner Batch Crop GridProofs PermProofs RunnerProofs BatchProofs AssocProofs CropProofs.
From Coq Require Import Permutation ZifyBool.
Ltac Zify.zify_post_hook ::= Z.to_euclidean_division_equations.
Open Scope Z_scope.

Section ReapProofs.
  Context {R : Type}.
  Variable g : kwargs -> R.
  Notation disk := (@disk R).

  (* ---------- writing the batches ---------- *)
  Lemma written_batches (bl : list (list kwargs)) (old : list (Z * list kwargs)) :
    let merged := fold_left (fun acc b => zset (fst b) (snd b) acc) (number_from 1 bl) old in
    NoDup (map fst old) ->
    (forall x, In x (map fst old) -> 1 <= x <= Z.of_nat (length bl)) ->
    NoDup (map fst merged)
    /\ (forall x, In x (map fst merged) <-> 1 <= x <= Z.of_nat (length bl))
    /\ (forall k, 1 <= k <= Z.of_nat (length bl) -> zlookup k merged = nth_error bl (Z.to_nat (k - 1))).
  Proof.
    intros merged Hnd Hold. subst merged. split; [apply nodup_fold_zset, Hnd|]. split.
    - intros x. rewrite keys_fold_zset, keys_number_from, zseq_in. split; [|lia].
      intros [H|H]; [lia|apply Hold, H].
    - intros k Hk. rewrite zlookup_fold_zset by (rewrite keys_number_from; apply zseq_nodup).
      rewrite zlookup_number_from.
      replace ((1 <=? k) && (k <? 1 + Z.of_nat (length bl))) with true by lia.
      destruct (nth_error bl (Z.to_nat (k - 1))) eqn:E; [reflexivity|].
      apply nth_error_None in E. lia.
  Qed.

  Lemma sown_intro i s r (old : disk) :
    let order := run_order i in
    let bl := sow_all s r order in
    let n := Z.of_nat (length order) in
    1 <= s -> 0 <= r -> n <= s * Z.of_nat (length bl) + r < n + s ->
    NoDup (map fst (d_batches old)) ->
    (forall x, In x (map fst (d_batches old)) -> 1 <= x <= Z.of_nat (length bl)) ->
    Sown i bl (mk_disk (Some (mk_info i s (Z.of_nat (length bl)) r))
                       (fold_left (fun acc b => zset (fst b) (snd b) acc) (number_from 1 bl) (d_batches old))
                       (d_results old)).
  Proof.
    intros order bl n Hs Hr Har Hnd Hold.
    destruct (written_batches bl (d_batches old) Hnd Hold) as (H1 & H2 & H3).
    constructor; cbn [d_info d_batches].
    - eauto.
    - exists s, r. repeat split; try assumption; try reflexivity; apply Har.
    - exact H1.
    - exact H2.
    - exact H3.
    - apply sow_all_concat; assumption.
    - apply sow_all_nonempty; assumption.
  Qed.

  (* a first sow (fresh object, empty directory) with a batch size OR a batch count *)
  Theorem sow_establishes i bs nb o' (d' : disk) :
    (bs = None \/ nb = None) -> (1 <= length (run_order i))%nat ->
    sow fresh_obj empty_disk i bs nb = Ok (o', d') ->
    exists bl, Inv g i bl d' /\ d_results d' = [] /\ bl <> [] /\ o' = reload d'.
  Proof.
    intros Hnone HN Hsow. unfold sow in Hsow. cbn [fresh_obj o_bs o_nb o_rem opt_or] in Hsow.
    set (order := run_order i) in *. set (n := Z.of_nat (length order)) in *.
    assert (Hn : 1 <= n) by (subst n; lia).
    assert (opt_or bs None = bs) as Eb by (destruct bs; reflexivity).
    assert (opt_or nb None = nb) as En by (destruct nb; reflexivity).
    rewrite Eb, En in Hsow. unfold choose in Hsow.
    assert (Hfin : forall s r, 1 <= s -> 0 <= r ->
              n <= s * Z.of_nat (length (sow_all s r order)) + r < n + s ->
              exists bl, Inv g i bl
                (mk_disk (Some (mk_info i s (Z.of_nat (length bl)) r))
                   (fold_left (fun acc b => zset (fst b) (snd b) acc) (number_from 1 bl) [])
                   ([] : list (Z * list R)))
              /\ bl = sow_all s r order /\ bl <> []).
    { intros s r Hs Hr Har. exists (sow_all s r order). split; [|split; [reflexivity|]].
      - split.
        + apply (sown_intro i s r empty_disk Hs Hr Har); cbn; [constructor|intros x []].
        + constructor; cbn; [constructor|intros k rs H; discriminate].
      - intros E. pose proof (sow_all_concat s r Hs Hr order) as Hc. rewrite E in Hc. cbn in Hc.
        subst n. rewrite <- Hc in Hn. cbn in Hn. lia. }
    destruct bs as [s|], nb as [k|]; try (destruct Hnone; discriminate).
    - (* by size *)
      destruct (s <? 1) eqn:Es; [discriminate|].
      assert (Hlen : Z.of_nat (length (sow_all s 0 order)) = cdiv n s) by (apply by_size_count; lia).
      pose proof (cdiv_spec n s ltac:(lia)) as Hcd.
      destruct (Hfin s 0 ltac:(lia) ltac:(lia) ltac:(rewrite Hlen; lia)) as (bl & HI & -> & Hne).
      injection Hsow as <- <-. rewrite Hlen in HI. exists (sow_all s 0 order).
      split; [exact HI|split; [reflexivity|split; [exact Hne|reflexivity]]].
    - (* by count *)
      destruct (Z.min n k <? 1) eqn:Ek; [discriminate|].
      set (B := Z.min n k) in *. assert (HB : 1 <= B <= n) by lia.
      destruct (by_count_batches order B ltac:(lia) Hn ltac:(lia)) as [Hlen _]. fold n in Hlen.
      assert (Hq : 1 <= n / B) by (apply Z.div_le_lower_bound; lia).
      assert (Hr : 0 <= n mod B < B) by (apply Z.mod_pos_bound; lia).
      destruct (Hfin (n / B) (n mod B) Hq (proj1 Hr)) as (bl & HI & -> & Hne).
      { rewrite Hlen. pose proof (Z.div_mod n B ltac:(lia)). nia. }
      injection Hsow as <- <-. rewrite Hlen in HI. exists (sow_all (n / B) (n mod B) order).
      split; [exact HI|split; [reflexivity|split; [exact Hne|reflexivity]]].
    - (* neither: batch size 1 *)
      change (1 <? 1) with false in Hsow. cbn iota in Hsow.
      assert (Hlen : Z.of_nat (length (sow_all 1 0 order)) = cdiv n 1) by (apply by_size_count; lia).
      pose proof (cdiv_spec n 1 ltac:(lia)) as Hcd.
      destruct (Hfin 1 0 ltac:(lia) ltac:(lia) ltac:(rewrite Hlen; lia)) as (bl & HI & -> & Hne).
      injection Hsow as <- <-. rewrite Hlen in HI. exists (sow_all 1 0 order).
      split; [exact HI|split; [reflexivity|split; [exact Hne|reflexivity]]].
  Qed.

  (* re-sowing the same sweep with the numbers the crop already has keeps every result *)
  Theorem resow_keeps_results i bl (d : disk) :
    Inv g i bl d ->
    exists d', sow (reload d) d i None None = Ok (reload d, d')
               /\ d_results d' = d_results d /\ Inv g i bl d'.
  Proof.
    intros [HS HR]. destruct (sw_arith _ _ _ HS) as (s & r & Hi & Hs & Hr & Hbl & Har).
    unfold sow, reload. rewrite Hi. cbn [o_bs o_nb o_rem opt_or inf_bs inf_nb inf_rem].
    rewrite (choose_both_ok _ s (Z.of_nat (length bl)) r) by exact Har.
    rewrite <- Hbl. eexists. split; [reflexivity|]. split; [reflexivity|]. split.
    - rewrite Hbl. rewrite Hbl in Har.
      apply (sown_intro i s r d Hs Hr Har).
      + apply (sw_keys_nodup _ _ _ HS).
      + intros x Hx. rewrite <- Hbl. apply (sw_keys _ _ _ HS), Hx.
    - destruct HR as [Hnd Hc]. constructor; cbn [d_results]; assumption.
  Qed.

  (* ---------- reaping a complete crop ---------- *)
  Theorem reap_complete i bl (d : disk) cu :
    Inv g i bl d -> bl <> [] ->
    (forall k, 1 <= k <= Z.of_nat (length bl) -> finished d k = true) ->
    reap d false cu
    = Ok (finish (fun _ => []) i (map (fun kw => SGot (g kw)) (run_order i)),
          if eff_clean_up cu false then empty_disk else d).
  Proof.
    intros HI Hne Hall. pose proof HI as [HS HR]. destruct (sw_info _ _ _ HS) as (s & r & Hi).
    unfold reap. rewrite Hi. cbn [inf_nb inf_in orb].
    assert (Hmiss : missing fresh_obj d = []).
    { destruct (missing fresh_obj d) as [|x m] eqn:E; [reflexivity|exfalso].
      assert (In x (missing fresh_obj d)) as Hx by (rewrite E; left; reflexivity).
      apply (missing_spec g i bl d fresh_obj x HI) in Hx as [Hr Hf]. rewrite Hall in Hf by exact Hr. discriminate. }
    rewrite (proj2 (ready_spec g i bl d fresh_obj HI Hne) Hmiss). cbn [negb andb].
    rewrite Nat2Z.id.
    rewrite (reaper_chain_spec g i bl d false (length bl) 1 HI) by first [lia | intros _ k Hk; apply Hall; lia].
    change (Z.to_nat (1 - 1)) with 0%nat. cbn [skipn].
    rewrite (masked_all_finished g d 1 bl) by (intros k Hk; apply Hall; lia).
    rewrite (sw_concat _ _ _ HS), map_length, Nat.eqb_refl. reflexivity.
  Qed.

  (* sow, grow in any order / grouping / repetition, reap: exactly the direct run *)
  Theorem roundtrip i bs nb o0 (d0 d1 : disk) ids cu :
    (bs = None \/ nb = None) -> (1 <= length (run_order i))%nat -> disjoint_args i ->
    sow fresh_obj empty_disk i bs nb = Ok (o0, d0) ->
    (forall k, In k ids <-> 1 <= k <= num_sown d0) ->
    grow_list (fn g (fun _ => false)) d0 ids = Ok d1 ->
    exists out, reap d1 false cu = Ok (out, if eff_clean_up cu false then empty_disk else d1)
                /\ out = fst (core (fun kw => SGot (g kw)) (fun _ => []) i).
  Proof.
    intros Hnone HN Hd Hsow Hids Hgrow.
    destruct (sow_establishes i bs nb o0 d0 Hnone HN Hsow) as (bl & HI0 & Hres & Hne & _).
    rewrite (sown_num_sown i bl d0 (proj1 HI0)) in Hids.
    destruct (grow_list_spec g (fun _ => false) i bl ids d0 HI0) as (d1' & Hg & HI1 & Hfin).
    - intros k Hk. apply Hids, Hk.
    - intros k b _ _. clear. induction b; [reflexivity|exact IHb].
    - rewrite Hg in Hgrow. injection Hgrow as Heq. subst d1'.
      eexists. split.
      + apply (reap_complete i bl d1 cu HI1 Hne). intros k Hk. apply Hfin. left. apply Hids, Hk.
      + symmetry. apply (core_finish (fun kw => SGot (g kw)) (fun _ => []) i Hd).
  Qed.

  (* ---------- partial reap ---------- *)
  Fixpoint kw_eqb (a b : kwargs) : bool :=
    match a, b with
    | [], [] => true
    | (x, u) :: a', (y, v) :: b' => (x =? y) && (u =? v) && kw_eqb a' b'
    | _, _ => false
    end.

  Lemma kw_eqb_eq a b : kw_eqb a b = true <-> a = b.
  Proof.
    revert b. induction a as [|[x u] a IH]; intros [|[y v] b]; cbn; try (split; discriminate); try tauto.
    rewrite !andb_true_iff, !Z.eqb_eq, IH. split.
    - intros [[-> ->] ->]. reflexivity.
    - intros H. injection H as -> -> ->. tauto.
  Qed.

  (* id of the batch file a setting was sown into *)
  Fixpoint batch_index (s : Z) (bl : list (list kwargs)) (kw : kwargs) : Z :=
    match bl with
    | [] => 0
    | b :: rest => if existsb (kw_eqb kw) b then s else batch_index (s + 1) rest kw
    end.

  (* the swept function as a partial reap sees it *)
  Definition masked_fn (d : disk) (bl : list (list kwargs)) (kw : kwargs) : @slot R :=
    if finished d (batch_index 1 bl kw) then SGot (g kw) else SHole.

  Lemma nodup_app_r {A} (a b : list A) : NoDup (a ++ b) -> NoDup b.
  Proof. induction a as [|x a IH]; cbn; intros H; [exact H|]. inversion H; subst. apply IH. assumption. Qed.

  Lemma nodup_app_disj {A} (a b : list A) x : NoDup (a ++ b) -> In x a -> ~ In x b.
  Proof.
    induction a as [|y a IH]; cbn; intros H Hin; [destruct Hin|].
    inversion H as [|? ? Hnin Hnd]; subst. destruct Hin as [->|Hin].
    - intros Hb. apply Hnin, in_or_app. right. exact Hb.
    - apply IH; assumption.
  Qed.

  Lemma masked_is_map (d : disk) : forall (l : list (list kwargs)) s,
    NoDup (concat l) ->
    flat_map (masked_batch g d) (number_from s l)
    = map (fun kw => if finished d (batch_index s l kw) then SGot (g kw) else SHole) (concat l).
  Proof.
    induction l as [|b l IH]; intros s Hnd; cbn [number_from flat_map concat]; [reflexivity|].
    cbn [concat] in Hnd. rewrite map_app. f_equal.
    - unfold masked_batch. cbn [fst snd batch_index].
      assert (Hin : forall kw, In kw b -> existsb (kw_eqb kw) b = true).
      { intros kw Hkw. apply existsb_exists. exists kw. split; [exact Hkw|apply kw_eqb_eq; reflexivity]. }
      destruct (finished d s) eqn:Ef; apply map_ext_in; intros kw Hkw; rewrite (Hin kw Hkw), Ef; reflexivity.
    - rewrite (IH (s + 1)) by (apply nodup_app_r in Hnd; exact Hnd).
      apply map_ext_in. intros kw Hkw. cbn [batch_index].
      assert (existsb (kw_eqb kw) b = false) as ->; [|reflexivity].
      destruct (existsb (kw_eqb kw) b) eqn:E; [|reflexivity]. exfalso.
      apply existsb_exists in E as (kw' & Hin' & E). apply kw_eqb_eq in E. subst kw'.
      exact (nodup_app_disj b (concat l) kw Hnd Hin' Hkw).
  Qed.

  Theorem reap_partial i bl (d : disk) cu :
    Inv g i bl d -> NoDup (run_order i) -> disjoint_args i ->
    (exists k, finished d k = true) ->
    reap d true cu
    = Ok (fst (core (masked_fn d bl) (fun _ => []) i),
          if eff_clean_up cu true then empty_disk else d).
  Proof.
    intros HI Hnd Hd (k0 & Hk0). pose proof HI as [HS HR]. destruct (sw_info _ _ _ HS) as (s & r & Hi).
    unfold reap. rewrite Hi. cbn [inf_nb inf_in orb negb andb].
    assert (Hres : d_results d <> []).
    { unfold finished, zmem in Hk0. destruct (d_results d); [discriminate|discriminate]. }
    assert (Hm : match d_results d with [] => true | _ :: _ => false end = false)
      by (destruct (d_results d); [contradiction|reflexivity]).
    rewrite Hm. cbn [negb andb orb].
    rewrite Nat2Z.id.
    rewrite (reaper_chain_spec g i bl d true (length bl) 1 HI) by first [lia | discriminate].
    change (Z.to_nat (1 - 1)) with 0%nat. cbn [skipn].
    rewrite masked_length, (sw_concat _ _ _ HS), Nat.eqb_refl. cbn [negb].
    rewrite (masked_is_map d bl 1) by (rewrite (sw_concat _ _ _ HS); exact Hnd).
    rewrite (sw_concat _ _ _ HS).
    rewrite (core_finish (masked_fn d bl) (fun _ => []) i Hd). reflexivity.
  Qed.

  (* an incomplete crop is refused and left untouched unless allow_incomplete is given *)
  Theorem reap_refused (d : disk) cu : ready d = false -> reap d false cu = Err E_XYZ.
  Proof. intros H. unfold reap. destruct (d_info d); [|reflexivity]. rewrite H. reflexivity. Qed.
End ReapProofs.
