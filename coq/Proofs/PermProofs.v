(* Un-shuffling undoes shuffling, for every permutation (not only those Python's
   random module can produce) and every list length. *)
From XV Require Import Prelude Perm.
From Coq Require Import Permutation Sorting.Sorted.

Section SortFacts.
  Context {A : Type}.
  Implicit Types (l : list (nat * A)).

  Lemma insert_perm x l : Permutation (insert_by x l) (x :: l).
  Proof.
    induction l as [|y l IH]; cbn; [apply Permutation_refl|].
    destruct (Nat.leb (fst x) (fst y)); [apply Permutation_refl|].
    eapply perm_trans; [apply perm_skip, IH|apply perm_swap].
  Qed.

  Lemma isort_perm l : Permutation (isort_by l) l.
  Proof.
    induction l as [|x l IH]; cbn; [constructor|].
    eapply perm_trans; [apply insert_perm|apply perm_skip, IH].
  Qed.

  Lemma insert_keys x l z :
    In z (map fst (insert_by x l)) -> z = fst x \/ In z (map fst l).
  Proof.
    intros H. apply (Permutation_in z (Permutation_map fst (insert_perm x l))) in H.
    cbn in H. destruct H as [<-|H]; [left; reflexivity|right; exact H].
  Qed.

  Lemma insert_sorted x l :
    StronglySorted le (map fst l) -> StronglySorted le (map fst (insert_by x l)).
  Proof.
    induction l as [|y l IH]; intros Hs; cbn.
    - constructor; constructor.
    - cbn in Hs. inversion Hs as [|? ? Hs' Hall]; subst.
      destruct (Nat.leb (fst x) (fst y)) eqn:E.
      + apply Nat.leb_le in E. cbn. constructor; [exact Hs|].
        constructor; [exact E|]. eapply Forall_impl; [|exact Hall]. intros a Ha. lia.
      + apply Nat.leb_gt in E. cbn. constructor; [apply IH, Hs'|].
        apply Forall_forall. intros z Hz. apply insert_keys in Hz as [->|Hz]; [lia|].
        rewrite Forall_forall in Hall. apply Hall, Hz.
  Qed.

  Lemma isort_sorted l : StronglySorted le (map fst (isort_by l)).
  Proof. induction l as [|x l IH]; cbn; [constructor|apply insert_sorted, IH]. Qed.
End SortFacts.

Lemma sorted_perm_eq (l1 : list nat) : forall l2,
  StronglySorted le l1 -> StronglySorted le l2 -> Permutation l1 l2 -> l1 = l2.
Proof.
  induction l1 as [|a1 t1 IH]; intros l2 H1 H2 HP.
  - apply Permutation_nil in HP. subst. reflexivity.
  - destruct l2 as [|a2 t2]; [apply Permutation_sym, Permutation_nil in HP; discriminate|].
    inversion H1 as [|? ? H1' F1]; inversion H2 as [|? ? H2' F2]; subst.
    rewrite Forall_forall in F1, F2.
    assert (a1 = a2).
    { assert (In a1 (a2 :: t2)) as [->|Hin1] by (eapply Permutation_in; [exact HP|left; reflexivity]); [reflexivity|].
      assert (In a2 (a1 :: t1)) as [->|Hin2] by (eapply Permutation_in; [apply Permutation_sym, HP|left; reflexivity]); [reflexivity|].
      specialize (F1 _ Hin2). specialize (F2 _ Hin1). lia. }
    subst a2. f_equal. apply IH; [assumption|assumption|]. eapply Permutation_cons_inv, HP.
Qed.

Lemma seq_sorted n : forall s, StronglySorted le (seq s n).
Proof.
  induction n as [|n IH]; intros s; cbn; constructor; [apply IH|].
  apply Forall_forall. intros x Hx. apply in_seq in Hx. lia.
Qed.

(* sorting (key, payload) pairs whose payload is a function of the key *)
Lemma isort_tagged {A} (h : nat -> A) (p : list nat) n :
  Permutation p (seq 0 n) ->
  isort_by (map (fun i => (i, h i)) p) = map (fun i => (i, h i)) (seq 0 n).
Proof.
  intros HP. set (S := isort_by (map (fun i => (i, h i)) p)).
  assert (HSP : Permutation S (map (fun i => (i, h i)) p)) by apply isort_perm.
  assert (Hkeys : map fst S = seq 0 n).
  { apply sorted_perm_eq; [apply isort_sorted|apply seq_sorted|].
    eapply perm_trans; [apply Permutation_map, HSP|].
    rewrite map_map. cbn. rewrite map_id. exact HP. }
  assert (Hform : forall e, In e S -> e = (fst e, h (fst e))).
  { intros e He. apply (Permutation_in e HSP) in He. apply in_map_iff in He as (i & <- & _). reflexivity. }
  rewrite <- Hkeys. rewrite map_map. clear -Hform.
  induction S as [|e S IH]; cbn; [reflexivity|].
  rewrite <- IH by (intros e' He'; apply Hform; right; exact He').
  rewrite <- (Hform e (or_introl eq_refl)). reflexivity.
Qed.

(* results computed in the shuffled order and put back land where the un-shuffled run puts them *)
Theorem unshuffle_shuffled {A B} (g : A -> B) (l : list A) (p : list nat) (d : A) :
  Permutation p (seq 0 (length l)) ->
  unshuffle p (map g (shuffled l p d)) = map g l.
Proof.
  intros HP. unfold unshuffle, shuffled. rewrite map_map.
  assert (Hc : combine p (map (fun i => g (nth i l d)) p) = map (fun i => (i, g (nth i l d))) p).
  { clear HP. induction p as [|i p IH]; cbn; [reflexivity|]. rewrite IH. reflexivity. }
  rewrite Hc, (isort_tagged (fun i => g (nth i l d)) p (length l) HP), map_map. cbn.
  clear HP Hc. (* map over seq = map over l *)
  rewrite <- (map_map (fun i => nth i l d) g). f_equal.
  apply nth_ext with (d := d) (d' := d).
  - rewrite map_length, seq_length. reflexivity.
  - intros k Hk. rewrite map_length, seq_length in Hk.
    rewrite (nth_indep _ d (nth 0 l d)) by (rewrite map_length, seq_length; exact Hk).
    rewrite (map_nth (fun i => nth i l d) (seq 0 (length l)) 0%nat k), seq_nth by exact Hk. reflexivity.
Qed.

Lemma shuffled_perm {A} (l : list A) (p : list nat) (d : A) :
  Permutation p (seq 0 (length l)) -> Permutation (shuffled l p d) l.
Proof.
  intros HP. unfold shuffled.
  eapply perm_trans; [apply Permutation_map, HP|].
  assert (map (fun i => nth i l d) (seq 0 (length l)) = l) as ->; [|apply Permutation_refl].
  apply nth_ext with (d := d) (d' := d).
  - rewrite map_length, seq_length. reflexivity.
  - intros k Hk. rewrite map_length, seq_length in Hk.
    rewrite (nth_indep _ d (nth 0 l d)) by (rewrite map_length, seq_length; exact Hk).
    rewrite (map_nth (fun i => nth i l d) (seq 0 (length l)) 0%nat k), seq_nth by exact Hk. reflexivity.
Qed.

(* the boolean test used on the permutations read from CPython *)
Lemma is_perm_sound p n : is_perm p n = true -> Permutation p (seq 0 n).
Proof.
  unfold is_perm. rewrite andb_true_iff, Nat.eqb_eq, forallb_forall. intros [Hlen Hall].
  apply Permutation_sym, NoDup_Permutation_bis.
  - apply seq_NoDup.
  - rewrite seq_length. lia.
  - intros x Hx. specialize (Hall x Hx). apply existsb_exists in Hall as (y & Hy & E).
    apply Nat.eqb_eq in E. subst. exact Hy.
Qed.
