(* Lemmas about Model/Infini.v: the plotting loop (which combinations are drawn, once, where, with
   which data and style), default style values, heat-map mesh, histogram bins. For all sizes. *)
From XV Require Import Prelude Grid Infini.
From Coq Require Import QArith Qfield Permutation Sorting.Sorted.
Open Scope Z_scope.

(* ------------------------------------------------------------------ lists *)
Lemma map_nth_seq {A} (l : list A) (d : A) : map (fun i => nth i l d) (seq 0 (length l)) = l.
Proof.
  induction l as [|a l IH]; [reflexivity|].
  cbn [length seq map nth]. f_equal. rewrite <- seq_shift, map_map. exact IH.
Qed.

Lemma filter_map_comm {A B} (f : A -> B) (P : B -> bool) (l : list A) :
  filter P (map f l) = map f (filter (fun a => P (f a)) l).
Proof. induction l as [|a l IH]; [reflexivity|]. cbn. destruct (P (f a)); cbn; rewrite IH; reflexivity. Qed.

Lemma flat_map_if_filter {A B} (P : A -> bool) (f : A -> B) (l : list A) :
  flat_map (fun a => if P a then [f a] else []) l = map f (filter P l).
Proof. induction l as [|a l IH]; [reflexivity|]. cbn. destruct (P a); cbn; rewrite IH; reflexivity. Qed.

Lemma NoDup_map_inj {A B} (f : A -> B) (l : list A) :
  (forall x y, In x l -> In y l -> f x = f y -> x = y) -> NoDup l -> NoDup (map f l).
Proof.
  induction l as [|a l IH]; intros Hinj Hnd; [constructor|].
  inversion Hnd as [|? ? Hna Hnd']; subst. cbn. constructor.
  - intros Hin. apply in_map_iff in Hin. destruct Hin as (x & Hx & Hxin).
    assert (x = a) by (apply Hinj; [right; exact Hxin|left; reflexivity|exact Hx]). subst. contradiction.
  - apply IH; [|exact Hnd']. intros x y Hx Hy. apply Hinj; right; assumption.
Qed.

Lemma NoDup_filter {A} (P : A -> bool) (l : list A) : NoDup l -> NoDup (filter P l).
Proof.
  induction 1 as [|a l Hna Hnd IH]; [constructor|]. cbn. destruct (P a); [|exact IH].
  constructor; [|exact IH]. intros Hin. apply filter_In in Hin. tauto.
Qed.

Lemma NoDup_app_intro {A} (l1 l2 : list A) :
  NoDup l1 -> NoDup l2 -> (forall x, In x l1 -> In x l2 -> False) -> NoDup (l1 ++ l2).
Proof.
  induction 1 as [|a l1 Hna Hnd IH]; intros H2 Hdis; [exact H2|]. cbn. constructor.
  - intros Hin. apply in_app_or in Hin. destruct Hin as [Hin|Hin]; [contradiction|].
    apply (Hdis a); [left; reflexivity|exact Hin].
  - apply IH; [exact H2|]. intros x Hx. apply Hdis. right. exact Hx.
Qed.

(* ------------------------------------------------------------------ itertools.product *)
Lemma in_product {A} (ls : list (list A)) : forall v, In v (product ls) <-> Forall2 (fun x l => In x l) v ls.
Proof.
  induction ls as [|l ls IH]; intros v; cbn.
  - split; [intros [<-|[]]; constructor|intros H; inversion H; left; reflexivity].
  - rewrite in_flat_map. split.
    + intros (x & Hx & Hin). apply in_map_iff in Hin. destruct Hin as (r & <- & Hr).
      constructor; [exact Hx|apply IH, Hr].
    + intros H. inversion H as [|x l' r ls' Hx Hr]; subst. exists x. split; [exact Hx|].
      apply in_map. apply IH, Hr.
Qed.

Lemma NoDup_product {A} (ls : list (list A)) : Forall (@NoDup A) ls -> NoDup (product ls).
Proof.
  induction 1 as [|l ls Hl Hls IH]; cbn; [constructor; [intros []|constructor]|].
  induction Hl as [|x l Hnx Hl IHl]; cbn; [constructor|].
  apply NoDup_app_intro.
  - apply NoDup_map_inj; [|exact IH]. intros a b _ _ E. inversion E. reflexivity.
  - exact IHl.
  - intros v Hv Hv'. apply in_map_iff in Hv. destruct Hv as (r & <- & _).
    apply in_flat_map in Hv'. destruct Hv' as (y & Hy & Hin). apply in_map_iff in Hin.
    destruct Hin as (r' & E & _). inversion E; subst. contradiction.
Qed.

(* ------------------------------------------------------------------ the plotting loop *)
Section Loop.
  Variable pt : Type.
  Variable mask : pt -> bool.
  Variable doms : list (list label).
  Variable slice : list label -> list pt.
  Variable jam : bool.
  Variable rowpos colpos : option nat.
  Variable styled : list (nat * nat).
  Variable pal : bool.

  Notation ranges := (ranges doms).
  Notation labels_at := (labels_at doms).
  Notation has_data := (has_data pt mask doms slice).
  Notation line_of := (line_of pt mask doms slice jam rowpos colpos styled pal).
  Notation plot_lines := (plot_lines pt mask doms slice jam rowpos colpos styled pal).
  Notation plot_all := (plot_all pt mask doms slice jam rowpos colpos styled pal).

  Lemma plot_lines_eq : plot_lines = map line_of (filter has_data (product ranges)).
  Proof. unfold Infini.plot_lines. apply flat_map_if_filter. Qed.

  Lemma plot_lines_iloc : map (@l_iloc pt) plot_lines = filter has_data (product ranges).
  Proof. rewrite plot_lines_eq, map_map. cbn. apply map_id. Qed.

  Lemma in_plot_lines l :
    In l plot_lines <-> exists iloc, In iloc (product ranges) /\ has_data iloc = true /\ l = line_of iloc.
  Proof.
    rewrite plot_lines_eq, in_map_iff. split.
    - intros (iloc & <- & Hin). apply filter_In in Hin. exists iloc. tauto.
    - intros (iloc & Hin & Hd & ->). exists iloc. split; [reflexivity|]. apply filter_In. tauto.
  Qed.

  Lemma line_of_iloc iloc : l_iloc (line_of iloc) = iloc.
  Proof. reflexivity. Qed.

  Lemma in_plot_lines_self l : In l plot_lines -> l = line_of (l_iloc l).
  Proof. intros H. apply in_plot_lines in H. destruct H as (iloc & _ & _ & ->). reflexivity. Qed.

  (* index vectors <-> coordinate combinations *)
  Lemma in_ranges iloc :
    In iloc (product ranges) <-> Forall2 (fun i (d : list label) => (i < length d)%nat) iloc doms.
  Proof.
    rewrite in_product. unfold Infini.ranges. generalize doms as ds. clear.
    induction iloc as [|i iloc IH]; intros [|d ds]; cbn; split; intros H; inversion H; subst; constructor.
    - apply in_seq in H3. lia.
    - apply IH. assumption.
    - apply in_seq. lia.
    - apply IH. assumption.
  Qed.
End Loop.

Lemma map_labels_at_product (doms : list (list label)) :
  map (labels_at doms) (product (ranges doms)) = product doms.
Proof.
  induction doms as [|d ds IH]; [reflexivity|].
  unfold ranges. cbn [map product]. fold (ranges ds).
  assert (H : forall idx,
    map (labels_at (d :: ds)) (flat_map (fun i => map (cons i) (product (ranges ds))) idx)
    = flat_map (fun x => map (cons x) (product ds)) (map (fun i => nth i d []) idx)).
  { induction idx as [|i idx IHi]; [reflexivity|]. cbn [flat_map map]. rewrite map_app, IHi. f_equal.
    rewrite map_map, <- IH, map_map. apply map_ext. intros iloc. reflexivity. }
  rewrite H, map_nth_seq. reflexivity.
Qed.

Lemma labels_at_inj (doms : list (list label)) :
  Forall (@NoDup label) doms ->
  forall i1 i2, In i1 (product (ranges doms)) -> In i2 (product (ranges doms)) ->
                labels_at doms i1 = labels_at doms i2 -> i1 = i2.
Proof.
  intros Hnd i1 i2 H1 H2. apply in_ranges in H1. apply in_ranges in H2.
  revert i2 H2. induction H1 as [|i d i1 ds Hi H1 IH]; intros i2 H2 E; inversion H2; subst; [reflexivity|].
  unfold labels_at in E. cbn in E. inversion E as [[E1 E2]].
  inversion Hnd; subst. f_equal.
  - eapply (proj1 (NoDup_nth d [])); eassumption.
  - apply IH; assumption.
Qed.

Lemma nth_labels_at (doms : list (list label)) iloc q :
  length iloc = length doms -> (q < length doms)%nat ->
  nth q (labels_at doms iloc) [] = nth (nth q iloc 0%nat) (nth q doms []) [].
Proof.
  unfold labels_at. revert iloc q. induction doms as [|d ds IH]; intros [|i iloc] q Hl Hq; cbn in *; try lia.
  destruct q; [reflexivity|]. apply IH; lia.
Qed.

Lemma in_ranges_length (doms : list (list label)) iloc : In iloc (product (ranges doms)) -> length iloc = length doms.
Proof. intros H. apply in_ranges in H. induction H; cbn; congruence. Qed.

Lemma in_ranges_bound (doms : list (list label)) iloc q :
  In iloc (product (ranges doms)) -> (q < length doms)%nat ->
  (nth q iloc 0 < length (nth q doms []))%nat.
Proof.
  intros H. apply in_ranges in H. revert q. induction H as [|i d iloc ds Hi H IH]; intros q Hq; cbn in *; [lia|].
  destruct q; [exact Hi|]. apply IH. lia.
Qed.

Section LoopTheorems.
  Variable pt : Type.
  Variable mask : pt -> bool.
  Variable doms : list (list label).
  Variable slice : list label -> list pt.
  Variable jam : bool.
  Variable rowpos colpos : option nat.
  Variable styled : list (nat * nat).
  Variable pal : bool.
  Notation lines := (plot_lines pt mask doms slice jam rowpos colpos styled pal).
  Notation coords l := (labels_at doms (l_iloc l)).

  (* the drawn coordinate combinations are, in order, exactly those of the domains that have data *)
  Theorem lines_coords :
    map (fun l => coords l) lines = filter (fun ls => existsb mask (slice ls)) (product doms).
  Proof.
    rewrite <- map_labels_at_product, filter_map_comm.
    rewrite <- (map_map (@l_iloc pt) (labels_at doms)), plot_lines_iloc. reflexivity.
  Qed.

  Theorem lines_coords_NoDup : Forall (@NoDup label) doms -> NoDup (map (fun l => coords l) lines).
  Proof. intros H. rewrite lines_coords. apply NoDup_filter, NoDup_product, H. Qed.

  Theorem lines_NoDup : NoDup (map (@l_iloc pt) lines).
  Proof.
    rewrite plot_lines_iloc. apply NoDup_filter, NoDup_product.
    unfold ranges. apply Forall_forall. intros r Hr. apply in_map_iff in Hr. destruct Hr as (d & <- & _).
    apply seq_NoDup.
  Qed.

  Theorem line_panel l :
    In l lines -> l_panel l = (pos_idx rowpos (l_iloc l), pos_idx colpos (l_iloc l)).
  Proof. intros H. rewrite (in_plot_lines_self _ _ _ _ _ _ _ _ _ _ H) at 1. reflexivity. Qed.

  (* the coordinate of the drawn slice on axis q is the (iloc q)-th entry of that axis' domain *)
  Theorem line_coord_at l q :
    In l lines -> (q < length doms)%nat ->
    nth q (coords l) [] = nth (nth q (l_iloc l) 0%nat) (nth q doms []) []
    /\ (nth q (l_iloc l) 0 < length (nth q doms []))%nat.
  Proof.
    intros H Hq. apply in_plot_lines in H. destruct H as (iloc & Hin & _ & ->). cbn [l_iloc line_of].
    split; [apply nth_labels_at; [apply in_ranges_length, Hin|exact Hq]|apply in_ranges_bound; assumption].
  Qed.

  Theorem line_data l :
    In l lines ->
    l_pts l = (if jam then filter mask (slice (coords l)) else slice (coords l))
    /\ existsb mask (slice (coords l)) = true.
  Proof.
    intros H. apply in_plot_lines in H. destruct H as (iloc & _ & Hd & ->). split; [reflexivity|exact Hd].
  Qed.

  Theorem line_style l :
    In l lines ->
    l_style l = map (fun pq => (fst pq, style_val pal (fst pq) (length (nth (snd pq) doms []))
                                                    (nth (snd pq) (l_iloc l) 0%nat))) styled.
  Proof. intros H. rewrite (in_plot_lines_self _ _ _ _ _ _ _ _ _ _ H) at 1. reflexivity. Qed.

  (* equal mapped coordinate -> equal index -> equal style *)
  Theorem same_coord_same_index l1 l2 q :
    In l1 lines -> In l2 lines -> (q < length doms)%nat -> NoDup (nth q doms []) ->
    nth q (coords l1) [] = nth q (coords l2) [] -> nth q (l_iloc l1) 0%nat = nth q (l_iloc l2) 0%nat.
  Proof.
    intros H1 H2 Hq Hnd E.
    destruct (line_coord_at l1 q H1 Hq) as (E1 & B1). destruct (line_coord_at l2 q H2 Hq) as (E2 & B2).
    rewrite E1, E2 in E. eapply (proj1 (NoDup_nth _ [])); eassumption.
  Qed.
End LoopTheorems.

(* plot_heatmap draws every combination exactly once *)
Lemma plot_all_iloc pt mask doms slice jam rowpos colpos styled pal :
  map (@l_iloc pt) (plot_all pt mask doms slice jam rowpos colpos styled pal) = product (ranges doms).
Proof. unfold plot_all. rewrite map_map. cbn. apply map_id. Qed.

Lemma plot_all_coords pt mask doms slice jam rowpos colpos styled pal :
  map (fun l => labels_at doms (l_iloc l)) (plot_all pt mask doms slice jam rowpos colpos styled pal) = product doms.
Proof. rewrite <- (map_map (@l_iloc pt) (labels_at doms)), plot_all_iloc. apply map_labels_at_product. Qed.

Lemma in_plot_all pt mask doms slice jam rowpos colpos styled pal l :
  In l (plot_all pt mask doms slice jam rowpos colpos styled pal) ->
  l = line_of pt mask doms slice jam rowpos colpos styled pal (l_iloc l).
Proof. unfold plot_all. intros H. apply in_map_iff in H. destruct H as (i & <- & _). reflexivity. Qed.

(* ------------------------------------------------------------------ heat-map mesh *)
Lemma heat_mesh_shape {C} (z : label -> label -> C) xdom ydom :
  length (heat_mesh z xdom ydom) = length ydom /\
  Forall (fun row => length row = length xdom) (heat_mesh z xdom ydom).
Proof.
  unfold heat_mesh. split; [apply map_length|]. apply Forall_forall. intros row H.
  apply in_map_iff in H. destruct H as (yl & <- & _). apply map_length.
Qed.

Lemma heat_mesh_cell {C} (z : label -> label -> C) xdom ydom a b (dc : C) :
  (a < length ydom)%nat -> (b < length xdom)%nat ->
  nth b (nth a (heat_mesh z xdom ydom) []) dc = z (nth b xdom []) (nth a ydom []).
Proof.
  intros Ha Hb. unfold heat_mesh.
  rewrite (nth_indep _ [] (map (fun xl => z xl []) xdom)) by (rewrite map_length; exact Ha).
  rewrite (map_nth (fun yl => map (fun xl => z xl yl) xdom) ydom [] a).
  rewrite (nth_indep _ dc (z [] (nth a ydom []))) by (rewrite map_length; exact Hb).
  apply (map_nth (fun xl => z xl (nth a ydom [])) xdom [] b).
Qed.

(* ------------------------------------------------------------------ default styles *)
Definition sval_eq (a b : sval) : Prop :=
  match a, b with
  | SIdx i, SIdx j => i = j
  | SFrac p, SFrac q => (p == q)%Q
  | _, _ => False
  end.

Lemma inject_Z_lt a b : a < b -> (inject_Z a < inject_Z b)%Q.
Proof. intros H. rewrite <- Zlt_Qlt. exact H. Qed.

Lemma linspace_lt lo hi N k1 k2 :
  lo < hi -> (2 <= N)%nat -> (k1 < k2)%nat -> (linspace lo hi N k1 < linspace lo hi N k2)%Q.
Proof.
  intros Hlh HN Hk. unfold linspace. destruct (Nat.leb_spec N 1); [lia|].
  assert (Hs : (0 < inject_Z (hi - lo) / inject_Z (Z.of_nat N - 1))%Q).
  { apply Qlt_shift_div_l; [change 0%Q with (inject_Z 0); apply inject_Z_lt; lia|].
    rewrite Qmult_0_l. change 0%Q with (inject_Z 0). apply inject_Z_lt. lia. }
  apply Qplus_lt_r. apply Qmult_lt_compat_r; [exact Hs|]. apply inject_Z_lt. lia.
Qed.

Lemma linspace_neq lo hi N k1 k2 :
  lo < hi -> (2 <= N)%nat -> k1 <> k2 -> ~ (linspace lo hi N k1 == linspace lo hi N k2)%Q.
Proof.
  intros Hlh HN Hk E. destruct (Nat.lt_total k1 k2) as [H|[H|H]]; [|contradiction|].
  - apply (linspace_lt lo hi N) in H; try assumption. rewrite E in H. exact (Qlt_irrefl _ H).
  - apply (linspace_lt lo hi N) in H; try assumption. rewrite E in H. exact (Qlt_irrefl _ H).
Qed.

Lemma linspace_ends lo hi N : (2 <= N)%nat ->
  (linspace lo hi N 0 == inject_Z lo)%Q /\ (linspace lo hi N (N - 1) == inject_Z hi)%Q.
Proof.
  intros HN. unfold linspace. destruct (Nat.leb_spec N 1); [lia|]. split.
  - cbn [Z.of_nat]. setoid_replace (inject_Z 0) with 0%Q by reflexivity. ring.
  - assert (E : Z.of_nat (N - 1) = Z.of_nat N - 1) by lia. rewrite E.
    assert (Hd : ~ (inject_Z (Z.of_nat N - 1) == 0)%Q).
    { intros E0. unfold Qeq in E0. cbn in E0. lia. }
    assert (Hs : (inject_Z (hi - lo) == inject_Z hi - inject_Z lo)%Q).
    { unfold Z.sub. rewrite inject_Z_plus, inject_Z_opp. reflexivity. }
    rewrite Hs. field. exact Hd.
Qed.

Lemma hue_param_lt N k1 k2 : (0 < N)%nat -> (k1 < k2)%nat -> (hue_param N k1 < hue_param N k2)%Q.
Proof.
  intros HN Hk. unfold hue_param. apply Qmult_lt_compat_r; [|apply inject_Z_lt; lia].
  apply Qinv_lt_0_compat. change 0%Q with (inject_Z 0). apply inject_Z_lt. lia.
Qed.

(* number of distinct default values of a property with N coordinates *)
Definition n_distinct (p N : nat) : nat :=
  if (p =? P_marker)%nat then n_markers else if (p =? P_linestyle)%nat then n_linestyles else N.

Lemma style_val_functional pal p N k1 k2 : k1 = k2 -> style_val pal p N k1 = style_val pal p N k2.
Proof. intros ->. reflexivity. Qed.

Lemma style_val_injective pal p N k1 k2 :
  (2 <= N)%nat -> k1 <> k2 -> (k1 < n_distinct p N)%nat -> (k2 < n_distinct p N)%nat ->
  ~ sval_eq (style_val pal p N k1) (style_val pal p N k2).
Proof.
  intros HN Hk H1 H2. unfold style_val, n_distinct in *.
  destruct (p =? P_marker)%nat.
  { change (k1 mod n_markers <> k2 mod n_markers)%nat. rewrite !Nat.mod_small by assumption. exact Hk. }
  destruct (p =? P_linestyle)%nat.
  { change (k1 mod n_linestyles <> k2 mod n_linestyles)%nat. rewrite !Nat.mod_small by assumption. exact Hk. }
  destruct (p =? P_markersize)%nat.
  { unfold sval_eq. apply linspace_neq; [reflexivity|exact HN|exact Hk]. }
  destruct (p =? P_linewidth)%nat.
  { unfold sval_eq. apply linspace_neq; [reflexivity|exact HN|exact Hk]. }
  destruct (p =? P_color)%nat; [destruct pal|]; unfold sval_eq.
  - apply linspace_neq; [reflexivity|exact HN|exact Hk].
  - exact Hk.
  - exact Hk.
Qed.

(* ------------------------------------------------------------------ histogram *)
Definition strictly_increasing (edges : list Z) : Prop := StronglySorted Z.lt edges.

Lemma bins_of_cons a b r : bins_of (a :: b :: r) = (a, b, match r with [] => true | _ => false end) :: bins_of (b :: r).
Proof. reflexivity. Qed.

Definition n_bins_with (edges : list Z) (v : Z) : nat := length (filter (fun b => bin_has b v) (bins_of edges)).

Lemma bins_below a r v : strictly_increasing (a :: r) -> v < a -> n_bins_with (a :: r) v = 0%nat.
Proof.
  revert a. induction r as [|b r IH]; intros a Hs Hv; [reflexivity|].
  unfold n_bins_with in *. rewrite bins_of_cons. cbn [filter].
  inversion Hs as [|? ? Hs' Hall]; subst. inversion Hall as [|? ? Hab _]; subst.
  unfold bin_has at 1, in_bin. cbn [fst snd].
  destruct (Z.leb_spec a v); [lia|]. cbn. apply IH; [exact Hs'|lia].
Qed.

Lemma last_ge b r d : strictly_increasing (b :: r) -> b <= last (b :: r) d.
Proof.
  revert b. induction r as [|c r IH]; intros b Hs; [cbn; lia|].
  inversion Hs as [|? ? Hs' Hall]; subst. inversion Hall; subst.
  change (last (b :: c :: r) d) with (last (c :: r) d). specialize (IH c Hs'). lia.
Qed.

(* every value of [e_0, e_n] lies in exactly one bin, every other value in none *)
Lemma bins_partition a b r v :
  strictly_increasing (a :: b :: r) ->
  n_bins_with (a :: b :: r) v = if (a <=? v) && (v <=? last (b :: r) 0) then 1%nat else 0%nat.
Proof.
  revert a b. induction r as [|c r IH]; intros a b Hs.
  - unfold n_bins_with. cbn. unfold bin_has, in_bin. cbn.
    destruct ((a <=? v) && (v <=? b)); reflexivity.
  - inversion Hs as [|? ? Hs' Hall]; subst. inversion Hall as [|? ? Hab Hall']; subst.
    pose proof (last_ge b (c :: r) 0 Hs') as Hbl.
    change (last (b :: c :: r) 0) with (last (c :: r) 0) in *.
    unfold n_bins_with. rewrite bins_of_cons. cbn [filter].
    assert (Hrest : length (filter (fun b0 => bin_has b0 v) (bins_of (b :: c :: r))) = n_bins_with (b :: c :: r) v)
      by reflexivity.
    unfold bin_has at 1, in_bin. cbn [fst snd].
    destruct (Z.leb_spec a v) as [Hav|Hav]; cbn [andb].
    + destruct (Z.ltb_spec v b) as [Hvb|Hvb]; cbn [length]; rewrite Hrest.
      * rewrite bins_below by (assumption || lia).
        destruct (Z.leb_spec v (last (c :: r) 0)); [reflexivity|lia].
      * rewrite (IH b c Hs'). destruct (Z.leb_spec b v); [|lia]. reflexivity.
    + rewrite Hrest, bins_below by (assumption || lia). reflexivity.
Qed.

Definition in_range (edges : list Z) (v : Z) : bool := (hd 0 edges <=? v) && (v <=? last edges 0).

Lemma total_counts_cons (bins : list (Z * Z * bool)) v vals :
  total (map (fun b => count_in b (v :: vals)) bins)
  = (length (filter (fun b => bin_has b v) bins) + total (map (fun b => count_in b vals) bins))%nat.
Proof.
  induction bins as [|b bins IH]; [reflexivity|].
  cbn [map total fold_right filter]. fold (total (map (fun b0 => count_in b0 (v :: vals)) bins)).
  fold (total (map (fun b0 => count_in b0 vals) bins)). rewrite IH.
  unfold count_in at 1. cbn [filter]. destruct (bin_has b v); cbn [length]; unfold count_in; lia.
Qed.

(* the counts add up to the number of values inside [e_0, e_n]: no value lost, none counted twice *)
Lemma hist_total a b r vals :
  strictly_increasing (a :: b :: r) ->
  total (hist_counts (a :: b :: r) vals) = length (filter (in_range (a :: b :: r)) vals).
Proof.
  intros Hs. unfold hist_counts. induction vals as [|v vals IH].
  - cbn [filter length]. induction (bins_of (a :: b :: r)) as [|x l IHl]; [reflexivity|]. cbn. exact IHl.
  - rewrite total_counts_cons, IH. fold (n_bins_with (a :: b :: r) v). rewrite (bins_partition a b r v Hs).
    cbn [filter]. unfold in_range at 2. cbn [hd].
    change (last (a :: b :: r) 0) with (last (b :: r) 0).
    destruct ((a <=? v) && (v <=? last (b :: r) 0)); reflexivity.
Qed.

Fixpoint qsum (l : list Q) : Q := match l with [] => 0%Q | x :: r => (x + qsum r)%Q end.

Lemma combine_map_combine {A B C} (l1 : list A) (l2 : list B) (f : A * B -> C) :
  combine l1 (map f (combine l1 l2)) = map (fun p => (fst p, f p)) (combine l1 l2).
Proof.
  revert l2. induction l1 as [|a l1 IH]; intros [|b l2]; cbn; try reflexivity. f_equal. apply IH.
Qed.

Lemma bins_width_pos edges : strictly_increasing edges -> Forall (fun b => 0 < width b) (bins_of edges).
Proof.
  induction edges as [|a [|b r] IH]; intros Hs; try constructor.
  - inversion Hs as [|? ? Hs' Hall]; subst. inversion Hall; subst. unfold width. cbn. lia.
  - apply IH. inversion Hs; assumption.
Qed.

(* integral of the drawn density over the TRUE bin widths *)
Definition density_integral (scale : Z) (edges vals : list Z) : Q :=
  qsum (map (fun bd => (snd bd * (inject_Z (width (fst bd)) / inject_Z scale))%Q)
            (combine (bins_of edges) (hist_density scale edges vals))).

Lemma qsum_terms (scale : Z) (T : Q) (l : list (Z * Z * bool * nat)) :
  0 < scale -> ~ (T == 0)%Q -> Forall (fun bc => 0 < width (fst bc)) l ->
  (qsum (map (fun bc => (inject_Z (Z.of_nat (snd bc)) * inject_Z scale / (T * inject_Z (width (fst bc))))
                        * (inject_Z (width (fst bc)) / inject_Z scale)) l)
   == inject_Z (Z.of_nat (total (map snd l))) / T)%Q.
Proof.
  intros Hsc HT. induction 1 as [|bc l Hw Hall IH].
  - cbn. field. exact HT.
  - cbn [map qsum total fold_right]. fold (total (map snd l)). rewrite IH.
    rewrite Nat2Z.inj_add, inject_Z_plus. field. repeat split.
    + exact HT.
    + intros E. unfold Qeq in E. cbn in E. lia.
    + intros E. unfold Qeq in E. cbn in E. lia.
Qed.

Lemma density_integrates_to_one scale edges vals :
  strictly_increasing edges -> 0 < scale -> (0 < total (hist_counts edges vals))%nat ->
  (density_integral scale edges vals == 1)%Q.
Proof.
  intros Hs Hsc HT. unfold density_integral, hist_density. rewrite combine_map_combine, map_map. cbn [fst snd].
  set (cs := hist_counts edges vals) in *.
  rewrite (qsum_terms scale (inject_Z (Z.of_nat (total cs))) (combine (bins_of edges) cs) Hsc).
  - assert (E : map snd (combine (bins_of edges) cs) = cs).
    { subst cs. unfold hist_counts. induction (bins_of edges) as [|x l IHl]; [reflexivity|]. cbn. f_equal. exact IHl. }
    rewrite E. field. intros E0. unfold Qeq in E0. cbn in E0. lia.
  - intros E0. unfold Qeq in E0. cbn in E0. lia.
  - pose proof (bins_width_pos edges Hs) as Hw. apply Forall_forall. intros bc Hin.
    rewrite Forall_forall in Hw. apply Hw. destruct bc as [bb c]. apply in_combine_l in Hin. exact Hin.
Qed.

(* ------------------------------------------------------------------ init_mapped_dim: invariants *)
Definition proj (v : list Z) (a : axis) : label := map (fun d => nth d v 0) (a_dims a).
Definition covered (axs : list axis) (v : list Z) : Prop := Forall (fun a => In (proj v a) (a_dom a)) axs.
Definition covers_dims (n : nat) (axs : list axis) : Prop :=
  forall d, (d < n)%nat -> exists a, In a axs /\ In d (a_dims a).
(* dimension d is (still) an axis of its own *)
Definition single (axs : list axis) (d : nat) : Prop :=
  exists dom, In (mk_axis [d] dom) axs /\ forall a, In a axs -> In d (a_dims a) -> a = mk_axis [d] dom.
Definition fresh (axs : list axis) (m : mprop) : Prop := forall d, In d (mp_dims m) -> single axs d.
Definition disjoint_dims (m1 m2 : mprop) : Prop := forall d, In d (mp_dims m1) -> ~ In d (mp_dims m2).
Definition label_len (axs : list axis) : Prop :=
  Forall (fun a => Forall (fun l : label => length l = length (a_dims a)) (a_dom a)) axs.
Definition doms_nodup (axs : list axis) : Prop := Forall (fun a => NoDup (a_dom a)) axs.
(* a well-formed explicit order: distinct labels of the right arity *)
Definition order_ok (m : mprop) : Prop :=
  match mp_order m with
  | Some o => NoDup o /\ Forall (fun l : label => length l = length (mp_dims m)) o
  | None => True
  end.

Lemma nmem_In d l : nmem d l = true <-> In d l.
Proof.
  unfold nmem. rewrite existsb_exists. split.
  - intros (x & Hx & E). apply Nat.eqb_eq in E. subst. exact Hx.
  - intros H. exists d. split; [exact H|apply Nat.eqb_refl].
Qed.

Lemma touches_spec ds a : touches ds a = true <-> exists d, In d (a_dims a) /\ In d ds.
Proof.
  unfold touches. rewrite existsb_exists. split; intros (d & H1 & H2); exists d; split; try assumption;
    apply nmem_In; assumption.
Qed.

Lemma alook_map (g : nat -> Z) d L : In d L -> alook d (map (fun d' => (d', g d')) L) = g d.
Proof.
  induction L as [|x L IH]; intros H; [destruct H|]. cbn. destruct (Nat.eqb_spec x d) as [->|Hne]; [reflexivity|].
  destruct H as [H|H]; [contradiction|]. apply IH, H.
Qed.

Lemma assoc_proj v axs :
  assoc axs (map (proj v) axs) = map (fun d => (d, nth d v 0)) (flat_map a_dims axs).
Proof.
  unfold assoc. induction axs as [|a axs IH]; [reflexivity|]. cbn [map combine flat_map fst snd].
  rewrite map_app, IH. f_equal. unfold proj. generalize (a_dims a). intros l. induction l as [|d l IHl]; [reflexivity|].
  cbn. f_equal. exact IHl.
Qed.

Lemma map_nth_seq0 (v : list Z) : map (fun d => nth d v 0) (seq 0 (length v)) = v.
Proof. apply map_nth_seq. Qed.

Lemma full_index_proj n axs v :
  covers_dims n axs -> length v = n -> full_index n axs (map (proj v) axs) = v.
Proof.
  intros Hc Hl. unfold full_index. rewrite assoc_proj.
  transitivity (map (fun d => nth d v 0) (seq 0 n)); [|subst n; apply map_nth_seq0].
  apply map_ext_in. intros d Hd. apply in_seq in Hd. destruct (Hc d) as (a & Ha & Hda); [lia|].
  apply (alook_map (fun d' => nth d' v 0)). apply in_flat_map. exists a. split; assumption.
Qed.

Lemma axis_of_single axs d dom :
  In (mk_axis [d] dom) axs -> (forall a, In a axs -> In d (a_dims a) -> a = mk_axis [d] dom) ->
  axis_of axs d = mk_axis [d] dom.
Proof.
  intros Hin Huniq. unfold axis_of. destruct (find _ axs) as [a|] eqn:E.
  - apply find_some in E. destruct E as (Ha & Hm). apply nmem_In in Hm. apply Huniq; assumption.
  - exfalso. apply (find_none _ _ E) in Hin. cbn in Hin. rewrite Nat.eqb_refl in Hin. discriminate.
Qed.

Lemma concat_singletons (ds : list nat) (g : nat -> Z) : concat (map (fun d => [g d]) ds) = map g ds.
Proof. induction ds as [|d ds IH]; [reflexivity|]. cbn. f_equal. exact IH. Qed.

Lemma concat_inj_len1 (xs ys : list label) :
  Forall (fun l => length l = 1%nat) xs -> Forall (fun l => length l = 1%nat) ys ->
  concat xs = concat ys -> xs = ys.
Proof.
  intros Hx. revert ys. induction Hx as [|x xs Hlx Hx IH]; intros ys Hy E.
  - destruct Hy as [|y ys Hly Hy]; [reflexivity|]. destruct y; cbn in *; [discriminate|discriminate].
  - destruct Hy as [|y ys Hly Hy].
    + destruct x; cbn in *; discriminate.
    + destruct x as [|x0 [|? ?]]; cbn in Hlx; try discriminate.
      destruct y as [|y0 [|? ?]]; cbn in Hly; try discriminate.
      cbn in E. inversion E; subst. f_equal. apply IH; assumption.
Qed.

Definition axes_disjoint (axs : list axis) : Prop := NoDup (flat_map a_dims axs).

Lemma NoDup_app_parts {A} (l1 l2 : list A) :
  NoDup (l1 ++ l2) -> NoDup l1 /\ NoDup l2 /\ (forall x, In x l1 -> In x l2 -> False).
Proof.
  induction l1 as [|a l1 IH]; cbn; intros H; [repeat split; [constructor|exact H|intros x []]|].
  inversion H as [|? ? Hna Hnd]; subst. destruct (IH Hnd) as (I1 & I2 & I3). repeat split.
  - constructor; [|exact I1]. intros Hin. apply Hna. apply in_or_app. left. exact Hin.
  - exact I2.
  - intros x [<-|Hx] Hx2; [apply Hna; apply in_or_app; right; exact Hx2|exact (I3 x Hx Hx2)].
Qed.

Lemma NoDup_flat_map_filter {A B} (f : A -> list B) (P : A -> bool) (l : list A) :
  NoDup (flat_map f l) -> NoDup (flat_map f (filter P l)).
Proof.
  induction l as [|a l IH]; cbn; intros H; [constructor|].
  destruct (NoDup_app_parts _ _ H) as (H1 & H2 & H3). destruct (P a); cbn; [|apply IH, H2].
  apply NoDup_app_intro; [exact H1|apply IH, H2|]. intros x Hx Hx2. apply (H3 x Hx).
  apply in_flat_map in Hx2. destruct Hx2 as (b & Hb & Hxb). apply filter_In in Hb. apply in_flat_map. exists b. tauto.
Qed.

Lemma disjoint_unique axs a b x :
  axes_disjoint axs -> In a axs -> In b axs -> In x (a_dims a) -> In x (a_dims b) -> a = b.
Proof.
  unfold axes_disjoint. induction axs as [|a0 axs IH]; intros H Ha Hb Hxa Hxb; [destruct Ha|].
  cbn in H. destruct (NoDup_app_parts _ _ H) as (H1 & H2 & H3).
  destruct Ha as [<-|Ha]; destruct Hb as [<-|Hb]; [reflexivity| | |apply IH; assumption].
  - exfalso. apply (H3 x Hxa). apply in_flat_map. exists b. tauto.
  - exfalso. apply (H3 x Hxb). apply in_flat_map. exists a. tauto.
Qed.

Lemma axis_of_unique axs a d : axes_disjoint axs -> In a axs -> In d (a_dims a) -> axis_of axs d = a.
Proof.
  intros Hd Ha Hda. unfold axis_of. destruct (find _ axs) as [a'|] eqn:E.
  - apply find_some in E. destruct E as (Ha' & Hm). apply nmem_In in Hm. eapply disjoint_unique; eassumption.
  - exfalso. apply (find_none _ _ E) in Ha. apply nmem_In in Hda. congruence.
Qed.

Lemma product_len1 (Ls : list (list label)) :
  Forall (fun dom : list label => Forall (fun l => length l = 1%nat) dom) Ls ->
  forall c, In c (product Ls) -> Forall (fun l : label => length l = 1%nat) c /\ length c = length Ls.
Proof.
  intros H c Hc. apply in_product in Hc. induction Hc as [|x dom c L Hx Hc IH]; [split; [constructor|reflexivity]|].
  inversion H as [|? ? Hdom H']; subst. destruct (IH H') as (I1 & I2). split.
  - constructor; [|exact I1]. rewrite Forall_forall in Hdom. apply Hdom, Hx.
  - cbn. congruence.
Qed.

Lemma concat_len1 (c : list label) : Forall (fun l => length l = 1%nat) c -> length (concat c) = length c.
Proof. induction 1 as [|x c Hx Hc IH]; [reflexivity|]. cbn. rewrite app_length, Hx, IH. reflexivity. Qed.

Section InitProofs.
  Variable n : nat.
  Variable notnull : list Z -> bool.
  Notation step := (init_step n notnull).

  Lemma step_eq axs m :
    step axs m =
    filter (fun a => negb (touches (mp_dims m) a)) axs
    ++ [mk_axis (mp_dims m)
          (filter (label_has_data n notnull (filter (fun a => negb (touches (mp_dims m) a)) axs)
                     (mk_axis (mp_dims m) (match mp_order m with Some o => o
                                           | None => a_dom (fuse axs (mp_dims m)) end)))
                  (match mp_order m with Some o => o | None => a_dom (fuse axs (mp_dims m)) end))].
  Proof. reflexivity. Qed.

  Lemma others_in axs m a : In a (filter (fun a => negb (touches (mp_dims m) a)) axs) <->
                            In a axs /\ touches (mp_dims m) a = false.
  Proof. rewrite filter_In, negb_true_iff. reflexivity. Qed.

  (* a dimension of a later property stays an axis of its own *)
  Lemma step_single axs m d : ~ In d (mp_dims m) -> single axs d -> single (step axs m) d.
  Proof.
    intros Hnd (dom & Hin & Huniq). exists dom. rewrite step_eq. split.
    - apply in_or_app. left. apply others_in. split; [exact Hin|].
      destruct (touches (mp_dims m) (mk_axis [d] dom)) eqn:E; [|reflexivity].
      apply touches_spec in E. destruct E as (d' & Hd' & Hds). cbn in Hd'. destruct Hd' as [<-|[]]. contradiction.
    - intros a Ha Hda. apply in_app_or in Ha. destruct Ha as [Ha|[<-|[]]].
      + apply others_in in Ha. apply Huniq; tauto.
      + cbn in Hda. contradiction.
  Qed.

  Lemma step_covers axs m : fresh axs m -> covers_dims n axs -> covers_dims n (step axs m).
  Proof.
    intros Hf Hc d Hd. destruct (Hc d Hd) as (a & Ha & Hda). rewrite step_eq.
    destruct (touches (mp_dims m) a) eqn:E.
    - apply touches_spec in E. destruct E as (d0 & Hd0 & Hds). destruct (Hf d0 Hds) as (dom & _ & Huniq).
      rewrite (Huniq a Ha Hd0) in Hda. cbn in Hda. destruct Hda as [<-|[]].
      eexists. split; [apply in_or_app; right; left; reflexivity|]. exact Hds.
    - exists a. split; [|exact Hda]. apply in_or_app. left. apply others_in. tauto.
  Qed.

  Lemma step_covers' axs m : fresh axs m -> covers_dims n axs ->
    forall dom, covers_dims n (mk_axis (mp_dims m) dom :: filter (fun a => negb (touches (mp_dims m) a)) axs).
  Proof.
    intros Hf Hc dom d Hd. destruct (Hc d Hd) as (a & Ha & Hda).
    destruct (touches (mp_dims m) a) eqn:E.
    - apply touches_spec in E. destruct E as (d0 & Hd0 & Hds). destruct (Hf d0 Hds) as (dom0 & _ & Huniq).
      rewrite (Huniq a Ha Hd0) in Hda. cbn in Hda. destruct Hda as [<-|[]].
      eexists. split; [left; reflexivity|]. exact Hds.
    - exists a. split; [|exact Hda]. right. apply others_in. tauto.
  Qed.

  (* the fused domain contains the projection of every covered point *)
  Lemma fuse_covered axs ds v :
    (forall d, In d ds -> single axs d) -> covered axs v -> In (map (fun d => nth d v 0) ds) (a_dom (fuse axs ds)).
  Proof.
    intros Hf Hc. unfold fuse. cbn [a_dom]. apply in_map_iff.
    exists (map (fun d => [nth d v 0]) ds). split; [apply concat_singletons|].
    apply in_product. induction ds as [|d ds IH]; cbn; constructor.
    - destruct (Hf d) as (dom & Hin & Huniq); [left; reflexivity|].
      rewrite (axis_of_single axs d dom Hin Huniq). cbn.
      unfold covered in Hc. rewrite Forall_forall in Hc. apply (Hc _ Hin).
    - apply IH. intros d' Hd'. apply Hf. right. exact Hd'.
  Qed.

  (* dropna(dim, how='all') keeps the coordinates of every point that has data *)
  Lemma step_covered axs m v :
    fresh axs m -> covers_dims n axs -> length v = n ->
    (forall o, mp_order m = Some o -> In (map (fun d => nth d v 0) (mp_dims m)) o) ->
    notnull v = true -> covered axs v -> covered (step axs m) v.
  Proof.
    intros Hf Hcd Hl Ho Hnn Hc. rewrite step_eq. unfold covered. apply Forall_app. split.
    - apply Forall_forall. intros a Ha. apply others_in in Ha. unfold covered in Hc. rewrite Forall_forall in Hc.
      apply Hc. tauto.
    - constructor; [|constructor]. cbn [a_dom a_dims]. unfold proj at 1. cbn [a_dims].
      apply filter_In. split.
      + destruct (mp_order m) as [o|]; [apply Ho; reflexivity|]. apply fuse_covered; assumption.
      + unfold label_has_data. apply existsb_exists.
        set (others := filter (fun a => negb (touches (mp_dims m) a)) axs).
        exists (map (proj v) others). split.
        * apply in_product. clear -Hc. subst others. unfold covered in Hc. rewrite Forall_forall in Hc.
          induction axs as [|a l IH]; cbn; [constructor|].
          destruct (negb (touches (mp_dims m) a)); cbn.
          -- constructor; [apply Hc; left; reflexivity|]. apply IH. intros x Hx. apply Hc. right. exact Hx.
          -- apply IH. intros x Hx. apply Hc. right. exact Hx.
        * set (a1 := mk_axis (mp_dims m) _).
          change (map (fun d => nth d v 0) (mp_dims m) :: map (proj v) others) with (map (proj v) (a1 :: others)).
          rewrite full_index_proj; [exact Hnn| |exact Hl]. apply step_covers'; assumption.
  Qed.

  (* the whole pipeline *)
  Fixpoint pairwise_disjoint (ms : list mprop) : Prop :=
    match ms with
    | [] => True
    | m :: r => Forall (disjoint_dims m) r /\ pairwise_disjoint r
    end.

  Lemma fold_covered ms : forall axs v,
    pairwise_disjoint ms -> Forall (fresh axs) ms -> covers_dims n axs -> length v = n ->
    Forall (fun m => forall o, mp_order m = Some o -> In (map (fun d => nth d v 0) (mp_dims m)) o) ms ->
    notnull v = true -> covered axs v -> covered (fold_left step ms axs) v.
  Proof.
    induction ms as [|m ms IH]; intros axs v Hpd Hfr Hcd Hl Ho Hnn Hc; [exact Hc|].
    cbn [fold_left]. destruct Hpd as (Hd & Hpd).
    pose proof (Forall_inv Hfr) as Hf. pose proof (Forall_inv_tail Hfr) as Hfr'.
    pose proof (Forall_inv Ho) as Hom. pose proof (Forall_inv_tail Ho) as Ho'. apply IH; try assumption.
    - apply Forall_forall. intros m' Hm' d Hd'. rewrite Forall_forall in Hfr'. rewrite Forall_forall in Hd.
      apply step_single; [|apply (Hfr' m' Hm' d Hd')]. intros Hin. exact (Hd m' Hm' d Hin Hd').
    - apply step_covers; assumption.
    - apply step_covered; assumption.
  Qed.

  (* invariants about the domains: labels have the arity of their axis, no label twice *)
  Lemma fuse_dom_ok axs ds :
    (forall d, In d ds -> single axs d) -> label_len axs -> doms_nodup axs ->
    NoDup (a_dom (fuse axs ds)) /\ Forall (fun l : label => length l = length ds) (a_dom (fuse axs ds)).
  Proof.
    intros Hf Hll Hnd. unfold fuse. cbn [a_dom].
    set (Ls := map (fun d => a_dom (axis_of axs d)) ds).
    assert (Hcomp : Forall (fun dom : list label => NoDup dom /\ Forall (fun l => length l = 1%nat) dom) Ls).
    { apply Forall_forall. intros dom Hdom. apply in_map_iff in Hdom. destruct Hdom as (d & <- & Hd).
      destruct (Hf d Hd) as (dom & Hin & Huniq). rewrite (axis_of_single axs d dom Hin Huniq). cbn.
      unfold doms_nodup in Hnd. unfold label_len in Hll. rewrite Forall_forall in Hnd, Hll.
      split; [apply (Hnd _ Hin)|apply (Hll _ Hin)]. }
    assert (H1 : Forall (fun dom : list label => Forall (fun l => length l = 1%nat) dom) Ls)
      by (eapply Forall_impl; [|exact Hcomp]; cbn; tauto).
    assert (H2 : Forall (@NoDup label) Ls) by (eapply Forall_impl; [|exact Hcomp]; cbn; tauto).
    split.
    - apply NoDup_map_inj; [|apply NoDup_product, H2]. intros x y Hx Hy E.
      apply concat_inj_len1; [apply (product_len1 Ls H1 x Hx)|apply (product_len1 Ls H1 y Hy)|exact E].
    - apply Forall_forall. intros l Hl. apply in_map_iff in Hl. destruct Hl as (c & <- & Hc).
      destruct (product_len1 Ls H1 c Hc) as (I1 & I2). rewrite concat_len1 by exact I1. rewrite I2.
      subst Ls. apply map_length.
  Qed.

  Lemma step_doms_ok axs m :
    fresh axs m -> order_ok m -> label_len axs -> doms_nodup axs ->
    label_len (step axs m) /\ doms_nodup (step axs m).
  Proof.
    intros Hf Ho Hll Hnd. rewrite step_eq. unfold label_len, doms_nodup. rewrite !Forall_app.
    destruct (fuse_dom_ok axs (mp_dims m) Hf Hll Hnd) as (F1 & F2).
    assert (Hdom : NoDup (match mp_order m with Some o => o | None => a_dom (fuse axs (mp_dims m)) end)
                   /\ Forall (fun l : label => length l = length (mp_dims m))
                             (match mp_order m with Some o => o | None => a_dom (fuse axs (mp_dims m)) end)).
    { unfold order_ok in Ho. destruct (mp_order m); [exact Ho|split; assumption]. }
    destruct Hdom as (D1 & D2). repeat split.
    - apply Forall_forall. intros a Ha. apply others_in in Ha. unfold label_len in Hll. rewrite Forall_forall in Hll.
      apply Hll. tauto.
    - constructor; [|constructor]. cbn [a_dom a_dims]. apply Forall_forall. intros l Hl. apply filter_In in Hl.
      rewrite Forall_forall in D2. apply D2. tauto.
    - apply Forall_forall. intros a Ha. apply others_in in Ha. unfold doms_nodup in Hnd. rewrite Forall_forall in Hnd.
      apply Hnd. tauto.
    - constructor; [|constructor]. cbn [a_dom]. apply NoDup_filter. exact D1.
  Qed.

  Lemma fold_doms_ok ms : forall axs,
    pairwise_disjoint ms -> Forall (fresh axs) ms -> Forall order_ok ms -> label_len axs -> doms_nodup axs ->
    doms_nodup (fold_left step ms axs).
  Proof.
    induction ms as [|m ms IH]; intros axs Hpd Hfr Hoo Hll Hnd; [exact Hnd|].
    cbn [fold_left]. destruct Hpd as (Hd & Hpd).
    pose proof (Forall_inv Hfr) as Hf. pose proof (Forall_inv_tail Hfr) as Hfr'.
    pose proof (Forall_inv Hoo) as Ho. pose proof (Forall_inv_tail Hoo) as Hoo'.
    destruct (step_doms_ok axs m Hf Ho Hll Hnd) as (S1 & S2). apply IH; try assumption.
    apply Forall_forall. intros m' Hm' d Hd'. rewrite Forall_forall in Hfr'. rewrite Forall_forall in Hd.
    apply step_single; [|apply (Hfr' m' Hm' d Hd')]. intros Hin. exact (Hd m' Hm' d Hin Hd').
  Qed.

  (* every dimension stays in exactly one axis *)
  Lemma step_disjoint axs m : NoDup (mp_dims m) -> axes_disjoint axs -> axes_disjoint (step axs m).
  Proof.
    intros Hnd Hd. rewrite step_eq. unfold axes_disjoint. rewrite flat_map_app. cbn [flat_map a_dims]. rewrite app_nil_r.
    apply NoDup_app_intro; [apply NoDup_flat_map_filter, Hd|exact Hnd|].
    intros x Hx Hds. apply in_flat_map in Hx. destruct Hx as (a & Ha & Hxa). apply others_in in Ha.
    destruct Ha as (_ & Ht). assert (touches (mp_dims m) a = true) by (apply touches_spec; exists x; tauto). congruence.
  Qed.

  Lemma fold_struct ms : forall axs,
    pairwise_disjoint ms -> Forall (fresh axs) ms -> Forall (fun m => NoDup (mp_dims m)) ms ->
    covers_dims n axs -> axes_disjoint axs ->
    covers_dims n (fold_left step ms axs) /\ axes_disjoint (fold_left step ms axs).
  Proof.
    induction ms as [|m ms IH]; intros axs Hpd Hfr Hnd Hc Hd; [split; assumption|].
    cbn [fold_left]. destruct Hpd as (Hdj & Hpd).
    pose proof (Forall_inv Hfr) as Hf. pose proof (Forall_inv_tail Hfr) as Hfr'.
    pose proof (Forall_inv Hnd) as Hn. pose proof (Forall_inv_tail Hnd) as Hnd'.
    apply IH; try assumption.
    - apply Forall_forall. intros m' Hm' d Hd'. rewrite Forall_forall in Hfr'. rewrite Forall_forall in Hdj.
      apply step_single; [|apply (Hfr' m' Hm' d Hd')]. intros Hin. exact (Hdj m' Hm' d Hin Hd').
    - apply step_covers; assumption.
    - apply step_disjoint; assumption.
  Qed.

  Lemma init_disjoint shape : axes_disjoint (init_axes n shape).
  Proof.
    unfold axes_disjoint, init_axes. rewrite flat_map_concat_map, map_map. cbn [a_dims].
    rewrite <- flat_map_concat_map. replace (flat_map (fun x => [x]) (seq 0 n)) with (seq 0 n); [apply seq_NoDup|].
    induction (seq 0 n) as [|x l IHl]; [reflexivity|]. cbn. f_equal. exact IHl.
  Qed.

  (* the initial axes *)
  Lemma init_single shape d : (d < n)%nat -> single (init_axes n shape) d.
  Proof.
    intros Hd. unfold init_axes. eexists. split.
    - apply in_map_iff. exists d. split; [reflexivity|]. apply in_seq. lia.
    - intros a Ha Hda. apply in_map_iff in Ha. destruct Ha as (d' & <- & _). cbn in Hda.
      destruct Hda as [->|[]]. reflexivity.
  Qed.

  Lemma init_covers shape : covers_dims n (init_axes n shape).
  Proof.
    intros d Hd. eexists. split; [apply in_map_iff; exists d; split; [reflexivity|apply in_seq; lia]|].
    cbn. left. reflexivity.
  Qed.

  Lemma zseq_In s k z : In z (zseq s k) <-> s <= z < s + Z.of_nat k.
  Proof.
    revert s. induction k as [|k IH]; intros s; cbn [zseq In]; [lia|]. rewrite IH. lia.
  Qed.

  Lemma zseq_NoDup s k : NoDup (zseq s k).
  Proof.
    revert s. induction k as [|k IH]; intros s; cbn; constructor; [|apply IH].
    intros H. apply zseq_In in H. lia.
  Qed.

  Lemma init_doms_ok shape : label_len (init_axes n shape) /\ doms_nodup (init_axes n shape).
  Proof.
    unfold label_len, doms_nodup, init_axes. split; apply Forall_forall; intros a Ha; apply in_map_iff in Ha;
      destruct Ha as (d & <- & _); cbn [a_dom a_dims].
    - apply Forall_forall. intros l Hl. apply in_map_iff in Hl. destruct Hl as (i & <- & _). reflexivity.
    - apply NoDup_map_inj; [|apply zseq_NoDup]. intros x y _ _ E. inversion E. reflexivity.
  Qed.

  Lemma init_covered shape v :
    length v = n -> (forall d, (d < n)%nat -> 0 <= nth d v 0 < Z.of_nat (nth d shape 0%nat)) ->
    covered (init_axes n shape) v.
  Proof.
    intros Hl Hb. unfold covered, init_axes. apply Forall_forall. intros a Ha. apply in_map_iff in Ha.
    destruct Ha as (d & <- & Hd). apply in_seq in Hd. cbn [a_dom a_dims proj map]. unfold proj. cbn.
    apply in_map_iff. exists (nth d v 0). split; [reflexivity|]. apply zseq_In. specialize (Hb d). lia.
  Qed.
End InitProofs.

(* the list of properties actually processed is well formed: dimensions in range, no dimension used twice,
   explicit orders duplicate free and of the right arity *)
Definition wf_maps (n : nat) (ms : list mprop) : Prop :=
  pairwise_disjoint ms /\ Forall order_ok ms /\ Forall (fun m => forall d, In d (mp_dims m) -> (d < n)%nat) ms
  /\ Forall (fun m => NoDup (mp_dims m)) ms.

Lemma wf_fresh n shape ms : wf_maps n ms -> Forall (fresh (init_axes n shape)) ms.
Proof.
  intros (_ & _ & Hr & _). eapply Forall_impl; [|exact Hr]. intros m Hm d Hd. apply init_single. apply Hm, Hd.
Qed.

(* every domain left by the init_mapped_dim calls is duplicate free *)
Theorem final_doms_nodup n notnull shape ms :
  wf_maps n ms -> doms_nodup (fold_left (init_step n notnull) ms (init_axes n shape)).
Proof.
  intros Hwf. pose proof (wf_fresh n shape ms Hwf) as Hfr. destruct Hwf as (Hpd & Hoo & _ & _).
  destruct (init_doms_ok n shape) as (I1 & I2). apply fold_doms_ok; assumption.
Qed.

(* a point of the dataset that has data and whose coordinates are allowed by every explicit order is still
   inside the domains after all the dropna(how='all') calls *)
Theorem final_covered n notnull shape ms v :
  wf_maps n ms -> length v = n ->
  (forall d, (d < n)%nat -> 0 <= nth d v 0 < Z.of_nat (nth d shape 0%nat)) ->
  Forall (fun m => forall o, mp_order m = Some o -> In (map (fun d => nth d v 0) (mp_dims m)) o) ms ->
  notnull v = true ->
  covered (fold_left (init_step n notnull) ms (init_axes n shape)) v.
Proof.
  intros Hwf Hl Hb Ho Hnn. pose proof (wf_fresh n shape ms Hwf) as Hfr. destruct Hwf as (Hpd & _ & _ & _).
  apply fold_covered; try assumption; [apply init_covers|apply init_covered; assumption].
Qed.

(* the properties actually processed by a call, in the code's fixed order *)
Definition processed (s : spec) : list mprop := sorted_maps (normalize (s_maps s)).

Lemma c_iter_in_axes s a : In a (c_iter (ctx_of s)) -> In a (axes_of s).
Proof.
  unfold ctx_of. cbn [c_iter]. intros H. apply in_app_or in H. destruct H as [H|H].
  - apply in_flat_map in H. destruct H as (ds & _ & H). apply filter_In in H. destruct H as (H & _).
    apply filter_In in H. tauto.
  - apply filter_In in H. destruct H as (H & _). apply filter_In in H. tauto.
Qed.

Theorem final_struct n notnull shape ms :
  wf_maps n ms ->
  covers_dims n (fold_left (init_step n notnull) ms (init_axes n shape))
  /\ axes_disjoint (fold_left (init_step n notnull) ms (init_axes n shape)).
Proof.
  intros Hwf. pose proof (wf_fresh n shape ms Hwf) as Hfr. destruct Hwf as (Hpd & _ & _ & Hnd).
  apply fold_struct; try assumption; [apply init_covers|apply init_disjoint].
Qed.

Lemma nat_list_eqb_refl l : nat_list_eqb l l = true.
Proof. induction l as [|x l IH]; [reflexivity|]. cbn. rewrite Nat.eqb_refl. exact IH. Qed.

Lemma c_red_in_axes s a : In a (c_red (ctx_of s)) -> In a (axes_of s).
Proof. unfold ctx_of. cbn [c_red]. intros H. apply filter_In in H. tauto. Qed.

(* line mode: the iterated axes, the x axis and the reduced axes together still hold every dimension *)
Lemma ctx_covers s xd :
  covers_dims (ndims_of s) (axes_of s) -> axes_disjoint (axes_of s) ->
  s_xdim s = Some xd -> s_ydim s = None ->
  covers_dims (ndims_of s) ((c_iter (ctx_of s) ++ [c_x (ctx_of s)]) ++ c_red (ctx_of s)).
Proof.
  intros Hc Hdj Hx Hy d Hd. destruct (Hc d Hd) as (a & Ha & Hda).
  assert (Hsp : special s = [xd]) by (unfold special; rewrite Hx, Hy; reflexivity).
  unfold ctx_of. cbn [c_iter c_x c_red]. rewrite Hx, Hsp.
  set (Q := fun a0 : axis => negb (touches [xd] a0) &&
                            (if s_aggall s then negb (touches (mapped_dims s) a0) else touches (s_agg s) a0)).
  set (red := filter Q (axes_of s)).
  set (valid := filter (fun a0 => negb (touches ([xd] ++ flat_map a_dims red) a0)) (axes_of s)).
  destruct (touches [xd] a) eqn:Es.
  - apply touches_spec in Es. destruct Es as (d0 & Hd0 & [<-|[]]).
    exists a. split; [|exact Hda]. apply in_or_app. left. apply in_or_app. right. left.
    apply axis_of_unique; assumption.
  - destruct (Q a) eqn:Eq.
    + exists a. split; [|exact Hda]. apply in_or_app. right. apply filter_In. tauto.
    + assert (Hv : In a valid).
      { apply filter_In. split; [exact Ha|]. apply negb_true_iff.
        destruct (touches ([xd] ++ flat_map a_dims red) a) eqn:Et; [|reflexivity]. exfalso.
        apply touches_spec in Et. destruct Et as (d' & Hd' & Hin). apply in_app_or in Hin. destruct Hin as [Hin|Hin].
        - assert (touches [xd] a = true) by (apply touches_spec; exists d'; tauto). congruence.
        - apply in_flat_map in Hin. destruct Hin as (r & Hr & Hdr). apply filter_In in Hr. destruct Hr as (HrF & HrQ).
          assert (a = r) by (eapply disjoint_unique; eassumption). subst r. congruence. }
      exists a. split; [|exact Hda]. apply in_or_app. left. apply in_or_app. left.
      destruct (existsb (nat_list_eqb (a_dims a)) (s_iter s)) eqn:Ei.
      * apply in_or_app. left. apply existsb_exists in Ei. destruct Ei as (ds & Hds & E).
        apply in_flat_map. exists ds. split; [exact Hds|]. apply filter_In. split; [exact Hv|exact E].
      * apply in_or_app. right. apply filter_In. split; [exact Hv|]. rewrite Ei. reflexivity.
Qed.

Lemma c_x_in_axes s xd :
  covers_dims (ndims_of s) (axes_of s) -> axes_disjoint (axes_of s) -> s_xdim s = Some xd -> (xd < ndims_of s)%nat ->
  In (c_x (ctx_of s)) (axes_of s) /\ In xd (a_dims (c_x (ctx_of s))).
Proof.
  intros Hc Hdj Hx Hxd. destruct (Hc xd Hxd) as (a & Ha & Hda). unfold ctx_of. cbn [c_x]. rewrite Hx.
  rewrite (axis_of_unique _ a xd Hdj Ha Hda). tauto.
Qed.

Lemma covered_product v (axs sub : list axis) :
  covered axs v -> (forall a, In a sub -> In a axs) -> In (map (proj v) sub) (product (map a_dom sub)).
Proof.
  intros Hc Hsub. apply in_product. unfold covered in Hc. rewrite Forall_forall in Hc.
  induction sub as [|a l IH]; cbn; constructor.
  - apply Hc, Hsub. left. reflexivity.
  - apply IH. intros x Hx. apply Hsub. right. exact Hx.
Qed.

Lemma group_has s c (f : list Z -> option Z) fixed v i :
  covers_dims (ndims_of s) (fixed ++ c_red c) -> length v = ndims_of s ->
  In (map (proj v) (c_red c)) (product (map a_dom (c_red c))) -> f v = Some i ->
  In i (group s c f fixed (map (proj v) fixed)).
Proof.
  intros Hc Hl Hin Hf. unfold group. apply in_flat_map. exists (map (proj v) (c_red c)). split; [exact Hin|].
  rewrite <- map_app, full_index_proj by assumption. rewrite Hf. left. reflexivity.
Qed.
