(* C10: supporting lemmas.  The invariant "every file under a final crop name is whole and holds
   exactly what its name promises" is preserved by EVERY atomic step of every operation, hence by
   every crash prefix; from any state with the invariant a reap refuses, fails or is exact, and the
   documented recovery reaches the result of an uninterrupted run. *)
From XV Require Import Prelude CrashFS.
From Coq Require Import Permutation Arith PeanoNat FinFun.
Local Open Scope nat_scope.

(* ------------------------------------------------------------------ names and association lists *)
Lemma base_eqb_eq a b : base_eqb a b = true <-> a = b.
Proof.
  destruct a, b; cbn; try (split; [discriminate | intros H; discriminate H]); try tauto.
  - rewrite Nat.eqb_eq. split; [intros ->; reflexivity | intros H; injection H; auto].
  - rewrite Nat.eqb_eq. split; [intros ->; reflexivity | intros H; injection H; auto].
Qed.
Lemma fname_eqb_eq a b : fname_eqb a b = true <-> a = b.
Proof.
  destruct a as [x|x w], b as [y|y v]; cbn; try (split; [discriminate | intros H; discriminate H]).
  - rewrite base_eqb_eq. split; [intros ->; reflexivity | intros H; injection H; auto].
  - rewrite andb_true_iff, base_eqb_eq, Nat.eqb_eq.
    split; [intros [-> ->]; reflexivity | intros H; injection H; auto].
Qed.
Lemma fname_eqb_refl a : fname_eqb a a = true.
Proof. apply fname_eqb_eq. reflexivity. Qed.
Lemma fname_eqb_neq a b : a <> b -> fname_eqb a b = false.
Proof. intros H. destruct (fname_eqb a b) eqn:E; [apply fname_eqb_eq in E; contradiction | reflexivity]. Qed.
Lemma fname_eq_dec (a b : fname) : {a = b} + {a <> b}.
Proof.
  destruct (fname_eqb a b) eqn:E; [left; apply fname_eqb_eq, E | right; intros ->; rewrite fname_eqb_refl in E; discriminate].
Qed.

Lemma alookup_remove_eq l x : alookup (aremove l x) x = None.
Proof.
  induction l as [|[y c] l IH]; [reflexivity|]. cbn. destruct (fname_eqb y x) eqn:E; [exact IH|].
  cbn. rewrite E. exact IH.
Qed.
Lemma alookup_remove_neq l x y : x <> y -> alookup (aremove l x) y = alookup l y.
Proof.
  intros N. induction l as [|[z c] l IH]; [reflexivity|]. cbn. destruct (fname_eqb z x) eqn:E.
  - apply fname_eqb_eq in E. subst z. rewrite (fname_eqb_neq x y N). exact IH.
  - cbn. rewrite IH. reflexivity.
Qed.
Lemma lookup_fset_eq st x c : lookup (fset st x c) x = Some c.
Proof. unfold lookup, fset. cbn. rewrite fname_eqb_refl. reflexivity. Qed.
Lemma lookup_fset_neq st x y c : x <> y -> lookup (fset st x c) y = lookup st y.
Proof. intros N. unfold lookup, fset. cbn. rewrite (fname_eqb_neq x y N). apply alookup_remove_neq, N. Qed.
Lemma lookup_fremove_eq st x : lookup (fremove st x) x = None.
Proof. apply alookup_remove_eq. Qed.
Lemma lookup_fremove_neq st x y : x <> y -> lookup (fremove st x) y = lookup st y.
Proof. apply alookup_remove_neq. Qed.

Lemma in_aremove l x y : In y (map fst (aremove l x)) <-> In y (map fst l) /\ y <> x.
Proof.
  induction l as [|[z c] l IH]; cbn; [tauto|]. destruct (fname_eqb z x) eqn:E.
  - apply fname_eqb_eq in E. subst z. rewrite IH. split; [tauto|]. intros [[->|H] N]; [contradiction|tauto].
  - cbn. rewrite IH. split.
    + intros [->|[H N]]; [|tauto]. split; [tauto|]. intros ->. rewrite fname_eqb_refl in E. discriminate.
    + tauto.
Qed.
Lemma nodup_aremove l x : NoDup (map fst l) -> NoDup (map fst (aremove l x)).
Proof.
  induction l as [|[z c] l IH]; cbn; intros H; [constructor|]. inversion H; subst.
  destruct (fname_eqb z x); [auto|]. cbn. constructor; [|auto]. rewrite in_aremove. tauto.
Qed.
Lemma alookup_in l x : In x (map fst l) <-> alookup l x <> None.
Proof.
  induction l as [|[z c] l IH]; cbn; [tauto|]. destruct (fname_eqb z x) eqn:E.
  - apply fname_eqb_eq in E. split; [discriminate | auto].
  - rewrite <- IH. split; [intros [->|H]; [rewrite fname_eqb_refl in E; discriminate | exact H] | auto].
Qed.
Lemma names_lookup st x : In x (names st) <-> lookup st x <> None.
Proof. apply alookup_in. Qed.
Lemma present_names st x : present st x = true <-> In x (names st).
Proof. rewrite names_lookup. unfold present. destruct (lookup st x); split; congruence. Qed.

Lemma nodup_fset st x c : NoDup (names st) -> NoDup (names (fset st x c)).
Proof.
  intros H. unfold names, fset. cbn. constructor; [rewrite in_aremove; tauto | apply nodup_aremove, H].
Qed.
Lemma nodup_fremove st x : NoDup (names st) -> NoDup (names (fremove st x)).
Proof. apply nodup_aremove. Qed.

Lemma run_app a b st : run (a ++ b) st = run b (run a st).
Proof. apply fold_left_app. Qed.
Lemma firstn_app_le {A} k (a b : list A) : k <= length a -> firstn k (a ++ b) = firstn k a.
Proof.
  intros H. rewrite firstn_app. replace (k - length a) with 0 by lia. cbn. apply app_nil_r.
Qed.
Lemma firstn_app_ge {A} k (a b : list A) : length a <= k -> firstn k (a ++ b) = a ++ firstn (k - length a) b.
Proof. intros H. rewrite firstn_app. rewrite (firstn_all2 a) by exact H. reflexivity. Qed.

(* ------------------------------------------------------------------ frame: steps that avoid a name *)
Definition avoids (x : fname) (s : step) : Prop :=
  match s with
  | CreateTmp y | CompleteTmp y _ | Unlink y => y <> x
  | Rename a b => a <> x /\ b <> x
  | _ => True
  end.
Lemma apply_avoids st s x : avoids x s -> lookup (apply st s) x = lookup st x.
Proof.
  destruct s; cbn; intros H; try reflexivity.
  - apply lookup_fset_neq, H.
  - apply lookup_fset_neq, H.
  - destruct H as [Ha Hb]. destruct (lookup st a) eqn:E; [|reflexivity].
    rewrite lookup_fset_neq by exact Hb. apply lookup_fremove_neq, Ha.
  - apply lookup_fremove_neq, H.
Qed.
Lemma run_avoids ss : forall st x, Forall (avoids x) ss -> lookup (run ss st) x = lookup st x.
Proof.
  induction ss as [|s ss IH]; intros st x H; [reflexivity|]. inversion H; subst. cbn.
  rewrite IH by assumption. apply apply_avoids. assumption.
Qed.
Lemma Forall_firstn {A} (P : A -> Prop) k l : Forall P l -> Forall P (firstn k l).
Proof.
  revert k. induction l as [|a l IH]; intros k H; [rewrite firstn_nil; constructor|].
  destruct k; [constructor|]. inversion H; subst. cbn. constructor; auto.
Qed.
Lemma crash_avoids ss k st x : Forall (avoids x) ss -> lookup (crash ss k st) x = lookup st x.
Proof. intros H. apply run_avoids, Forall_firstn, H. Qed.

Lemma write_avoids b p w x : x <> Fin b -> x <> Tmp b w -> Forall (avoids x) (write b p w).
Proof. intros H1 H2. unfold write. repeat constructor; cbn; congruence. Qed.

(* a complete write publishes the payload under the final name and leaves no temporary file *)
Lemma lookup_run_write st b p w x :
  lookup (run (write b p w) st) x
  = if fname_eqb x (Fin b) then Some (Whole p) else if fname_eqb x (Tmp b w) then None else lookup st x.
Proof.
  unfold write, run. cbn [fold_left apply]. rewrite lookup_fset_eq.
  destruct (fname_eqb x (Fin b)) eqn:E1.
  - apply fname_eqb_eq in E1. subst x. apply lookup_fset_eq.
  - assert (N1 : Fin b <> x) by (intros <-; rewrite fname_eqb_refl in E1; discriminate).
    rewrite lookup_fset_neq by exact N1.
    destruct (fname_eqb x (Tmp b w)) eqn:E2.
    + apply fname_eqb_eq in E2. subst x. apply lookup_fremove_eq.
    + assert (N2 : Tmp b w <> x) by (intros <-; rewrite fname_eqb_refl in E2; discriminate).
      rewrite lookup_fremove_neq by exact N2. rewrite !lookup_fset_neq by exact N2. reflexivity.
Qed.
Lemma lookup_run_write_fin st b p w c :
  lookup (run (write b p w) st) (Fin c) = if base_eqb c b then Some (Whole p) else lookup st (Fin c).
Proof. rewrite lookup_run_write. cbn. destruct (base_eqb c b); reflexivity. Qed.

(* a list of complete writes of distinct files *)
Definition writes (l : list (base * payload)) (w : nat) : list step :=
  concat (map (fun bp => write (fst bp) (snd bp) w) l).
Lemma lookup_writes_other l w : forall st c,
  ~ In c (map fst l) -> lookup (run (writes l w) st) (Fin c) = lookup st (Fin c).
Proof.
  induction l as [|[b p] l IH]; intros st c H; [reflexivity|]. unfold writes in *. cbn [map concat].
  rewrite run_app. rewrite IH by (intros X; apply H; right; exact X).
  rewrite lookup_run_write_fin. cbn [fst snd].
  destruct (base_eqb c b) eqn:E; [|reflexivity]. apply base_eqb_eq in E. subst. exfalso. apply H. left. reflexivity.
Qed.
Lemma lookup_writes_in l w : forall st c p,
  NoDup (map fst l) -> In (c, p) l -> lookup (run (writes l w) st) (Fin c) = Some (Whole p).
Proof.
  induction l as [|[b q] l IH]; intros st c p ND HI; [contradiction|]. unfold writes in *. cbn [map concat].
  rewrite run_app. cbn in ND. inversion ND; subst. destruct HI as [E|HI].
  - injection E; intros; subst. fold (writes l w). rewrite lookup_writes_other by assumption.
    rewrite lookup_run_write_fin. cbn. replace (base_eqb c c) with true; [reflexivity|].
    symmetry. apply base_eqb_eq. reflexivity.
  - apply IH; assumption.
Qed.
Lemma writes_avoids l w x :
  (forall b, In b (map fst l) -> x <> Fin b /\ x <> Tmp b w) -> Forall (avoids x) (writes l w).
Proof.
  induction l as [|[b p] l IH]; intros H; [constructor|]. unfold writes. cbn [map concat].
  apply Forall_app. split.
  - destruct (H b (or_introl eq_refl)). apply write_avoids; assumption.
  - apply IH. intros c Hc. apply H. right. exact Hc.
Qed.

(* ------------------------------------------------------------------ the numbering of batches *)
Lemma number_fst s (sw : sweep) : map fst (combine (seq s (length sw)) sw) = seq s (length sw).
Proof. revert s. induction sw as [|b sw IH]; intros s; [reflexivity|]. cbn. f_equal. apply IH. Qed.
Lemma number_snd s (sw : sweep) : map snd (combine (seq s (length sw)) sw) = sw.
Proof. revert s. induction sw as [|b sw IH]; intros s; [reflexivity|]. cbn. f_equal. apply IH. Qed.
Lemma number_nodup (sw : sweep) : NoDup (map fst (number sw)).
Proof. unfold number. rewrite number_fst. apply seq_NoDup. Qed.
Lemma number_fun (sw : sweep) i b b' : In (i, b) (number sw) -> In (i, b') (number sw) -> b = b'.
Proof.
  pose proof (number_nodup sw) as ND. revert ND. generalize (number sw). intros l.
  induction l as [|[j c] l IH]; intros ND H1 H2; [contradiction|]. cbn in ND. inversion ND; subst.
  destruct H1 as [E1|H1], H2 as [E2|H2].
  - congruence.
  - injection E1; intros; subst. exfalso. apply H3. apply (in_map fst) in H2. exact H2.
  - injection E2; intros; subst. exfalso. apply H3. apply (in_map fst) in H1. exact H1.
  - apply IH; assumption.
Qed.
Lemma number_range (sw : sweep) i b : In (i, b) (number sw) -> In i (seq 1 (length sw)).
Proof. intros H. apply (in_map fst) in H. unfold number in H. rewrite number_fst in H. exact H. Qed.
Lemma number_total (sw : sweep) i : In i (seq 1 (length sw)) -> exists b, In (i, b) (number sw).
Proof.
  intros H. unfold number. rewrite <- (number_fst 1 sw) in H. apply in_map_iff in H.
  destruct H as [[j b] [E H]]. cbn in E. subst j. exists b. exact H.
Qed.
Lemma number_in_sweep (sw : sweep) i b : In (i, b) (number sw) -> In b sw.
Proof. intros H. apply (in_map snd) in H. unfold number in H. rewrite number_snd in H. exact H. Qed.

Lemma concat_map_snd {A B} (g : A -> B) (l : list (nat * list A)) :
  concat (map (fun ib => map g (snd ib)) l) = map g (concat (map snd l)).
Proof. induction l as [|[i b] l IH]; [reflexivity|]. cbn. rewrite map_app, IH. reflexivity. Qed.

(* ------------------------------------------------------------------ merging *)
Lemma klookup_app k a b :
  klookup k (a ++ b) = match klookup k a with Some v => Some v | None => klookup k b end.
Proof. induction a as [|[k' v] a IH]; [reflexivity|]. cbn. destruct (Z.eqb k' k); [reflexivity | exact IH]. Qed.
Lemma klookup_in k v m : klookup k m = Some v -> In (k, v) m.
Proof.
  induction m as [|[k' v'] m IH]; cbn; [discriminate|]. destruct (Z.eqb k' k) eqn:E.
  - apply Z.eqb_eq in E. intros H. injection H; intros; subst. left. reflexivity.
  - intros H. right. apply IH, H.
Qed.
Lemma klookup_none_filter old new k :
  klookup k old = None -> klookup k (filter (kfresh old) new) = klookup k new.
Proof.
  intros H. induction new as [|[k' v] new IH]; [reflexivity|]. cbn [filter]. unfold kfresh at 1. cbn [fst].
  destruct (klookup k' old) eqn:E.
  - cbn [klookup]. destruct (Z.eqb k' k) eqn:E2; [apply Z.eqb_eq in E2; subst; congruence | exact IH].
  - cbn [klookup]. destruct (Z.eqb k' k); [reflexivity | exact IH].
Qed.

(* merging the same new data a second time changes nothing (the harvester is idempotent) *)
Lemma merge_idem old new :
  conflict old new = false ->
  (forall k v v', In (k, v) new -> In (k, v') new -> v = v') ->
  merge (old ++ filter (kfresh old) new) new = Some (old ++ filter (kfresh old) new).
Proof.
  intros HC HF. unfold merge.
  assert (C2 : conflict (old ++ filter (kfresh old) new) new = false).
  { unfold conflict in *. apply not_true_is_false. intros H. apply existsb_exists in H. destruct H as [[k v] [HI HK]].
    unfold kclash in HK. cbn [fst snd] in HK. rewrite klookup_app in HK.
    destruct (klookup k old) eqn:E.
    - assert (X : existsb (kclash old) new = true).
      { apply existsb_exists. exists (k, v). split; [exact HI|]. unfold kclash. cbn. rewrite E. exact HK. }
      congruence.
    - rewrite klookup_none_filter in HK by exact E. destruct (klookup k new) eqn:E2; [|discriminate].
      apply klookup_in in E2. rewrite (HF k z v E2 HI) in HK. rewrite Z.eqb_refl in HK. discriminate. }
  rewrite C2. f_equal.
  assert (G : forall l, (forall kv, In kv l -> In kv new) ->
                        filter (kfresh (old ++ filter (kfresh old) new)) l = []).
  { induction l as [|[k v] l IH]; intros Hs; [reflexivity|]. cbn [filter].
    unfold kfresh at 1. cbn [fst]. rewrite klookup_app. destruct (klookup k old) eqn:E.
    - apply IH. intros kv H. apply Hs. right. exact H.
    - rewrite klookup_none_filter by exact E.
      destruct (klookup k new) eqn:E2.
      + apply IH. intros kv H. apply Hs. right. exact H.
      + exfalso. assert (HI : In (k, v) new) by (apply Hs; left; reflexivity).
        clear - HI E2. induction new as [|[k' v'] new IH]; [contradiction|]. cbn in E2.
        destruct (Z.eqb k' k) eqn:E3; [discriminate|]. destruct HI as [X|X].
        * injection X; intros; subst. rewrite Z.eqb_refl in E3. discriminate.
        * apply IH; assumption. }
  rewrite (G new) by auto. apply app_nil_r.
Qed.
Lemma merge_new_new new :
  (forall k v v', In (k, v) new -> In (k, v') new -> v = v') -> merge new new = Some new.
Proof.
  intros HF.
  assert (C0 : conflict [] new = false).
  { clear. unfold conflict. induction new as [|kv new IH]; [reflexivity|]. cbn. exact IH. }
  pose proof (merge_idem [] new C0 HF) as H. cbn [app] in H.
  assert (E : filter (kfresh []) new = new).
  { clear. induction new as [|kv new IH]; [reflexivity|]. cbn. f_equal. exact IH. }
  rewrite E in H. exact H.
Qed.

(* ------------------------------------------------------------------ the invariant *)
Section Inv.
  Variable f : Z -> Z.
  Variable sw : sweep.
  Variable kd : kind.                (* the kind of farmer the crop belongs to *)
  Variable old : option pdata.       (* what the harvester's data file held before the crop was reaped *)

  Definition newd : pdata := new_data f sw.
  Definition merged : pdata :=
    match old with None => newd | Some od => od ++ filter (kfresh od) newd end.

  Hypothesis no_conflict : match old with Some od => conflict od newd = false | None => True end.
  Hypothesis batches_nonempty : Forall (fun b => b <> []) sw.
  Hypothesis some_batch : sw <> [].

  (* the harvester's data file holds the old data or the merged data, never anything else *)
  Definition DataOk (o : option content) : Prop :=
    match kd with
    | KHarvester =>
        match old with
        | None => o = None \/ o = Some (Whole (PData merged))
        | Some od => o = Some (Whole (PData od)) \/ o = Some (Whole (PData merged))
        end
    | _ => True
    end.

  Definition good (x : fname) (c : content) : Prop :=
    match x with
    | Fin BInfo => c = Whole (PInfo sw)
    | Fin BFn => c = Whole PFn
    | Fin (BBatch i) => exists b, In (i, b) (number sw) /\ c = Whole (PBatch b)
    | Fin (BResult i) => exists b, In (i, b) (number sw) /\ c = Whole (PResult (map f b))
    | Fin BTable => exists rows, c = Whole (PTable rows)
    | _ => True
    end.

  Definition Inv (st : fs) : Prop :=
    NoDup (names st) /\ (forall x c, lookup st x = Some c -> good x c) /\ DataOk (lookup st (Fin BData)).

  Lemma newd_fun k v v' : In (k, v) newd -> In (k, v') newd -> v = v'.
  Proof.
    unfold newd, new_data. intros H1 H2. apply in_map_iff in H1. apply in_map_iff in H2.
    destruct H1 as [c [E1 _]], H2 as [c' [E2 _]]. congruence.
  Qed.

  (* steps that cannot break the invariant *)
  Definition harmless (s : step) : Prop :=
    match s with
    | Mkdir _ | Rmdir _ | AppendTmp _ => True
    | CreateTmp (Tmp _ _) | CompleteTmp (Tmp _ _) _ => True
    | Unlink x => x <> Fin BData
    | _ => False
    end.

  Lemma inv_set_tmp st b w c : Inv st -> Inv (fset st (Tmp b w) c).
  Proof.
    intros [ND [G D]]. split; [apply nodup_fset, ND|]. split.
    - intros x c' H. destruct (fname_eq_dec (Tmp b w) x) as [<-|N]; [exact I|].
      rewrite lookup_fset_neq in H by exact N. apply G, H.
    - rewrite lookup_fset_neq by discriminate. exact D.
  Qed.
  Lemma inv_remove st x : Inv st -> x <> Fin BData -> Inv (fremove st x).
  Proof.
    intros [ND [G D]] N. split; [apply nodup_fremove, ND|]. split.
    - intros y c H. destruct (fname_eq_dec x y) as [<-|N2]; [rewrite lookup_fremove_eq in H; discriminate|].
      rewrite lookup_fremove_neq in H by exact N2. apply G, H.
    - rewrite lookup_fremove_neq by exact N. exact D.
  Qed.
  Lemma harmless_inv st s : Inv st -> harmless s -> Inv (apply st s).
  Proof.
    intros HI H. destruct s as [d|d|x|x|x p|a b|x]; cbn in H |- *; try contradiction.
    - destruct HI as [ND [G D]]. split; [exact ND|]. split; assumption.
    - destruct HI as [ND [G D]]. split; [exact ND|]. split; assumption.
    - destruct x as [b|b w]; [contradiction|]. apply inv_set_tmp, HI.
    - exact HI.
    - destruct x as [b|b w]; [contradiction|]. apply inv_set_tmp, HI.
    - apply inv_remove; assumption.
  Qed.

  (* the one sensitive step: moving a complete temporary file onto the final name *)
  Lemma inv_rename st b w p :
    Inv st -> lookup st (Tmp b w) = Some (Whole p) -> good (Fin b) (Whole p) ->
    (b = BData -> DataOk (Some (Whole p))) ->
    Inv (apply st (Rename (Tmp b w) (Fin b))).
  Proof.
    intros [ND [G D]] L HG HD. cbn. rewrite L. split; [apply nodup_fset, nodup_fremove, ND|]. split.
    - intros x c H. destruct (fname_eq_dec (Fin b) x) as [<-|N].
      + rewrite lookup_fset_eq in H. injection H; intros; subst. exact HG.
      + rewrite lookup_fset_neq in H by exact N.
        destruct (fname_eq_dec (Tmp b w) x) as [<-|N2]; [rewrite lookup_fremove_eq in H; discriminate|].
        rewrite lookup_fremove_neq in H by exact N2. apply G, H.
    - destruct (base_eqb b BData) eqn:E.
      + apply base_eqb_eq in E. subst b. rewrite lookup_fset_eq. apply HD. reflexivity.
      + assert (N : Fin b <> Fin BData).
        { intros X. injection X; intros; subst. cbn in E. discriminate. }
        rewrite lookup_fset_neq by exact N. rewrite lookup_fremove_neq by discriminate. exact D.
  Qed.

  (* ---- crash safety: the invariant holds after every prefix ---- *)
  Definition safe_from (st : fs) (ss : list step) : Prop := forall k, Inv (crash ss k st).

  Lemma safe_start st ss : safe_from st ss -> Inv st.
  Proof. intros H. exact (H 0). Qed.
  Lemma safe_end st ss : safe_from st ss -> Inv (run ss st).
  Proof. intros H. specialize (H (length ss)). unfold crash in H. rewrite firstn_all in H. exact H. Qed.
  Lemma safe_nil st : Inv st -> safe_from st [].
  Proof. intros H k. unfold crash. rewrite firstn_nil. exact H. Qed.
  Lemma safe_app st a b : safe_from st a -> safe_from (run a st) b -> safe_from st (a ++ b).
  Proof.
    intros Ha Hb k. unfold crash. destruct (Nat.le_gt_cases k (length a)) as [L|L].
    - rewrite firstn_app_le by exact L. apply Ha.
    - rewrite firstn_app_ge by lia. rewrite run_app. apply Hb.
  Qed.
  Lemma safe_harmless ss : forall st, Inv st -> Forall harmless ss -> safe_from st ss.
  Proof.
    induction ss as [|s ss IH]; intros st HI HF; [apply safe_nil, HI|]. inversion HF; subst.
    intros [|k]; [exact HI|]. unfold crash. cbn. apply (IH (apply st s)); [apply harmless_inv; assumption | assumption].
  Qed.
  Lemma inv_write st b p w :
    Inv st -> good (Fin b) (Whole p) -> (b = BData -> DataOk (Some (Whole p))) -> Inv (run (write b p w) st).
  Proof.
    intros HI HG HD. unfold write, run. cbn [fold_left].
    apply (inv_rename _ b w p); [| cbn [apply]; apply lookup_fset_eq | exact HG | exact HD].
    apply (harmless_inv _ (CompleteTmp (Tmp b w) p)); [|exact I].
    apply (harmless_inv _ (AppendTmp (Tmp b w))); [|exact I].
    apply (harmless_inv _ (CreateTmp (Tmp b w))); [exact HI | exact I].
  Qed.
  Lemma safe_write st b p w :
    Inv st -> good (Fin b) (Whole p) -> (b = BData -> DataOk (Some (Whole p))) -> safe_from st (write b p w).
  Proof.
    intros HI HG HD k.
    assert (H3 : safe_from st [CreateTmp (Tmp b w); AppendTmp (Tmp b w); CompleteTmp (Tmp b w) p]).
    { apply safe_harmless; [exact HI|]. repeat constructor. }
    destruct k as [|[|[|[|k]]]]; try exact (H3 0); try exact (H3 1); try exact (H3 2); try exact (H3 3).
    unfold crash, write. cbn [firstn]. rewrite firstn_nil. apply inv_write; assumption.
  Qed.
  Lemma safe_concat (blocks : list (list step)) : forall st,
    Inv st -> (forall blk, In blk blocks -> forall st', Inv st' -> safe_from st' blk) ->
    safe_from st (concat blocks).
  Proof.
    induction blocks as [|blk blocks IH]; intros st HI H; [apply safe_nil, HI|]. cbn.
    apply safe_app; [apply H; [left; reflexivity | exact HI]|].
    apply IH; [apply safe_end, H; [left; reflexivity | exact HI]|]. intros b Hb. apply H. right. exact Hb.
  Qed.

  (* ---- every operation is crash safe ---- *)
  Lemma mkdir_harmless st : Forall harmless (mkdir_steps st).
  Proof. unfold mkdir_steps. destruct (has_dir st DTop); repeat constructor. Qed.
  Lemma sow_safe st w : Inv st -> safe_from st (sow_steps st sw w).
  Proof.
    intros HI. unfold sow_steps, sow_files. apply safe_app; [apply safe_harmless; [exact HI | apply mkdir_harmless]|].
    set (st1 := run (mkdir_steps st) st).
    assert (H1 : Inv st1) by (apply safe_end, safe_harmless; [exact HI | apply mkdir_harmless]).
    apply safe_app; [apply safe_write; [exact H1 | reflexivity | discriminate]|].
    assert (H2 : Inv (run (write BFn PFn w) st1)) by (apply inv_write; [exact H1 | reflexivity | discriminate]).
    apply safe_app; [apply safe_write; [exact H2 | reflexivity | discriminate]|].
    apply safe_concat; [apply inv_write; [exact H2 | reflexivity | discriminate]|].
    intros blk Hb st' HI'. apply in_map_iff in Hb. destruct Hb as [[i b] [<- Hib]]. cbn [fst snd].
    apply safe_write; [exact HI' | exists b; split; [exact Hib | reflexivity] | discriminate].
  Qed.

  (* sow_samples on a crop that has results (repair D39): the earlier results are unlinked first, then sown anew *)
  Lemma dirs_run_unlinks (xs : list fname) : forall st, dirs (run (map Unlink xs) st) = dirs st.
  Proof.
    induction xs as [|x xs IH]; intros st; [reflexivity|]. unfold run. cbn [map fold_left].
    change (fold_left apply (map Unlink xs) (apply st (Unlink x))) with (run (map Unlink xs) (apply st (Unlink x))).
    rewrite IH. reflexivity.
  Qed.
  Lemma resow_safe st ids w : Inv st -> safe_from st (resow_samples_steps st ids sw w).
  Proof.
    intros HI. unfold resow_samples_steps.
    rewrite <- (map_map (fun i => Fin (BResult i)) Unlink ids).
    set (xs := map (fun i => Fin (BResult i)) ids).
    assert (Hh : Forall harmless (map Unlink xs)).
    { subst xs. rewrite map_map. apply Forall_forall. intros s Hs. apply in_map_iff in Hs as (i & <- & _). cbn. discriminate. }
    apply safe_app; [apply safe_harmless; assumption|].
    assert (Hs : sow_steps st sw w = sow_steps (run (map Unlink xs) st) sw w).
    { unfold sow_steps, mkdir_steps, has_dir. rewrite dirs_run_unlinks. reflexivity. }
    rewrite Hs. apply sow_safe. apply safe_end with (ss := map Unlink xs). apply safe_harmless; assumption.
  Qed.

  Lemma grow_block_safe st0 w i : Inv st0 -> forall st, Inv st -> safe_from st (grow_steps f st0 w i).
  Proof.
    intros H0 st HI. unfold grow_steps. destruct (has_dir st0 DRes); [|apply safe_nil, HI].
    destruct (readp st0 (Fin BFn)) as [[| | | | |]|]; try (apply safe_nil, HI).
    destruct (readp st0 (Fin (BBatch i))) as [[|  |cs| | |]|] eqn:E; try (apply safe_nil, HI).
    destruct cs as [|c cs]; [apply safe_nil, HI|].
    unfold readp in E. destruct (lookup st0 (Fin (BBatch i))) as [[p|]|] eqn:L; try discriminate.
    injection E; intros; subst p. destruct H0 as [_ [G _]]. destruct (G _ _ L) as [b [Hb Eb]].
    injection Eb; intros; subst b.
    apply safe_write; [exact HI | exists (c :: cs); split; [exact Hb | reflexivity] | discriminate].
  Qed.
  Lemma grow_safe st w ids : Inv st -> safe_from st (concat (map (grow_steps f st w) ids)).
  Proof.
    intros HI. apply safe_concat; [exact HI|]. intros blk Hb st' HI'. apply in_map_iff in Hb.
    destruct Hb as [i [<- _]]. apply grow_block_safe; assumption.
  Qed.

  Lemma check_bad_harmless st ns : Forall harmless (check_bad_go st ns).
  Proof.
    induction ns as [|x ns IH]; [constructor|]. cbn. destruct x as [b|b w]; [|exact IH].
    destruct b; try exact IH.
    destruct (readp st (Fin (BBatch i))) as [[| |cs| | |]|]; try constructor.
    apply Forall_app. split; [|exact IH].
    destruct (match lookup st (Fin (BResult i)) with
              | Some (Whole (PResult rs)) => negb (length rs =? length cs) | _ => true end);
      [constructor; [cbn; discriminate | constructor] | constructor].
  Qed.

  (* ---- what a reap computes under the invariant ---- *)
  Definition slot (st : fs) (ib : nat * list Z) : list (option Z) :=
    if present st (Fin (BResult (fst ib))) then map (fun c => Some (f c)) (snd ib)
    else map (fun _ => None) (snd ib).

  Lemma chain_sound st allow : Inv st -> forall l d,
    (forall ib, In ib l -> In ib (number sw)) ->
    reap_chain st allow (map fst l) = Some d ->
    d = concat (map (slot st) l)
    /\ (allow = false -> forall ib, In ib l -> present st (Fin (BResult (fst ib))) = true).
  Proof.
    intros [_ [G _]]. induction l as [|[i b] l IH]; intros d Hs H.
    - cbn in H. injection H; intros; subst. split; [reflexivity | intros _ ib []].
    - cbn [map fst reap_chain] in H.
      assert (Hib : In (i, b) (number sw)) by (apply Hs; left; reflexivity).
      destruct (lookup st (Fin (BResult i))) as [c|] eqn:L.
      + destruct (G _ _ L) as [b' [Hb' Ec]]. rewrite (number_fun sw i b' b Hb' Hib) in Ec. subst c.
        destruct (map f b) as [|r rs] eqn:Em; [discriminate|].
        destruct (reap_chain st allow (map fst l)) as [d'|] eqn:E; [|discriminate].
        injection H; intros; subst d. destruct (IH d' (fun ib X => Hs ib (or_intror X)) eq_refl) as [-> HP].
        split.
        * change (Some r :: map Some rs ++ concat (map (slot st) l))
            with (map Some (r :: rs) ++ concat (map (slot st) l)).
          rewrite <- Em.
          replace (concat (map (slot st) ((i, b) :: l))) with (slot st (i, b) ++ concat (map (slot st) l)) by reflexivity.
          f_equal. unfold slot. cbn [fst snd]. unfold present. rewrite L. rewrite map_map. reflexivity.
        * intros Ha ib [<-|X]; [cbn; unfold present; rewrite L; reflexivity | apply HP; assumption].
      + destruct allow; [|discriminate].
        destruct (readp st (Fin (BBatch i))) as [[| |cs| | |]|] eqn:R; try discriminate.
        destruct cs as [|c cs]; [discriminate|].
        destruct (reap_chain st true (map fst l)) as [d'|] eqn:E; [|discriminate].
        injection H; intros; subst d. destruct (IH d' (fun ib X => Hs ib (or_intror X)) eq_refl) as [-> HP].
        split; [|discriminate].
        replace (concat (map (slot st) ((i, b) :: l))) with (slot st (i, b) ++ concat (map (slot st) l)) by reflexivity.
        f_equal. unfold slot. cbn [fst snd]. unfold present. rewrite L.
        unfold readp in R. destruct (lookup st (Fin (BBatch i))) as [[p|]|] eqn:L2; try discriminate.
        injection R; intros; subst p. destruct (G _ _ L2) as [b' [Hb' Eb]].
        rewrite (number_fun sw i b' b Hb' Hib) in Eb. injection Eb; intros; subst b. reflexivity.
  Qed.

  Definition partial (st : fs) : list (option Z) := concat (map (slot st) (number sw)).

  Lemma info_inv st : Inv st -> forall c, lookup st (Fin BInfo) = Some c -> c = Whole (PInfo sw).
  Proof. intros [_ [G _]] c H. exact (G _ _ H). Qed.

  Lemma reap_val_sound st allow d :
    Inv st -> reap_val st allow = Value d -> if allow then d = partial st else d = direct f sw.
  Proof.
    intros HI H. unfold reap_val in H. destruct (lookup st (Fin BInfo)) as [c|] eqn:L; [|discriminate].
    rewrite (info_inv st HI c L) in H.
    destruct (negb (allow || ready st)); [discriminate|].
    destruct (allow && (num_results st =? 0))%bool; [discriminate|].
    destruct (reap_chain st allow (seq 1 (length sw))) as [d'|] eqn:E; [|discriminate].
    destruct (length d' =? length (concat sw)); [|discriminate]. injection H; intros; subst d'.
    unfold number in *. rewrite <- (number_fst 1 sw) in E.
    destruct (chain_sound st allow HI _ d (fun ib X => X) E) as [-> HP].
    destruct allow; [reflexivity|].
    unfold direct. rewrite <- (number_snd 1 sw) at 2. rewrite <- concat_map_snd. f_equal.
    apply map_ext_in. intros ib Hib. unfold slot. rewrite (HP eq_refl ib Hib). reflexivity.
  Qed.

  Lemma later_reap_val k allow st d : later_reap k allow st = Value d -> reap_val st allow = Value d.
  Proof.
    unfold later_reap. destruct (reap_val st allow) as [| |d']; try discriminate.
    destruct (sync_steps k st (got (codes_of st) d')); [auto | discriminate].
  Qed.

  Lemma got_direct : got (concat sw) (direct f sw) = newd.
  Proof.
    unfold got, direct, newd, new_data. generalize (concat sw). intros l.
    induction l as [|c l IH]; [reflexivity|]. cbn. f_equal. exact IH.
  Qed.
  Lemma codes_inv st : Inv st -> present st (Fin BInfo) = true -> codes_of st = concat sw.
  Proof.
    intros HI P. unfold codes_of, readp. unfold present in P.
    destruct (lookup st (Fin BInfo)) as [c|] eqn:L; [|discriminate]. rewrite (info_inv st HI c L). reflexivity.
  Qed.
  Lemma reap_val_value_info st allow d : reap_val st allow = Value d -> present st (Fin BInfo) = true.
  Proof. unfold reap_val, present. destruct (lookup st (Fin BInfo)); [reflexivity | discriminate]. Qed.

  (* under the invariant the harvester always ends up writing the merged data *)
  Lemma harvest_sync st : Inv st -> kd = KHarvester ->
    sync_steps KHarvester st newd = Some (write BData (PData merged) 0).
  Proof.
    intros [_ [_ D]] Hk. unfold DataOk in D. rewrite Hk in D. cbn [sync_steps]. unfold merged in *.
    destruct old as [od|].
    - destruct D as [-> | ->].
      + unfold merge. rewrite no_conflict. reflexivity.
      + rewrite (merge_idem od newd no_conflict newd_fun). reflexivity.
    - destruct D as [-> | ->]; [reflexivity|]. rewrite (merge_new_new newd newd_fun). reflexivity.
  Qed.

  Definition delstep (s : step) : Prop :=
    (exists d, s = Rmdir d) \/ exists x, s = Unlink x /\ is_crop_name x = true.
  Lemma delstep_harmless s : delstep s -> harmless s.
  Proof. intros [[d ->]|[x [-> H]]]; [exact I|]. cbn. intros ->. discriminate. Qed.

  Lemma reap_safe st del : Inv st -> Forall delstep del -> safe_from st (reap_steps kd false del st).
  Proof.
    intros HI HD. unfold reap_steps. destruct (reap_val st false) as [| |d] eqn:E; try (apply safe_nil, HI).
    pose proof (reap_val_sound st false d HI E) as Ed. cbn in Ed. subst d.
    rewrite (codes_inv st HI (reap_val_value_info _ _ _ E)). rewrite got_direct.
    assert (HDel : forall st', Inv st' -> safe_from st' del).
    { intros st' H'. apply safe_harmless; [exact H'|]. eapply Forall_impl; [|exact HD]. apply delstep_harmless. }
    destruct kd eqn:Ek.
    - cbn. apply HDel, HI.
    - cbn. apply HDel, HI.
    - rewrite (harvest_sync st HI Ek).
      assert (DOK : DataOk (Some (Whole (PData merged)))).
      { unfold DataOk. rewrite Ek. destruct old; right; reflexivity. }
      apply safe_app; [apply safe_write; [exact HI | exact I | intros _; exact DOK]|].
      apply HDel. apply inv_write; [exact HI | exact I | intros _; exact DOK].
    - cbn [sync_steps]. destruct (lookup st (Fin BTable)) as [[[| | | | |rows]|]|]; try (apply safe_nil, HI).
      + apply safe_app; [apply safe_write; [exact HI | eexists; reflexivity | discriminate]|].
        apply HDel. apply inv_write; [exact HI | eexists; reflexivity | discriminate].
      + apply safe_app; [apply safe_write; [exact HI | eexists; reflexivity | discriminate]|].
        apply HDel. apply inv_write; [exact HI | eexists; reflexivity | discriminate].
  Qed.

  (* ------------------------------------------------------------------ recovery *)
  (* the sown files are complete *)
  Definition Sown (st : fs) : Prop :=
    lookup st (Fin BInfo) = Some (Whole (PInfo sw)) /\ lookup st (Fin BFn) = Some (Whole PFn)
    /\ forall i b, In (i, b) (number sw) -> lookup st (Fin (BBatch i)) = Some (Whole (PBatch b)).
  Definition Grown (st : fs) : Prop :=
    forall i b, In (i, b) (number sw) -> lookup st (Fin (BResult i)) = Some (Whole (PResult (map f b))).

  (* ... and the results directory exists (grow cannot write without it) *)
  Definition SownD (st : fs) : Prop := Sown st /\ has_dir st DRes = true.

  Definition filestep (s : step) : Prop := match s with Mkdir _ | Rmdir _ => False | _ => True end.
  Lemma dirs_apply_file st s : filestep s -> dirs (apply st s) = dirs st.
  Proof. destruct s; cbn; try contradiction; try reflexivity. intros _. destruct (lookup st a); reflexivity. Qed.
  Lemma dirs_run_files ss : forall st, Forall filestep ss -> dirs (run ss st) = dirs st.
  Proof.
    induction ss as [|s ss IH]; intros st H; [reflexivity|]. inversion H; subst. cbn.
    rewrite IH by assumption. apply dirs_apply_file. assumption.
  Qed.
  Lemma write_filesteps b p w' : Forall filestep (write b p w').
  Proof. repeat constructor. Qed.
  Lemma writes_filesteps l w' : Forall filestep (writes l w').
  Proof.
    unfold writes. apply Forall_concat. apply Forall_forall. intros blk H. apply in_map_iff in H.
    destruct H as [bp [<- _]]. apply write_filesteps.
  Qed.
  Lemma has_dir_same st st' d : dirs st' = dirs st -> has_dir st' d = has_dir st d.
  Proof. unfold has_dir. intros ->. reflexivity. Qed.

  Lemma sown_ok_sown st : Inv st -> sown_ok st = true -> SownD st.
  Proof.
    intros HI H. unfold sown_ok in H. apply andb_true_iff in H. destruct H as [HDirs H].
    apply andb_true_iff in HDirs. destruct HDirs as [_ HRes]. split; [|exact HRes]. unfold readp in H.
    destruct (lookup st (Fin BInfo)) as [[pi|]|] eqn:L1; try discriminate.
    pose proof (info_inv st HI _ L1) as E. injection E; intros; subst pi.
    destruct (lookup st (Fin BFn)) as [[pf|]|] eqn:L2; try discriminate.
    destruct pf; try discriminate.
    split; [exact L1|]. split; [exact L2|]. intros i b Hib.
    rewrite forallb_forall in H. specialize (H i (number_range sw i b Hib)).
    destruct (lookup st (Fin (BBatch i))) as [[pb|]|] eqn:L3; try discriminate.
    destruct HI as [_ [G _]]. destruct (G _ _ L3) as [b' [Hb' Eb]].
    rewrite (number_fun sw i b' b Hb' Hib) in Eb. rewrite Eb. reflexivity.
  Qed.

  Definition batch_writes : list (base * payload) :=
    map (fun ib => (BBatch (fst ib), PBatch (snd ib))) (number sw).
  Lemma sow_files_writes w :
    sow_files sw w = write BFn PFn w ++ write BInfo (PInfo sw) w ++ writes batch_writes w.
  Proof. unfold sow_files, writes, batch_writes. rewrite map_map. reflexivity. Qed.
  Lemma batch_writes_fst : map fst batch_writes = map BBatch (map fst (number sw)).
  Proof. unfold batch_writes. rewrite !map_map. reflexivity. Qed.

  Lemma has_dir_mkdir s d : has_dir (apply s (Mkdir d)) d = true.
  Proof.
    unfold has_dir. cbn [apply dirs]. unfold has_dir. destruct (existsb (dname_eqb d) (dirs s)) eqn:E; [exact E|].
    cbn. destruct d; reflexivity.
  Qed.
  Lemma mkdir_makes_results st : has_dir (run (mkdir_steps st) st) DRes = true.
  Proof.
    unfold mkdir_steps. rewrite run_app. set (s0 := run _ st).
    change (run [Mkdir DBat; Mkdir DRes] s0) with (apply (apply s0 (Mkdir DBat)) (Mkdir DRes)). apply has_dir_mkdir.
  Qed.
  Lemma sow_sown_d st w : SownD (run (sow_steps st sw w) st).
  Proof.
    assert (HS : Sown (run (sow_steps st sw w) st)); [|split; [exact HS|]].
    2:{ unfold sow_steps. rewrite run_app. rewrite (has_dir_same (run (mkdir_steps st) st)); [apply mkdir_makes_results|].
        apply dirs_run_files. rewrite sow_files_writes. apply Forall_app. split; [apply write_filesteps|].
        apply Forall_app. split; [apply write_filesteps | apply writes_filesteps]. }
    unfold sow_steps. rewrite sow_files_writes. rewrite !run_app. set (s0 := run (mkdir_steps st) st).
    assert (NB : forall c, (forall i, c <> BBatch i) -> ~ In c (map fst batch_writes)).
    { intros c Hc X. rewrite batch_writes_fst in X. apply in_map_iff in X. destruct X as [i [E _]].
      apply (Hc i). symmetry. exact E. }
    split; [|split].
    - rewrite lookup_writes_other by (apply NB; discriminate). rewrite lookup_run_write_fin. reflexivity.
    - rewrite lookup_writes_other by (apply NB; discriminate). rewrite !lookup_run_write_fin. reflexivity.
    - intros i b Hib. apply lookup_writes_in.
      + rewrite batch_writes_fst. apply Injective_map_NoDup; [intros x y E; injection E; auto | apply number_nodup].
      + unfold batch_writes. apply in_map_iff. exists (i, b). split; [reflexivity | exact Hib].
  Qed.

  Lemma check_bad_nil st : Inv st -> Sown st -> check_bad_steps st = [].
  Proof.
    intros HI [_ [_ HB]]. unfold check_bad_steps.
    assert (G : forall ns, (forall x, In x ns -> In x (names st)) -> check_bad_go st ns = []).
    { induction ns as [|x ns IH]; intros Hs; [reflexivity|]. cbn.
      assert (IH' : check_bad_go st ns = []) by (apply IH; intros y Hy; apply Hs; right; exact Hy).
      destruct x as [b|b w]; [|exact IH']. destruct b; try exact IH'.
      assert (Hin : In (Fin (BResult i)) (names st)) by (apply Hs; left; reflexivity).
      apply names_lookup in Hin. destruct (lookup st (Fin (BResult i))) as [c|] eqn:L; [|congruence].
      destruct HI as [_ [G _]]. destruct (G _ _ L) as [b [Hb Ec]]. subst c.
      unfold readp. rewrite (HB i b Hb). rewrite map_length, Nat.eqb_refl. cbn. exact IH'. }
    apply G. auto.
  Qed.

  Lemma filter_map_fst {B} (P : nat -> bool) (l : list (nat * B)) :
    map fst (filter (fun ib => P (fst ib)) l) = filter P (map fst l).
  Proof.
    induction l as [|[i b] l IH]; [reflexivity|]. cbn. destruct (P i); cbn; [f_equal|]; exact IH.
  Qed.

  Definition miss_pairs (st : fs) : list (nat * list Z) :=
    filter (fun ib => negb (present st (Fin (BResult (fst ib))))) (number sw).
  Definition result_writes (st : fs) : list (base * payload) :=
    map (fun ib => (BResult (fst ib), PResult (map f (snd ib)))) (miss_pairs st).

  Lemma grow_steps_sown st w i b : SownD st -> In (i, b) (number sw) ->
    grow_steps f st w i = write (BResult i) (PResult (map f b)) w.
  Proof.
    intros [[_ [HF HB]] HDir] Hib. unfold grow_steps, readp. rewrite HDir, HF, (HB i b Hib).
    assert (b <> []).
    { rewrite Forall_forall in batches_nonempty. apply batches_nonempty. eapply number_in_sweep, Hib. }
    destruct b; [contradiction | reflexivity].
  Qed.
  Lemma grow_missing_writes st w : SownD st -> grow_missing_steps f st w = writes (result_writes st) w.
  Proof.
    intros HSD. pose proof (proj1 HSD) as HS.
    unfold grow_missing_steps, missing, readp. destruct HS as [HInfo HS']. rewrite HInfo.
    unfold writes, result_writes, miss_pairs. rewrite map_map.
    rewrite <- (number_fst 1 sw). fold (number sw).
    rewrite <- (filter_map_fst (fun i => negb (present st (Fin (BResult i))))). rewrite map_map.
    f_equal. apply map_ext_in. intros [i b] Hib. apply filter_In in Hib. destruct Hib as [Hib _]. cbn [fst snd].
    apply grow_steps_sown; [exact HSD | exact Hib].
  Qed.

  Lemma grow_missing_complete st w : Inv st -> SownD st ->
    Inv (run (grow_missing_steps f st w) st) /\ Sown (run (grow_missing_steps f st w) st)
    /\ Grown (run (grow_missing_steps f st w) st).
  Proof.
    intros HI HSD. pose proof (proj1 HSD) as HS.
    split; [apply safe_end; unfold grow_missing_steps; apply grow_safe, HI|].
    rewrite (grow_missing_writes st w HSD).
    assert (NR : forall c, (forall i, c <> BResult i) -> ~ In c (map fst (result_writes st))).
    { intros c Hc X. unfold result_writes in X. rewrite map_map in X. apply in_map_iff in X.
      destruct X as [ib [E _]]. apply (Hc (fst ib)). symmetry. exact E. }
    split.
    - destruct HS as [H1 [H2 H3]]. split; [|split].
      + rewrite lookup_writes_other by (apply NR; discriminate). exact H1.
      + rewrite lookup_writes_other by (apply NR; discriminate). exact H2.
      + intros i b Hib. rewrite lookup_writes_other by (apply NR; discriminate). apply H3, Hib.
    - intros i b Hib. destruct (present st (Fin (BResult i))) eqn:P.
      + rewrite lookup_writes_other.
        * unfold present in P. destruct (lookup st (Fin (BResult i))) as [c|] eqn:L; [|discriminate].
          destruct HI as [_ [G _]]. destruct (G _ _ L) as [b' [Hb' Ec]].
          rewrite (number_fun sw i b' b Hb' Hib) in Ec. rewrite Ec. reflexivity.
        * intros X. unfold result_writes in X. rewrite map_map in X. apply in_map_iff in X.
          destruct X as [[j c] [E Hj]]. cbn in E. injection E; intros; subst j.
          unfold miss_pairs in Hj. apply filter_In in Hj. destruct Hj as [_ Hj]. cbn in Hj. rewrite P in Hj. discriminate.
      + apply lookup_writes_in.
        * unfold result_writes. rewrite map_map. cbn [fst].
          replace (map (fun x : nat * list Z => BResult (fst x)) (miss_pairs st))
            with (map BResult (map fst (miss_pairs st))) by (rewrite map_map; reflexivity).
          apply Injective_map_NoDup; [intros x y E; injection E; auto|].
          unfold miss_pairs. rewrite (filter_map_fst (fun i => negb (present st (Fin (BResult i))))).
          apply NoDup_filter, number_nodup.
        * unfold result_writes. apply in_map_iff. exists (i, b). split; [reflexivity|].
          unfold miss_pairs. apply filter_In. split; [exact Hib|]. cbn. rewrite P. reflexivity.
  Qed.

  Lemma count_exact (P : fname -> bool) (mk : nat -> fname) (l : list fname) (n : nat) :
    NoDup l -> (forall i j, mk i = mk j -> i = j) ->
    (forall x, In x l -> P x = true -> exists i, x = mk i /\ In i (seq 1 n)) ->
    (forall i, In i (seq 1 n) -> In (mk i) l /\ P (mk i) = true) ->
    length (filter P l) = n.
  Proof.
    intros ND Inj H1 H2.
    assert (H : Permutation (filter P l) (map mk (seq 1 n))).
    { apply NoDup_Permutation.
      - apply NoDup_filter, ND.
      - apply Injective_map_NoDup; [exact Inj | apply seq_NoDup].
      - intros x. rewrite filter_In, in_map_iff. split.
        + intros [Hx Px]. destruct (H1 x Hx Px) as [i [-> Hi]]. exists i. auto.
        + intros [i [<- Hi]]. apply H2, Hi. }
    rewrite (Permutation_length H). rewrite map_length, seq_length. reflexivity.
  Qed.

  Lemma count_sown st : Inv st -> Sown st -> num_sown st = length sw.
  Proof.
    intros [ND [G _]] [_ [_ HB]]. unfold num_sown.
    apply (count_exact is_batch (fun i => Fin (BBatch i))); [exact ND | intros i j E; injection E; auto | |].
    - intros x Hx Px. destruct x as [[]|]; try discriminate. exists i. split; [reflexivity|].
      apply names_lookup in Hx. destruct (lookup st (Fin (BBatch i))) as [c|] eqn:L; [|congruence].
      destruct (G _ _ L) as [b [Hb _]]. eapply number_range, Hb.
    - intros i Hi. split; [|reflexivity]. destruct (number_total sw i Hi) as [b Hb].
      apply names_lookup. rewrite (HB i b Hb). discriminate.
  Qed.
  Lemma count_grown st : Inv st -> Grown st -> num_results st = length sw.
  Proof.
    intros [ND [G _]] HR. unfold num_results.
    apply (count_exact is_result (fun i => Fin (BResult i))); [exact ND | intros i j E; injection E; auto | |].
    - intros x Hx Px. destruct x as [[]|]; try discriminate. exists i. split; [reflexivity|].
      apply names_lookup in Hx. destruct (lookup st (Fin (BResult i))) as [c|] eqn:L; [|congruence].
      destruct (G _ _ L) as [b [Hb _]]. eapply number_range, Hb.
    - intros i Hi. split; [|reflexivity]. destruct (number_total sw i Hi) as [b Hb].
      apply names_lookup. rewrite (HR i b Hb). discriminate.
  Qed.

  Lemma chain_complete st : Grown st -> forall l, (forall ib, In ib l -> In ib (number sw)) ->
    reap_chain st false (map fst l) = Some (concat (map (fun ib => map (fun c => Some (f c)) (snd ib)) l)).
  Proof.
    intros HR. induction l as [|[i b] l IH]; intros Hs; [reflexivity|].
    assert (Hib : In (i, b) (number sw)) by (apply Hs; left; reflexivity).
    cbn [map fst reap_chain]. rewrite (HR i b Hib).
    assert (b <> []).
    { rewrite Forall_forall in batches_nonempty. apply batches_nonempty. eapply number_in_sweep, Hib. }
    destruct b as [|c cs]; [contradiction|]. cbn [map].
    rewrite IH by (intros ib X; apply Hs; right; exact X). cbn [concat map snd]. rewrite map_map. reflexivity.
  Qed.

  Lemma complete_reap st : Inv st -> Sown st -> Grown st -> reap_val st false = Value (direct f sw).
  Proof.
    intros HI HS HR. unfold reap_val. destruct HS as [HInfo HS']. rewrite HInfo.
    assert (RD : ready st = true).
    { unfold ready, present. rewrite HInfo. rewrite (count_grown st HI HR), (count_sown st HI (conj HInfo HS')).
      rewrite Nat.eqb_refl. destruct sw; [contradiction|]. reflexivity. }
    rewrite RD. cbn [orb negb andb].
    rewrite <- (number_fst 1 sw). fold (number sw). rewrite (chain_complete st HR (number sw) (fun ib X => X)).
    rewrite concat_map_snd. unfold number. rewrite number_snd. rewrite map_length, Nat.eqb_refl. reflexivity.
  Qed.

  (* ---- the whole procedure ---- *)
  Variable w : nat.
  Variable delf : fs -> list step.
  Hypothesis delf_ok : forall s, Permutation (delf s) (del_canon s).

  Lemma del_canon_delstep s : Forall delstep (del_canon s).
  Proof.
    unfold del_canon. apply Forall_app. split.
    - apply Forall_forall. intros x Hx. apply in_map_iff in Hx. destruct Hx as [y [<- Hy]].
      right. exists y. split; [reflexivity|]. unfold crop_names in Hy. apply filter_In in Hy. tauto.
    - constructor; [left; eexists; reflexivity|]. constructor; [left; eexists; reflexivity|].
      constructor; [left; eexists; reflexivity | constructor].
  Qed.
  Lemma delf_delstep s : Forall delstep (delf s).
  Proof. eapply Permutation_Forall; [apply Permutation_sym, delf_ok | apply del_canon_delstep]. Qed.

  Lemma rec_st1_props st : Inv st -> Inv (rec_st1 sw w st) /\ SownD (rec_st1 sw w st).
  Proof.
    intros HI. unfold rec_st1, rec_s1. destruct (sown_ok st) eqn:E.
    - cbn. split; [exact HI | apply sown_ok_sown; assumption].
    - split; [apply safe_end, sow_safe, HI | apply sow_sown_d].
  Qed.
  Lemma rec_st2_eq st : Inv st -> rec_st2 sw w st = rec_st1 sw w st.
  Proof.
    intros HI. unfold rec_st2. destruct (rec_st1_props st HI) as [H1 H2]. rewrite (check_bad_nil _ H1 (proj1 H2)). reflexivity.
  Qed.
  Lemma rec_st3_props st : Inv st ->
    Inv (rec_st3 f sw w st) /\ Sown (rec_st3 f sw w st) /\ Grown (rec_st3 f sw w st).
  Proof.
    intros HI. unfold rec_st3. rewrite (rec_st2_eq st HI). destruct (rec_st1_props st HI) as [H1 H2].
    apply grow_missing_complete; assumption.
  Qed.

  Lemma sync_after_recovery st : Inv st -> Sown st -> Grown st ->
    exists ss, sync_steps kd st newd = Some ss.
  Proof.
    intros HI HS HR. destruct kd eqn:Ek; try (eexists; reflexivity).
    - rewrite (harvest_sync st HI Ek). eexists; reflexivity.
    - cbn. destruct (lookup st (Fin BTable)) as [c|] eqn:L; [|eexists; reflexivity].
      destruct HI as [_ [G _]]. destruct (G _ _ L) as [rows ->]. eexists; reflexivity.
  Qed.

  Theorem recover_exact st : Inv st -> recover_outcome f kd sw w st = Value (direct f sw).
  Proof.
    intros HI. unfold recover_outcome, later_reap. destruct (rec_st3_props st HI) as [H3 [S3 R3]].
    rewrite (complete_reap _ H3 S3 R3).
    rewrite (codes_inv _ H3) by (unfold present; destruct S3 as [-> _]; reflexivity). rewrite got_direct.
    destruct (sync_after_recovery _ H3 S3 R3) as [ss ->]. reflexivity.
  Qed.

  Lemma recover_safe st : Inv st -> safe_from st (recover_steps f kd sw w delf st).
  Proof.
    intros HI. unfold recover_steps. destruct (rec_st1_props st HI) as [H1 S1].
    apply safe_app.
    { unfold rec_s1. destruct (sown_ok st); [apply safe_nil, HI | apply sow_safe, HI]. }
    fold (rec_st1 sw w st). apply safe_app.
    { apply safe_harmless; [exact H1 | apply check_bad_harmless]. }
    fold (rec_st2 sw w st). assert (H2 : Inv (rec_st2 sw w st)) by (rewrite rec_st2_eq; assumption).
    apply safe_app.
    { unfold grow_missing_steps. apply grow_safe, H2. }
    fold (rec_st3 f sw w st). apply reap_safe; [apply (rec_st3_props st HI) | apply delf_delstep].
  Qed.

  Lemma recover_final_eq st :
    recover_final f kd sw w delf st
    = run (reap_steps kd false (delf (rec_st3 f sw w st)) (rec_st3 f sw w st)) (rec_st3 f sw w st).
  Proof. unfold recover_final, recover_steps. rewrite !run_app. reflexivity. Qed.

  Lemma final_reap_steps st : Inv st -> Sown st -> Grown st -> forall del,
    exists ss, sync_steps kd st newd = Some ss /\ reap_steps kd false del st = ss ++ del.
  Proof.
    intros HI HS HR del. destruct (sync_after_recovery st HI HS HR) as [ss E]. exists ss. split; [exact E|].
    unfold reap_steps. rewrite (complete_reap st HI HS HR).
    rewrite (codes_inv st HI) by (unfold present; destruct HS as [-> _]; reflexivity). rewrite got_direct, E. reflexivity.
  Qed.

  Lemma delstep_avoids_sink s b : delstep s -> (b = BData \/ b = BTable) -> avoids (Fin b) s.
  Proof.
    intros [[d ->]|[x [-> Hx]]] Hb; [exact I|]. cbn. intros ->. destruct Hb; subst; discriminate.
  Qed.

  (* the harvester's file ends up holding exactly the merged data *)
  Theorem recover_final_data st : Inv st -> kd = KHarvester ->
    lookup (recover_final f kd sw w delf st) (Fin BData) = Some (Whole (PData merged)).
  Proof.
    intros HI Hk. rewrite recover_final_eq. destruct (rec_st3_props st HI) as [H3 [S3 R3]].
    destruct (final_reap_steps _ H3 S3 R3 (delf (rec_st3 f sw w st))) as [ss [E ->]].
    rewrite Hk in E. rewrite (harvest_sync _ H3 Hk) in E. injection E; intros; subst ss.
    rewrite run_app. rewrite run_avoids.
    - rewrite lookup_run_write_fin. reflexivity.
    - eapply Forall_impl; [|apply delf_delstep]. intros s Hs. apply delstep_avoids_sink; [exact Hs | left; reflexivity].
  Qed.

  (* ---- the steps of sow / grow / check_bad never touch the harvester's file or the sampler's table ---- *)
  Definition sinkb (b : base) : Prop := b = BData \/ b = BTable.
  Lemma write_avoids_sink c p w' b : sinkb b -> ~ sinkb c -> Forall (avoids (Fin b)) (write c p w').
  Proof.
    intros Hb Hc. apply write_avoids; [|discriminate]. intros E. injection E; intros; subst. contradiction.
  Qed.
  Lemma sow_avoids_sink st0 w' b : sinkb b -> Forall (avoids (Fin b)) (sow_steps st0 sw w').
  Proof.
    intros Hb. unfold sow_steps, sow_files. apply Forall_app.
    split; [unfold mkdir_steps; destruct (has_dir st0 DTop); repeat constructor|].
    apply Forall_app. split; [apply write_avoids_sink; [exact Hb | intros [X|X]; discriminate]|].
    apply Forall_app. split; [apply write_avoids_sink; [exact Hb | intros [X|X]; discriminate]|].
    apply Forall_concat. apply Forall_forall. intros blk Hblk. apply in_map_iff in Hblk.
    destruct Hblk as [ib [<- _]]. apply write_avoids_sink; [exact Hb | intros [X|X]; discriminate].
  Qed.
  Lemma grow_avoids_sink st0 w' i b : sinkb b -> Forall (avoids (Fin b)) (grow_steps f st0 w' i).
  Proof.
    intros Hb. unfold grow_steps. destruct (has_dir st0 DRes); [|apply Forall_nil].
    destruct (readp st0 (Fin BFn)) as [[| | | | |]|]; try apply Forall_nil.
    destruct (readp st0 (Fin (BBatch i))) as [[| |[|c cs]| | |]|]; try apply Forall_nil.
    apply write_avoids_sink; [exact Hb | intros [X|X]; discriminate].
  Qed.
  Lemma grows_avoid_sink st0 w' ids b : sinkb b -> Forall (avoids (Fin b)) (concat (map (grow_steps f st0 w') ids)).
  Proof.
    intros Hb. apply Forall_concat. apply Forall_forall. intros blk Hblk. apply in_map_iff in Hblk.
    destruct Hblk as [i [<- _]]. apply grow_avoids_sink, Hb.
  Qed.
  Lemma check_bad_avoids_sink st0 ns b : sinkb b -> Forall (avoids (Fin b)) (check_bad_go st0 ns).
  Proof.
    intros Hb. induction ns as [|x ns IH]; [constructor|]. cbn. destruct x as [c|c w']; [|exact IH].
    destruct c; try exact IH.
    destruct (readp st0 (Fin (BBatch i))) as [[| |cs| | |]|]; try apply Forall_nil.
    apply Forall_app. split; [|exact IH].
    destruct (match lookup st0 (Fin (BResult i)) with
              | Some (Whole (PResult rs)) => negb (length rs =? length cs) | _ => true end); [|apply Forall_nil].
    constructor; [|constructor]. cbn. intros E. injection E; intros; subst. destruct Hb; discriminate.
  Qed.

  Lemma rec_st3_sink st b : sinkb b -> lookup (rec_st3 f sw w st) (Fin b) = lookup st (Fin b).
  Proof.
    intros Hb. unfold rec_st3, rec_st2, rec_st1.
    rewrite run_avoids by (unfold grow_missing_steps; apply grows_avoid_sink, Hb).
    rewrite run_avoids by (apply check_bad_avoids_sink, Hb).
    rewrite run_avoids; [reflexivity|]. unfold rec_s1. destruct (sown_ok st); [constructor | apply sow_avoids_sink, Hb].
  Qed.

  (* the sampler's table ends up with the crop's rows appended to what it held *)
  Theorem recover_final_table st o : Inv st -> kd = KSampler ->
    lookup st (Fin BTable) = option_map (fun r => Whole (PTable r)) o ->
    lookup (recover_final f kd sw w delf st) (Fin BTable)
    = Some (Whole (PTable (match o with Some r => r | None => [] end ++ newd))).
  Proof.
    intros HI Hk HT. rewrite recover_final_eq. destruct (rec_st3_props st HI) as [H3 [S3 R3]].
    destruct (final_reap_steps _ H3 S3 R3 (delf (rec_st3 f sw w st))) as [ss [E ->]].
    rewrite Hk in E. cbn [sync_steps] in E. rewrite (rec_st3_sink st BTable (or_intror eq_refl)), HT in E.
    rewrite run_app. rewrite run_avoids.
    2:{ eapply Forall_impl; [|apply delf_delstep]. intros s Hs. apply delstep_avoids_sink; [exact Hs | right; reflexivity]. }
    destruct o as [r|]; cbn in E; injection E; intros; subst ss; rewrite lookup_run_write_fin; reflexivity.
  Qed.

  Lemma run_del_gone del : forall s x, Forall delstep del ->
    (lookup s x = None \/ In (Unlink x) del) -> lookup (run del s) x = None.
  Proof.
    induction del as [|d del IH]; intros s x HF H; [destruct H as [H|[]]; exact H|].
    inversion HF; subst. change (run (d :: del) s) with (run del (apply s d)). apply IH; [assumption|].
    destruct H2 as [[dn ->]|[y [-> Hy]]].
    - change (lookup (apply s (Rmdir dn)) x) with (lookup s x).
      destruct H as [H|[X|X]]; [left; exact H | discriminate | right; exact X].
    - cbn [apply]. destruct (fname_eq_dec y x) as [->|N].
      + left. apply lookup_fremove_eq.
      + rewrite lookup_fremove_neq by exact N. destruct H as [H|[X|X]]; [left; exact H | | right; exact X].
        injection X; intros; contradiction.
  Qed.

  (* and the crop directory is empty *)
  Theorem recover_final_deleted st x : Inv st -> is_crop_name x = true ->
    lookup (recover_final f kd sw w delf st) x = None.
  Proof.
    intros HI Hx. rewrite recover_final_eq. destruct (rec_st3_props st HI) as [H3 [S3 R3]].
    set (s3 := rec_st3 f sw w st) in *.
    destruct (final_reap_steps _ H3 S3 R3 (delf s3)) as [ss [E ->]].
    rewrite run_app. apply run_del_gone; [apply delf_delstep|].
    assert (SS : Forall (avoids x) ss).
    { destruct kd eqn:Ek.
      - cbn [sync_steps] in E. injection E; intros; subst; constructor.
      - cbn [sync_steps] in E. injection E; intros; subst; constructor.
      - rewrite (harvest_sync _ H3 Ek) in E. injection E; intros; subst.
        apply write_avoids; intros ->; discriminate.
      - cbn [sync_steps] in E. destruct (lookup s3 (Fin BTable)) as [[[| | | | |rows]|]|]; try discriminate;
          injection E; intros; subst; apply write_avoids; intros ->; discriminate. }
    rewrite run_avoids by exact SS.
    destruct (lookup s3 x) as [c|] eqn:L; [right | left; reflexivity].
    apply (Permutation_in _ (Permutation_sym (delf_ok s3))). unfold del_canon. apply in_or_app. left.
    apply in_map. unfold crop_names. apply filter_In. split; [|exact Hx]. apply names_lookup. congruence.
  Qed.

  (* ---- states reachable by any number of crashed (or completed) operations ---- *)
  Inductive valid_op (st : fs) : op -> Prop :=
  | v_sow w' : valid_op st (OSow sw w')
  | v_grow ids w' : valid_op st (OGrow ids w')
  | v_grow_missing w' : valid_op st (OGrowMissing w')
  | v_check_bad : valid_op st OCheckBad
  | v_reap del : Permutation del (del_canon st) -> valid_op st (OReap kd del).

  Lemma op_safe st o : Inv st -> valid_op st o -> safe_from st (steps_of f o st).
  Proof.
    intros HI [w'|ids w'|w'| |del Hp]; cbn [steps_of].
    - apply sow_safe, HI.
    - apply grow_safe, HI.
    - unfold grow_missing_steps. apply grow_safe, HI.
    - apply safe_harmless; [exact HI | apply check_bad_harmless].
    - apply reap_safe; [exact HI|]. eapply Permutation_Forall; [apply Permutation_sym, Hp | apply del_canon_delstep].
  Qed.
End Inv.

(* ------------------------------------------------------------------ reachable states *)
Section Reach.
  Variable f : Z -> Z.
  Variable sw : sweep.
  Variable kd : kind.
  Variable old : option pdata.       (* the harvester's file before the crop *)
  Variable tab : option pdata.       (* the sampler's table before the crop *)
  Hypothesis no_conflict : match old with Some od => conflict od (newd f sw) = false | None => True end.
  Hypothesis batches_nonempty : Forall (fun b => b <> []) sw.

  Definition base_state : fs :=
    mk_fs [] (match old with Some od => [(Fin BData, Whole (PData od))] | None => [] end
             ++ match tab with Some r => [(Fin BTable, Whole (PTable r))] | None => [] end).

  (* any number of operations, each possibly killed after any number of its steps (k beyond the
     last step = it completed), and any number of recoveries, each possibly killed likewise *)
  Inductive reachable : fs -> Prop :=
  | r_base : reachable base_state
  | r_op st o k : reachable st -> valid_op sw kd st o -> reachable (crash (steps_of f o st) k st)
  | r_recover st w delf k : reachable st -> (forall s, Permutation (delf s) (del_canon s)) ->
      reachable (crash (recover_steps f kd sw w delf st) k st)
  | r_resow st ids w k : reachable st -> reachable (crash (resow_samples_steps st ids sw w) k st).

  Lemma base_inv : Inv f sw kd old base_state.
  Proof.
    unfold base_state, Inv, DataOk. destruct old as [od|], tab as [r|]; cbn.
    - split; [repeat constructor; cbn; intuition discriminate|]. split.
      + intros x c. unfold lookup. cbn. destruct x as [[]|]; cbn; intros H; try discriminate; try exact I.
        injection H; intros; subst. eexists; reflexivity.
      + destruct kd; auto.
    - split; [repeat constructor; cbn; tauto|]. split.
      + intros x c. unfold lookup. cbn. destruct x as [[]|]; cbn; intros H; try discriminate; exact I.
      + destruct kd; auto.
    - split; [repeat constructor; cbn; tauto|]. split.
      + intros x c. unfold lookup. cbn. destruct x as [[]|]; cbn; intros H; try discriminate.
        injection H; intros; subst. eexists; reflexivity.
      + destruct kd; auto.
    - split; [constructor|]. split; [intros x c H; discriminate | destruct kd; auto].
  Qed.

  Theorem reachable_inv st : reachable st -> Inv f sw kd old st.
  Proof.
    induction 1 as [|st o k _ IH Hv|st w delf k _ IH Hd|st ids w k _ IH].
    - apply base_inv.
    - apply (op_safe f sw kd old no_conflict st o IH Hv).
    - apply (recover_safe f sw kd old no_conflict batches_nonempty w delf Hd st IH).
    - apply (resow_safe f sw kd old st ids w IH).
  Qed.
End Reach.

(* ------------------------------------------------------------------ merged data survives (any state) *)
Section Survive.
  Variable f : Z -> Z.

  Lemma firstn_write_avoids k b p w x : k <= 3 -> x <> Tmp b w -> Forall (avoids x) (firstn k (write b p w)).
  Proof.
    intros Hk N. destruct k as [|[|[|[|k]]]]; try lia; cbn; repeat constructor; cbn; congruence.
  Qed.

  (* at every prefix of a complete write the final name holds the old or the new content *)
  Lemma crash_write_del st b p w del k :
    Forall (avoids (Fin b)) del ->
    lookup (crash (write b p w ++ del) k st) (Fin b)
    = if k <=? 3 then lookup st (Fin b) else Some (Whole p).
  Proof.
    intros HD. unfold crash. destruct (k <=? 3) eqn:E.
    - apply Nat.leb_le in E. rewrite firstn_app_le by (cbn; lia).
      apply run_avoids, firstn_write_avoids; [exact E | discriminate].
    - apply Nat.leb_gt in E. rewrite firstn_app_ge by (cbn; lia). rewrite run_app.
      rewrite run_avoids by (apply Forall_firstn, HD). rewrite lookup_run_write_fin.
      replace (base_eqb b b) with true; [reflexivity|]. symmetry. apply base_eqb_eq. reflexivity.
  Qed.

  Lemma merge_incl od new m : merge od new = Some m -> incl od m.
  Proof.
    unfold merge. destruct (conflict od new); [discriminate|]. intros H. injection H; intros; subst.
    intros x Hx. apply in_or_app. left. exact Hx.
  Qed.

  Theorem harvest_survives st o k od :
    lookup st (Fin BData) = Some (Whole (PData od)) ->
    (forall kk del, o = OReap kk del -> Forall delstep del) ->
    exists m, lookup (crash (steps_of f o st) k st) (Fin BData) = Some (Whole (PData m)) /\ incl od m.
  Proof.
    intros L HD.
    assert (Same : forall ss, Forall (avoids (Fin BData)) ss ->
                   exists m, lookup (crash ss k st) (Fin BData) = Some (Whole (PData m)) /\ incl od m).
    { intros ss H. exists od. split; [rewrite crash_avoids by exact H; exact L | apply incl_refl]. }
    destruct o as [sw w|ids w|w| |kk del]; cbn [steps_of].
    - apply Same, sow_avoids_sink. left. reflexivity.
    - apply Same, grows_avoid_sink. left. reflexivity.
    - apply Same. unfold grow_missing_steps. apply grows_avoid_sink. left. reflexivity.
    - apply Same, check_bad_avoids_sink. left. reflexivity.
    - specialize (HD kk del eq_refl).
      assert (HDA : forall b, sinkb b -> Forall (avoids (Fin b)) del).
      { intros b Hb. eapply Forall_impl; [|exact HD]. intros s Hs. apply delstep_avoids_sink; assumption. }
      unfold reap_steps. destruct (reap_val st false) as [| |d]; try (apply Same; constructor).
      destruct kk; cbn [sync_steps].
      + apply Same. apply HDA. left. reflexivity.
      + apply Same. apply HDA. left. reflexivity.
      + rewrite L. destruct (merge od (got (codes_of st) d)) as [m|] eqn:EM; [|apply Same; constructor].
        rewrite (crash_write_del st BData (PData m) 0 del k (HDA BData (or_introl eq_refl))).
        destruct (k <=? 3); [exists od; split; [exact L | apply incl_refl]|].
        exists m. split; [reflexivity | eapply merge_incl, EM].
      + destruct (lookup st (Fin BTable)) as [[[| | | | |rows]|]|]; try (apply Same; apply Forall_nil);
          apply Same; (apply Forall_app; split; [apply write_avoids; discriminate | apply HDA; left; reflexivity]).
  Qed.

  (* the same analysis for the sampler's table: it holds the old rows up to the rename and the old
     rows followed by the crop's rows from the rename on -- the rows are never half there *)
  Theorem sampler_table_steps st del k d :
    reap_val st false = Value d -> Forall delstep del ->
    forall o, lookup st (Fin BTable) = option_map (fun r => Whole (PTable r)) o ->
    lookup (crash (reap_steps KSampler false del st) k st) (Fin BTable)
    = if k <=? 3 then lookup st (Fin BTable)
      else Some (Whole (PTable (match o with Some r => r | None => [] end ++ got (codes_of st) d))).
  Proof.
    intros E HD o L. unfold reap_steps. rewrite E. cbn [sync_steps]. rewrite L.
    assert (HDA : Forall (avoids (Fin BTable)) del).
    { eapply Forall_impl; [|exact HD]. intros s Hs. apply delstep_avoids_sink; [exact Hs | right; reflexivity]. }
    destruct o as [r|]; cbn [option_map]; rewrite (crash_write_del st BTable _ 0 del k HDA); rewrite L; reflexivity.
  Qed.

  (* operations other than the reap never touch the table *)
  Lemma table_untouched st o k :
    (forall kk del, o <> OReap kk del) ->
    lookup (crash (steps_of f o st) k st) (Fin BTable) = lookup st (Fin BTable).
  Proof.
    intros H. apply crash_avoids. destruct o as [sw w|ids w|w| |kk del]; cbn [steps_of].
    - apply sow_avoids_sink. right. reflexivity.
    - apply grows_avoid_sink. right. reflexivity.
    - unfold grow_missing_steps. apply grows_avoid_sink. right. reflexivity.
    - apply check_bad_avoids_sink. right. reflexivity.
    - exfalso. apply (H kk del). reflexivity.
  Qed.
End Survive.

(* ------------------------------------------------------------------ the sampler's reap, step by step *)
Section SamplerReap.
  Variable f : Z -> Z.
  Variable sw : sweep.
  Variable old : option pdata.

  Lemma reap_steps_not_value k allow del st :
    (forall d, reap_val st allow <> Value d) -> reap_steps k allow del st = [].
  Proof. intros H. unfold reap_steps. destruct (reap_val st allow) as [| |d]; try reflexivity. destruct (H d eq_refl). Qed.

  Lemma sampler_table_before_rename st del k o :
    k <= 3 -> Forall delstep del -> lookup st (Fin BTable) = option_map (fun r => Whole (PTable r)) o ->
    lookup (crash (reap_steps KSampler false del st) k st) (Fin BTable) = lookup st (Fin BTable).
  Proof.
    intros Hk HD L. destruct (reap_val st false) as [| |d] eqn:E.
    - rewrite reap_steps_not_value by (intros d; rewrite E; discriminate). unfold crash. rewrite firstn_nil. reflexivity.
    - rewrite reap_steps_not_value by (intros d; rewrite E; discriminate). unfold crash. rewrite firstn_nil. reflexivity.
    - rewrite (sampler_table_steps st del k d E HD o L). apply Nat.leb_le in Hk. rewrite Hk. reflexivity.
  Qed.

  (* no result is ever lost on the way from the crop to the table: at every prefix of the reap a
     result that was in the crop is still there, or all the crop's rows are in the table *)
  Theorem sampler_rows_never_lost st del k i c :
    Inv f sw KSampler old st -> Forall delstep del ->
    lookup st (Fin (BResult i)) = Some c ->
    lookup (crash (reap_steps KSampler false del st) k st) (Fin (BResult i)) = Some c
    \/ exists rows, lookup (crash (reap_steps KSampler false del st) k st) (Fin BTable) = Some (Whole (PTable rows))
                    /\ incl (newd f sw) rows.
  Proof.
    intros HI HD L. destruct (reap_val st false) as [| |d] eqn:E.
    - left. rewrite reap_steps_not_value by (intros d; rewrite E; discriminate). unfold crash. rewrite firstn_nil. exact L.
    - left. rewrite reap_steps_not_value by (intros d; rewrite E; discriminate). unfold crash. rewrite firstn_nil. exact L.
    - pose proof (reap_val_sound f sw KSampler old st false d HI E) as Ed. cbn in Ed. subst d.
      assert (TO : exists o, lookup st (Fin BTable) = option_map (fun r => Whole (PTable r)) o).
      { destruct (lookup st (Fin BTable)) as [ct|] eqn:LT; [|exists None; reflexivity].
        destruct HI as [_ [G _]]. destruct (G _ _ LT) as [rows ->]. exists (Some rows). reflexivity. }
      destruct TO as [o LT]. pose proof (sampler_table_steps st del k _ E HD o LT) as HT.
      rewrite (codes_inv f sw KSampler old st HI (reap_val_value_info _ _ _ E)) in HT. rewrite got_direct in HT.
      destruct (k <=? 3) eqn:Ek.
      + left. apply Nat.leb_le in Ek. unfold reap_steps. rewrite E.
        rewrite (codes_inv f sw KSampler old st HI (reap_val_value_info _ _ _ E)). rewrite got_direct.
        cbn [sync_steps]. rewrite LT.
        destruct o as [r|]; cbn [option_map]; unfold crash; rewrite firstn_app_le by (cbn; lia);
          (rewrite run_avoids; [exact L | apply firstn_write_avoids; [exact Ek | discriminate]]).
      + right. eexists. split; [exact HT|]. intros x Hx. apply in_or_app. right. exact Hx.
  Qed.
End SamplerReap.

(* ------------------------------------------------------------------ the harvester's reap, step by step *)
Section HarvestReap.
  Variable f : Z -> Z.
  Variable sw : sweep.
  Variable old : option pdata.
  Hypothesis no_conflict : match old with Some od => conflict od (newd f sw) = false | None => True end.

  Lemma klookup_fun m : (forall k v v', In (k, v) m -> In (k, v') m -> v = v') ->
    forall k v, In (k, v) m -> klookup k m = Some v.
  Proof.
    induction m as [|[k' v'] m IH]; intros HF k v HI; [contradiction|]. cbn. destruct (Z.eqb k' k) eqn:E.
    - apply Z.eqb_eq in E. subst k'. f_equal. apply (HF k v' v); [left; reflexivity | exact HI].
    - destruct HI as [X|X]; [injection X; intros; subst; rewrite Z.eqb_refl in E; discriminate|].
      apply IH; [|exact X]. intros a b b' H1 H2. apply (HF a b b'); right; assumption.
  Qed.

  (* every entry of the crop is in the merged dataset *)
  Lemma merged_has_new kv : In kv (newd f sw) -> klookup (fst kv) (merged f sw old) = Some (snd kv).
  Proof.
    destruct kv as [k v]. cbn [fst snd]. intros HI. unfold merged.
    pose proof (klookup_fun (newd f sw) (newd_fun f sw) k v HI) as HN.
    destruct old as [od|]; [|exact HN]. rewrite klookup_app. destruct (klookup k od) as [v'|] eqn:E.
    - f_equal. unfold conflict in no_conflict.
      assert (X : kclash od (k, v) = false).
      { destruct (kclash od (k, v)) eqn:Y; [|reflexivity].
        assert (existsb (kclash od) (newd f sw) = true) by (apply existsb_exists; exists (k, v); auto). congruence. }
      unfold kclash in X. cbn in X. rewrite E in X. apply negb_false_iff, Z.eqb_eq in X. exact X.
    - rewrite klookup_none_filter by exact E. exact HN.
  Qed.

  (* no result leaves the crop before its entries are in the data file *)
  Theorem harvest_results_never_lost st del k i c :
    Inv f sw KHarvester old st -> Forall delstep del ->
    lookup st (Fin (BResult i)) = Some c ->
    lookup (crash (reap_steps KHarvester false del st) k st) (Fin (BResult i)) = Some c
    \/ exists m, lookup (crash (reap_steps KHarvester false del st) k st) (Fin BData) = Some (Whole (PData m))
                 /\ forall kv, In kv (newd f sw) -> klookup (fst kv) m = Some (snd kv).
  Proof.
    intros HI HD L. destruct (reap_val st false) as [| |d] eqn:E.
    - left. rewrite reap_steps_not_value by (intros d; rewrite E; discriminate). unfold crash. rewrite firstn_nil. exact L.
    - left. rewrite reap_steps_not_value by (intros d; rewrite E; discriminate). unfold crash. rewrite firstn_nil. exact L.
    - pose proof (reap_val_sound f sw KHarvester old st false d HI E) as Ed. cbn in Ed. subst d.
      unfold reap_steps. rewrite E.
      rewrite (codes_inv f sw KHarvester old st HI (reap_val_value_info _ _ _ E)). rewrite got_direct.
      rewrite (harvest_sync f sw KHarvester old no_conflict st HI eq_refl).
      assert (HDA : Forall (avoids (Fin BData)) del).
      { eapply Forall_impl; [|exact HD]. intros s Hs. apply delstep_avoids_sink; [exact Hs | left; reflexivity]. }
      destruct (k <=? 3) eqn:Ek.
      + left. apply Nat.leb_le in Ek. unfold crash. rewrite firstn_app_le by (cbn; lia).
        rewrite run_avoids; [exact L | apply firstn_write_avoids; [exact Ek | discriminate]].
      + right. exists (merged f sw old). split; [|apply merged_has_new].
        rewrite (crash_write_del st BData _ 0 del k HDA). rewrite Ek. reflexivity.
  Qed.
End HarvestReap.
