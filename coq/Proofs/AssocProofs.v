(* Association lists keyed by batch id: lookup / set / remove and key uniqueness. *)
From XV Require Import Prelude Crop.
From Coq Require Import ZifyBool.
Open Scope Z_scope.

Section Assoc.
  Context {V : Type}.
  Implicit Types (l : list (Z * V)).

  Lemma zlookup_zremove_same k l : zlookup k (zremove k l) = None.
  Proof.
    induction l as [|[k' v] l IH]; cbn; [reflexivity|].
    destruct (k =? k') eqn:E; [exact IH|]. cbn. rewrite E. exact IH.
  Qed.

  Lemma zlookup_zremove_other k k' l : k <> k' -> zlookup k (zremove k' l) = zlookup k l.
  Proof.
    intros Hne. induction l as [|[k0 v] l IH]; cbn; [reflexivity|].
    destruct (k' =? k0) eqn:E.
    - apply Z.eqb_eq in E. subst k0. replace (k =? k') with false by lia. exact IH.
    - cbn. destruct (k =? k0); [reflexivity|exact IH].
  Qed.

  Lemma zlookup_zset_same k v l : zlookup k (zset k v l) = Some v.
  Proof. unfold zset. cbn. rewrite Z.eqb_refl. reflexivity. Qed.

  Lemma zlookup_zset_other k k' v l : k <> k' -> zlookup k (zset k' v l) = zlookup k l.
  Proof.
    intros Hne. unfold zset. cbn. replace (k =? k') with false by lia.
    apply zlookup_zremove_other. exact Hne.
  Qed.

  Lemma zlookup_in k v l : zlookup k l = Some v -> In (k, v) l.
  Proof.
    induction l as [|[k' v'] l IH]; cbn; [discriminate|].
    destruct (k =? k') eqn:E.
    - apply Z.eqb_eq in E. subst. intros H. injection H as ->. left. reflexivity.
    - intros H. right. apply IH, H.
  Qed.

  Lemma in_keys_zlookup k l : In k (map fst l) -> exists v, zlookup k l = Some v.
  Proof.
    induction l as [|[k' v'] l IH]; cbn; [intros []|].
    intros [<-|H].
    - rewrite Z.eqb_refl. eauto.
    - destruct (k =? k'); eauto.
  Qed.

  Lemma zlookup_none_keys k l : zlookup k l = None <-> ~ In k (map fst l).
  Proof.
    split.
    - intros H Hin. apply in_keys_zlookup in Hin as [v Hv]. congruence.
    - intros H. destruct (zlookup k l) eqn:E; [|reflexivity]. apply zlookup_in in E.
      exfalso. apply H. apply in_map_iff. exists (k, v). split; [reflexivity|exact E].
  Qed.

  Lemma keys_zremove k l x : In x (map fst (zremove k l)) <-> x <> k /\ In x (map fst l).
  Proof.
    induction l as [|[k' v] l IH]; cbn; [tauto|].
    destruct (k =? k') eqn:E.
    - apply Z.eqb_eq in E. subst k'. rewrite IH. split; [tauto|]. intros [Hne [Heq|Hin]]; [congruence|tauto].
    - apply Z.eqb_neq in E. cbn. rewrite IH. split.
      + intros [<-|[Hne Hin]]; [split; [congruence|left; reflexivity]|tauto].
      + intros [Hne [<-|Hin]]; [left; reflexivity|right; tauto].
  Qed.

  Lemma nodup_zremove k l : NoDup (map fst l) -> NoDup (map fst (zremove k l)).
  Proof.
    induction l as [|[k' v] l IH]; cbn; intros H; [constructor|].
    inversion H as [|? ? Hnin Hnd]; subst.
    destruct (k =? k'); [apply IH, Hnd|].
    cbn. constructor; [|apply IH, Hnd]. intros Hin. apply keys_zremove in Hin. tauto.
  Qed.

  Lemma nodup_zset k v l : NoDup (map fst l) -> NoDup (map fst (zset k v l)).
  Proof.
    intros H. unfold zset. cbn. constructor; [|apply nodup_zremove, H].
    intros Hin. apply keys_zremove in Hin. tauto.
  Qed.

  Lemma keys_zset k v l x : In x (map fst (zset k v l)) <-> x = k \/ In x (map fst l).
  Proof.
    unfold zset. cbn. rewrite keys_zremove. split.
    - intros [<-|[_ H]]; tauto.
    - intros [->|H]; [left; reflexivity|]. destruct (Z.eq_dec x k); [left; congruence|right; tauto].
  Qed.

  Lemma zmem_true k l : zmem k l = true <-> In k (map fst l).
  Proof.
    unfold zmem. destruct (zlookup k l) eqn:E.
    - split; [|reflexivity]. intros _. apply zlookup_in in E. apply in_map_iff. exists (k, v). auto.
    - split; [discriminate|]. intros H. apply zlookup_none_keys in E. contradiction.
  Qed.
End Assoc.

(* numbering batches 1, 2, ... *)
Lemma zlookup_number_from {V} (l : list V) : forall s k,
  zlookup k (number_from s l) = if (s <=? k) && (k <? s + Z.of_nat (length l))
                                then nth_error l (Z.to_nat (k - s)) else None.
Proof.
  induction l as [|x l IH]; intros s k; cbn [number_from zlookup length].
  - destruct ((s <=? k) && (k <? s + Z.of_nat 0)) eqn:E; [lia|reflexivity].
  - destruct (k =? s) eqn:E.
    + apply Z.eqb_eq in E. subst. replace ((s <=? s) && (s <? s + Z.of_nat (S (length l)))) with true by lia.
      rewrite Z.sub_diag. reflexivity.
    + apply Z.eqb_neq in E. rewrite IH.
      destruct ((s + 1 <=? k) && (k <? s + 1 + Z.of_nat (length l))) eqn:E1.
      * replace ((s <=? k) && (k <? s + Z.of_nat (S (length l)))) with true by lia.
        replace (Z.to_nat (k - s)) with (S (Z.to_nat (k - (s + 1)))) by lia. reflexivity.
      * destruct ((s <=? k) && (k <? s + Z.of_nat (S (length l)))) eqn:E2; [lia|reflexivity].
Qed.

Lemma keys_number_from {V} (l : list V) : forall s, map fst (number_from s l) = zseq s (length l).
Proof. induction l as [|x l IH]; intros s; cbn; [reflexivity|]. rewrite IH. reflexivity. Qed.

Lemma zseq_in s n x : In x (zseq s n) <-> s <= x < s + Z.of_nat n.
Proof.
  revert s. induction n as [|n IH]; intros s; cbn [zseq In].
  - lia.
  - rewrite IH. lia.
Qed.

Lemma zseq_nodup s n : NoDup (zseq s n).
Proof.
  revert s. induction n as [|n IH]; intros s; cbn; constructor; [|apply IH].
  rewrite zseq_in. lia.
Qed.

Lemma zseq_length s n : length (zseq s n) = n.
Proof. revert s. induction n as [|n IH]; intros s; cbn; [reflexivity|]. rewrite IH. reflexivity. Qed.

(* writing a numbered family of files over an existing directory *)
Lemma zlookup_fold_zset {V} (news : list (Z * V)) : forall old k,
  NoDup (map fst news) ->
  zlookup k (fold_left (fun acc b => zset (fst b) (snd b) acc) news old)
  = match zlookup k news with Some v => Some v | None => zlookup k old end.
Proof.
  induction news as [|[k0 v0] news IH]; intros old k Hnd; cbn [fold_left]; [reflexivity|].
  cbn in Hnd. inversion Hnd as [|? ? Hnin Hnd']; subst.
  rewrite IH by exact Hnd'. cbn [fst snd zlookup].
  destruct (k =? k0) eqn:E.
  - apply Z.eqb_eq in E. subst k0.
    assert (zlookup k news = None) as -> by (apply zlookup_none_keys; exact Hnin).
    apply zlookup_zset_same.
  - apply Z.eqb_neq in E. destruct (zlookup k news); [reflexivity|]. apply zlookup_zset_other, E.
Qed.

Lemma keys_fold_zset {V} (news : list (Z * V)) : forall old x,
  In x (map fst (fold_left (fun acc b => zset (fst b) (snd b) acc) news old))
  <-> In x (map fst news) \/ In x (map fst old).
Proof.
  induction news as [|[k0 v0] news IH]; intros old x; cbn [fold_left map In fst]; [tauto|].
  rewrite IH, keys_zset. cbn. intuition congruence.
Qed.

Lemma nodup_fold_zset {V} (news : list (Z * V)) : forall old,
  NoDup (map fst old) -> NoDup (map fst (fold_left (fun acc b => zset (fst b) (snd b) acc) news old)).
Proof.
  induction news as [|[k0 v0] news IH]; intros old H; cbn [fold_left]; [exact H|].
  apply IH, nodup_zset, H.
Qed.
