(* the interpretation of the modelled data path (Model/PlotFlow.v) is Model/PlotSeries.v *)
From XV Require Import Prelude PlotSeries PlotFlow.
Open Scope Z_scope.

Lemma and_true_l : forall l : list bool, and_lists (repeat true (length l)) l = l.
Proof. induction l as [|b l IH]; cbn; [reflexivity|]. rewrite IH. reflexivity. Qed.

Lemma and_is_mask : forall xs ys, and_lists (map is_fin xs) (map is_fin ys) = mask xs ys.
Proof.
  induction xs as [|x xs IH]; intros [|y ys]; cbn; try reflexivity. rewrite IH. reflexivity.
Qed.

Lemma mask_flow_model : forall xs ys cs ye xe,
  mask_flow (pf_mask_terms model_plot_flow) (key_col xs ys cs ye xe) (length xs) = mask xs ys.
Proof.
  intros. unfold mask_flow. cbn [pf_mask_terms model_plot_flow fold_left key_col].
  rewrite <- (map_length is_fin xs), and_true_l. apply and_is_mask.
Qed.

Lemma pick_flow_model : forall m k c, pick_flow model_plot_flow m k c = select m c.
Proof. intros m k c. unfold pick_flow. destruct k; reflexivity. Qed.

Lemma option_map_map : forall (A B C : Type) (f : A -> B) (g : B -> C) (o : option A),
  option_map g (option_map f o) = option_map (fun a => g (f a)) o.
Proof. intros. destruct o; reflexivity. Qed.

Lemma one_series_flow_model : forall sp sel yv k,
  one_series_flow model_plot_flow sp sel yv k = one_series sp sel yv k.
Proof.
  intros. unfold one_series_flow, one_series. rewrite mask_flow_model.
  rewrite !pick_flow_model, !option_map_map.
  reflexivity.
Qed.

Lemma mapi_from_ext : forall (A B : Type) (f g : nat -> A -> B) l k,
  (forall i a, f i a = g i a) -> mapi_from f k l = mapi_from g k l.
Proof. intros A B f g l. induction l as [|a l IH]; intros k H; cbn; [reflexivity|]. rewrite H, IH; auto. Qed.

Lemma z_series_flow_model : forall sp sel, z_series_flow model_plot_flow sp sel = z_series sp sel.
Proof.
  intros. unfold z_series_flow, z_series. destruct (p_z sp).
  - apply map_ext. intros. apply one_series_flow_model.
  - apply mapi_from_ext. intros. apply one_series_flow_model.
Qed.

Lemma hist_values_flow_model : forall ds v sel, hist_values_flow model_plot_flow ds v sel = hist_values ds v sel.
Proof. reflexivity. Qed.

Lemma hist_series_flow_model : forall sp edges scale sel,
  hist_series_flow model_plot_flow sp edges scale sel = hist_series sp edges scale sel.
Proof. reflexivity. Qed.

Lemma mesh_flow_model : forall ds v xd yd sel, mesh_flow model_plot_flow ds v xd yd sel = mesh ds v xd yd sel.
Proof. reflexivity. Qed.

Lemma panels_ext : forall (C : Type) sp (f g : env -> C), (forall e, f e = g e) -> panels sp f = panels sp g.
Proof.
  intros C sp f g H. unfold panels. apply flat_map_ext. intros i. apply map_ext. intros j.
  unfold panel_at. rewrite H. reflexivity.
Qed.

Theorem fig_lines_flow_model : forall sp, fig_lines_flow model_plot_flow sp = fig_lines sp.
Proof.
  intros. unfold fig_lines_flow, fig_lines. f_equal. apply panels_ext. intros e. rewrite z_series_flow_model. reflexivity.
Qed.

Theorem fig_hist_flow_model : forall sp edges scale, fig_hist_flow model_plot_flow sp edges scale = fig_hist sp edges scale.
Proof. reflexivity. Qed.

Theorem fig_heat_flow_model : forall sp v xd yd lo hi wc,
  fig_heat_flow model_plot_flow sp v xd yd lo hi wc = fig_heat sp v xd yd lo hi wc.
Proof. reflexivity. Qed.
