(* Merge policies on point maps, the harvester state machine refines one abstract map, file
   names resolve to one path at every site. *)
From XV Require Import Prelude Grid Names Harvest GridProofs.
From Coq Require String.
Open Scope Z_scope.

(* ---------------- point maps ---------------- *)
Lemma pget_pset_same m k v : pget (pset k v m) k = Some v.
Proof.
  induction m as [|[k' v'] m IH]; cbn.
  - rewrite list_eqb_refl. reflexivity.
  - destruct (list_eqb k' k) eqn:E; cbn; [rewrite list_eqb_refl; reflexivity|rewrite E; exact IH].
Qed.

Lemma pget_pset_other m k v k0 : k <> k0 -> pget (pset k v m) k0 = pget m k0.
Proof.
  intros Hne. induction m as [|[k' v'] m IH]; cbn.
  - apply list_eqb_neq in Hne. rewrite Hne. reflexivity.
  - destruct (list_eqb k' k) eqn:E; cbn.
    + apply list_eqb_eq in E. subst k'. apply list_eqb_neq in Hne. rewrite Hne. reflexivity.
    + destruct (list_eqb k' k0); [reflexivity|exact IH].
Qed.

Lemma pget_app m1 m2 k : pget (m1 ++ m2) k = match pget m1 k with Some v => Some v | None => pget m2 k end.
Proof.
  induction m1 as [|[k' v'] m1 IH]; cbn; [reflexivity|]. destruct (list_eqb k' k); [reflexivity|exact IH].
Qed.

(* new data wins: the LAST entry for a point in [new], else the old value *)
Lemma pget_merge_new new : forall old k,
  pget (merge_new old new) k = match pget (rev new) k with Some v => Some v | None => pget old k end.
Proof.
  unfold merge_new. induction new as [|[k1 v1] new IH]; intros old k; cbn [fold_left rev]; [reflexivity|].
  rewrite IH, pget_app. cbn [fst snd pget].
  destruct (pget (rev new) k); [reflexivity|].
  destruct (list_eqb k1 k) eqn:E.
  - apply list_eqb_eq in E. subst. apply pget_pset_same.
  - apply list_eqb_neq in E. apply pget_pset_other, E.
Qed.

(* old data wins: the old value, else the FIRST entry for the point in [new] *)
Lemma pget_merge_old new : forall old k,
  pget (merge_old old new) k = match pget old k with Some v => Some v | None => pget new k end.
Proof.
  unfold merge_old. induction new as [|[k1 v1] new IH]; intros old k; cbn [fold_left pget fst snd].
  - destruct (pget old k); reflexivity.
  - rewrite IH. unfold pmem. destruct (pget old k1) as [u|] eqn:E1.
    + destruct (pget old k) eqn:E; [reflexivity|].
      destruct (list_eqb k1 k) eqn:Ek; [|reflexivity]. apply list_eqb_eq in Ek. subst. congruence.
    + destruct (list_eqb k1 k) eqn:Ek.
      * apply list_eqb_eq in Ek. subst. rewrite pget_pset_same, E1. reflexivity.
      * apply list_eqb_neq in Ek. rewrite (pget_pset_other old k1 v1 k Ek). reflexivity.
Qed.

Lemma conflict_false old new :
  conflict old new = false <->
  forall k v v', In (k, v) new -> pget old k = Some v' -> v' = v.
Proof.
  unfold conflict. split.
  - intros H k v v' Hin Hg.
    assert (Hx : (fun kv : point * Z => match pget old (fst kv) with Some u => negb (u =? snd kv) | None => false end) (k, v) = false).
    { destruct ((fun kv : point * Z => match pget old (fst kv) with Some u => negb (u =? snd kv) | None => false end) (k, v)) eqn:E; [|reflexivity].
      assert (existsb (fun kv : point * Z => match pget old (fst kv) with Some u => negb (u =? snd kv) | None => false end) new = true)
        by (apply existsb_exists; exists (k, v); auto).
      congruence. }
    cbn in Hx. rewrite Hg in Hx. apply negb_false_iff, Z.eqb_eq in Hx. exact Hx.
  - intros H. destruct (existsb _ new) eqn:E; [|reflexivity]. exfalso.
    apply existsb_exists in E as ([k v] & Hin & Hx). cbn in Hx.
    destruct (pget old k) as [v'|] eqn:Hg; [|discriminate].
    rewrite (H k v v' Hin Hg), Z.eqb_refl in Hx. discriminate.
Qed.

(* the value the policy decides, point by point *)
Theorem merge_spec pol old new m k :
  merge pol old new = Ok m ->
  pget m k =
  match pol with
  | PolNew => match pget (rev new) k with Some v => Some v | None => pget old k end
  | PolOld | PolNone => match pget old k with Some v => Some v | None => pget new k end
  end.
Proof.
  unfold merge. destruct pol.
  - destruct (conflict old new); [discriminate|]. intros H. injection H as <-. apply pget_merge_old.
  - intros H. injection H as <-. apply pget_merge_new.
  - intros H. injection H as <-. apply pget_merge_old.
Qed.

(* with the default policy a successful merge never contradicts the new data either *)
Theorem merge_none_agrees old new m k v :
  merge PolNone old new = Ok m -> pget new k = Some v -> pget m k = Some v.
Proof.
  intros Hm Hn. rewrite (merge_spec PolNone old new m k Hm).
  destruct (pget old k) as [v'|] eqn:Ho; [|exact Hn].
  unfold merge in Hm. destruct (conflict old new) eqn:Ec; [discriminate|].
  f_equal. apply (proj1 (conflict_false old new) Ec k v v'); [|exact Ho].
  clear -Hn. induction new as [|[k1 v1] new IH]; cbn in *; [discriminate|].
  destruct (list_eqb k1 k) eqn:E; [apply list_eqb_eq in E; subst; injection Hn as ->; left; reflexivity|right; apply IH, Hn].
Qed.

(* a point not touched by the new data is never dropped or altered *)
Theorem merge_monotone pol old new m k :
  merge pol old new = Ok m -> pget new k = None -> pget (rev new) k = None -> pget m k = pget old k.
Proof.
  intros Hm Hn Hr. rewrite (merge_spec pol old new m k Hm). destruct pol; rewrite ?Hn, ?Hr; destruct (pget old k); reflexivity.
Qed.

(* ---------------- files ---------------- *)
Lemma fget_fset_same d p m : fget (fset p m d) p = Some m.
Proof.
  induction d as [|[p' m'] d IH]; cbn.
  - rewrite String.eqb_refl. reflexivity.
  - destruct (String.eqb p' p) eqn:E; cbn; [rewrite String.eqb_refl; reflexivity|rewrite E; exact IH].
Qed.

(* ---------------- names ---------------- *)
Lemma prefix_app p t : String.prefix p (String.append p t) = true.
Proof. induction p as [|c p IH]; cbn; [destruct t; reflexivity|]. destruct (Ascii.ascii_dec c c); [exact IH|contradiction]. Qed.

Lemma prefix_app_r p s t : String.prefix p s = true -> String.prefix p (String.append s t) = true.
Proof.
  revert s. induction p as [|c p IH]; intros s H; cbn; [destruct (String.append s t); reflexivity|].
  destruct s as [|c' s]; [discriminate|]. cbn in *. destruct (Ascii.ascii_dec c c'); [apply IH, H|discriminate].
Qed.

Lemma is_infix_app_r p s t : is_infix p s = true -> is_infix p (String.append s t) = true.
Proof.
  induction s as [|c s IH]; intros H.
  - destruct p as [|a p]; [destruct t; reflexivity|cbn in H; discriminate].
  - cbn [String.append is_infix]. cbn [is_infix] in H.
    destruct (String.prefix p (String.String c s)) eqn:E.
    + change (String.String c (String.append s t)) with (String.append (String.String c s) t).
      rewrite (prefix_app_r p (String.String c s) t E). reflexivity.
    + rewrite (IH H). destruct (String.prefix p (String.String c (String.append s t))); reflexivity.
Qed.

Lemma prefix_refl p : String.prefix p p = true.
Proof. induction p as [|c p IH]; cbn; [reflexivity|]. destruct (Ascii.ascii_dec c c); [exact IH|contradiction]. Qed.

Lemma is_infix_app_self s p : is_infix p (String.append s p) = true.
Proof.
  induction s as [|c s IH]; cbn [String.append is_infix].
  - destruct p as [|c p]; [reflexivity|]. cbn [is_infix]. rewrite prefix_refl. reflexivity.
  - rewrite IH. destruct (String.prefix p (String.String c (String.append s p))); reflexivity.
Qed.

Definition has_ext (s : string) : bool := existsb (fun ke => is_infix (snd ke) s) model_extensions.

Lemma resolve_has_ext name e : has_ext (auto_add_extension name e) = true.
Proof.
  unfold auto_add_extension. fold (has_ext name). destruct (has_ext name) eqn:E; cbn [negb]; [exact E|].
  unfold has_ext, model_extensions. cbn [existsb snd].
  destruct e; cbn [ext_of model_extensions engine_eqb];
    rewrite is_infix_app_self; rewrite ?orb_true_r; reflexivity.
Qed.

(* resolving twice changes nothing; a ".tmp" name next to a resolved name is left alone *)
Theorem resolve_idempotent name e : auto_add_extension (auto_add_extension name e) e = auto_add_extension name e.
Proof.
  unfold auto_add_extension at 1. fold (has_ext (auto_add_extension name e)).
  rewrite resolve_has_ext. reflexivity.
Qed.

Lemma has_ext_app s t : has_ext s = true -> has_ext (String.append s t) = true.
Proof.
  unfold has_ext. intros H. apply existsb_exists in H as (ke & Hin & Hk).
  apply existsb_exists. exists ke. split; [exact Hin|apply is_infix_app_r, Hk].
Qed.

Theorem resolve_tmp name e :
  auto_add_extension (String.append (auto_add_extension name e) ".tmp") e
  = String.append (auto_add_extension name e) ".tmp".
Proof.
  unfold auto_add_extension at 1. fold (has_ext (String.append (auto_add_extension name e) ".tmp")).
  rewrite (has_ext_app _ _ (resolve_has_ext name e)). reflexivity.
Qed.

(* every harvester / merge site of the model touches the same path *)
Theorem model_paths name e :
  let P := auto_add_extension name e in
  load_path model_sites name e = P /\ load_from model_sites name e = P /\ save_to model_sites name e = P
  /\ merge_test model_sites name e = P /\ merge_from model_sites name e = P /\ merge_to model_sites name e = P
  /\ path_of (p_hsave_tmp_write model_sites) true name e = String.append P ".tmp"
  /\ path_of (p_hdelete model_sites) false name e = P.
Proof.
  cbn. unfold load_path, load_from, save_to, merge_test, merge_from, merge_to, path_of. cbn.
  rewrite resolve_tmp. repeat split; reflexivity.
Qed.

(* ---------------- refinement ---------------- *)
Definition ospec_step (a : option pmap) (o : hop) : option pmap * bool :=
  match o with
  | HNewSession => (a, false)
  | HAdd new _ pol =>
      match a with
      | None => (Some new, false)
      | Some old => match merge pol old new with Err _ => (a, true) | Ok m => (Some m, false) end
      end
  | HSaveMerge new pol =>
      match a with
      | None => (Some (match pol with PolNew => merge_new [] new | _ => merge_old [] new end), false)
      | Some old => match merge pol old new with Err _ => (a, true) | Ok m => (Some m, false) end
      end
  | HDrop dim label | HExtDrop dim label =>
      match a with
      | None => (None, true)
      | Some m => (Some (filter (fun kv => negb (has_coord (tl (fst kv)) dim label)) m), false)
      end
  end.

Definition all_synced (o : hop) : bool := match o with HAdd _ s _ => s | _ => true end.

(* the concrete state represents the abstract one: the file holds it; memory may be stale while
   the file exists (every synced operation reloads it first) and is empty while it does not *)
Definition Rel name e (s : hst) (a : option pmap) : Prop :=
  fget (h_disk s) (auto_add_extension name e) = a /\ (a = None -> h_mem s = None).

Theorem hstep_refines name e s a o :
  Rel name e s a -> all_synced o = true ->
  let r := hstep model_sites name e s o in
  let q := ospec_step a o in
  Rel name e (fst r) (fst q) /\ snd r = snd q.
Proof.
  intros [Hd Hm] Hs. destruct (model_paths name e) as (P1 & P2 & P3 & P4 & P5 & P6 & _).
  set (P := auto_add_extension name e) in *.
  destruct o as [new sync pol| |new pol|dim label|dim label]; cbn [hstep ospec_step all_synced] in *.
  - subst sync. unfold load. rewrite P1, P2, P3, Hd.
    destruct a as [old|].
    + cbn [h_mem h_disk]. destruct (merge pol old new) as [m|t] eqn:Em; cbn [fst snd h_mem h_disk].
      * split; [|reflexivity]. split; [apply fget_fset_same|discriminate].
      * split; [|reflexivity]. split; [exact Hd|discriminate].
    + rewrite (Hm eq_refl). cbn [fst snd h_mem h_disk].
      split; [|reflexivity]. split; [apply fget_fset_same|discriminate].
  - cbn. split; [|reflexivity]. split; [exact Hd|reflexivity].
  - rewrite P4, P5, P6, Hd. destruct a as [old|].
    + destruct (merge pol old new) as [m|t] eqn:Em; cbn [fst snd h_mem h_disk].
      * split; [|reflexivity]. split; [apply fget_fset_same|discriminate].
      * split; [|reflexivity]. split; [exact Hd|discriminate].
    + (* no file yet: merging into the empty dataset never conflicts *)
      assert (Hnil : merge pol [] new = Ok (match pol with PolNew => merge_new [] new | _ => merge_old [] new end)).
      { unfold merge. destruct pol; try reflexivity.
        assert (conflict [] new = false) as -> by (unfold conflict; induction new; [reflexivity|exact IHnew]).
        reflexivity. }
      rewrite Hnil. cbn [fst snd h_mem h_disk].
      split; [|reflexivity]. split; [|discriminate]. apply fget_fset_same.
  - unfold load. rewrite P1, P2, P3, Hd. destruct a as [m|].
    + cbn [h_mem h_disk fst snd]. split; [|reflexivity]. split; [apply fget_fset_same|discriminate].
    + rewrite (Hm eq_refl). cbn [fst snd]. split; [|reflexivity]. split; [exact Hd|intros _; exact (Hm eq_refl)].
  - rewrite P1, P2, P3, Hd. destruct a as [m|].
    + cbn [h_mem h_disk fst snd]. split; [|reflexivity]. split; [apply fget_fset_same|discriminate].
    + cbn [fst snd]. split; [|reflexivity]. split; [exact Hd|exact Hm].
Qed.

(* every history of synced operations: the file always holds the abstract dataset and every
   operation raises exactly when the specification says a conflict occurs *)
Fixpoint ospec_run (a : option pmap) (ops : list hop) : list (option pmap * bool) :=
  match ops with [] => [] | o :: rest => let q := ospec_step a o in q :: ospec_run (fst q) rest end.

Theorem hrun_refines name e ops : forall s a,
  Rel name e s a -> forallb all_synced ops = true ->
  Forall2 (fun r q => Rel name e (fst r) (fst q) /\ snd r = snd q)
          (hrun model_sites name e s ops) (ospec_run a ops).
Proof.
  induction ops as [|o ops IH]; intros s a HR Hs; cbn [hrun ospec_run]; [constructor|].
  cbn in Hs. apply andb_true_iff in Hs as [Ho Hs].
  destruct (hstep_refines name e s a o HR Ho) as [HR' Heq].
  constructor; [split; assumption|]. apply IH; assumption.
Qed.

(* a conflict leaves the file untouched and memory equal to the file *)
Theorem conflict_atomic name e s old new :
  Rel name e s (Some old) -> conflict old new = true ->
  let r := hstep model_sites name e s (HAdd new true PolNone) in
  snd r = true /\ h_disk (fst r) = h_disk s /\ h_mem (fst r) = Some old.
Proof.
  intros [Hd _] Hc. destruct (model_paths name e) as (P1 & P2 & P3 & _).
  cbn [hstep]. unfold load. rewrite P1, P2, Hd. cbn [h_mem]. unfold merge. rewrite Hc. cbn. auto.
Qed.

(* ---------------- the sampler table ---------------- *)
Lemma sstep_append s rows :
  (s_mem s = None \/ s_mem s = s_file s) ->
  let s' := sstep s (SAdd rows true) in
  s_mem s' = s_file s' /\
  s_file s' = Some (match s_file s with Some t => t ++ rows | None => rows end).
Proof.
  intros Hm. cbn. destruct (s_file s) as [t|] eqn:Ef.
  - split; reflexivity.
  - destruct Hm as [Hm|Hm]; rewrite Hm; split; reflexivity.
Qed.
