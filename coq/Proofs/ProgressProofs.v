(* The crop invariant holds after every history of grows (with any failures), deletions,
   check_bad and re-sows; and how each operation changes the set of finished batches. *)
From XV Require Import Prelude Grid Perm Runner Batch Crop GridProofs PermProofs RunnerProofs BatchProofs AssocProofs CropProofs ReapProofs.
From Coq Require Import Permutation ZifyBool.
Open Scope Z_scope.

Section Progress.
  Context {R : Type}.
  Variable g : kwargs -> R.
  Variable i : input.
  Notation disk := (@disk R).

  Inductive dop :=
  | DGrow (k : Z) (fails : kwargs -> bool)     (* grow batch k while the function fails on [fails] *)
  | DDelete (k : Z)
  | DCheckBad
  | DResow                                    (* sow the same sweep again from a reloaded object *)
  | DGrowWriteFails (k : Z).                  (* grow batch k while the write of its result file fails *)

  Definition dstep (d : disk) (o : dop) : disk :=
    match o with
    | DGrow k fails => match grow (fn g fails) d k with Ok d' => d' | Err _ => d end
    | DDelete k => delete_result d k
    | DCheckBad => snd (check_bad d)
    | DResow => match sow (reload d) d i None None with Ok (_, d') => d' | Err _ => d end
    | DGrowWriteFails _ => d      (* publication is atomic (GenPublish / GenCrash): nothing becomes visible *)
    end.

  Lemma dstep_inv bl d o : Inv g i bl d -> Inv g i bl (dstep d o).
  Proof.
    intros HI. destruct o as [k fails| k | | |k]; cbn [dstep].
    - pose proof (grow_spec g fails i bl d k HI) as H.
      destruct (grow (fn g fails) d k); [tauto|exact HI].
    - apply delete_inv, HI.
    - rewrite (check_bad_inv g i bl d HI). exact HI.
    - destruct (resow_keeps_results g i bl d HI) as (d' & Hs & _ & HI'). rewrite Hs. exact HI'.
    - exact HI.
  Qed.

  Theorem history_inv bl ops : forall d, Inv g i bl d -> Inv g i bl (fold_left dstep ops d).
  Proof. induction ops as [|o ops IH]; intros d HI; cbn; [exact HI|]. apply IH, dstep_inv, HI. Qed.

  (* which batches are finished after one operation *)
  Theorem dstep_finished bl d o j :
    Inv g i bl d ->
    finished (dstep d o) j =
    match o with
    | DGrow k fails =>
        match grow (fn g fails) d k with
        | Ok _ => if j =? k then true else finished d j
        | Err _ => finished d j
        end
    | DDelete k => if j =? k then false else finished d j
    | DCheckBad | DResow | DGrowWriteFails _ => finished d j
    end.
  Proof.
    intros HI. destruct o as [k fails| k | | |k']; cbn [dstep].
    - pose proof (grow_spec g fails i bl d k HI) as H.
      destruct (grow (fn g fails) d k) as [d'|]; [|reflexivity].
      destruct H as (_ & _ & _ & Hoth & Hfin & _).
      destruct (j =? k) eqn:E.
      + apply Z.eqb_eq in E. subst. exact Hfin.
      + apply Z.eqb_neq in E. unfold finished, zmem. rewrite (Hoth j E). reflexivity.
    - unfold finished, zmem, delete_result. cbn [d_results]. destruct (j =? k) eqn:E.
      + apply Z.eqb_eq in E. subst. rewrite zlookup_zremove_same. reflexivity.
      + apply Z.eqb_neq in E. rewrite zlookup_zremove_other by exact E. reflexivity.
    - rewrite (check_bad_inv g i bl d HI). reflexivity.
    - destruct (resow_keeps_results g i bl d HI) as (d' & Hs & Hr & _). rewrite Hs.
      unfold finished. rewrite Hr. reflexivity.
    - reflexivity.
  Qed.

  (* a grow whose function raises on one of the batch's settings writes nothing *)
  Theorem failed_grow_writes_nothing bl d k fails b :
    Inv g i bl d -> 1 <= k <= Z.of_nat (length bl) ->
    nth_error bl (Z.to_nat (k - 1)) = Some b -> existsb fails b = true ->
    exists e, grow (fn g fails) d k = Err e.
  Proof.
    intros [HS _] Hk Hb Hf. unfold grow. rewrite (sw_batches _ _ _ HS k Hk), Hb.
    destruct b as [|kw b]; [discriminate|].
    rewrite (run_batch_fail g fails (kw :: b)); [eauto|].
    clear -Hf. induction (kw :: b) as [|x l IH]; [discriminate|]. cbn in *.
    destruct (fails x); [reflexivity|]. cbn. apply IH, Hf.
  Qed.

  (* growing the missing batches grows exactly those and makes the crop ready *)
  Theorem grow_missing_ready bl d o :
    Inv g i bl d -> bl <> [] ->
    exists d', grow_missing (fn g (fun _ => false)) o d = Ok d' /\ Inv g i bl d' /\ ready d' = true
               /\ (forall k, finished d' k = true <-> In k (missing o d) \/ finished d k = true).
  Proof.
    intros HI Hne. unfold grow_missing.
    destruct (grow_list_spec g (fun _ => false) i bl (missing o d) d HI) as (d' & Hg & HI' & Hf).
    - intros k Hk. apply (missing_spec g i bl d o k HI) in Hk. tauto.
    - intros k b _ _. clear. induction b; [reflexivity|exact IHb].
    - exists d'. split; [exact Hg|]. split; [exact HI'|]. split; [|exact Hf].
      apply (ready_spec g i bl d' o HI' Hne).
      destruct (missing o d') as [|x m] eqn:E; [reflexivity|exfalso].
      assert (Hx : In x (missing o d')) by (rewrite E; left; reflexivity).
      apply (missing_spec g i bl d' o x HI') in Hx as [Hr Hnf].
      assert (finished d' x = true); [|congruence].
      apply Hf. destruct (finished d x) eqn:Ef; [right; reflexivity|left].
      apply (missing_spec g i bl d o x HI). split; assumption.
  Qed.
End Progress.
