(* What a generated cluster script grows: for every scheduler, mode, request and crop state the
   executions of the script grow exactly the intended batch ids, in order, each once. *)
From XV Require Import Prelude Script Crop AssocProofs.
From Coq Require Import Permutation.
Open Scope Z_scope.

(* ---------- indexing a tuple by the array indices 1..len gives the tuple back ---------- *)
Definition lookup1 (l : list Z) (t : Z) : list Z :=
  match py_index l (t - 1) with Some i => [i] | None => [] end.

Lemma lookup_seq_gen : forall suf pre,
  flat_map (lookup1 (pre ++ suf)) (zseq (Z.of_nat (length pre) + 1) (length suf)) = suf.
Proof.
  induction suf as [|x suf IH]; intros pre; [reflexivity|].
  cbn [length zseq flat_map].
  assert (H1 : lookup1 (pre ++ x :: suf) (Z.of_nat (length pre) + 1) = [x]).
  { unfold lookup1, py_index.
    replace (Z.of_nat (length pre) + 1 - 1) with (Z.of_nat (length pre)) by lia.
    destruct (0 <=? Z.of_nat (length pre)) eqn:E; [|lia].
    rewrite Nat2Z.id, nth_error_app2 by lia. rewrite Nat.sub_diag. reflexivity. }
  rewrite H1. cbn [app]. f_equal.
  specialize (IH (pre ++ [x])). rewrite <- app_assoc in IH. cbn [app] in IH.
  rewrite app_length in IH. cbn [length] in IH.
  replace (Z.of_nat (length pre + 1) + 1) with (Z.of_nat (length pre) + 1 + 1) in IH by lia.
  exact IH.
Qed.

Lemma lookup_seq : forall l, flat_map (lookup1 l) (zseq 1 (length l)) = l.
Proof. intros l. exact (lookup_seq_gen l []). Qed.

Lemma flat_map_single : forall (l : list Z), flat_map (fun t => [t]) l = l.
Proof. induction l as [|x l IH]; [reflexivity|]. cbn. now rewrite IH. Qed.

Lemma flat_map_map_some {A B} (f : option A -> list B) (l : list A) :
  flat_map f (map Some l) = flat_map (fun x => f (Some x)) l.
Proof. induction l as [|x l IH]; [reflexivity|]. cbn. now rewrite IH. Qed.

Lemma flat_map_ext' {A B} (f g : A -> list B) l : (forall x, f x = g x) -> flat_map f l = flat_map g l.
Proof. intros H. induction l as [|x l IH]; [reflexivity|]. cbn. now rewrite H, IH. Qed.

Lemma length_one_inv : forall l : list Z, Z.of_nat (length l) = 1 -> exists x, l = [x].
Proof. intros [|x [|y l]] H; cbn in H; try lia. now exists x. Qed.

Lemma zrange_length a b : length (zrange a b) = Z.to_nat (b - a).
Proof. unfold zrange. apply zseq_length. Qed.

(* ---------- one execution ---------- *)
Lemma grown_index sc s missing r :
  s_pieces s = [header sc; array_header sc; PBase; grow_all sc; PEnd] ->
  grown_by_run s missing r = match index_value s r with Some t => [t] | None => [] end.
Proof. intros H. unfold grown_by_run. rewrite H. destruct sc; cbn; now rewrite app_nil_r. Qed.

Lemma grown_lookup sc s missing r l :
  s_pieces s = [header sc; array_header sc; PBase; grow_partial sc; PEnd] -> s_ids s = IdsList l ->
  grown_by_run s missing r = match index_value s r with Some t => lookup1 l t | None => [] end.
Proof.
  intros H Hi. unfold grown_by_run. rewrite H, Hi. unfold lookup1.
  destruct sc; cbn; rewrite app_nil_r; destruct (index_value s r); reflexivity.
Qed.

Lemma grown_single sc s missing r :
  s_pieces s = [header sc; PBase; PSingle; PEnd] ->
  grown_by_run s missing r = match s_ids s with IdsList l => l | IdsDynamic => missing end.
Proof. intros H. unfold grown_by_run. rewrite H. destruct sc; cbn; now rewrite app_nil_r. Qed.

Lemma has_array_header sc g :
  existsb (fun p => match p with PSgeArrayHeader | PPbsArrayHeader | PSlurmArrayHeader => true | _ => false end)
          [header sc; array_header sc; PBase; g; PEnd] = true.
Proof. destruct sc; reflexivity. Qed.

(* ---------- array mode, a tuple of ids (explicit request or the missing ones) ---------- *)
Lemma array_partial_tasks sc s missing l :
  s_pieces s = [header sc; array_header sc; PBase; grow_partial sc; PEnd] ->
  s_ids s = IdsList l -> s_run_start s = Some 1 -> s_run_stop s = Some (Z.of_nat (length l)) ->
  s_rewrite s = sched_eqb sc PBS && (Z.of_nat (length l) =? 1) ->
  tasks_grown s missing = l
  /\ header_range s = (if s_rewrite s then None else Some (1, Z.of_nat (length l))).
Proof.
  intros Hp Hi Ha Hb Hr. unfold tasks_grown, runs, header_range. rewrite Ha, Hb, Hp, has_array_header.
  destruct (s_rewrite s) eqn:Er.
  - symmetry in Hr. apply andb_true_iff in Hr as [_ Hl]. rewrite Hl. change (1 =? 1) with true. cbn [andb].
    split; [|reflexivity]. cbn [flat_map]. rewrite (grown_lookup sc s missing None l Hp Hi).
    unfold index_value. rewrite Er. apply Z.eqb_eq in Hl. destruct (length_one_inv l Hl) as [x ->].
    reflexivity.
  - cbn [andb]. split; [|reflexivity].
    replace (Z.to_nat (Z.of_nat (length l) - 1 + 1)) with (length l) by lia.
    rewrite flat_map_map_some.
    rewrite (flat_map_ext' _ (lookup1 l)); [apply lookup_seq|].
    intros t. rewrite (grown_lookup sc s missing (Some t) l Hp Hi). unfold index_value. now rewrite Er.
Qed.

(* ---------- array mode, nothing grown yet: every batch ---------- *)
Lemma array_all_tasks sc s missing B :
  s_pieces s = [header sc; array_header sc; PBase; grow_all sc; PEnd] ->
  s_run_start s = Some 1 -> s_run_stop s = Some B ->
  s_rewrite s = sched_eqb sc PBS && (Z.of_nat (length (zrange 1 (B + 1))) =? 1) ->
  tasks_grown s missing = zrange 1 (B + 1)
  /\ header_range s = (if s_rewrite s then None else Some (1, B)).
Proof.
  intros Hp Ha Hb Hr. unfold tasks_grown, runs, header_range. rewrite Ha, Hb, Hp, has_array_header.
  destruct (s_rewrite s) eqn:Er.
  - symmetry in Hr. apply andb_true_iff in Hr as [_ Hl]. apply Z.eqb_eq in Hl.
    rewrite zrange_length in Hl. assert (B = 1) by lia. subst B. change (1 =? 1) with true. cbn [andb].
    split; [|reflexivity]. cbn [flat_map]. rewrite (grown_index sc s missing None Hp).
    unfold index_value. rewrite Er. reflexivity.
  - cbn [andb]. split; [|reflexivity]. rewrite flat_map_map_some.
    rewrite (flat_map_ext' _ (fun t => [t])).
    + rewrite flat_map_single. unfold zrange. f_equal. lia.
    + intros t. rewrite (grown_index sc s missing (Some t) Hp). unfold index_value. now rewrite Er.
Qed.

(* ---------- single mode ---------- *)
Lemma single_tasks sc s missing :
  s_pieces s = [header sc; PBase; PSingle; PEnd] -> s_run_start s = None ->
  tasks_grown s missing = match s_ids s with IdsList l => l | IdsDynamic => missing end
  /\ header_range s = None.
Proof.
  intros Hp Ha. unfold tasks_grown, runs, header_range. rewrite Ha. split; [|reflexivity].
  cbn [flat_map]. rewrite (grown_single sc s missing None Hp). apply app_nil_r.
Qed.

(* ---------- the selection ---------- *)
Section Select.
  Variables (sc : scheduler) (bids : option (list Z)) (nres : Z) (missing : list Z) (B : Z).

  (* when the request names no ids and nothing is grown yet, the missing ids are all of them *)
  Definition state_consistent : Prop := bids = None -> nres = 0 -> missing = zrange 1 (B + 1).

  Theorem tasks_exact md :
    state_consistent ->
    tasks_grown (select sc md bids nres missing B) missing = intended bids nres missing B.
  Proof.
    intros Hc. unfold state_consistent in Hc. unfold intended. destruct md.
    - destruct bids as [l|] eqn:Eb.
      + apply (array_partial_tasks sc _ missing l); reflexivity.
      + destruct (nres =? 0) eqn:En.
        * apply (array_all_tasks sc _ missing B); unfold select; rewrite En; reflexivity.
        * apply (array_partial_tasks sc _ missing missing); unfold select; rewrite En; reflexivity.
    - destruct (single_tasks sc (select sc MSingle bids nres missing B) missing) as [-> _];
        [destruct bids; reflexivity | destruct bids; reflexivity |].
      destruct bids as [l|] eqn:Eb; [reflexivity|]. cbn [select s_ids].
      destruct (nres =? 0) eqn:En; [|reflexivity]. apply Hc; [reflexivity|lia].
  Qed.

  (* the array range of the header: 1..(number of tasks); for PBS and a single task no array
     line at all (and the program uses the constant index) *)
  Theorem array_range :
    0 <= B ->
    let s := select sc MArray bids nres missing B in
    let n := Z.of_nat (length (intended bids nres missing B)) in
    header_range s = (if sched_eqb sc PBS && (n =? 1) then None else Some (1, n))
    /\ s_rewrite s = sched_eqb sc PBS && (n =? 1).
  Proof.
    intros HB s n. subst s n. unfold intended. destruct bids as [l|] eqn:Eb.
    - destruct (array_partial_tasks sc (select sc MArray (Some l) nres missing B) missing l) as [_ ->];
        try reflexivity. split; reflexivity.
    - destruct (nres =? 0) eqn:En.
      + destruct (array_all_tasks sc (select sc MArray None nres missing B) missing B) as [_ ->];
          try (unfold select; rewrite En; reflexivity).
        unfold select. rewrite En. cbn [s_rewrite ids_len].
        split; [|reflexivity].
        destruct (sched_eqb sc PBS && (Z.of_nat (length (zrange 1 (B + 1))) =? 1)) eqn:E; [reflexivity|].
        f_equal. f_equal. rewrite zrange_length. lia.
      + destruct (array_partial_tasks sc (select sc MArray None nres missing B) missing missing) as [_ ->];
          try (unfold select; rewrite En; reflexivity).
        unfold select. rewrite En. split; reflexivity.
  Qed.
End Select.

(* ---------- consequences used by the property theorems ---------- *)
Lemma intended_nodup bids nres missing B :
  (forall l, bids = Some l -> NoDup l) -> NoDup missing -> NoDup (intended bids nres missing B).
Proof.
  intros Hl Hm. unfold intended. destruct bids as [l|]; [now apply Hl|].
  destruct (nres =? 0); [apply zseq_nodup|exact Hm].
Qed.

(* the pieces of a single-mode script never use the keys that only array mode supplies, and an
   array-mode selection supplies them *)
Lemma select_supplies sc md bids nres missing B :
  let s := select sc md bids nres missing B in
  forallb (fun p => negb (array_only p) || (opt_is_some (s_run_start s) && opt_is_some (s_run_stop s)))
          (s_pieces s) = true.
Proof. destruct sc, md, bids; cbn; try destruct (nres =? 0); reflexivity. Qed.

(* header and program pieces belong to the requested scheduler *)
Lemma select_pieces sc md bids nres missing B :
  exists g, s_pieces (select sc md bids nres missing B)
            = match md with
              | MArray => [header sc; array_header sc; PBase; g; PEnd]
              | MSingle => [header sc; PBase; g; PEnd]
              end
            /\ (g = grow_all sc \/ g = grow_partial sc \/ g = PSingle).
Proof.
  destruct md; cbn [select s_pieces]; eexists; (split; [reflexivity|]).
  - destruct bids; [tauto|]. destruct (nres =? 0); tauto.
  - tauto.
Qed.

(* ---------- the crop model supplies the consistency hypothesis ---------- *)
Section CropState.
  Context {R : Type}.
  Lemma fresh_crop_missing (d : @disk R) (o : obj) inf :
    d_info d = Some inf -> num_results d = 0 -> missing o d = zrange 1 (inf_nb inf + 1).
  Proof.
    intros Hi Hn. unfold missing, sync, reload, missing_of. rewrite Hi. cbn [o_nb].
    unfold num_results in Hn. rewrite Hi in Hn.
    destruct (d_results d) as [|x l] eqn:Er; [|cbn in Hn; lia].
    unfold zrange. replace (inf_nb inf + 1 - 1) with (inf_nb inf) by lia.
    generalize (zseq 1 (Z.to_nat (inf_nb inf))). intros ys.
    induction ys as [|y ys IH]; [reflexivity|]. cbn [filter]. unfold zmem at 1. cbn [zlookup negb].
    now rewrite IH.
  Qed.
End CropState.
