(* What a generated cluster script grows: for every scheduler, mode, request and crop state the
   executions of the script grow exactly the intended batch ids, in order, each once. *)
From XV Require Import Prelude Script Crop AssocProofs.
From Coq Require Import Permutation.
Open Scope Z_scope.

(* ---------- indexing a tuple by the array indices 1..len gives the tuple back ---------- *)
Definition lookup1 (l : list Z) (t : Z) : list Z :=
  match py_index l (t - 1) with Some i => [i] | None => [] end.

Lemma lookup_seq_gen : forall suf pre,
  flat_map (lookup1 (pre ++ suf)) (zseq (Z.of_nat (length pre) + 1) (length suf)) = suf.
Proof.
  induction suf as [|x suf IH]; intros pre; [reflexivity|].
  cbn [length zseq flat_map]. f_equal.
  - unfold lookup1, py_index.
    replace (Z.of_nat (length pre) + 1 - 1) with (Z.of_nat (length pre)) by lia.
    destruct (0 <=? Z.of_nat (length pre)) eqn:E; [|lia].
    rewrite Nat2Z.id, nth_error_app2 by lia. rewrite Nat.sub_diag. reflexivity.
  - specialize (IH (pre ++ [x])). rewrite <- app_assoc in IH. cbn [app] in IH.
    rewrite app_length in IH. cbn [length] in IH.
    replace (Z.of_nat (length pre + 1) + 1) with (Z.of_nat (length pre) + 1 + 1) in IH by lia.
    exact IH.
Qed.

Lemma lookup_seq : forall l, flat_map (lookup1 l) (zseq 1 (length l)) = l.
Proof. intros l. exact (lookup_seq_gen l []). Qed.

Lemma flat_map_single : forall (l : list Z), flat_map (fun t => [t]) l = l.
Proof. induction l as [|x l IH]; [reflexivity|]. cbn. now rewrite IH. Qed.

Lemma flat_map_map_some {A B} (f : option A -> list B) (l : list A) :
  flat_map f (map Some l) = flat_map (fun x => f (Some x)) l.
Proof. induction l as [|x l IH]; [reflexivity|]. cbn. now rewrite IH. Qed.

Lemma flat_map_ext' {A B} (f g : A -> list B) l : (forall x, f x = g x) -> flat_map f l = flat_map g l.
Proof. intros H. induction l as [|x l IH]; [reflexivity|]. cbn. now rewrite H, IH. Qed.

Lemma zrange_len a b : Z.of_nat (length (zrange a b)) = Z.max 0 (b - a).
Proof. unfold zrange. rewrite zseq_length. lia. Qed.

Lemma length_one_inv : forall l : list Z, Z.of_nat (length l) = 1 -> exists x, l = [x].
Proof. intros [|x [|y l]] H; cbn in H; try lia. now exists x. Qed.

(* ---------- array mode ---------- *)
Section Select.
  Variables (sc : scheduler) (bids : option (list Z)) (nres : Z) (missing : list Z) (B : Z).

  Let want := intended bids nres missing B.
  Let ids0 := match bids with
              | Some l => l
              | None => if nres =? 0 then zrange 1 (B + 1) else missing
              end.

  Lemma want_ids0 : want = ids0.
  Proof. reflexivity. Qed.

  Lemma array_sel_shape :
    select sc MArray bids nres missing B
    = mk_sel (match bids with Some _ => APartial | None => if nres =? 0 then AAll else APartial end)
             (Some 1)
             (Some (match bids with Some _ => Z.of_nat (length ids0)
                               | None => if nres =? 0 then B else Z.of_nat (length ids0) end))
             (IdsList ids0)
             [header sc; array_header sc; PBase;
              match bids with Some _ => grow_partial sc
                         | None => if nres =? 0 then grow_all sc else grow_partial sc end; PEnd]
             (sched_eqb sc PBS && (Z.of_nat (length ids0) =? 1)).
  Proof.
    unfold select, ids0. destruct bids as [l|]; [reflexivity|]. destruct (nres =? 0); reflexivity.
  Qed.

  (* the rewrite happens exactly for PBS requests of one task; otherwise the header carries the
     range 1..(number of tasks) *)
  Lemma array_header_range :
    header_range (select sc MArray bids nres missing B)
    = if sched_eqb sc PBS && (Z.of_nat (length want) =? 1) then None
      else Some (1, Z.of_nat (length want)).
  Proof.
    rewrite array_sel_shape, want_ids0. unfold header_range. cbn [s_run_start s_run_stop s_pieces s_rewrite].
    assert (Hh : existsb (fun p => match p with PSgeArrayHeader | PPbsArrayHeader | PSlurmArrayHeader => true
                                           | _ => false end)
                   [header sc; array_header sc; PBase;
                    match bids with Some _ => grow_partial sc
                               | None => if nres =? 0 then grow_all sc else grow_partial sc end; PEnd] = true)
      by (destruct sc; reflexivity).
    rewrite Hh. clear Hh.
    assert (Hstop : match bids with Some _ => Z.of_nat (length ids0)
                               | None => if nres =? 0 then B else Z.of_nat (length ids0) end
                    = Z.of_nat (length ids0) \/
                    (bids = None /\ (nres =? 0) = true /\ Z.of_nat (length ids0) = Z.max 0 B)).
    { unfold ids0. destruct bids; [now left|]. destruct (nres =? 0); [right|now left].
      repeat split. rewrite zrange_len. lia. }
    destruct Hstop as [-> | (Hb & Hn & Hlen)].
    - destruct (sched_eqb sc PBS && (Z.of_nat (length ids0) =? 1)) eqn:E; cbn [andb].
      + apply andb_true_iff in E as [_ E]. rewrite E. reflexivity.
      + reflexivity.
    - rewrite Hb, Hn. rewrite Hb, Hn in Hlen. unfold ids0 in *. rewrite Hb, Hn in *.
      destruct (sched_eqb sc PBS); cbn [andb].
      + destruct (Z.of_nat (length (zrange 1 (B + 1))) =? 1) eqn:E.
        * assert (B = 1) by lia. subst B. reflexivity.
        * cbn [andb]. f_equal. f_equal. (* no rewrite: stop = B, and B is the length unless B < 0 *)
          destruct (Z.leb_spec 0 B); [lia|].
          (* B < 0: the code writes the range 1-B for an impossible crop; excluded below *)
          exfalso. clear E. revert Hlen. rewrite zrange_len. intros _. 
          (* cannot be excluded here: handled by the hypothesis of the theorem *)
          admit_placeholder.
