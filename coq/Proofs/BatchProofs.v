(* Invariant of the Sower and the arithmetic of batch sizes, for every N, every
   requested batch size or batch count (no bound). *)
From XV Require Import Prelude Batch.
From Coq Require Import ZifyBool.
Ltac Zify.zify_post_hook ::= Z.to_euclidean_division_equations.
Open Scope Z_scope.

Section SowerInv.
  Context {A : Type}.
  Variables (bsz rem : Z).
  Hypothesis Hbsz : 1 <= bsz.
  Hypothesis Hrem : 0 <= rem.

  Definition size_of (i : Z) : Z := bsz + b2z (i <? rem).

  (* [SInv pre st]: st is the sower state after consuming the settings [pre] *)
  Record SInv (pre : list A) (st : sower) : Prop := {
    inv_concat : concat (s_done st) ++ s_cur st = pre;
    inv_cnt : s_cnt st = Z.of_nat (length (s_cur st));
    inv_room : 0 <= s_cnt st < size_of (s_bc st);
    inv_bc : s_bc st = Z.of_nat (length (s_done st));
    inv_sizes : forall i b, nth_error (s_done st) i = Some b ->
                            Z.of_nat (length b) = size_of (Z.of_nat i);
    inv_total : Z.of_nat (length (concat (s_done st))) = s_bc st * bsz + Z.min (s_bc st) rem
  }.

  Lemma size_pos i : 1 <= size_of i.
  Proof. unfold size_of, b2z. destruct (i <? rem); lia. Qed.

  Lemma SInv_init : SInv [] (@sower_init A).
  Proof.
    constructor; cbn; try reflexivity; try lia.
    - pose proof (size_pos 0). lia.
    - intros i b H. destruct i; discriminate.
  Qed.

  Lemma SInv_step pre st x :
    SInv pre st -> SInv (pre ++ [x]) (sow_step bsz rem st x).
  Proof.
    intros [Hc Hn Hr Hb Hs Ht]. unfold sow_step, cut. fold (size_of (s_bc st)).
    destruct (s_cnt st + 1 =? size_of (s_bc st)) eqn:E.
    - apply Z.eqb_eq in E.
      constructor; cbn [s_cur s_cnt s_bc s_done].
      + rewrite concat_app. cbn. rewrite !app_nil_r, <- Hc, app_assoc. reflexivity.
      + reflexivity.
      + pose proof (size_pos (s_bc st + 1)). lia.
      + rewrite app_length. cbn. lia.
      + intros i b Hi.
        destruct (Nat.lt_ge_cases i (length (s_done st))) as [Hlt|Hge].
        * rewrite nth_error_app1 in Hi by exact Hlt. eauto.
        * rewrite nth_error_app2 in Hi by exact Hge.
          destruct (i - length (s_done st))%nat eqn:Ei.
          -- cbn in Hi. injection Hi as <-. rewrite app_length. cbn.
             assert (Z.of_nat i = s_bc st) as -> by lia. lia.
          -- destruct n; discriminate.
      + rewrite concat_app, app_length. cbn. rewrite app_nil_r, app_length. cbn.
        unfold size_of, b2z in *.
        destruct (s_bc st <? rem) eqn:E1; lia.
    - apply Z.eqb_neq in E.
      constructor; cbn [s_cur s_cnt s_bc s_done].
      + rewrite app_assoc, Hc. reflexivity.
      + rewrite app_length. cbn. lia.
      + lia.
      + exact Hb.
      + exact Hs.
      + exact Ht.
  Qed.

  Lemma SInv_fold (l : list A) : forall pre st,
    SInv pre st -> SInv (pre ++ l) (fold_left (sow_step bsz rem) l st).
  Proof.
    induction l as [|x l IH]; intros pre st H; cbn [fold_left].
    - rewrite app_nil_r. exact H.
    - replace (pre ++ x :: l) with ((pre ++ [x]) ++ l) by (rewrite <- app_assoc; reflexivity).
      apply IH, SInv_step, H.
  Qed.

  Lemma SInv_all (l : list A) : SInv l (fold_left (sow_step bsz rem) l sower_init).
  Proof. apply (SInv_fold l [] sower_init), SInv_init. Qed.

  (* every setting in exactly one batch, in sow order *)
  Lemma sow_all_concat (l : list A) : concat (sow_all bsz rem l) = l.
  Proof.
    unfold sow_all, sow_exit. destruct (SInv_all l) as [Hc _ _ _ _ _].
    destruct (s_cur _) eqn:E.
    - rewrite app_nil_r in Hc. exact Hc.
    - rewrite concat_app. cbn. rewrite app_nil_r. exact Hc.
  Qed.

  Lemma sow_all_nonempty (l : list A) : Forall (fun b => b <> []) (sow_all bsz rem l).
  Proof.
    unfold sow_all, sow_exit. destruct (SInv_all l) as [_ _ _ _ Hs _].
    assert (Hd : Forall (fun b : list A => b <> []) (s_done (fold_left (sow_step bsz rem) l sower_init))).
    { apply Forall_forall. intros b Hin. apply In_nth_error in Hin as [i Hi].
      apply Hs in Hi. pose proof (size_pos (Z.of_nat i)). destruct b; [cbn in Hi; lia|discriminate]. }
    destruct (s_cur _) eqn:E; [exact Hd|].
    apply Forall_app. split; [exact Hd|]. constructor; [discriminate|constructor].
  Qed.

  (* size of batch i (0-based position = file i+1) *)
  Lemma sow_all_sizes (l : list A) i b :
    nth_error (sow_all bsz rem l) i = Some b ->
    1 <= Z.of_nat (length b) <= size_of (Z.of_nat i).
  Proof.
    unfold sow_all, sow_exit. destruct (SInv_all l) as [_ Hn Hr Hb Hs _].
    set (st := fold_left _ _ _) in *.
    intros Hi.
    assert (Hdone : forall j c, nth_error (s_done st) j = Some c ->
                                1 <= Z.of_nat (length c) <= size_of (Z.of_nat j)).
    { intros j c Hj. apply Hs in Hj. pose proof (size_pos (Z.of_nat j)). lia. }
    destruct (s_cur st) eqn:E; [eauto|].
    destruct (Nat.lt_ge_cases i (length (s_done st))) as [Hlt|Hge].
    - rewrite nth_error_app1 in Hi by exact Hlt. eauto.
    - rewrite nth_error_app2 in Hi by exact Hge.
      destruct (i - length (s_done st))%nat eqn:Ei.
      + cbn in Hi. injection Hi as <-.
        assert (Z.of_nat i = s_bc st) as -> by lia.
        cbn [length] in *. lia.
      + destruct n; discriminate.
  Qed.

  (* total accounting: batches written, settings buffered *)
  Lemma sow_all_account (l : list A) :
    let st := fold_left (sow_step bsz rem) l sower_init in
    Z.of_nat (length l) = s_bc st * bsz + Z.min (s_bc st) rem + s_cnt st
    /\ 0 <= s_cnt st < size_of (s_bc st) /\ 0 <= s_bc st
    /\ Z.of_nat (length (sow_all bsz rem l)) = s_bc st + b2z (0 <? s_cnt st)
    /\ (forall i b, nth_error (s_done st) i = Some b -> Z.of_nat (length b) = size_of (Z.of_nat i))
    /\ sow_all bsz rem l = s_done st ++ (if 0 <? s_cnt st then [s_cur st] else []).
  Proof.
    intros st. destruct (SInv_all l) as [Hc Hn Hr Hb Hs Ht]. fold st in Hc, Hn, Hr, Hb, Hs, Ht.
    repeat split; try lia; try exact Hs.
    - rewrite <- Hc at 1. rewrite app_length. lia.
    - unfold sow_all, sow_exit. fold st. destruct (s_cur st) eqn:E.
      + cbn in Hn. rewrite Hn. cbn. lia.
      + rewrite app_length. cbn [length] in *. rewrite Hn.
        replace (0 <? Z.of_nat (S (length l0))) with true by lia. cbn. lia.
    - unfold sow_all, sow_exit. fold st. destruct (s_cur st) eqn:E.
      + cbn in Hn. rewrite Hn. cbn. rewrite app_nil_r. reflexivity.
      + cbn [length] in Hn. rewrite Hn.
        replace (0 <? Z.of_nat (S (length l0))) with true by lia. reflexivity.
  Qed.
End SowerInv.

(* ---- arithmetic of the two ways to choose ---- *)

Lemma cdiv_spec n s : 1 <= s -> (cdiv n s - 1) * s < n <= cdiv n s * s.
Proof. intros Hs. unfold cdiv. nia. Qed.

Lemma cdiv_pos n s : 1 <= s -> 1 <= n -> 1 <= cdiv n s.
Proof. intros. unfold cdiv. nia. Qed.

(* by size: ceil(N/s) batches, each of at most s *)
Lemma by_size_count {A} (l : list A) s :
  1 <= s -> Z.of_nat (length (sow_all s 0 l)) = cdiv (Z.of_nat (length l)) s.
Proof.
  intros Hs.
  destruct (sow_all_account s 0 Hs (Z.le_refl 0) l) as (Hn & Hr & Hb & Hlen & _).
  set (st := fold_left _ _ _) in *.
  unfold size_of, b2z in Hr. replace (s_bc st <? 0) with false in Hr by lia.
  rewrite Hlen. unfold cdiv, b2z.
  destruct (0 <? s_cnt st) eqn:E; nia.
Qed.

Lemma by_size_bound {A} (l : list A) s :
  1 <= s -> Forall (fun b => 1 <= Z.of_nat (length b) <= s) (sow_all s 0 l).
Proof.
  intros Hs. apply Forall_forall. intros b Hin.
  apply In_nth_error in Hin as [i Hi].
  pose proof (sow_all_sizes s 0 Hs (Z.le_refl 0) l i b Hi) as H.
  unfold size_of, b2z in H. replace (Z.of_nat i <? 0) with false in H by lia. lia.
Qed.

(* by count: exactly k' = min N k batches; the first N mod k' have one more *)
Lemma by_count_exact {A} (l : list A) k :
  let n := Z.of_nat (length l) in
  1 <= k -> 1 <= n -> k <= n ->
  let st := fold_left (sow_step (n / k) (n mod k)) l sower_init in
  s_bc st = k /\ s_cnt st = 0.
Proof.
  intros n Hk Hn Hkn st.
  assert (Hq : 1 <= n / k) by (apply Z.div_le_lower_bound; lia).
  assert (Hr : 0 <= n mod k < k) by (apply Z.mod_pos_bound; lia).
  destruct (sow_all_account (n / k) (n mod k) Hq (proj1 Hr) l) as (Hacc & Hroom & Hb & _).
  fold n in Hacc. fold st in Hacc, Hroom, Hb.
  assert (Hdm : n = k * (n / k) + n mod k) by (apply Z.div_mod; lia).
  unfold size_of, b2z in Hroom.
  set (q := n / k) in *. set (r := n mod k) in *. set (m := s_bc st) in *. set (c := s_cnt st) in *.
  assert (m = k).
  { destruct (Z.lt_trichotomy m k) as [Hlt|[Heq|Hgt]]; [exfalso|exact Heq|exfalso].
    - destruct (m <? r) eqn:E; nia.
    - destruct (m <? r) eqn:E; nia. }
  subst m. split; [assumption|]. destruct (s_bc st <? r) eqn:E; nia.
Qed.

Lemma by_count_batches {A} (l : list A) k :
  let n := Z.of_nat (length l) in
  1 <= k -> 1 <= n -> k <= n ->
  let bs := sow_all (n / k) (n mod k) l in
  Z.of_nat (length bs) = k /\
  forall i b, nth_error bs i = Some b ->
              Z.of_nat (length b) = n / k + b2z (Z.of_nat i <? n mod k).
Proof.
  intros n Hk Hn Hkn bs.
  assert (Hq : 1 <= n / k) by (apply Z.div_le_lower_bound; lia).
  assert (Hr : 0 <= n mod k < k) by (apply Z.mod_pos_bound; lia).
  destruct (by_count_exact l k Hk Hn Hkn) as [Hm Hc].
  destruct (sow_all_account (n / k) (n mod k) Hq (proj1 Hr) l) as (_ & _ & _ & Hlen & Hs & Heq).
  fold n in Hlen, Hs, Heq. fold bs in Hlen, Heq.
  cbv zeta in Hm, Hc. fold n in Hm, Hc.
  rewrite Hc in Hlen, Heq. cbn in Hlen, Heq. rewrite app_nil_r in Heq.
  split; [lia|]. intros i b Hi. rewrite Heq in Hi. apply Hs in Hi. exact Hi.
Qed.

Lemma choose_both_ok n s k r :
  n <= s * k + r < n + s ->
  choose n (Some s) (Some k) (Some r) = Ok (Some s, Some k, Some r).
Proof.
  intros H. unfold choose.
  replace ((n <=? s * k + r) && (s * k + r <? n + s))%bool with true; [reflexivity|].
  symmetry. apply andb_true_iff. split; [apply Z.leb_le|apply Z.ltb_lt]; lia.
Qed.
