(* Supporting lemmas for C19.  Part 1 is generic over the operations record (it holds
   for binary64 as well as for the reals): chunking, the shape of the covariance-matrix
   dictionary and the stopping rule of estimate_from_repeats.  Part 2 is over the real
   numbers: Welford's recurrences compute the whole-sample quantities, for any list. *)
From Coq Require Import Reals Lra Permutation ZifyBool.
From XV Require Import Prelude Welford WelfordR.

(* ================================================================== part 1: generic *)
Section GenericFacts.
  Context {T : Type}.
  Variable Op : ops T.

  Lemma update_from_it_app : forall l1 l2 s,
    update_from_it Op s (l1 ++ l2) = update_from_it Op (update_from_it Op s l1) l2.
  Proof. intros. unfold update_from_it. apply fold_left_app. Qed.

  Lemma update_chunks_concat : forall chunks s,
    update_chunks Op s chunks = update_from_it Op s (concat chunks).
  Proof.
    unfold update_chunks.
    induction chunks as [|c cs IH]; intro s; cbn [fold_left concat]; [reflexivity|].
    rewrite update_from_it_app. apply IH.
  Qed.

  Lemma update_cov_from_it_app : forall p1 p2 s,
    fold_left (upd_cov_p Op) (p1 ++ p2) s = fold_left (upd_cov_p Op) p2 (fold_left (upd_cov_p Op) p1 s).
  Proof. intros. apply fold_left_app. Qed.

  (* ------------------------------------------------ the dictionary of the matrix *)
  Lemma key_eqb_eq : forall a b, key_eqb a b = true <-> a = b.
  Proof.
    intros [a1 a2] [b1 b2]. unfold key_eqb. cbn.
    rewrite andb_true_iff, !Nat.eqb_eq. split.
    - intros [-> ->]. reflexivity.
    - intro H. injection H as -> ->. split; reflexivity.
  Qed.

  Lemma in_pairs : forall n i j, In (i, j) (pairs n) <-> (i <= j < n)%nat.
  Proof.
    intros n i j. unfold pairs. rewrite in_flat_map. split.
    - intros [k [Hk Hin]]. apply in_map_iff in Hin. destruct Hin as [j' [Heq Hj]].
      injection Heq as -> ->. apply in_seq in Hk. apply in_seq in Hj. lia.
    - intros H. exists i. split.
      + apply in_seq. lia.
      + apply in_map_iff. exists j. split; [reflexivity|]. apply in_seq. lia.
  Qed.

  Lemma find_tabulated : forall (g : nat * nat -> cov T) L k,
    In k L ->
    find (fun e => key_eqb (fst e) k) (map (fun ij => (ij, g ij)) L) = Some (k, g k).
  Proof.
    induction L as [|ij L IH]; intros k Hin; [destruct Hin|].
    cbn. destruct (key_eqb ij k) eqn:E.
    - apply key_eqb_eq in E. subst. reflexivity.
    - destruct Hin as [->|Hin].
      + assert (key_eqb k k = true) by (apply key_eqb_eq; reflexivity). congruence.
      + apply IH. exact Hin.
  Qed.

  Lemma cm_update_from_it_tab : forall n xs,
    cm_update_from_it Op (cm_init Op n) xs
    = map (fun ij => (ij, update_cov_from_it Op (cov_init Op) (nth (fst ij) xs []) (nth (snd ij) xs [])))
          (pairs n).
  Proof.
    intros. unfold cm_update_from_it, cm_init. rewrite map_map. reflexivity.
  Qed.

  (* every pair i <= j < n has its own accumulator, fed with zip(xs_i, xs_j) *)
  Lemma cm_get_update_from_it : forall n xs i j, (i <= j < n)%nat ->
    cm_get Op (cm_update_from_it Op (cm_init Op n) xs) (i, j)
    = update_cov_from_it Op (cov_init Op) (nth i xs []) (nth j xs []).
  Proof.
    intros n xs i j H. rewrite cm_update_from_it_tab. unfold cm_get.
    rewrite find_tabulated by (apply in_pairs; exact H). reflexivity.
  Qed.

  Lemma cm_cell_sym : forall st i j, cm_cell Op st i j = cm_cell Op st j i.
  Proof.
    intros st i j. unfold cm_cell.
    destruct (Nat.leb i j) eqn:E1, (Nat.leb j i) eqn:E2; try reflexivity.
    - apply Nat.leb_le in E1. apply Nat.leb_le in E2.
      assert (i = j) by lia. subst. reflexivity.
    - apply Nat.leb_gt in E1. apply Nat.leb_gt in E2. lia.
  Qed.

  (* feeding rows one at a time = feeding the columns as whole series *)
  Lemma fold_cm_upd : forall rows st,
    fold_left (cm_upd Op) rows st
    = map (fun e => (fst e,
             fold_left (fun c r => upd_cov Op c (nth (fst (fst e)) r (zero Op)) (nth (snd (fst e)) r (zero Op)))
                       rows (snd e))) st.
  Proof.
    induction rows as [|r rows IH]; intro st; cbn [fold_left].
    - rewrite <- (map_id st) at 1. apply map_ext. intros [k c]. reflexivity.
    - rewrite IH. unfold cm_upd. rewrite map_map. apply map_ext. intros [k c]. reflexivity.
  Qed.

  Lemma update_cov_from_it_map : forall (f g : list T -> T) rows c,
    update_cov_from_it Op c (map f rows) (map g rows)
    = fold_left (fun c r => upd_cov Op c (f r) (g r)) rows c.
  Proof.
    induction rows as [|r rows IH]; intro c; [reflexivity|].
    unfold update_cov_from_it in *. cbn. apply IH.
  Qed.

  Lemma nth_columns : forall n rows i, (i < n)%nat -> nth i (columns Op n rows) [] = column Op rows i.
  Proof.
    intros n rows i H. unfold columns.
    rewrite (nth_indep _ [] (column Op rows 0%nat)) by (rewrite map_length, seq_length; exact H).
    rewrite map_nth. rewrite seq_nth by exact H. reflexivity.
  Qed.

  Lemma cm_rows_columns : forall n rows,
    fold_left (cm_upd Op) rows (cm_init Op n) = cm_update_from_it Op (cm_init Op n) (columns Op n rows).
  Proof.
    intros n rows. rewrite fold_cm_upd, cm_update_from_it_tab.
    unfold cm_init. rewrite map_map. apply map_ext_in. intros [i j] Hin.
    apply in_pairs in Hin. cbn [fst snd].
    rewrite !nth_columns by lia. unfold column.
    rewrite update_cov_from_it_map. reflexivity.
  Qed.

  (* ------------------------------------------------ the stopping rule *)
  Section Stop.
    Variables (rtol tol_scale : T) (min_samples max_samples : Z).
    Variable xs : nat -> T.

    Let atol := Stopping.atol Op rtol tol_scale.
    Definition pstate (c : nat) : stats T := update_from_it Op (init Op) (prefix xs c).
    Let conv (c : nat) : bool := converged Op (pstate c) rtol atol.

    Lemma prefix_S : forall c, prefix xs (S c) = prefix xs c ++ [xs c].
    Proof. intro c. unfold prefix. rewrite seq_S, map_app. reflexivity. Qed.

    Lemma pstate_S : forall c, pstate (S c) = upd Op (pstate c) (xs c).
    Proof. intro c. unfold pstate. rewrite prefix_S, update_from_it_app. reflexivity. Qed.

    Lemma run_from_spec : forall fuel i,
      (Z.of_nat i + 1 <= Z.max 1 max_samples)%Z ->
      (Z.max 1 max_samples <= Z.of_nat i + Z.of_nat fuel)%Z ->
      (forall c', (1 <= c' <= i)%nat -> (min_samples + 2 <= Z.of_nat c')%Z -> conv c' = false) ->
      exists c,
        Stopping.run_from Op rtol tol_scale min_samples max_samples xs fuel i (pstate i) = Some (c, pstate c)
        /\ (i < c)%nat
        /\ (Z.of_nat c <= Z.max 1 max_samples)%Z
        /\ ((Z.of_nat c < max_samples)%Z -> (min_samples + 2 <= Z.of_nat c)%Z /\ conv c = true)
        /\ (forall c', (1 <= c' < c)%nat -> (min_samples + 2 <= Z.of_nat c')%Z -> conv c' = false).
    Proof.
      induction fuel as [|f IH]; intros i HP Hfuel Hearlier.
      - exfalso. lia.
      - cbn [Stopping.run_from]. rewrite <- pstate_S.
        fold atol. change (converged Op (pstate (S i)) rtol atol) with (conv (S i)).
        unfold guard_conv, guard_max.
        destruct ((min_samples <? Z.of_nat i)%Z && conv (S i)) eqn:E1.
        + apply andb_true_iff in E1. destruct E1 as [Eg Ec].
          exists (S i). repeat split; try lia; try exact Ec.
          intros c' Hc' Hm. apply Hearlier; lia.
        + destruct ((max_samples - 1 <=? Z.of_nat i)%Z) eqn:E2.
          * exists (S i). repeat split; try lia.
            intros c' Hc' Hm. apply Hearlier; lia.
          * assert (Hnew : forall c', (1 <= c' <= S i)%nat ->
                       (min_samples + 2 <= Z.of_nat c')%Z -> conv c' = false).
            { intros c' Hc' Hm. destruct (Nat.eq_dec c' (S i)) as [->|Hne].
              - apply andb_false_iff in E1. destruct E1 as [Eg|Ec]; [lia|exact Ec].
              - apply Hearlier; lia. }
            destruct (IH (S i) ltac:(lia) ltac:(lia) Hnew) as [c [Hrun [Hlt [Hmax [Hearly Hnot]]]]].
            exists c. repeat split; try lia; try exact Hrun; try exact Hnot; apply Hearly; assumption.
    Qed.

    Lemma run_spec : forall fuel,
      (Stopping.fuel_for max_samples <= fuel)%nat ->
      exists c,
        Stopping.run Op rtol tol_scale min_samples max_samples xs fuel = Some (c, pstate c)
        /\ (1 <= c)%nat
        /\ (Z.of_nat c <= Z.max 1 max_samples)%Z
        /\ ((Z.of_nat c < max_samples)%Z -> (min_samples + 2 <= Z.of_nat c)%Z /\ conv c = true)
        /\ (forall c', (1 <= c' < c)%nat -> (min_samples + 2 <= Z.of_nat c')%Z -> conv c' = false).
    Proof.
      intros fuel Hf. unfold Stopping.fuel_for in Hf. unfold Stopping.run.
      change (init Op) with (pstate 0).
      destruct (run_from_spec fuel 0%nat ltac:(lia) ltac:(lia)) as [c [Hrun [Hlt H]]].
      - intros c' Hc'. lia.
      - exists c. split; [exact Hrun|]. split; [lia|exact H].
    Qed.
  End Stop.
End GenericFacts.

(* ================================================================== part 2: the reals *)
Open Scope R_scope.

Definition Rsumsq (l : list R) : R := Rsum (map (fun x => x * x) l).

Lemma Rsum_app : forall l1 l2, Rsum (l1 ++ l2) = Rsum l1 + Rsum l2.
Proof. induction l1 as [|x l1 IH]; intro l2; cbn; [ring|rewrite IH; ring]. Qed.

Lemma Rsumsq_app : forall l1 l2, Rsumsq (l1 ++ l2) = Rsumsq l1 + Rsumsq l2.
Proof. intros. unfold Rsumsq. rewrite map_app. apply Rsum_app. Qed.

Lemma Rlen_pos : forall A (l : list A), 0 <= Rlen l.
Proof. intros. unfold Rlen. apply pos_INR. Qed.

Lemma Rlen_nonempty : forall A (l : list A), l <> [] -> Rlen l <> 0.
Proof.
  intros A l H. unfold Rlen. destruct l; [congruence|].
  apply not_0_INR. cbn. discriminate.
Qed.

Lemma Rlen_snoc : forall A (l : list A) x, Rlen (l ++ [x]) = Rlen l + 1.
Proof. intros. unfold Rlen. rewrite app_length. cbn. rewrite Nat.add_1_r. apply S_INR. Qed.

(* expansion of the squared deviations around any centre m *)
Lemma dev2_expand : forall l m,
  dev2 l m = Rsumsq l - 2 * m * Rsum l + Rlen l * m * m.
Proof.
  induction l as [|x l IH]; intro m.
  - unfold dev2, Rsumsq, Rlen. cbn. ring.
  - unfold dev2, Rsumsq, Rlen in *. cbn [map Rsum length]. rewrite IH, S_INR. ring.
Qed.

Lemma codev_expand : forall p a b,
  codev p a b = Rsum (map (fun q => fst q * snd q) p) - b * Rsum (map fst p) - a * Rsum (map snd p)
                + Rlen p * a * b.
Proof.
  induction p as [|q p IH]; intros a b.
  - unfold codev, Rlen. cbn. ring.
  - unfold codev, Rlen in *. cbn [map Rsum length]. rewrite IH, S_INR. ring.
Qed.

(* ---------------------------------------------------------------- RunningStatistics *)
(* the state after the sample p, in a form that is stable under one more update *)
Definition Inv (p : list R) (s : stats R) : Prop :=
  count s = length p
  /\ Rlen p * mean s = Rsum p
  /\ M2 s = Rsumsq p - Rlen p * mean s * mean s.

Lemma Inv_init : Inv [] (init opsR).
Proof. unfold Inv, Rlen, Rsumsq. cbn. repeat split; ring. Qed.

Lemma Inv_step : forall p s x, Inv p s -> Inv (p ++ [x]) (upd opsR s x).
Proof.
  intros p s x [Hc [Hm HM]].
  pose proof (Rlen_pos _ p) as Hn.
  unfold Inv, upd. cbn [count mean M2 add sub mul div of_nat opsR].
  rewrite Hc, Nat.add_1_r, S_INR. fold (Rlen p).
  rewrite Rlen_snoc, Rsum_app, Rsumsq_app, HM.
  change (Rsumsq [x]) with (x * x + 0). cbn [Rsum].
  repeat split.
  - rewrite app_length. cbn. lia.
  - rewrite <- Hm. field. lra.
  - field. lra.
Qed.

Lemma Inv_fold : forall l p s, Inv p s -> Inv (p ++ l) (update_from_it opsR s l).
Proof.
  induction l as [|x l IH]; intros p s H.
  - rewrite app_nil_r. exact H.
  - cbn. replace (p ++ x :: l) with ((p ++ [x]) ++ l) by (rewrite <- app_assoc; reflexivity).
    apply IH. apply Inv_step. exact H.
Qed.

Lemma avg_nil : avg [] = 0.
Proof. unfold avg, Rdiv. cbn. ring. Qed.

Lemma Inv_whole : forall l s, l <> [] -> Inv l s -> s = whole l.
Proof.
  intros l [c m q] Hne [Hc [Hm HM]]. cbn [count mean M2] in *.
  pose proof (Rlen_nonempty _ l Hne) as Hn.
  assert (Hmean : m = avg l).
  { unfold avg. rewrite <- Hm. field. exact Hn. }
  unfold whole. subst c. f_equal; [exact Hmean|].
  rewrite HM, dev2_expand, <- Hmean, <- Hm. ring.
Qed.

(* feeding the sample l one value at a time gives the whole-sample statistics *)
Lemma fold_whole : forall l, update_from_it opsR (init opsR) l = whole l.
Proof.
  intro l. destruct l as [|x l].
  - unfold whole, dev2. rewrite avg_nil. reflexivity.
  - apply Inv_whole; [discriminate|].
    apply (Inv_fold (x :: l) [] (init opsR) Inv_init).
Qed.

Lemma count_S_match : forall (s : stats R) (a b : R),
  count s <> 0%nat -> match count s with 0%nat => a | S _ => b end = b.
Proof. intros s a b H. destruct (count s); [congruence|reflexivity]. Qed.

Lemma whole_var : forall l, l <> [] -> var opsR (whole l) = wvar l.
Proof.
  intros l H. unfold var. rewrite count_S_match.
  - reflexivity.
  - cbn. destruct l; [congruence|discriminate].
Qed.

Lemma whole_std : forall l, l <> [] -> std opsR (whole l) = wstd l.
Proof.
  intros l H. unfold std. rewrite count_S_match.
  - rewrite whole_var by exact H. reflexivity.
  - cbn. destruct l; [congruence|discriminate].
Qed.

Lemma whole_err : forall l, l <> [] -> err opsR (whole l) = werr l.
Proof.
  intros l H. unfold err. rewrite count_S_match.
  - rewrite whole_std by exact H. reflexivity.
  - cbn. destruct l; [congruence|discriminate].
Qed.

Lemma whole_rel_err : forall l, l <> [] -> rel_err opsR (whole l) = werr l / Rabs (avg l).
Proof.
  intros l H. unfold rel_err. rewrite count_S_match.
  - rewrite whole_err by exact H. reflexivity.
  - cbn. destruct l; [congruence|discriminate].
Qed.

(* ---------------------------------------------------------------- order *)
Lemma Rsum_perm : forall l l', Permutation l l' -> Rsum l = Rsum l'.
Proof.
  induction 1; cbn; lra.
Qed.

Lemma whole_perm : forall l l', Permutation l l' -> whole l = whole l'.
Proof.
  intros l l' H. unfold whole, avg, dev2, Rlen.
  rewrite (Permutation_length H), (Rsum_perm _ _ H).
  f_equal. apply Rsum_perm. apply Permutation_map. exact H.
Qed.

(* ---------------------------------------------------------------- RunningCovariance *)
Definition Rsumxy (p : list (R * R)) : R := Rsum (map (fun q => fst q * snd q) p).

Definition CInv (p : list (R * R)) (s : cov R) : Prop :=
  ccount s = length p
  /\ Rlen p * xmean s = Rsum (map fst p)
  /\ Rlen p * ymean s = Rsum (map snd p)
  /\ CC s = Rsumxy p - Rlen p * xmean s * ymean s.

Lemma CInv_init : CInv [] (cov_init opsR).
Proof. unfold CInv, Rlen, Rsumxy. cbn. repeat split; ring. Qed.

Lemma CInv_step : forall p s q, CInv p s -> CInv (p ++ [q]) (upd_cov_p opsR s q).
Proof.
  intros p s [x y] [Hc [Hx [Hy HC]]].
  pose proof (Rlen_pos _ p) as Hn.
  unfold CInv, upd_cov_p, upd_cov, Rsumxy in *.
  cbn [ccount xmean ymean CC add sub mul div of_nat opsR fst snd].
  rewrite Hc, Nat.add_1_r, S_INR. fold (Rlen p).
  rewrite Rlen_snoc, !map_app, !Rsum_app, HC. cbn [map Rsum fst snd].
  repeat split.
  - rewrite app_length. cbn. lia.
  - rewrite <- Hx. field. lra.
  - rewrite <- Hy. field. lra.
  - field. lra.
Qed.

Lemma CInv_fold : forall l p s, CInv p s -> CInv (p ++ l) (fold_left (upd_cov_p opsR) l s).
Proof.
  induction l as [|q l IH]; intros p s H.
  - rewrite app_nil_r. exact H.
  - cbn [fold_left]. replace (p ++ q :: l) with ((p ++ [q]) ++ l) by (rewrite <- app_assoc; reflexivity).
    apply IH. apply CInv_step. exact H.
Qed.

Definition cwhole (p : list (R * R)) : cov R :=
  mk_cov (length p) (avg (map fst p)) (avg (map snd p)) (pcodev p).

Lemma CInv_whole : forall p s, p <> [] -> CInv p s -> s = cwhole p.
Proof.
  intros p [c xm ym cc] Hne [Hc [Hx [Hy HC]]]. cbn [ccount xmean ymean CC] in *.
  pose proof (Rlen_nonempty _ p Hne) as Hn.
  assert (Hlx : Rlen (map fst p) = Rlen p) by (unfold Rlen; rewrite map_length; reflexivity).
  assert (Hly : Rlen (map snd p) = Rlen p) by (unfold Rlen; rewrite map_length; reflexivity).
  assert (Hxm : xm = avg (map fst p)).
  { unfold avg. rewrite Hlx, <- Hx. field. exact Hn. }
  assert (Hym : ym = avg (map snd p)).
  { unfold avg. rewrite Hly, <- Hy. field. exact Hn. }
  unfold cwhole, pcodev. subst c. rewrite <- Hxm, <- Hym. f_equal.
  rewrite HC, codev_expand, <- Hx, <- Hy. unfold Rsumxy. ring.
Qed.

Lemma cov_fold_whole : forall p, fold_left (upd_cov_p opsR) p (cov_init opsR) = cwhole p.
Proof.
  intro p. destruct p as [|q p].
  - unfold cwhole, pcodev, codev. cbn [map length]. rewrite avg_nil. reflexivity.
  - apply CInv_whole; [discriminate|].
    apply (CInv_fold (q :: p) [] (cov_init opsR) CInv_init).
Qed.

Lemma cov_from_it_whole : forall xs ys,
  update_cov_from_it opsR (cov_init opsR) xs ys = cwhole (combine xs ys).
Proof. intros. unfold update_cov_from_it. apply cov_fold_whole. Qed.

Lemma cwhole_covar : forall xs ys, covar opsR (cwhole (combine xs ys)) = wcov xs ys.
Proof. reflexivity. Qed.

Lemma cwhole_sample_covar : forall xs ys,
  sample_covar opsR (cwhole (combine xs ys)) = wcov_sample xs ys.
Proof. reflexivity. Qed.

(* the covariance does not depend on which series is called x *)
Lemma combine_swap : forall (xs ys : list R),
  combine ys xs = map (fun q => (snd q, fst q)) (combine xs ys).
Proof.
  induction xs as [|x xs IH]; intros [|y ys]; cbn; try reflexivity.
  rewrite IH. reflexivity.
Qed.

Lemma pcodev_swap : forall p, pcodev (map (fun q => (snd q, fst q)) p) = pcodev p.
Proof.
  intro p. unfold pcodev, codev. rewrite !map_map. cbn [fst snd].
  set (a := avg (map snd p)). set (b := avg (map fst p)).
  replace (avg (map (fun x => snd x) p)) with a by reflexivity.
  replace (avg (map (fun x => fst x) p)) with b by reflexivity.
  f_equal. apply map_ext. intro q. ring.
Qed.

Lemma wcov_sym : forall xs ys, wcov xs ys = wcov ys xs.
Proof.
  intros xs ys. unfold wcov. rewrite (combine_swap xs ys), pcodev_swap.
  unfold Rlen. rewrite map_length. reflexivity.
Qed.

Lemma map_fst_combine_same : forall (xs : list R), map fst (combine xs xs) = xs.
Proof. induction xs as [|x xs IH]; cbn; [reflexivity|]. rewrite IH. reflexivity. Qed.

Lemma map_snd_combine_same : forall (xs : list R), map snd (combine xs xs) = xs.
Proof. induction xs as [|x xs IH]; cbn; [reflexivity|]. rewrite IH. reflexivity. Qed.

Lemma codev_same : forall (xs : list R) m, codev (combine xs xs) m m = dev2 xs m.
Proof.
  intros xs m. unfold codev, dev2.
  induction xs as [|x xs IH]; cbn; [reflexivity|]. f_equal. apply IH.
Qed.

(* the covariance of a series with itself is its variance *)
Lemma wcov_diag : forall xs, wcov xs xs = wvar xs.
Proof.
  intro xs. unfold wcov, wvar, pcodev.
  rewrite map_fst_combine_same, map_snd_combine_same, codev_same.
  unfold Rlen. rewrite combine_length, Nat.min_id. reflexivity.
Qed.

(* ---------------------------------------------------------------- the matrix *)
Lemma cm_covar_entry : forall n (xs : list (list R)) i j, (i < n)%nat -> (j < n)%nat ->
  cm_covar opsR (cm_update_from_it opsR (cm_init opsR n) xs) i j = wcov (nth i xs []) (nth j xs []).
Proof.
  intros n xs i j Hi Hj. unfold cm_covar, cm_cell.
  destruct (Nat.leb i j) eqn:E.
  - apply Nat.leb_le in E. rewrite cm_get_update_from_it by lia.
    rewrite cov_from_it_whole. apply cwhole_covar.
  - apply Nat.leb_gt in E. rewrite cm_get_update_from_it by lia.
    rewrite cov_from_it_whole, cwhole_covar. apply wcov_sym.
Qed.

Lemma cm_count_entry : forall n (xs : list (list R)), (0 < n)%nat ->
  cm_count opsR (cm_update_from_it opsR (cm_init opsR n) xs) = length (combine (nth 0 xs []) (nth 0 xs [])).
Proof.
  intros n xs Hn. unfold cm_count. rewrite cm_get_update_from_it by lia.
  rewrite cov_from_it_whole. reflexivity.
Qed.
