(* Labelled outputs: DataFrame rows pair every setting with its own results (for every
   shuffle permutation); the Dataset description has the right dims, coordinates, and values. *)
From XV Require Import Prelude Grid Perm Runner Flow Label GenRunner BridgeRunner
     GridProofs PermProofs RunnerProofs.
From Coq Require Import Permutation.
Open Scope Z_scope.

Section LabelProofs.
  Context {R : Type}.
  Variable f : kwargs -> R.
  Variable comps : R -> list R.

  (* the rows of the DataFrame built from what the REGENERATED data flow says is handed to
     results_to_df: info["settings"] and the flat results *)
  Definition gen_df_rows (resources : list Z) (attrs : kwargs) (var_names : list Z) (i : input)
    : list (kwargs * list (Z * R)) :=
    match interp f i (info_prov i), interp f i (results_prov i) with
    | DS ss, DR rs => df_rows comps resources attrs var_names ss rs
    | _, _ => []
    end.

  Lemma combine_map_self {A B} (h : A -> B) (l : list A) : combine l (map h l) = map (fun a => (a, h a)) l.
  Proof. induction l as [|a l IH]; cbn; [reflexivity|]. rewrite IH. reflexivity. Qed.

  (* one row per evaluated setting; each row pairs that setting's arguments with that same
     setting's outputs -- for every permutation *)
  Theorem df_rows_aligned resources attrs var_names i :
    wf_perm i ->
    gen_df_rows resources attrs var_names i
    = map (fun s => df_row comps resources attrs var_names s (f s)) (settings i).
  Proof.
    intros Hp. unfold gen_df_rows. rewrite bridge_info, bridge_results.
    rewrite (results_linear_eq f i Hp). unfold df_rows.
    rewrite combine_map_self, map_map. reflexivity.
  Qed.

  Lemma df_rows_length resources attrs var_names i :
    wf_perm i -> length (gen_df_rows resources attrs var_names i) = length (settings i).
  Proof. intros Hp. rewrite df_rows_aligned by exact Hp. apply map_length. Qed.

  (* resources are never recorded in a row *)
  Lemma drop_keys_spec ks kw k v : In (k, v) (drop_keys ks kw) <-> In (k, v) kw /\ mem k ks = false.
  Proof.
    unfold drop_keys. rewrite filter_In. cbn. destruct (mem k ks); cbn; intuition congruence.
  Qed.

  Lemma kw_set_keys k v kw x : In x (map fst (kw_set k v kw)) <-> x = k \/ In x (map fst kw).
  Proof.
    induction kw as [|[k' v'] kw IH]; cbn; [intuition|].
    destruct (k =? k') eqn:E.
    - apply Z.eqb_eq in E. subst. cbn. intuition.
    - cbn. rewrite IH. intuition.
  Qed.

  Lemma kw_update_keys upd : forall kw x,
    In x (map fst (kw_update kw upd)) <-> In x (map fst kw) \/ In x (map fst upd).
  Proof.
    unfold kw_update. induction upd as [|[k v] upd IH]; intros kw x; cbn [fold_left map In fst]; [tauto|].
    rewrite IH, kw_set_keys. cbn. intuition congruence.
  Qed.

  Theorem row_has_no_resource resources attrs var_names s r k :
    In k resources -> ~ In k (map fst attrs) ->
    ~ In k (map fst (fst (df_row comps resources attrs var_names s r))).
  Proof.
    intros Hk Hna Hin. unfold df_row in Hin. cbn [fst] in Hin. apply kw_update_keys in Hin as [Hin|Hin]; [|contradiction].
    apply in_map_iff in Hin as ([k' v] & Hk' & Hin). cbn in Hk'. subst k'.
    apply drop_keys_spec in Hin as [_ Hm]. unfold mem in Hm.
    assert (existsb (Z.eqb k) resources = true); [|congruence].
    apply existsb_exists. exists k. split; [exact Hk|apply Z.eqb_refl].
  Qed.

  (* ---- Dataset description ---- *)
  Theorem to_ds_single v var_dims var_coords constants attrs args coords (n : nest (cell R)) :
    to_ds [v] var_dims var_coords constants attrs args coords (ONest n)
    = Ok (mk_dsm (combine args coords ++ var_coords)
                 [(v, (args ++ lookup_dims var_dims v, n))]
                 (kw_update attrs (filter (fun av => negb (mem (fst av) (args ++ flat_map snd var_dims ++ map fst var_coords))) constants))
                 (filter (fun av => mem (fst av) (args ++ flat_map snd var_dims ++ map fst var_coords)) constants)).
  Proof. reflexivity. Qed.

  Theorem to_ds_wrong_count (var_names : list Z) var_dims var_coords constants attrs args coords (os : list (out R)) :
    length os <> length var_names -> (2 <= length var_names)%nat ->
    to_ds var_names var_dims var_coords constants attrs args coords (OSplit os) = Err E_Value.
  Proof.
    intros Hne Hl. unfold to_ds. destruct var_names as [|v1 [|v2 vs]]; cbn in Hl; try lia.
    destruct (Nat.eqb (length os) (length (v1 :: v2 :: vs))) eqn:E; [|reflexivity].
    apply Nat.eqb_eq in E. contradiction.
  Qed.
End LabelProofs.
