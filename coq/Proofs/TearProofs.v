(* check_bad against a result file torn from outside (C08): on a crop all of whose results are good, tearing one
   result makes check_bad report exactly that batch and delete exactly that file. *)
From XV Require Import Prelude Grid Perm Runner Batch Crop.
Open Scope Z_scope.

Section Tear.
  Context {R : Type}.
  Notation disk := (@disk R).

  Definition torn (d : disk) (id : Z) : disk :=
    mk_disk (d_info d) (d_batches d) (zset id [] (d_results d)).

  Lemma in_zremove {V} (k : Z) (l : list (Z * V)) x : In x (zremove k l) -> In x l.
  Proof.
    induction l as [|[k' v] l IH]; cbn; [tauto|]. destruct (k =? k'); cbn; intros H.
    - right. apply IH, H.
    - destruct H as [H|H]; [left; exact H|right; apply IH, H].
  Qed.

  Lemma filter_none {A} (p : A -> bool) (l : list A) : (forall x, In x l -> p x = false) -> filter p l = [].
  Proof.
    induction l as [|a l IH]; cbn; intros H; [reflexivity|].
    rewrite (H a (or_introl eq_refl)). apply IH. intros x Hx. apply H. right. exact Hx.
  Qed.

  Lemma filter_all {A} (p : A -> bool) (l : list A) : (forall x, In x l -> p x = true) -> filter p l = l.
  Proof.
    induction l as [|a l IH]; cbn; intros H; [reflexivity|].
    rewrite (H a (or_introl eq_refl)). f_equal. apply IH. intros x Hx. apply H. right. exact Hx.
  Qed.

  Theorem torn_check_bad : forall (d : disk) (id : Z) (b : list kwargs),
    (forall idr, In idr (d_results d) -> is_bad d idr = false) ->
    zlookup id (d_batches d) = Some b -> b <> [] ->
    check_bad (torn d id) = ([id], delete_result d id).
  Proof.
    intros d id b Hgood Hb Hne.
    assert (Hsame : forall x, is_bad (torn d id) x = is_bad d x) by reflexivity.
    assert (Hid : is_bad d (id, []) = true).
    { unfold is_bad. cbn [fst snd]. rewrite Hb. destruct b; [congruence|reflexivity]. }
    assert (Hrest : forall x, In x (zremove id (d_results d)) -> is_bad d x = false).
    { intros x Hx. apply in_zremove in Hx. exact (Hgood x Hx). }
    unfold check_bad.
    rewrite (filter_ext _ _ Hsame).
    rewrite (filter_ext (fun idr => negb (is_bad (torn d id) idr)) (fun idr => negb (is_bad d idr)))
      by (intros x; rewrite Hsame; reflexivity).
    change (d_results (torn d id)) with ((id, @nil R) :: zremove id (d_results d)).
    cbn [filter]. rewrite Hid. cbn [negb].
    rewrite (filter_none _ _ Hrest). cbn [map fst].
    rewrite filter_all; [reflexivity|]. intros x Hx. rewrite (Hrest x Hx). reflexivity.
  Qed.
End Tear.
