(* Supporting lemmas for C20: half-even rounding, the incremental floor(log10) search, the e and
   f formatters as decimal roundings over Q, printing / reading of digit strings, and the
   decimal-rounding core of the property (C20_core) for ALL rationals. *)
From XV Require Import Prelude DecFmt.
From Coq Require Import QArith Qabs Qpower Lqa.
Delimit Scope string_scope with string.
Open Scope Z_scope.

(* ------------------------------------------------------------------ powers of ten in Q *)
Lemma q10_pos z : (0 < q10 z)%Q.
Proof. unfold q10. apply Qpower_0_lt. reflexivity. Qed.

Lemma q10_add a b : (q10 (a + b) == q10 a * q10 b)%Q.
Proof. unfold q10. apply Qpower_plus. discriminate. Qed.

Lemma q10_opp a : (q10 (- a) == / q10 a)%Q.
Proof. unfold q10. apply Qpower_opp. Qed.

Lemma q10_Z z : 0 <= z -> (q10 z == inject_Z (10 ^ z))%Q.
Proof. intros. unfold q10. symmetry. apply Zpower_Qpower. assumption. Qed.

Lemma q10_0 : (q10 0 == 1)%Q.
Proof. reflexivity. Qed.

Lemma q10_1 : (q10 1 == 10)%Q.
Proof. reflexivity. Qed.

Lemma q10_succ a : (q10 (a + 1) == 10 * q10 a)%Q.
Proof. rewrite q10_add, q10_1. ring. Qed.

Lemma q10_pred a : (q10 a == 10 * q10 (a - 1))%Q.
Proof. rewrite <- q10_succ. replace (a - 1 + 1) with a by lia. reflexivity. Qed.

Lemma q10_mono a b : a <= b -> (q10 a <= q10 b)%Q.
Proof. intros. unfold q10. apply Qpower_le_compat_l; [assumption|]. discriminate. Qed.

Lemma q10_ge1 a : 0 <= a -> (1 <= q10 a)%Q.
Proof. intros. rewrite <- q10_0. apply q10_mono. assumption. Qed.

Lemma pow10_pos z : 0 <= z -> 0 < 10 ^ z.
Proof. intros. apply Z.pow_pos_nonneg; lia. Qed.

(* ------------------------------------------------------------------ rhe *)
Lemma rhe_spec n d : 0 <= n -> 0 < d -> - d <= 2 * (rhe n d * d - n) <= d /\ 0 <= rhe n d.
Proof.
  intros Hn Hd. unfold rhe.
  pose proof (Z.div_mod n d ltac:(lia)) as E.
  pose proof (Z.mod_pos_bound n d ltac:(lia)) as B.
  assert (0 <= n / d) by (apply Z.div_pos; lia).
  destruct (Z.compare_spec (2 * (n mod d)) d); [destruct (Z.even (n / d))|..]; nia.
Qed.

Lemma rhe_lower n d K : 0 <= n -> 0 < d -> K * d <= n -> K <= rhe n d.
Proof. intros Hn Hd HK. destruct (rhe_spec n d Hn Hd) as [[H1 H2] H3]. nia. Qed.

Lemma rhe_upper n d K : 0 <= n -> 0 < d -> n < K * d -> rhe n d <= K.
Proof. intros Hn Hd HK. destruct (rhe_spec n d Hn Hd) as [[H1 H2] H3]. nia. Qed.

(* the rounding error in Q *)
Lemma rhe_Q n d : 0 <= n -> 0 < d ->
  (Qabs (inject_Z (rhe n d) - inject_Z n / inject_Z d) <= 1 # 2)%Q.
Proof.
  intros Hn Hd. destruct (rhe_spec n d Hn Hd) as [[H1 H2] _].
  set (m := rhe n d) in *.
  assert (G1 : 2 * n <= 2 * (m * d) + d) by lia.
  assert (G2 : 2 * (m * d) <= 2 * n + d) by lia.
  assert (HB : (0 < inject_Z d)%Q) by (rewrite <- (Zlt_Qlt 0); assumption).
  rewrite Zle_Qle in G1, G2.
  rewrite ?inject_Z_plus, ?inject_Z_mult in G1, G2.
  change (inject_Z 2) with 2%Q in *.
  set (B := inject_Z d) in *. set (N := inject_Z n) in *. set (M := inject_Z m) in *.
  assert (Hr : (N / B * B == N)%Q) by (field; lra).
  set (r := (N / B)%Q) in *. clearbody r.
  apply Qabs_Qle_condition. split; nra.
Qed.

(* ------------------------------------------------------------------ the search *)
Lemma norm_up_spec fuel : forall n p e,
  0 < p -> p <= n -> n < p * 10 ^ Z.of_nat fuel ->
  let '(e', p') := norm_up fuel n p e in
  p' <= n < 10 * p' /\ e <= e' /\ p' = p * 10 ^ (e' - e).
Proof.
  induction fuel as [|f IH]; intros n p e Hp Hle Hlt.
  - cbn in Hlt. lia.
  - cbn [norm_up]. destruct (10 * p <=? n) eqn:C.
    + apply Z.leb_le in C.
      specialize (IH n (10 * p) (e + 1) ltac:(lia) C).
      rewrite Nat2Z.inj_succ, Z.pow_succ_r in Hlt by lia.
      specialize (IH ltac:(lia)).
      destruct (norm_up f n (10 * p) (e + 1)) as [e' p'].
      destruct IH as (A & B & D). split; [exact A|]. split; [lia|].
      rewrite D. replace (e' - e) with (Z.succ (e' - (e + 1))) by lia.
      rewrite Z.pow_succ_r by lia. ring.
    + apply Z.leb_gt in C. split; [lia|]. split; [lia|].
      rewrite Z.sub_diag, Z.pow_0_r. lia.
Qed.

Lemma norm_dn_spec fuel : forall p d e,
  0 < p -> p < 10 * d -> d <= p * 10 ^ Z.of_nat fuel ->
  let '(e', p') := norm_dn fuel p d e in
  d <= p' < 10 * d /\ e' <= e /\ p' = p * 10 ^ (e - e').
Proof.
  induction fuel as [|f IH]; intros p d e Hp Hlt Hge.
  - cbn [norm_dn]. rewrite Z.sub_diag, Z.pow_0_r. change (Z.of_nat 0) with 0 in Hge. rewrite Z.pow_0_r in Hge. lia.
  - cbn [norm_dn]. destruct (d <=? p) eqn:C.
    + apply Z.leb_le in C. rewrite Z.sub_diag, Z.pow_0_r. lia.
    + apply Z.leb_gt in C.
      rewrite Nat2Z.inj_succ, Z.pow_succ_r in Hge by lia.
      specialize (IH (10 * p) d (e - 1) ltac:(lia) ltac:(lia) ltac:(lia)).
      destruct (norm_dn f (10 * p) d (e - 1)) as [e' p'].
      destruct IH as (A & B & D). split; [exact A|]. split; [lia|].
      rewrite D. replace (e - e') with (Z.succ (e - 1 - e')) by lia.
      rewrite Z.pow_succ_r by lia. ring.
Qed.

Lemma fuel_enough n f : 0 < n -> Z.log2 n < Z.of_nat f -> n < 10 ^ Z.of_nat f.
Proof.
  intros Hn Hl.
  apply Z.lt_le_trans with (2 ^ Z.of_nat f).
  - apply Z.log2_lt_pow2; assumption.
  - apply Z.pow_le_mono_l. lia.
Qed.

Lemma norm10_spec n d : 0 < n -> 0 < d ->
  let '(e, a, b) := norm10 n d in
  0 < b /\ b <= a < 10 * b /\
  ((0 <= e /\ a = n /\ b = d * 10 ^ e) \/ (e <= 0 /\ a = n * 10 ^ (- e) /\ b = d)).
Proof.
  intros Hn Hd. unfold norm10.
  pose proof (Z.log2_nonneg n) as Ln. pose proof (Z.log2_nonneg d) as Ld.
  assert (Fn : n < 10 ^ Z.of_nat (norm_fuel n d)).
  { apply fuel_enough; [assumption|]. unfold norm_fuel. lia. }
  assert (Fd : d < 10 ^ Z.of_nat (norm_fuel n d)).
  { apply fuel_enough; [assumption|]. unfold norm_fuel. lia. }
  destruct (d <=? n) eqn:C.
  - apply Z.leb_le in C.
    pose proof (norm_up_spec (norm_fuel n d) n d 0 Hd C ltac:(nia)) as H.
    destruct (norm_up (norm_fuel n d) n d 0) as [e p].
    destruct H as (A & B & D). rewrite Z.sub_0_r in D.
    split; [lia|]. split; [lia|]. left. auto.
  - apply Z.leb_gt in C.
    pose proof (norm_dn_spec (norm_fuel n d) n d 0 Hn ltac:(lia) ltac:(nia)) as H.
    destruct (norm_dn (norm_fuel n d) n d 0) as [e p].
    destruct H as (A & B & D). rewrite Z.sub_0_l in D.
    split; [lia|]. split; [lia|]. right. auto.
Qed.

(* the same in Q: n / d = (a / b) * 10^e with 1 <= a / b < 10 *)
Lemma norm10_Q n d : 0 < n -> 0 < d ->
  let '(e, a, b) := norm10 n d in
  0 < b /\ b <= a < 10 * b /\
  (inject_Z n / inject_Z d == inject_Z a / inject_Z b * q10 e)%Q.
Proof.
  intros Hn Hd. pose proof (norm10_spec n d Hn Hd) as H.
  destruct (norm10 n d) as [[e a] b].
  destruct H as (Hb & Hab & Hc). split; [assumption|]. split; [assumption|].
  assert (Qd : (0 < inject_Z d)%Q) by (rewrite <- (Zlt_Qlt 0); assumption).
  destruct Hc as [(He & -> & ->)|(He & -> & ->)].
  - rewrite inject_Z_mult, <- q10_Z by assumption.
    pose proof (q10_pos e). field. split; lra.
  - rewrite inject_Z_mult, <- q10_Z by lia. rewrite q10_opp.
    pose proof (q10_pos e). field. split; lra.
Qed.

(* ------------------------------------------------------------------ the e format *)
Lemma Qmake_div q : (q == inject_Z (Qnum q) / inject_Z (Zpos (Qden q)))%Q.
Proof. destruct q as [n d]. apply Qmake_Qdiv. Qed.

Lemma Qnum_pos q : (0 < q)%Q -> 0 < Qnum q.
Proof. unfold Qlt. cbn. lia. Qed.

Lemma Qnum_nonneg q : (0 <= q)%Q -> 0 <= Qnum q.
Proof. unfold Qle. cbn. lia. Qed.

(* fmt_e prec q = (m, e): m has prec+1 digits, m * 10^(e-prec) is q rounded (error at most half
   a unit), and q is not below the point where rounding reaches 10^e *)
Lemma fmt_e_spec prec q : 0 <= prec -> (0 < q)%Q ->
  let '(m, e) := fmt_e prec q in
  10 ^ prec <= m <= 10 ^ (prec + 1) - 1 /\
  (Qabs (inject_Z m * q10 (e - prec) - q) <= q10 (e - prec) * (1 # 2))%Q /\
  ((inject_Z (10 ^ (prec + 1)) - (1 # 2)) * q10 (e - prec - 1) <= q)%Q.
Proof.
  intros Hp Hq. unfold fmt_e.
  pose proof (Qnum_pos q Hq) as Hn.
  destruct (Qnum q <=? 0) eqn:C; [apply Z.leb_le in C; lia|clear C].
  pose proof (norm10_Q (Qnum q) (Zpos (Qden q)) Hn ltac:(lia)) as H.
  destruct (norm10 (Qnum q) (Z.pos (Qden q))) as [[e0 a] b].
  destruct H as (Hb & Hab & Hqe). rewrite <- Qmake_div in Hqe.
  pose proof (pow10_pos prec Hp) as HP.
  rewrite Z.pow_add_r, Z.pow_1_r by lia.
  set (P := 10 ^ prec) in *.
  assert (Ha : 0 <= a * P) by nia.
  pose proof (rhe_lower (a * P) b P Ha Hb ltac:(nia)) as Lo.
  pose proof (rhe_upper (a * P) b (P * 10) Ha Hb ltac:(nia)) as Up.
  pose proof (rhe_Q (a * P) b Ha Hb) as HQ.
  set (m0 := rhe (a * P) b) in *.
  (* Q side *)
  assert (QB : (0 < inject_Z b)%Q) by (rewrite <- (Zlt_Qlt 0); assumption).
  assert (QA : (inject_Z b <= inject_Z a)%Q) by (rewrite <- Zle_Qle; lia).
  assert (QP : (q10 prec == inject_Z P)%Q) by (apply q10_Z; assumption).
  assert (QP1 : (1 <= inject_Z P)%Q) by (rewrite <- QP; apply q10_ge1; assumption).
  rewrite inject_Z_mult in HQ.
  assert (Hr : (inject_Z a / inject_Z b * inject_Z b == inject_Z a)%Q) by (field; lra).
  assert (HQ' : (Qabs (inject_Z m0 - inject_Z a / inject_Z b * inject_Z P) <= 1 # 2)%Q).
  { eapply Qle_trans; [|exact HQ]. apply Qle_lteq. right. apply Qabs_wd. field. lra. }
  clear HQ. set (r := (inject_Z a / inject_Z b)%Q) in *. clearbody r.
  assert (Hr1 : (1 <= r)%Q) by nra.
  set (A := inject_Z a) in *. set (B := inject_Z b) in *. set (PP := inject_Z P) in *.
  apply Qabs_Qle_condition in HQ'. destruct HQ' as [HQ1 HQ2].
  pose proof (q10_pos (e0 - prec)) as HT.
  assert (HE : (q10 e0 == q10 (e0 - prec) * PP)%Q).
  { rewrite <- QP, <- q10_add. replace (e0 - prec + prec) with e0 by lia. reflexivity. }
  destruct (m0 =? P * 10) eqn:C.
  - (* the rounding carried: 9.96 -> 10 *)
    apply Z.eqb_eq in C. cbn [fst snd].
    split; [lia|].
    assert (HM : (inject_Z m0 == PP * 10)%Q) by (rewrite C, inject_Z_mult; reflexivity).
    replace (e0 + 1 - prec - 1) with (e0 - prec) by lia.
    replace (e0 + 1 - prec) with (e0 - prec + 1) by lia.
    rewrite q10_succ. set (T := q10 (e0 - prec)) in *.
    rewrite inject_Z_mult. fold PP. change (inject_Z 10) with 10%Q.
    rewrite HM in HQ1, HQ2.
    assert (G1 : (0 <= T * (PP * 10 - r * PP + (1 # 2)))%Q) by (apply Qmult_le_0_compat; lra).
    assert (G2 : (0 <= T * ((1 # 2) - (PP * 10 - r * PP)))%Q) by (apply Qmult_le_0_compat; lra).
    split.
    + apply Qabs_Qle_condition. rewrite Hqe, HE. split; lra.
    + rewrite Hqe, HE. lra.
  - apply Z.eqb_neq in C.
    split; [lia|].
    rewrite (q10_pred (e0 - prec)) in HE, HT |- *.
    set (T := q10 (e0 - prec - 1)) in *.
    rewrite inject_Z_mult. fold PP. change (inject_Z 10) with 10%Q.
    set (M0 := inject_Z m0) in *.
    assert (G1 : (0 <= T * (M0 - r * PP + (1 # 2)))%Q) by (apply Qmult_le_0_compat; lra).
    assert (G2 : (0 <= T * ((1 # 2) - (M0 - r * PP)))%Q) by (apply Qmult_le_0_compat; lra).
    assert (G3 : (0 <= (T * PP) * (r - 1))%Q).
    { apply Qmult_le_0_compat; [apply Qmult_le_0_compat|]; lra. }
    split.
    + apply Qabs_Qle_condition. rewrite Hqe, HE. split; lra.
    + rewrite Hqe, HE. lra.
Qed.

(* the constant (10^(prec+1) - 1/2): q rounds to exponent e exactly when
   cst * 10^(e-prec-1) <= q <= cst * 10^(e-prec)  (the end points are ties) *)
Definition cst (prec : Z) : Q := (inject_Z (10 ^ (prec + 1)) - (1 # 2))%Q.

Lemma cst_pos prec : 0 <= prec -> (0 < cst prec)%Q.
Proof.
  intros. unfold cst. pose proof (pow10_pos (prec + 1) ltac:(lia)) as H1.
  assert ((1 <= inject_Z (10 ^ (prec + 1)))%Q) by (rewrite <- (Zle_Qle 1); lia). lra.
Qed.

Lemma dexp_lower prec q : 0 <= prec -> (0 < q)%Q ->
  (cst prec * q10 (dexp prec q - prec - 1) <= q)%Q.
Proof.
  intros Hp Hq. pose proof (fmt_e_spec prec q Hp Hq) as H. unfold dexp.
  destruct (fmt_e prec q) as [m e]. cbn [snd]. apply H.
Qed.

Lemma dexp_upper prec q : 0 <= prec -> (0 < q)%Q ->
  (q <= cst prec * q10 (dexp prec q - prec))%Q.
Proof.
  intros Hp Hq. pose proof (fmt_e_spec prec q Hp Hq) as H. unfold dexp, cst.
  destruct (fmt_e prec q) as [m e]. cbn [snd]. destruct H as (Hm & He & _).
  apply Qabs_Qle_condition in He. destruct He as [He1 He2].
  assert (Q1 : (inject_Z m <= inject_Z (10 ^ (prec + 1)) - 1)%Q).
  { assert (Q0 : (inject_Z m <= inject_Z (10 ^ (prec + 1) + - 1))%Q) by (rewrite <- Zle_Qle; lia).
    rewrite inject_Z_plus in Q0. change (inject_Z (- 1)) with (- (1))%Q in Q0. lra. }
  pose proof (q10_pos (e - prec)) as HT. set (T := q10 (e - prec)) in *.
  set (M := inject_Z m) in *. set (K := inject_Z (10 ^ (prec + 1))) in *.
  assert (G : (0 <= T * (K - 1 - M))%Q) by (apply Qmult_le_0_compat; lra).
  lra.
Qed.

Lemma dexp_le prec q E : 0 <= prec -> (0 < q)%Q ->
  (q < cst prec * q10 (E - prec))%Q -> dexp prec q <= E.
Proof.
  intros Hp Hq Hlt. destruct (Z_le_gt_dec (dexp prec q) E) as [|Hgt]; [assumption|exfalso].
  pose proof (dexp_lower prec q Hp Hq) as L.
  pose proof (q10_mono (E - prec) (dexp prec q - prec - 1) ltac:(lia)) as M.
  pose proof (cst_pos prec Hp) as C.
  assert (G : (0 <= cst prec * (q10 (dexp prec q - prec - 1) - q10 (E - prec)))%Q).
  { apply Qmult_le_0_compat; lra. }
  lra.
Qed.

Lemma dexp_ge prec q E : 0 <= prec -> (0 < q)%Q ->
  (cst prec * q10 (E - prec - 1) < q)%Q -> E <= dexp prec q.
Proof.
  intros Hp Hq Hlt. destruct (Z_le_gt_dec E (dexp prec q)) as [|Hgt]; [assumption|exfalso].
  pose proof (dexp_upper prec q Hp Hq) as U.
  pose proof (q10_mono (dexp prec q - prec) (E - prec - 1) ltac:(lia)) as M.
  pose proof (cst_pos prec Hp) as C.
  assert (G : (0 <= cst prec * (q10 (E - prec - 1) - q10 (dexp prec q - prec)))%Q).
  { apply Qmult_le_0_compat; lra. }
  lra.
Qed.

(* ------------------------------------------------------------------ the f format *)
Lemma fmt_f_spec nd q : 0 <= nd -> (0 <= q)%Q ->
  0 <= fmt_f_int nd q /\
  (Qabs (inject_Z (fmt_f_int nd q) - q * q10 nd) <= 1 # 2)%Q.
Proof.
  intros Hnd Hq. unfold fmt_f_int.
  pose proof (Qnum_nonneg q Hq) as Hn. pose proof (pow10_pos nd Hnd) as HP.
  assert (Ha : 0 <= Qnum q * 10 ^ nd) by nia.
  split; [apply rhe_spec; lia|].
  pose proof (rhe_Q (Qnum q * 10 ^ nd) (Zpos (Qden q)) Ha ltac:(lia)) as H.
  eapply Qle_trans; [|exact H]. apply Qle_lteq. right. apply Qabs_wd.
  rewrite inject_Z_mult, <- q10_Z by assumption.
  pose proof (Qmake_div q) as Hq'.
  assert ((0 < inject_Z (Zpos (Qden q)))%Q) by (rewrite <- (Zlt_Qlt 0); lia).
  set (M := inject_Z (rhe _ _)). set (N := inject_Z (Qnum q)) in *.
  set (D := inject_Z (Zpos (Qden q))) in *. rewrite Hq'. field. lra.
Qed.

(* ------------------------------------------------------------------ digits and strings *)
Notation ascii := Ascii.ascii.
Definition is_digs (ds : list Z) : Prop := Forall (fun d => 0 <= d <= 9) ds.

Lemma char_digit_char d : 0 <= d <= 9 -> char_digit (digit_char d) = Some d.
Proof.
  intros H.
  assert (C : d = 0 \/ d = 1 \/ d = 2 \/ d = 3 \/ d = 4 \/ d = 5 \/ d = 6 \/ d = 7 \/ d = 8 \/ d = 9) by lia.
  repeat (destruct C as [->|C]; [reflexivity|]). subst. reflexivity.
Qed.

Lemma digit_char_neq d c : 0 <= d <= 9 -> char_digit c = None -> Ascii.eqb (digit_char d) c = false.
Proof.
  intros H Hc. destruct (Ascii.eqb (digit_char d) c) eqn:E; [|reflexivity].
  apply Ascii.eqb_eq in E. subst c. rewrite char_digit_char in Hc by assumption. discriminate.
Qed.

Definition nodigit_head (s : list ascii) : Prop :=
  match s with [] => True | c :: _ => char_digit c = None end.

Lemma span_chars ds rest : is_digs ds -> nodigit_head rest ->
  span_digits (chars ds ++ rest) = (ds, rest).
Proof.
  intros Hd Hr. induction Hd as [|d ds Hd _ IH].
  - cbn [chars map app]. destruct rest as [|c r]; [reflexivity|].
    cbn [span_digits]. cbn in Hr. rewrite Hr. reflexivity.
  - cbn [chars map app span_digits]. rewrite char_digit_char by assumption.
    fold (chars ds). rewrite IH. reflexivity.
Qed.

Lemma val_be_acc ds : forall acc,
  fold_left (fun a d => 10 * a + d) ds acc = acc * 10 ^ Z.of_nat (length ds) + val_be ds.
Proof.
  unfold val_be. induction ds as [|d ds IH]; intros acc.
  - cbn. lia.
  - cbn [fold_left length]. rewrite IH, (IH (10 * 0 + d)).
    rewrite Nat2Z.inj_succ, Z.pow_succ_r by lia. ring.
Qed.

Lemma val_be_app a b : val_be (a ++ b) = val_be a * 10 ^ Z.of_nat (length b) + val_be b.
Proof. unfold val_be at 1. rewrite fold_left_app. fold (val_be a). apply val_be_acc. Qed.

Lemma val_be_snoc a d : val_be (a ++ [d]) = 10 * val_be a + d.
Proof. rewrite val_be_app. cbn [length]. change (Z.of_nat 1) with 1. rewrite Z.pow_1_r. unfold val_be at 2. cbn [fold_left]. lia. Qed.

Definition val_le (ds : list Z) : Z := fold_right (fun d a => d + 10 * a) 0 ds.

Lemma val_be_rev ds : val_be (rev ds) = val_le ds.
Proof.
  induction ds as [|d ds IH]; [reflexivity|].
  cbn [rev val_le fold_right]. rewrite val_be_snoc, IH. fold (val_le ds). lia.
Qed.

Lemma is_digs_rev ds : is_digs ds -> is_digs (rev ds).
Proof. apply Forall_rev. Qed.

Lemma fixw_le_digs w : forall N, is_digs (fixw_le w N).
Proof.
  induction w as [|w IH]; intros N; cbn [fixw_le]; constructor; [|apply IH].
  pose proof (Z.mod_pos_bound N 10 ltac:(lia)). lia.
Qed.

Lemma fixw_le_len w : forall N, length (fixw_le w N) = w.
Proof. induction w as [|w IH]; intros N; cbn [fixw_le length]; [reflexivity|]. rewrite IH. reflexivity. Qed.

Lemma fixw_le_val w : forall N, val_le (fixw_le w N) = N mod 10 ^ Z.of_nat w.
Proof.
  induction w as [|w IH]; intros N.
  - cbn. rewrite Z.mod_1_r. reflexivity.
  - cbn [fixw_le val_le fold_right]. fold (val_le (fixw_le w (N / 10))). rewrite IH.
    rewrite Nat2Z.inj_succ, Z.pow_succ_r by lia.
    rewrite Z.rem_mul_r; [reflexivity|lia|]. apply Z.pow_pos_nonneg; lia.
Qed.

Lemma fixw_digs w N : is_digs (fixw w N).
Proof. apply is_digs_rev, fixw_le_digs. Qed.
Lemma fixw_len w N : length (fixw w N) = w.
Proof. unfold fixw. rewrite rev_length. apply fixw_le_len. Qed.
Lemma fixw_val w N : val_be (fixw w N) = N mod 10 ^ Z.of_nat w.
Proof. unfold fixw. rewrite val_be_rev. apply fixw_le_val. Qed.

Lemma digs_le_digs f : forall N, 0 <= N -> is_digs (digs_le f N).
Proof.
  induction f as [|f IH]; intros N HN; cbn [digs_le].
  - constructor; [|constructor]. pose proof (Z.mod_pos_bound N 10 ltac:(lia)). lia.
  - destruct (N <? 10) eqn:C.
    + apply Z.ltb_lt in C. constructor; [lia|constructor].
    + constructor; [pose proof (Z.mod_pos_bound N 10 ltac:(lia)); lia|].
      apply IH. apply Z.div_pos; lia.
Qed.

Lemma digs_le_val f : forall N, 0 <= N < 2 ^ Z.of_nat (S f) -> val_le (digs_le f N) = N.
Proof.
  induction f as [|f IH]; intros N HN; cbn [digs_le].
  - change (2 ^ Z.of_nat 1) with 2 in HN. cbn. rewrite Z.mod_small by lia. lia.
  - destruct (N <? 10) eqn:C.
    + cbn. lia.
    + apply Z.ltb_ge in C. cbn [val_le fold_right]. fold (val_le (digs_le f (N / 10))).
      rewrite IH.
      * pose proof (Z.div_mod N 10 ltac:(lia)). lia.
      * rewrite Nat2Z.inj_succ, Z.pow_succ_r in HN by lia.
        split; [apply Z.div_pos; lia|].
        apply Z.div_lt_upper_bound; lia.
Qed.

Lemma digs_le_nonnil f N : digs_le f N <> [].
Proof. destruct f; cbn [digs_le]; [discriminate|]. destruct (N <? 10); discriminate. Qed.

Lemma udigits_digs N : 0 <= N -> is_digs (udigits N).
Proof. intros. apply is_digs_rev, digs_le_digs. assumption. Qed.

Lemma udigits_val N : 0 <= N -> val_be (udigits N) = N.
Proof.
  intros HN. unfold udigits. rewrite val_be_rev. apply digs_le_val.
  split; [assumption|].
  rewrite Nat2Z.inj_succ, Z2Nat.id by apply Z.log2_nonneg.
  destruct (Z.eq_dec N 0) as [->|]; [reflexivity|].
  apply Z.log2_spec. lia.
Qed.

Lemma udigits_nonnil N : udigits N <> [].
Proof.
  unfold udigits. intros H. apply (f_equal (@rev Z)) in H. rewrite rev_involutive in H.
  exact (digs_le_nonnil _ _ H).
Qed.

Lemma chars_app a b : chars (a ++ b) = chars a ++ chars b.
Proof. apply map_app. Qed.

Lemma of_to_str l : of_str (to_str l) = l.
Proof. apply String.list_ascii_of_string_of_list_ascii. Qed.

(* exponent field / +03d: sign and at least two digits, reads back *)
Lemma exp_l_shape k : exists c ds,
  exp_l k = c :: chars ds /\ c = (if k <? 0 then "-" else "+")%char
  /\ is_digs ds /\ ds <> [] /\ val_be ds = Z.abs k.
Proof.
  unfold exp_l. eexists. destruct (Z.abs k <? 10) eqn:C.
  - apply Z.ltb_lt in C. exists [0; Z.abs k]. split; [reflexivity|]. split; [reflexivity|].
    split; [repeat constructor; lia|]. split; [discriminate|]. cbn. lia.
  - exists (udigits (Z.abs k)). split; [reflexivity|]. split; [reflexivity|].
    split; [apply udigits_digs; lia|]. split; [apply udigits_nonnil|]. apply udigits_val. lia.
Qed.

Lemma parse_exp_l k : parse_int_l (exp_l k) = Some k.
Proof.
  destruct (exp_l_shape k) as (c & ds & -> & Hc & Hd & Hn & Hv).
  unfold parse_int_l. destruct (k <? 0) eqn:C; subst c.
  - rewrite <- (app_nil_r (chars ds)), span_chars by (assumption || exact I).
    destruct ds; [contradiction|]. rewrite Hv. apply Z.ltb_lt in C. f_equal. lia.
  - rewrite <- (app_nil_r (chars ds)), span_chars by (assumption || exact I).
    destruct ds; [contradiction|]. rewrite Hv. apply Z.ltb_ge in C. f_equal. lia.
Qed.

(* a printed number with bracketed error and optional suffix *)
Definition shape_l (neg : bool) (ip fp ed : list Z) (sfx : option Z) : list ascii :=
  sign_l neg ++ chars ip ++ (match fp with [] => [] | _ => "."%char :: chars fp end)
  ++ "("%char :: chars ed ++ ")"%char :: suffix_l sfx.

Definition sfx_exp (sfx : option Z) : Z := match sfx with None => 0 | Some k => k end.

Lemma denote_shape neg ip fp ed sfx :
  is_digs ip -> ip <> [] -> is_digs fp -> is_digs ed -> ed <> [] ->
  denote_l (shape_l neg ip fp ed sfx) = Some (denote_parts neg ip fp ed (sfx_exp sfx)).
Proof.
  intros Hip Nip Hfp Hed Ned.
  unfold shape_l.
  set (tail := ("("%char :: chars ed ++ ")"%char :: suffix_l sfx)).
  set (mid := (match fp with [] => [] | _ => "."%char :: chars fp end) ++ tail).
  assert (Hnd : nodigit_head mid) by (unfold mid; destruct fp; reflexivity).
  assert (Hsign : take_sign (sign_l neg ++ chars ip ++ mid) = (neg, chars ip ++ mid)).
  { destruct neg; [reflexivity|].
    cbn [sign_l app]. destruct ip as [|d0 ip']; [contradiction|].
    cbn [chars map app take_sign].
    rewrite digit_char_neq by (inversion Hip; subst; (assumption || reflexivity)).
    reflexivity. }
  assert (Hdot : take_dot mid = (fp, tail)).
  { unfold mid. destruct fp as [|f0 fp'].
    - reflexivity.
    - cbn [app take_dot]. change (Ascii.eqb "." ".") with true. cbv iota.
      apply span_chars; [assumption|reflexivity]. }
  unfold denote_l. rewrite Hsign, span_chars, Hdot by assumption.
  destruct ip as [|d0 ip']; [contradiction|].
  unfold tail, denote_tail. change (Ascii.eqb "(" "(") with true. cbv iota.
  rewrite span_chars by (assumption || reflexivity).
  destruct ed as [|e0 ed']; [contradiction|].
  unfold denote_close. change (Ascii.eqb ")" ")") with true. cbv iota.
  destruct sfx as [k|]; cbn [suffix_l sfx_exp].
  - change (Ascii.eqb "e" "e") with true. cbv iota. rewrite parse_exp_l. reflexivity.
  - reflexivity.
Qed.

(* ------------------------------------------------------------------ the printed value *)
Lemma fmt_f_l_shape nd v : 0 <= nd -> (0 <= fmag v)%Q ->
  exists ip fp,
    fmt_f_l nd v = sign_l (fneg v) ++ chars ip
                   ++ (match fp with [] => [] | _ => "."%char :: chars fp end)
    /\ is_digs ip /\ ip <> [] /\ is_digs fp /\ Z.of_nat (length fp) = nd
    /\ val_be (ip ++ fp) = fmt_f_int nd (fmag v).
Proof.
  intros Hnd Hv. destruct (fmt_f_spec nd (fmag v) Hnd Hv) as [HN _].
  unfold fmt_f_l. set (N := fmt_f_int nd (fmag v)) in *.
  pose proof (pow10_pos nd Hnd) as HP.
  exists (udigits (N / 10 ^ nd)).
  exists (if nd <=? 0 then [] else fixw (Z.to_nat nd) (N mod 10 ^ nd)).
  assert (Hip : 0 <= N / 10 ^ nd) by (apply Z.div_pos; lia).
  destruct (nd <=? 0) eqn:C.
  - apply Z.leb_le in C. assert (nd = 0) by lia. subst nd.
    split; [reflexivity|]. split; [apply udigits_digs; assumption|].
    split; [apply udigits_nonnil|]. split; [constructor|]. split; [reflexivity|].
    rewrite app_nil_r, udigits_val by assumption. change (10 ^ 0) with 1. apply Z.div_1_r.
  - apply Z.leb_gt in C.
    assert (Hl : length (fixw (Z.to_nat nd) (N mod 10 ^ nd)) = Z.to_nat nd) by apply fixw_len.
    split.
    { destruct (fixw (Z.to_nat nd) (N mod 10 ^ nd)) eqn:F; [|reflexivity].
      cbn in Hl. lia. }
    split; [apply udigits_digs; assumption|]. split; [apply udigits_nonnil|].
    split; [apply fixw_digs|]. split; [rewrite Hl; lia|].
    rewrite val_be_app, Hl, Z2Nat.id, udigits_val, fixw_val, Z2Nat.id by lia.
    rewrite Z.mod_mod by lia. pose proof (Z.div_mod N (10 ^ nd) ltac:(lia)). lia.
Qed.

Lemma render_with_shape rule x err sfx :
  0 <= rule (dexp 1 (fmag err)) -> (0 <= fmag x)%Q -> fneg err = false ->
  exists ip fp,
    render_with rule x err sfx = shape_l (fneg x) ip fp (fixw 2 (fst (fmt_e 1 (fmag err)))) sfx
    /\ is_digs ip /\ ip <> [] /\ is_digs fp
    /\ Z.of_nat (length fp) = rule (dexp 1 (fmag err))
    /\ val_be (ip ++ fp) = fmt_f_int (rule (dexp 1 (fmag err))) (fmag x).
Proof.
  intros Hr Hx Hs. unfold render_with, dexp in *.
  destruct (fmt_e 1 (fmag err)) as [m e]. cbn [fst snd] in *.
  destruct (fmt_f_l_shape (rule e) x Hr Hx) as (ip & fp & Hf & H1 & H2 & H3 & H4 & H5).
  exists ip, fp. split; [|auto].
  rewrite Hf, Hs. unfold shape_l. cbn [sign_l app]. rewrite <- !app_assoc. reflexivity.
Qed.

Lemma denote_render_with rule x err sfx :
  0 <= rule (dexp 1 (fmag err)) -> (0 <= fmag x)%Q -> fneg err = false ->
  exists ip fp,
    denote (to_str (render_with rule x err sfx))
    = Some (denote_parts (fneg x) ip fp (fixw 2 (fst (fmt_e 1 (fmag err)))) (sfx_exp sfx))
    /\ Z.of_nat (length fp) = rule (dexp 1 (fmag err))
    /\ val_be (ip ++ fp) = fmt_f_int (rule (dexp 1 (fmag err))) (fmag x).
Proof.
  intros Hr Hx Hs.
  destruct (render_with_shape rule x err sfx Hr Hx Hs) as (ip & fp & Hf & H1 & H2 & H3 & H4 & H5).
  exists ip, fp. split; [|auto].
  unfold denote. rewrite of_to_str, Hf. apply denote_shape; try assumption.
  - apply fixw_digs.
  - intros E. apply (f_equal (@length Z)) in E. rewrite fixw_len in E. discriminate.
Qed.

(* ------------------------------------------------------------------ C20_core *)
Theorem core_thm x' err' sfx :
  (0 <= fmag x')%Q -> (0 < fmag err')%Q -> fneg err' = false -> dexp 1 (fmag err') <= 1 ->
  exists X E u,
    denote (render x' err' sfx) = Some (X, E, u)
    /\ (u == q10 (sfx_exp sfx + dexp 1 (fmag err') - 1))%Q
    /\ (10 * u <= E /\ E <= 99 * u)%Q
    /\ (Qabs (E - fmag err' * q10 (sfx_exp sfx)) <= u * (1 # 2))%Q
    /\ (Qabs (X - fl_val x' * q10 (sfx_exp sfx)) <= u * (1 # 2))%Q.
Proof.
  intros Hx He Hs Hd.
  assert (Hr : 0 <= nd_rule (dexp 1 (fmag err'))) by (unfold nd_rule; lia).
  destruct (denote_render_with nd_rule x' err' sfx Hr Hx Hs) as (ip & fp & Hden & Hlen & Hval).
  unfold render, render_l. rewrite Hden. clear Hden.
  pose proof (fmt_e_spec 1 (fmag err') ltac:(lia) He) as Hspec.
  unfold dexp in *. destruct (fmt_e 1 (fmag err')) as [m e]. cbn [fst snd] in *.
  destruct Hspec as (Hm & Herr & _).
  change (10 ^ 1) with 10 in Hm. change (10 ^ (1 + 1)) with 100 in Hm.
  assert (Hnd : nd_rule e = 1 - e) by (unfold nd_rule; lia).
  rewrite Hnd in *.
  destruct (fmt_f_spec (1 - e) (fmag x') ltac:(lia) Hx) as [HN HNq].
  rewrite <- Hval in HNq, HN.
  set (k := sfx_exp sfx) in *.
  unfold denote_parts. rewrite Hlen, fixw_val.
  change (10 ^ Z.of_nat 2) with 100. rewrite Z.mod_small by lia.
  set (u := q10 (k - (1 - e))).
  set (Nq := inject_Z (val_be (ip ++ fp))) in *. set (M := inject_Z m) in *.
  do 3 eexists. split; [reflexivity|].
  rewrite !Qred_correct.
  assert (Hu0 : (0 < u)%Q) by apply q10_pos.
  pose proof (q10_pos k) as HK.
  assert (HU1 : (u == q10 k * q10 (e - 1))%Q).
  { unfold u. rewrite <- q10_add. replace (k + (e - 1)) with (k - (1 - e)) by lia. reflexivity. }
  assert (HU2 : (u * q10 (1 - e) == q10 k)%Q).
  { unfold u. rewrite <- q10_add. replace (k - (1 - e) + (1 - e)) with k by lia. reflexivity. }
  assert (M10 : (10 <= M)%Q) by (unfold M; rewrite <- (Zle_Qle 10); lia).
  assert (M99 : (M <= 99)%Q) by (unfold M; rewrite <- (Zle_Qle _ 99); lia).
  split. { unfold u. replace (k + e - 1) with (k - (1 - e)) by lia. reflexivity. }
  split. { split; nra. }
  apply Qabs_Qle_condition in Herr. destruct Herr as [E1 E2].
  apply Qabs_Qle_condition in HNq. destruct HNq as [N1 N2].
  set (K := q10 k) in *. set (T := q10 (e - 1)) in *. set (P := q10 (1 - e)) in *.
  set (a := fmag err') in *. set (b := fmag x') in *.
  split.
  - assert (G1 : (0 <= K * (M * T - a + T * (1 # 2)))%Q) by (apply Qmult_le_0_compat; lra).
    assert (G2 : (0 <= K * (T * (1 # 2) - (M * T - a)))%Q) by (apply Qmult_le_0_compat; lra).
    apply Qabs_Qle_condition. rewrite HU1. split; lra.
  - assert (G1 : (0 <= u * (Nq - b * P + (1 # 2)))%Q) by (apply Qmult_le_0_compat; lra).
    assert (G2 : (0 <= u * ((1 # 2) - (Nq - b * P)))%Q) by (apply Qmult_le_0_compat; lra).
    unfold fl_val. fold b. destruct (fneg x').
    + apply Qabs_Qle_condition. rewrite <- HU2. split; lra.
    + apply Qabs_Qle_condition. rewrite <- HU2. split; lra.
Qed.

(* the digit rule before the fix fails at 99.9 +- 9.96: it prints 99.90(10), i.e. an error of
   0.10 for 9.96 *)
Lemma core_refuted_old_lemma :
  exists x' err',
    (0 <= fmag x')%Q /\ (0 < fmag err')%Q /\ fneg err' = false /\ dexp 1 (fmag err') <= 1 /\
    exists X E u, denote (render_old x' err' None) = Some (X, E, u)
                  /\ ~ (Qabs (E - fmag err') <= u * (1 # 2))%Q.
Proof.
  exists (mkfl false (999 # 10)), (mkfl false (996 # 100)).
  split; [vm_compute; discriminate|]. split; [reflexivity|]. split; [reflexivity|].
  split; [vm_compute; discriminate|].
  exists (999 # 10)%Q, (1 # 10)%Q, (1 # 100)%Q. split; [vm_compute; reflexivity|].
  vm_compute. intros H. apply H. reflexivity.
Qed.

(* ------------------------------------------------------------------ float side *)
Definition eps51 : Q := 1 # 2251799813685248.
Definition eps52 : Q := 1 # 4503599627370496.
Definition eps53 : Q := 1 # 9007199254740992.
Definition tiny : Q := (inject_Z 2 ^ (-1022))%Q.      (* smallest normal binary64 *)
Definition huge : Q := (inject_Z 2 ^ 1023)%Q.

Lemma tiny_small : (tiny <= 1 # 1000000000000000)%Q.
Proof. vm_compute. discriminate. Qed.
Lemma tiny_pos : (0 < tiny)%Q.
Proof. reflexivity. Qed.
Lemma huge_big : (100 <= huge)%Q.
Proof. vm_compute. discriminate. Qed.
Lemma tiny_above_c6 : (cst 6 * q10 (-315) < tiny)%Q.
Proof. vm_compute. reflexivity. Qed.

Lemma cst6_val : (cst 6 == 19999999 # 2)%Q.
Proof. reflexivity. Qed.
Lemma cst1_val : (cst 1 == 199 # 2)%Q.
Proof. reflexivity. Qed.

Lemma dexp_zero prec q : (q == 0)%Q -> dexp prec q = 0.
Proof.
  intros H. unfold dexp, fmt_e.
  assert (Qnum q = 0) by (unfold Qeq in H; cbn in H; lia).
  destruct (Qnum q <=? 0) eqn:C; [reflexivity|]. apply Z.leb_gt in C. lia.
Qed.

Lemma dexp1_small q : (0 < q)%Q -> (q < 99)%Q -> dexp 1 q <= 1.
Proof.
  intros Hq H. apply dexp_le; [lia|assumption|].
  rewrite cst1_val. change (q10 (1 - 1)) with 1%Q. lra.
Qed.

(* p is 10^k within 2^-53, r = a / p exactly, a' is r within 2^-52: then a' * 10^k is a
   within 2^-51 *)
Lemma div_close a K p r a' :
  (0 < K)%Q -> (0 <= a)%Q -> (Qabs (p - K) <= eps53 * K)%Q -> (r * p == a)%Q ->
  (Qabs (a' - r) <= eps52 * r)%Q -> (Qabs (a' * K - a) <= eps51 * a)%Q.
Proof.
  intros HK Ha Hp Hr Ha'.
  apply Qabs_Qle_condition in Hp. destruct Hp as [P1 P2].
  apply Qabs_Qle_condition in Ha'. destruct Ha' as [A1 A2].
  unfold eps51, eps52, eps53 in *.
  assert (Pp : (0 < p)%Q) by nra.
  assert (Rr : (0 <= r)%Q).
  { destruct (Qlt_le_dec r 0) as [Hn|]; [|assumption]. exfalso.
    assert ((r * p < 0)%Q) by nra. lra. }
  assert (G1 : (0 <= K * (a' - r + (1 # 4503599627370496) * r))%Q) by (apply Qmult_le_0_compat; lra).
  assert (G2 : (0 <= K * ((1 # 4503599627370496) * r - (a' - r)))%Q) by (apply Qmult_le_0_compat; lra).
  assert (G3 : (0 <= r * (p - K + (1 # 9007199254740992) * K))%Q) by (apply Qmult_le_0_compat; lra).
  assert (G4 : (0 <= r * ((1 # 9007199254740992) * K - (p - K)))%Q) by (apply Qmult_le_0_compat; lra).
  apply Qabs_Qle_condition. split; lra.
Qed.

(* bounds on the exact quotient *)
Lemma quot_bounds a K p r lo hi :
  (0 < K)%Q -> (Qabs (p - K) <= eps53 * K)%Q -> (r * p == a)%Q ->
  (0 <= lo)%Q -> (lo * K <= a)%Q -> (a <= hi * K)%Q ->
  (0 < p /\ lo * (99 # 100) <= r /\ r <= hi * (101 # 100))%Q.
Proof.
  intros HK Hp Hr Hlo H1 H2.
  apply Qabs_Qle_condition in Hp. destruct Hp as [P1 P2]. unfold eps53 in *.
  assert (Pp : (0 < p)%Q) by nra.
  split; [assumption|].
  assert (Rr : (0 <= r)%Q).
  { destruct (Qlt_le_dec r 0) as [Hn|]; [|assumption]. exfalso.
    assert ((r * p < 0)%Q) by nra. nra. }
  split.
  - destruct (Qlt_le_dec r (lo * (99 # 100))) as [Hn|]; [exfalso|assumption].
    assert (G : (r * p <= lo * (99 # 100) * p)%Q) by nra.
    assert (G' : (lo * (99 # 100) * p <= lo * (99 # 100) * (K * (101 # 100)))%Q) by nra.
    nra.
  - destruct (Qlt_le_dec (hi * (101 # 100)) r) as [Hn|]; [exfalso|assumption].
    assert (Hhi : (0 <= hi)%Q) by nra.
    assert (G : (hi * (101 # 100) * p < r * p)%Q) by nra.
    assert (G' : (hi * (101 # 100) * (K * (995 # 1000)) <= hi * (101 # 100) * p)%Q) by nra.
    nra.
Qed.

(* the largest finite binary64 *)
Definition fmax : Q := inject_Z ((2 ^ 53 - 1) * 2 ^ 971).
Lemma fmax_small : (fmax <= 2 * q10 308)%Q.
Proof. vm_compute. discriminate. Qed.
Lemma fmax_c6 : (fmax < cst 6 * q10 302)%Q.
Proof. vm_compute. reflexivity. Qed.

(* the stated domain, on magnitudes: err is any normal binary64 (up to the largest finite one),
   |x| <= 1e300, and x = 0 or 1e-12 <= err/|x| <= 1e12 *)
Definition in_range (x err : Q) : Prop :=
  (tiny <= err)%Q /\ (err <= fmax)%Q /\ (x <= q10 300)%Q /\
  (x == 0 \/ (q10 (-12) * x <= err /\ err <= q10 12 * x))%Q.

Section Float.
  Variable ops : fops.
  Notation Fl := (FT ops).
  Definition Mg (a : Fl) : Q := fmag (fval ops a).
  Definition Sg (a : Fl) : bool := fneg (fval ops a).

  (* well-formedness of the value function *)
  Hypothesis Hval : forall a, (0 <= Mg a)%Q.
  (* H-div: dividing by a positive float keeps the sign bit, gives zero for a zero numerator,
     and in the normal range has relative error at most 2^-52; r is the exact quotient
     (r * b = a) *)
  Hypothesis Hdiv : forall (a b : Fl) (r : Q), (0 < Mg b)%Q -> (r * Mg b == Mg a)%Q ->
    (Sg b = false -> Sg (fdiv ops a b) = Sg a)
    /\ ((Mg a == 0)%Q -> (Mg (fdiv ops a b) == 0)%Q)
    /\ ((tiny <= r)%Q -> (r <= huge)%Q -> (Qabs (Mg (fdiv ops a b) - r) <= eps52 * r)%Q).
  (* H-pow: 10**k is available for -307 <= k <= 308 and is 10^k within 2^-53 (normal range,
     correctly rounded); proved for the table of the executable instance in pow10_table_ok *)
  Hypothesis Hpow : forall k, -307 <= k <= 308 ->
    exists p, fpow10 ops k = Ok p /\ Sg p = false /\ (Qabs (Mg p - q10 k) <= eps53 * q10 k)%Q.

  Lemma hide_cases k x err : hide_of ops k x err = true -> k = 0 \/ k = -1 \/ k = 1.
  Proof.
    unfold hide_of. intros H.
    apply orb_true_iff in H. destruct H as [H|H].
    - apply orb_true_iff in H. destruct H as [H|H]; apply Z.eqb_eq in H; lia.
    - apply andb_true_iff in H. destruct H as [H _]. apply Z.eqb_eq in H. lia.
  Qed.

  Lemma hide_not0 k x err : hide_of ops k x err = false -> k <> 0 /\ k <> -1.
  Proof.
    unfold hide_of. intros H.
    apply orb_false_iff in H. destruct H as [H _].
    apply orb_false_iff in H. destruct H as [H1 H2].
    apply Z.eqb_neq in H1, H2. lia.
  Qed.

  (* the 7-digit exponent of err places err below 10^(ee+1) and at or above 0.0999.. of it *)
  Lemma err_window q : (0 < q)%Q ->
    (cst 6 * (1 # 100000000) * q10 (dexp 6 q + 1) <= q
     /\ q <= cst 6 * (1 # 10000000) * q10 (dexp 6 q + 1))%Q.
  Proof.
    intros Hq.
    pose proof (dexp_lower 6 q ltac:(lia) Hq) as L.
    pose proof (dexp_upper 6 q ltac:(lia) Hq) as U.
    set (e := dexp 6 q) in *.
    assert (E1 : (q10 (e + 1) == 100000000 * q10 (e - 6 - 1))%Q).
    { replace (e + 1) with (8 + (e - 6 - 1)) by lia. rewrite q10_add. reflexivity. }
    assert (E2 : (q10 (e + 1) == 10000000 * q10 (e - 6))%Q).
    { replace (e + 1) with (7 + (e - 6)) by lia. rewrite q10_add. reflexivity. }
    rewrite cst6_val in *. split; [rewrite E1|rewrite E2]; lra.
  Qed.

  Theorem branches_thm x err :
    Sg err = false -> in_range (Mg x) (Mg err) ->
    let k := x_exponent_of ops x err in
    (hide_of ops k x err = true -> dexp 1 (Mg err) <= 1)
    /\ (hide_of ops k x err = false ->
        exists p, fpow10 ops k = Ok p
          /\ Sg (fdiv ops err p) = false /\ (0 < Mg (fdiv ops err p))%Q
          /\ dexp 1 (Mg (fdiv ops err p)) <= 1
          /\ (Qabs (Mg (fdiv ops err p) * q10 k - Mg err) <= eps51 * Mg err)%Q
          /\ Sg (fdiv ops x p) = Sg x
          /\ (Qabs (Mg (fdiv ops x p) * q10 k - Mg x) <= eps51 * Mg x)%Q).
  Proof.
    intros Hs (Rt & Rmax & Rx & Rratio). intros k.
    pose proof tiny_pos as Tp. pose proof tiny_small as Ts. pose proof huge_big as Hb.
    assert (Hme : (0 < Mg err)%Q) by lra.
    pose proof (Hval x) as Hmx.
    pose proof (err_window (Mg err) Hme) as [W1 W2].
    set (me := Mg err) in *. set (mx := Mg x) in *.
    set (ee := dexp 6 me) in *.
    assert (Hk : k = Z.min (Z.max (dexp 6 mx) (ee + 1)) 308) by reflexivity.
    set (ex := dexp 6 mx) in *.
    rewrite cst6_val in W1, W2.
    split.
    - (* hidden: no scaling; the cap is not active *)
      intros Hh. apply hide_cases in Hh.
      assert (Hee : ee + 1 <= 1) by lia.
      apply dexp1_small; [assumption|].
      pose proof (q10_mono (ee + 1) 1 Hee) as M. rewrite q10_1 in M.
      pose proof (q10_pos (ee + 1)). nra.
    - intros Hh. apply hide_not0 in Hh.
      (* the range of k *)
      assert (Hee_lo : -308 <= ee).
      { apply dexp_ge; [lia|assumption|]. pose proof tiny_above_c6.
        change (-308 - 6 - 1) with (-315). lra. }
      assert (Hee_hi : ee <= 308).
      { apply dexp_le; [lia|assumption|]. change (308 - 6) with 302. pose proof fmax_c6. lra. }
      assert (Hex_hi : ex <= 307).
      { destruct (Qeq_dec mx 0) as [Z0|NZ].
        - unfold ex. rewrite dexp_zero by assumption. lia.
        - apply dexp_le; [lia|lra|]. change (307 - 6) with 301. rewrite cst6_val.
          assert ((q10 300 * 10 == q10 301)%Q) by reflexivity.
          pose proof (q10_pos 300). lra. }
      destruct (Hpow k ltac:(lia)) as (p & Hp & Sp & Ap).
      exists p. split; [assumption|].
      set (K := q10 k) in *. assert (HK : (0 < K)%Q) by apply q10_pos.
      pose proof (q10_pos (ee + 1)) as Q1.
      (* where err and x sit relative to 10^k *)
      assert (Win : (me <= 2 * K)%Q /\ ((1 # 10000000000000) * K <= me)%Q
                    /\ ((0 < mx)%Q -> (mx <= 10 * K)%Q /\ ((1 # 100000000000000) * K <= mx)%Q)).
      { destruct (Z_le_gt_dec (Z.max ex (ee + 1)) 308) as [Hc|Hc].
        - (* the cap is not active: k = max(ex, ee + 1) *)
          assert (Hk' : k = Z.max ex (ee + 1)) by lia.
          assert (M1 : (q10 (ee + 1) <= K)%Q) by (apply q10_mono; lia).
          split; [nra|]. split.
          + destruct (Z.eq_dec k (ee + 1)) as [Ek|Nk].
            * assert (EK : (K == q10 (ee + 1))%Q) by (unfold K; rewrite Ek; reflexivity).
              rewrite EK. nra.
            * assert (Ekx : k = ex) by lia.
              assert (NZ : ~ (mx == 0)%Q).
              { intros Z0. unfold ex in Ekx. rewrite dexp_zero in Ekx by assumption. lia. }
              assert (Px : (0 < mx)%Q) by lra.
              pose proof (err_window mx Px) as [X1 _]. fold ex in X1. rewrite cst6_val in X1.
              assert (EK : (q10 (ex + 1) == 10 * K)%Q) by (unfold K; rewrite Ekx; apply q10_succ).
              rewrite EK in X1.
              destruct Rratio as [Z0|[R1 _]]; [contradiction|].
              change (q10 (-12)) with (1 # 1000000000000)%Q in R1. nra.
          + intros Px.
            pose proof (err_window mx Px) as [X1 X2]. fold ex in X1, X2. rewrite cst6_val in X1, X2.
            assert (M2 : (q10 (ex + 1) <= 10 * K)%Q).
            { unfold K. rewrite <- q10_succ. apply q10_mono. lia. }
            pose proof (q10_pos (ex + 1)) as Q2.
            split; [nra|].
            destruct (Z.eq_dec k ex) as [Ek|Nk].
            * assert (EK : (q10 (ex + 1) == 10 * K)%Q) by (unfold K; rewrite Ek; apply q10_succ).
              rewrite EK in X1. nra.
            * assert (Eke : k = ee + 1) by lia.
              assert (EK : (K == q10 (ee + 1))%Q) by (unfold K; rewrite Eke; reflexivity).
              destruct Rratio as [Z0|[_ R2]]; [lra|].
              change (q10 12) with 1000000000000%Q in R2. rewrite EK. nra.
        - (* the cap is active: k = 308 and err is within a factor ten of the largest float *)
          assert (Hk' : k = 308) by lia.
          assert (Hee : ee = 308) by lia.
          assert (EK : (q10 (ee + 1) == 10 * K)%Q).
          { unfold K. rewrite Hk', Hee. reflexivity. }
          rewrite EK in W1.
          pose proof fmax_small as Fs.
          assert (EK8 : (K == q10 308)%Q) by (unfold K; rewrite Hk'; reflexivity).
          split; [rewrite EK8; lra|]. split; [nra|].
          intros Px.
          assert (M3 : (q10 300 <= K)%Q) by (unfold K; apply q10_mono; lia).
          split; [lra|].
          destruct Rratio as [Z0|[_ R2]]; [lra|].
          change (q10 12) with 1000000000000%Q in R2. nra. }
      destruct Win as (Eup & Elo & Xwin).
      (* the division of err *)
      assert (Pp : (0 < Mg p)%Q).
      { apply Qabs_Qle_condition in Ap. unfold eps53 in Ap. destruct Ap. nra. }
      set (re := (me / Mg p)%Q).
      assert (Hre : (re * Mg p == me)%Q) by (unfold re; field; lra).
      clearbody re.
      destruct (quot_bounds me K (Mg p) re (1 # 10000000000000) 2 HK Ap Hre ltac:(lra) Elo Eup)
        as (_ & Re1 & Re2).
      destruct (Hdiv err p re Pp Hre) as (De1 & _ & De3).
      specialize (De3 ltac:(lra) ltac:(lra)).
      specialize (De1 Sp). rewrite Hs in De1.
      split; [exact De1|].
      pose proof De3 as De3'. apply Qabs_Qle_condition in De3'. unfold eps52 in De3'.
      destruct De3' as [D1 D2].
      split; [nra|].
      split; [apply dexp1_small; nra|].
      split; [apply (div_close me K (Mg p) re); (assumption || lra)|].
      (* the division of x *)
      set (rx := (mx / Mg p)%Q).
      assert (Hrx : (rx * Mg p == mx)%Q) by (unfold rx; field; lra).
      clearbody rx.
      destruct (Hdiv x p rx Pp Hrx) as (Dx1 & Dx2 & Dx3).
      split.
      { exact (Dx1 Sp). }
      destruct (Qeq_dec mx 0) as [Z0|NZ].
      + specialize (Dx2 Z0). fold mx. rewrite Dx2, Z0.
        apply Qabs_Qle_condition. split; lra.
      + assert (Px : (0 < mx)%Q) by lra.
        destruct (Xwin Px) as [Xup Xlo].
        destruct (quot_bounds mx K (Mg p) rx (1 # 100000000000000) 10 HK Ap Hrx ltac:(lra) Xlo Xup)
          as (_ & Rx1 & Rx2).
        specialize (Dx3 ltac:(lra) ltac:(lra)).
        apply (div_close mx K (Mg p) rx); (assumption || lra).
  Qed.

  Definition Vl (a : Fl) : Q := fl_val (fval ops a).

  Theorem full_thm x err :
    Sg err = false -> in_range (Mg x) (Mg err) ->
    exists s X E u,
      format ops x err = Ok s /\ denote s = Some (X, E, u)
      /\ (0 < u)%Q /\ (10 * u <= E /\ E <= 99 * u)%Q
      /\ (Qabs (X - Vl x) <= u * (1 # 2) + eps51 * Mg x)%Q
      /\ (Qabs (E - Mg err) <= u * (1 # 2) + eps51 * Mg err)%Q.
  Proof.
    intros Hs Hr.
    destruct (branches_thm x err Hs Hr) as [Bh Bs].
    pose proof (Hval x) as Hmx.
    assert (Hme : (0 < Mg err)%Q) by (destruct Hr as (Rt & _); pose proof tiny_pos; lra).
    unfold format, format_with. set (k := x_exponent_of ops x err) in *.
    destruct (hide_of ops k x err) eqn:Hh.
    - specialize (Bh eq_refl).
      destruct (core_thm (fval ops x) (fval ops err) None (Hval x) Hme Hs Bh)
        as (X & E & u & Hden & Hu & HE & HEe & HXe).
      exists (render (fval ops x) (fval ops err) None), X, E, u.
      split; [reflexivity|]. split; [exact Hden|].
      cbn [sfx_exp] in *. rewrite q10_0, Qmult_1_r in HEe, HXe.
      assert (U0 : (0 < u)%Q) by (rewrite Hu; apply q10_pos).
      split; [assumption|]. split; [assumption|].
      fold (Mg err) in HEe. fold (Vl x) in HXe. unfold eps51.
      split; [eapply Qle_trans; [exact HXe|]|eapply Qle_trans; [exact HEe|]]; nra.
    - destruct (Bs eq_refl) as (p & Hp & Se & Pe & De & Ae & Sx & Ax).
      rewrite Hp.
      destruct (core_thm (fval ops (fdiv ops x p)) (fval ops (fdiv ops err p)) (Some k)
                         (Hval _) Pe Se De)
        as (X & E & u & Hden & Hu & HE & HEe & HXe).
      exists (render (fval ops (fdiv ops x p)) (fval ops (fdiv ops err p)) (Some k)), X, E, u.
      split; [reflexivity|]. split; [exact Hden|].
      cbn [sfx_exp] in *.
      assert (U0 : (0 < u)%Q) by (rewrite Hu; apply q10_pos).
      split; [assumption|]. split; [assumption|].
      fold (Mg (fdiv ops err p)) in HEe.
      apply Qabs_Qle_condition in HEe, HXe, Ae, Ax.
      set (K := q10 k) in *.
      split.
      + unfold Vl, fl_val in *. fold (Sg (fdiv ops x p)) in HXe. fold (Sg x). rewrite Sx in HXe.
        fold (Mg (fdiv ops x p)) in HXe. fold (Mg x).
        apply Qabs_Qle_condition. destruct (Sg x); split; lra.
      + apply Qabs_Qle_condition. split; lra.
  Qed.
End Float.

(* ------------------------------------------------------------------ the hypotheses are met *)
(* ... by the rational instances: exact division, and powers of ten either exact or taken from
   the binary64 table that the executable float instance uses (H-pow is CHECKED for that table
   by computation, for every k in -307 .. 308). *)
Lemma Sg_lt q : (Qnum q <? 0) = true <-> (q < 0)%Q.
Proof. unfold Qlt. cbn. rewrite Z.ltb_lt. lia. Qed.

Lemma Sg_false q : (Qnum q <? 0) = false <-> (0 <= q)%Q.
Proof. unfold Qle. cbn. rewrite Z.ltb_ge. lia. Qed.

Lemma Sg_wd q1 q2 : (q1 == q2)%Q -> (Qnum q1 <? 0) = (Qnum q2 <? 0).
Proof.
  intros H. destruct (Qnum q2 <? 0) eqn:E.
  - apply Sg_lt. apply Sg_lt in E. rewrite H. assumption.
  - apply Sg_false. apply Sg_false in E. rewrite H. assumption.
Qed.

Lemma opsq_val pw : forall a : FT (ops_q pw), (0 <= Mg (ops_q pw) a)%Q.
Proof. intros a. unfold Mg. cbn [ops_q fval fdiv fneg fmag fl_of_Q FT fpow10]. apply Qabs_nonneg. Qed.

Lemma opsq_div pw : forall (a b : FT (ops_q pw)) (r : Q),
  (0 < Mg (ops_q pw) b)%Q -> (r * Mg (ops_q pw) b == Mg (ops_q pw) a)%Q ->
  (Sg (ops_q pw) b = false -> Sg (ops_q pw) (fdiv (ops_q pw) a b) = Sg (ops_q pw) a)
  /\ ((Mg (ops_q pw) a == 0)%Q -> (Mg (ops_q pw) (fdiv (ops_q pw) a b) == 0)%Q)
  /\ ((tiny <= r)%Q -> (r <= huge)%Q ->
      (Qabs (Mg (ops_q pw) (fdiv (ops_q pw) a b) - r) <= eps52 * r)%Q).
Proof.
  intros a b r. unfold Mg, Sg. cbn [ops_q fval fdiv fneg fmag fl_of_Q FT fpow10]. intros Hb Hr.
  assert (Nb : ~ (b == 0)%Q).
  { intros Z0. rewrite Z0 in Hb. cbn in Hb. lra. }
  assert (Hq : (Qabs (Qred (a / b)) == r)%Q).
  { rewrite Qred_correct. unfold Qdiv. rewrite Qabs_Qmult, Qabs_Qinv.
    rewrite <- Hr. field. intros Z0. lra. }
  split; [|split].
  - intros Sb. apply Sg_false in Sb.
    assert (Pb : (0 < b)%Q).
    { destruct (Qlt_le_dec 0 b); [assumption|]. exfalso. apply Nb. lra. }
    rewrite (Sg_wd _ _ (Qred_correct (a / b))).
    assert (Pi : (0 < / b)%Q) by (apply Qinv_lt_0_compat; assumption).
    destruct (Qnum a <? 0) eqn:E.
    + apply Sg_lt. apply Sg_lt in E. unfold Qdiv. nra.
    + apply Sg_false. apply Sg_false in E. unfold Qdiv. nra.
  - intros Z0. rewrite Hq. rewrite Z0 in Hr. nra.
  - intros T1 _.
    assert (Hz : (Qabs (Qabs (Qred (a / b)) - r) == 0)%Q).
    { transitivity (Qabs 0); [apply Qabs_wd; rewrite Hq; ring|reflexivity]. }
    rewrite Hz. pose proof tiny_pos. unfold eps52. nra.
Qed.

Lemma In_zseq n : forall lo k, lo <= k < lo + Z.of_nat n -> In k (zseq lo n).
Proof.
  induction n as [|n IH]; intros lo k H.
  - cbn in H. lia.
  - cbn [zseq]. destruct (Z.eq_dec k lo) as [->|Ne]; [left; reflexivity|right].
    apply IH. lia.
Qed.

Definition pow_ok (k : Z) : bool :=
  match pow10_q k with
  | Ok p => (0 <? Qnum p) && Qle_bool (Qabs (p - q10 k)) (eps53 * q10 k)
  | Err _ => false
  end.

Lemma pow10_table_ok_all : forallb pow_ok (zseq (-307) 616) = true.
Proof. vm_compute. reflexivity. Qed.

Lemma pow10_table_ok k : -307 <= k <= 308 ->
  exists p, pow10_q k = Ok p /\ (0 < p)%Q /\ (Qabs (p - q10 k) <= eps53 * q10 k)%Q.
Proof.
  intros H. pose proof pow10_table_ok_all as A. rewrite forallb_forall in A.
  specialize (A k (In_zseq 616 (-307) k ltac:(lia))). unfold pow_ok in A.
  destruct (pow10_q k) as [p|]; [|discriminate]. exists p. split; [reflexivity|].
  apply andb_true_iff in A. destruct A as [A1 A2]. apply Z.ltb_lt in A1.
  split; [unfold Qlt; cbn; lia|]. apply Qle_bool_iff. assumption.
Qed.

Lemma table_pow : forall k, -307 <= k <= 308 ->
  exists p, fpow10 ops_table k = Ok p /\ Sg ops_table p = false
            /\ (Qabs (Mg ops_table p - q10 k) <= eps53 * q10 k)%Q.
Proof.
  intros k H. destruct (pow10_table_ok k H) as (p & Hp & Pp & Ap).
  exists p. split; [exact Hp|]. unfold Sg, Mg. cbn [ops_q ops_table ops_exact fval fdiv fneg fmag fl_of_Q FT fpow10].
  split; [apply Sg_false; lra|].
  assert (Hp' : (Qabs p == p)%Q) by (apply Qabs_pos; lra).
  eapply Qle_trans; [|exact Ap]. apply Qle_lteq. right. apply Qabs_wd.
  unfold Qminus. apply Qplus_comp; [exact Hp'|reflexivity].
Qed.

Lemma exact_pow : forall k, -307 <= k <= 308 ->
  exists p, fpow10 ops_exact k = Ok p /\ Sg ops_exact p = false
            /\ (Qabs (Mg ops_exact p - q10 k) <= eps53 * q10 k)%Q.
Proof.
  intros k H. exists (q10 k). split; [reflexivity|]. unfold Sg, Mg. cbn [ops_q ops_table ops_exact fval fdiv fneg fmag fl_of_Q FT fpow10].
  pose proof (q10_pos k) as P.
  split; [apply Sg_false; lra|].
  assert (Hp' : (Qabs (q10 k) == q10 k)%Q) by (apply Qabs_pos; lra).
  assert (Hz : (Qabs (Qabs (q10 k) - q10 k) == 0)%Q).
  { transitivity (Qabs 0); [apply Qabs_wd; rewrite Hp'; ring|reflexivity]. }
  rewrite Hz. unfold eps53. nra.
Qed.

(* the full statement for the instance with Python's own powers of ten: no hypothesis left *)
Definition full_thm_table := full_thm ops_table (opsq_val pow10_q) (opsq_div pow10_q) table_pow.
Definition full_thm_exact := full_thm ops_exact (opsq_val _) (opsq_div _) exact_pow.

(* why the cap is needed: without it (format_old) the binary64 nearest 1e308 gives exponent 309
   and 10**309 cannot be converted to a float; with it the same input is formatted *)
Lemma overflow_refuted_old_lemma :
  exists x err : Q, (x == 0)%Q /\ (0 < err)%Q /\ pow10_q 308 = Ok err
                    /\ format_old ops_table x err = Err E_Overflow
                    /\ format ops_table x err = Ok "0.0(10)e+308"%string.
Proof.
  exists 0%Q. destruct (pow10_q 308) as [err|] eqn:E; [|vm_compute in E; discriminate].
  exists err. vm_compute in E. injection E as <-.
  split; [reflexivity|]. split; [reflexivity|]. split; [reflexivity|].
  split; vm_compute; reflexivity.
Qed.
