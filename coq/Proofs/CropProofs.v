(* Invariants of a crop on disk over every operation history, and what a reap returns. *)
From XV Require Import Prelude Grid Perm Runner Batch Crop GridProofs PermProofs RunnerProofs BatchProofs AssocProofs.
From Coq Require Import Permutation ZifyBool.
Ltac Zify.zify_post_hook ::= Z.to_euclidean_division_equations.
Open Scope Z_scope.

Section CropProofs.
  Context {R : Type}.
  Variable g : kwargs -> R.                      (* the deterministic function that was sown *)
  Variable fails : kwargs -> bool.               (* settings on which it currently raises *)
  Definition fn (kw : kwargs) : option R := if fails kw then None else Some (g kw).

  Notation disk := (@disk R).

  (* [Sown i bl d]: input i is sown on d as the batches bl (file k holds the k-th of them) *)
  Record Sown (i : input) (bl : list (list kwargs)) (d : disk) : Prop := {
    sw_info : exists s r, d_info d = Some (mk_info i s (Z.of_nat (length bl)) r);
    sw_arith : exists s r, d_info d = Some (mk_info i s (Z.of_nat (length bl)) r)
                 /\ 1 <= s /\ 0 <= r /\ bl = sow_all s r (run_order i)
                 /\ (let n := Z.of_nat (length (run_order i)) in
                     n <= s * Z.of_nat (length bl) + r < n + s);
    sw_keys_nodup : NoDup (map fst (d_batches d));
    sw_keys : forall x, In x (map fst (d_batches d)) <-> 1 <= x <= Z.of_nat (length bl);
    sw_batches : forall k, 1 <= k <= Z.of_nat (length bl) ->
                           zlookup k (d_batches d) = nth_error bl (Z.to_nat (k - 1));
    sw_concat : concat bl = run_order i;
    sw_nonempty : Forall (fun b => b <> []) bl
  }.

  (* every result file is the whole result of its own batch *)
  Record ResInv (bl : list (list kwargs)) (d : disk) : Prop := {
    ri_nodup : NoDup (map fst (d_results d));
    ri_content : forall k rs, zlookup k (d_results d) = Some rs ->
                   1 <= k <= Z.of_nat (length bl)
                   /\ exists b, nth_error bl (Z.to_nat (k - 1)) = Some b /\ rs = map g b
  }.

  Definition Inv i bl d := Sown i bl d /\ ResInv bl d.
  Definition finished (d : disk) (k : Z) : bool := zmem k (d_results d).

  (* ---------- lengths from key sets ---------- *)
  Lemma keys_length (l : list Z) n :
    NoDup l -> (forall x, In x l <-> 1 <= x <= Z.of_nat n) -> length l = n.
  Proof.
    intros Hnd Hk. rewrite <- (zseq_length 1 n).
    apply Permutation_length, NoDup_Permutation; [exact Hnd|apply zseq_nodup|].
    intros x. rewrite Hk, zseq_in. lia.
  Qed.

  Lemma sown_num_sown i bl d : Sown i bl d -> num_sown d = Z.of_nat (length bl).
  Proof.
    intros [(s & r & Hi) _ Hnd Hk _ _ _]. unfold num_sown. rewrite Hi. f_equal.
    rewrite <- (map_length fst). apply keys_length; assumption.
  Qed.

  Lemma nth_error_lookup_range (bl : list (list kwargs)) k :
    1 <= k <= Z.of_nat (length bl) -> exists b, nth_error bl (Z.to_nat (k - 1)) = Some b.
  Proof.
    intros Hk. destruct (nth_error bl (Z.to_nat (k - 1))) eqn:E; [eauto|].
    apply nth_error_None in E. lia.
  Qed.

  (* ---------- grow ---------- *)
  Lemma run_batch_ok b : forallb (fun kw => negb (fails kw)) b = true -> run_batch fn b = Some (map g b).
  Proof.
    induction b as [|kw b IH]; cbn; [reflexivity|]. rewrite andb_true_iff. intros [Hk Hb].
    unfold fn at 1. destruct (fails kw); [discriminate|]. rewrite (IH Hb). reflexivity.
  Qed.

  Lemma run_batch_fail b : forallb (fun kw => negb (fails kw)) b = false -> run_batch fn b = None.
  Proof.
    induction b as [|kw b IH]; cbn; [discriminate|]. rewrite andb_false_iff. unfold fn at 1.
    destruct (fails kw); [reflexivity|]. cbn. intros [H|H]; [discriminate|]. rewrite (IH H). reflexivity.
  Qed.

  Lemma run_batch_some b rs : run_batch fn b = Some rs -> rs = map g b.
  Proof.
    destruct (forallb (fun kw => negb (fails kw)) b) eqn:E.
    - rewrite (run_batch_ok b E). congruence.
    - rewrite (run_batch_fail b E). discriminate.
  Qed.

  (* growing a batch writes only that batch's result, whole and correct; a failing grow writes nothing *)
  Lemma grow_spec i bl d k :
    Inv i bl d ->
    match grow fn d k with
    | Ok d' => Inv i bl d' /\ d_info d' = d_info d /\ d_batches d' = d_batches d
               /\ (forall j, j <> k -> zlookup j (d_results d') = zlookup j (d_results d))
               /\ finished d' k = true /\ 1 <= k <= Z.of_nat (length bl)
    | Err _ => True
    end.
  Proof.
    intros [HS HR]. unfold grow.
    destruct (zlookup k (d_batches d)) as [b|] eqn:Hb; [|exact I].
    assert (Hk : 1 <= k <= Z.of_nat (length bl)).
    { apply (proj1 (sw_keys _ _ _ HS k)). apply zlookup_in in Hb. apply in_map_iff. exists (k, b). auto. }
    destruct b as [|kw b]; [exact I|].
    destruct (run_batch fn (kw :: b)) as [rs|] eqn:Hr; [|exact I].
    apply run_batch_some in Hr.
    refine (conj (conj _ _) (conj eq_refl (conj eq_refl (conj _ (conj _ Hk))))); cbn [d_info d_batches d_results].
    - destruct HS as [Hi Ha Hnd Hkeys Hbat Hc Hne]. constructor; assumption.
    - constructor; cbn [d_results].
      + apply nodup_zset, (ri_nodup _ _ HR).
      + intros k0 rs0 H. destruct (Z.eq_dec k0 k) as [->|Hne].
        * split; [exact Hk|]. rewrite zlookup_zset_same in H. injection H as <-.
          rewrite <- (sw_batches _ _ _ HS k Hk), Hb. eexists. split; [reflexivity|exact Hr].
        * rewrite zlookup_zset_other in H by exact Hne. apply (ri_content _ _ HR) in H. exact H.
    - intros j Hj. apply zlookup_zset_other, Hj.
    - unfold finished, zmem. cbn [d_results]. rewrite zlookup_zset_same. reflexivity.
  Qed.

  Lemma grow_ok_when_total i bl d k b :
    Inv i bl d -> 1 <= k <= Z.of_nat (length bl) -> nth_error bl (Z.to_nat (k - 1)) = Some b ->
    forallb (fun kw => negb (fails kw)) b = true ->
    exists d', grow fn d k = Ok d'.
  Proof.
    intros [HS HR] Hk Hb Hok. unfold grow. rewrite (sw_batches _ _ _ HS k Hk), Hb.
    assert (b <> []) as Hne.
    { pose proof (sw_nonempty _ _ _ HS) as Hf. rewrite Forall_forall in Hf. apply Hf. eapply nth_error_In, Hb. }
    destruct b as [|kw b]; [contradiction|]. rewrite (run_batch_ok _ Hok). eauto.
  Qed.

  (* ---------- other operations keep the invariant ---------- *)
  Lemma delete_inv i bl d k : Inv i bl d -> Inv i bl (delete_result d k).
  Proof.
    intros [HS HR]. split.
    - destruct HS. constructor; assumption.
    - constructor; cbn [delete_result d_results].
      + apply nodup_zremove, (ri_nodup _ _ HR).
      + intros j rs H. destruct (Z.eq_dec j k) as [->|Hne].
        * rewrite zlookup_zremove_same in H. discriminate.
        * rewrite zlookup_zremove_other in H by exact Hne. apply (ri_content _ _ HR), H.
  Qed.

  Lemma zlookup_filter {V} (p : Z * V -> bool) (l : list (Z * V)) k v :
    NoDup (map fst l) -> zlookup k (filter p l) = Some v -> zlookup k l = Some v.
  Proof.
    induction l as [|[k0 v0] l IH]; cbn; [discriminate|]. intros Hnd H.
    inversion Hnd as [|? ? Hnin Hnd']; subst.
    destruct (p (k0, v0)); cbn in H.
    - destruct (k =? k0); [exact H|]. apply IH; assumption.
    - destruct (k =? k0) eqn:E; [|apply IH; assumption].
      apply Z.eqb_eq in E. subst k0. specialize (IH Hnd' H). apply zlookup_in in IH.
      exfalso. apply Hnin. apply in_map_iff. exists (k, v). auto.
  Qed.

  Lemma nodup_filter_keys {V} (p : Z * V -> bool) (l : list (Z * V)) :
    NoDup (map fst l) -> NoDup (map fst (filter p l)).
  Proof.
    induction l as [|[k v] l IH]; cbn; intros H; [constructor|].
    inversion H as [|? ? Hnin Hnd]; subst.
    destruct (p (k, v)); cbn; [constructor|]; try apply IH, Hnd.
    intros Hin. apply Hnin. apply in_map_iff in Hin as ([k' v'] & <- & Hin). apply filter_In in Hin as [Hin _].
    apply in_map_iff. exists (k', v'). auto.
  Qed.

  (* under the invariant no result is bad: check_bad deletes nothing *)
  Lemma check_bad_inv i bl d : Inv i bl d -> check_bad d = ([], d).
  Proof.
    intros [HS HR]. unfold check_bad.
    assert (Hnone : forall idr, In idr (d_results d) -> is_bad d idr = false).
    { intros [k rs] Hin. unfold is_bad. cbn [fst snd].
      assert (Hl : zlookup k (d_results d) = Some rs).
      { destruct (zlookup k (d_results d)) as [rs'|] eqn:E.
        - apply zlookup_in in E. f_equal.
          pose proof (ri_nodup _ _ HR) as Hnd. clear -Hnd Hin E.
          induction (d_results d) as [|[k0 v0] l IH]; [destruct Hin|].
          cbn in Hnd. inversion Hnd as [|? ? Hnin Hnd']; subst.
          destruct Hin as [Hin|Hin], E as [E|E]; try congruence.
          + injection Hin as -> ->. exfalso. apply Hnin. apply in_map_iff. exists (k, rs'). auto.
          + injection E as -> ->. exfalso. apply Hnin. apply in_map_iff. exists (k, rs). auto.
          + apply IH; assumption.
        - apply zlookup_none_keys in E. exfalso. apply E. apply in_map_iff. exists (k, rs). auto. }
      destruct (ri_content _ _ HR k rs Hl) as (Hk & b & Hb & ->).
      rewrite (sw_batches _ _ _ HS k Hk), Hb, map_length, Nat.eqb_refl. reflexivity. }
    assert (Hf1 : filter (is_bad d) (d_results d) = []).
    { clear -Hnone. induction (d_results d) as [|x l IH]; [reflexivity|]. cbn.
      rewrite (Hnone x (or_introl eq_refl)). apply IH. intros y Hy. apply Hnone. right. exact Hy. }
    assert (Hf2 : filter (fun idr => negb (is_bad d idr)) (d_results d) = d_results d).
    { clear -Hnone. induction (d_results d) as [|x l IH]; [reflexivity|]. cbn.
      rewrite (Hnone x (or_introl eq_refl)). cbn. f_equal. apply IH. intros y Hy. apply Hnone. right. exact Hy. }
    rewrite Hf1, Hf2. destruct d. reflexivity.
  Qed.

  (* ---------- what the progress queries report ---------- *)
  Lemma results_keys_range i bl d x :
    Inv i bl d -> In x (map fst (d_results d)) -> 1 <= x <= Z.of_nat (length bl).
  Proof.
    intros [_ HR] Hin. apply in_keys_zlookup in Hin as [rs Hrs]. apply (ri_content _ _ HR) in Hrs. tauto.
  Qed.

  Lemma missing_spec i bl d o x :
    Inv i bl d ->
    In x (missing o d) <-> 1 <= x <= Z.of_nat (length bl) /\ finished d x = false.
  Proof.
    intros [HS HR]. destruct (sw_info _ _ _ HS) as (s & r & Hi).
    unfold missing, sync, reload, missing_of. rewrite Hi. cbn [o_nb inf_nb].
    rewrite filter_In, zseq_in, Nat2Z.id. unfold finished.
    destruct (zmem x (d_results d)); cbn [negb]; intuition (try discriminate; try lia).
  Qed.

  Lemma ready_spec i bl d o :
    Inv i bl d -> bl <> [] -> (ready d = true <-> missing o d = []).
  Proof.
    intros HI Hne. pose proof HI as [HS HR].
    unfold ready. rewrite (sown_num_sown _ _ _ HS).
    destruct (sw_info _ _ _ HS) as (s & r & Hi). unfold num_results. rewrite Hi.
    assert (HB : (0 < length bl)%nat) by (destruct bl; [contradiction|cbn; lia]).
    split.
    - intros H. apply andb_true_iff in H as [_ H]. apply Z.eqb_eq in H. apply Nat2Z.inj in H.
      destruct (missing o d) as [|x m] eqn:E; [reflexivity|exfalso].
      assert (Hx : In x (missing o d)) by (rewrite E; left; reflexivity).
      apply (missing_spec _ _ _ o x HI) in Hx as [Hr Hf].
      (* all of 1..B are keys because there are B distinct keys inside 1..B *)
      assert (Hincl : incl (zseq 1 (length bl)) (map fst (d_results d))).
      { apply NoDup_length_incl.
        - apply (ri_nodup _ _ HR).
        - rewrite zseq_length, map_length. lia.
        - intros y Hy. apply zseq_in. pose proof (results_keys_range _ _ _ y HI Hy). lia. }
      assert (Hin : In x (map fst (d_results d))) by (apply Hincl, zseq_in; lia).
      apply zmem_true in Hin. unfold finished in Hf. congruence.
    - intros Hm. apply andb_true_iff.
      assert (Hlen : length (d_results d) = length bl).
      { rewrite <- (map_length fst). apply keys_length; [apply (ri_nodup _ _ HR)|].
        intros x. split; [apply (results_keys_range _ _ _ x HI)|].
        intros Hx. destruct (finished d x) eqn:Ef; [apply zmem_true, Ef|].
        assert (In x (missing o d)) by (apply (missing_spec _ _ _ o x HI); auto).
        rewrite Hm in H. destruct H. }
      rewrite Hlen. split; [apply Z.ltb_lt; lia|apply Z.eqb_refl].
  Qed.

  Lemma num_results_spec i bl d :
    Inv i bl d -> num_results d = Z.of_nat (length (filter (finished d) (zseq 1 (length bl)))).
  Proof.
    intros HI. pose proof HI as [HS HR]. destruct (sw_info _ _ _ HS) as (s & r & Hi).
    unfold num_results. rewrite Hi. f_equal. rewrite <- (map_length fst).
    apply Permutation_length, NoDup_Permutation.
    - apply (ri_nodup _ _ HR).
    - apply NoDup_filter, zseq_nodup.
    - intros x. rewrite filter_In, zseq_in. unfold finished. rewrite zmem_true. split.
      + intros H. pose proof (results_keys_range _ _ _ x HI H). split; [lia|exact H].
      + tauto.
  Qed.

  (* ---------- growing a list of batches ---------- *)
  Lemma grow_list_spec i bl : forall ids d,
    Inv i bl d ->
    (forall k, In k ids -> 1 <= k <= Z.of_nat (length bl)) ->
    (forall k b, In k ids -> nth_error bl (Z.to_nat (k - 1)) = Some b ->
                 forallb (fun kw => negb (fails kw)) b = true) ->
    exists d', grow_list fn d ids = Ok d' /\ Inv i bl d'
               /\ (forall k, finished d' k = true <-> In k ids \/ finished d k = true).
  Proof.
    induction ids as [|k ids IH]; intros d HI Hr Hok; cbn [grow_list].
    - exists d. split; [reflexivity|]. split; [exact HI|]. intros k. cbn. tauto.
    - assert (Hk : 1 <= k <= Z.of_nat (length bl)) by (apply Hr; left; reflexivity).
      destruct (nth_error_lookup_range bl k Hk) as [b Hb].
      destruct (grow_ok_when_total i bl d k b HI Hk Hb (Hok k b (or_introl eq_refl) Hb)) as [d1 Hg].
      pose proof (grow_spec i bl d k HI) as Hs. rewrite Hg in Hs.
      destruct Hs as (HI1 & _ & _ & Hoth & Hfin & _). rewrite Hg.
      destruct (IH d1 HI1) as (d' & Hgl & HI' & Hf).
      + intros j Hj. apply Hr. right. exact Hj.
      + intros j bj Hj. apply Hok. right. exact Hj.
      + exists d'. split; [exact Hgl|]. split; [exact HI'|]. intros j. rewrite Hf. cbn [In].
        unfold finished, zmem in *. destruct (Z.eq_dec j k) as [->|Hne].
        * rewrite Hfin. tauto.
        * rewrite (Hoth j Hne). intuition congruence.
  Qed.

  (* ---------- the reaper ---------- *)
  Definition masked_batch (d : disk) (kb : Z * list kwargs) : list (@slot R) :=
    if finished d (fst kb) then map (fun kw => SGot (g kw)) (snd kb) else map (fun _ => SHole) (snd kb).

  Lemma reaper_chain_spec i bl d allow : forall n s,
    Inv i bl d -> (Z.to_nat (s - 1) + n = length bl)%nat -> 1 <= s ->
    (allow = false -> forall k, s <= k < s + Z.of_nat n -> finished d k = true) ->
    reaper_chain d allow (zseq s n)
    = Ok (flat_map (masked_batch d) (number_from s (skipn (Z.to_nat (s - 1)) bl))).
  Proof.
    induction n as [|n IH]; intros s HI Hlen Hs Hall.
    - cbn. rewrite skipn_all2 by lia. reflexivity.
    - pose proof HI as [HS HR]. cbn [zseq reaper_chain].
      assert (Hk : 1 <= s <= Z.of_nat (length bl)) by lia.
      destruct (nth_error_lookup_range bl s Hk) as [b Hb].
      assert (Hskip : skipn (Z.to_nat (s - 1)) bl = b :: skipn (Z.to_nat (s + 1 - 1)) bl).
      { replace (Z.to_nat (s + 1 - 1)) with (S (Z.to_nat (s - 1))) by lia.
        clear -Hb. revert Hb. generalize (Z.to_nat (s - 1)) as m. intros m. revert bl.
        induction m as [|m IHm]; intros [|x l] H; try discriminate; cbn in *.
        - injection H as ->. reflexivity.
        - apply IHm, H. }
      assert (Hbne : b <> []).
      { pose proof (sw_nonempty _ _ _ HS) as Hf. rewrite Forall_forall in Hf. apply Hf. eapply nth_error_In, Hb. }
      rewrite Hskip. cbn [number_from flat_map].
      rewrite (IH (s + 1) HI) by first [lia | intros Ha k Hkk; apply Hall; [exact Ha|lia]].
      destruct (zlookup s (d_results d)) as [rs|] eqn:Hrs.
      + assert (masked_batch d (s, b) = map (fun kw => SGot (g kw)) b) as ->
          by (unfold masked_batch, finished, zmem; cbn [fst snd]; rewrite Hrs; reflexivity).
        destruct (ri_content _ _ HR s rs Hrs) as (_ & b' & Hb' & ->).
        rewrite Hb in Hb'. injection Hb' as <-.
        destruct b as [|kw b]; [contradiction|]. cbn [map]. rewrite map_map. reflexivity.
      + assert (masked_batch d (s, b) = map (fun _ => SHole) b) as ->
          by (unfold masked_batch, finished, zmem; cbn [fst snd]; rewrite Hrs; reflexivity).
        destruct allow.
        * rewrite (sw_batches _ _ _ HS s Hk), Hb. destruct b as [|kw b]; [contradiction|]. reflexivity.
        * specialize (Hall eq_refl s ltac:(lia)). unfold finished, zmem in Hall. rewrite Hrs in Hall. discriminate.
  Qed.

  Lemma masked_length d : forall s (l : list (list kwargs)),
    length (flat_map (masked_batch d) (number_from s l)) = length (concat l).
  Proof.
    intros s l. revert s. induction l as [|b l IH]; intros s; cbn; [reflexivity|].
    rewrite !app_length, IH. f_equal. unfold masked_batch. cbn. destruct (finished d s); apply map_length.
  Qed.

  Lemma masked_all_finished d : forall s (l : list (list kwargs)),
    (forall k, s <= k < s + Z.of_nat (length l) -> finished d k = true) ->
    flat_map (masked_batch d) (number_from s l) = map (fun kw => SGot (g kw)) (concat l).
  Proof.
    intros s l. revert s. induction l as [|b l IH]; intros s H; cbn; [reflexivity|].
    rewrite map_app, IH by (intros k Hk; apply H; cbn [length]; lia).
    unfold masked_batch. cbn [fst snd]. rewrite H by (cbn [length]; lia). reflexivity.
  Qed.
End CropProofs.
