(* Supporting lemmas for C17 (classic plots): masking, one series per z, numpy's bin rule,
   mesh orientation, panel placement, colour index. *)
From XV Require Import Prelude PlotSeries.
From Coq Require Import Sorting.Sorted.
Open Scope Z_scope.

(* ------------------------------------------------------------------ generic list facts *)
Lemma nth_error_map_seq {A} (f : nat -> A) : forall n s i,
  (i < n)%nat -> nth_error (map f (seq s n)) i = Some (f (s + i)%nat).
Proof.
  induction n as [|n IH]; intros s i Hi; [lia|].
  destruct i as [|i]; simpl.
  - now rewrite Nat.add_0_r.
  - rewrite IH by lia. f_equal. f_equal. lia.
Qed.

Lemma nth_error_mapi_from {A B} (f : nat -> A -> B) : forall l s k,
  nth_error (mapi_from f s l) k = option_map (f (s + k)%nat) (nth_error l k).
Proof.
  induction l as [|a l IH]; intros s k.
  - destruct k; reflexivity.
  - destruct k as [|k]; simpl.
    + now rewrite Nat.add_0_r.
    + rewrite IH. now replace (S s + k)%nat with (s + S k)%nat by lia.
Qed.

Lemma length_mapi_from {A B} (f : nat -> A -> B) : forall l s, length (mapi_from f s l) = length l.
Proof. induction l; intros; simpl; auto. Qed.

Lemma nth_error_grid {A} (g : nat -> nat -> A) (nc : nat) : forall nr s i j,
  (i < nr)%nat -> (j < nc)%nat ->
  nth_error (flat_map (fun i => map (g i) (seq 0 nc)) (seq s nr)) (i * nc + j) = Some (g (s + i)%nat j).
Proof.
  induction nr as [|nr IH]; intros s i j Hi Hj; [lia|].
  simpl. destruct i as [|i].
  - simpl. rewrite nth_error_app1 by (rewrite map_length, seq_length; lia).
    rewrite nth_error_map_seq by lia. now rewrite Nat.add_0_r.
  - rewrite nth_error_app2 by (rewrite map_length, seq_length; simpl; lia).
    rewrite map_length, seq_length.
    replace (S i * nc + j - nc)%nat with (i * nc + j)%nat by (simpl; lia).
    rewrite IH by lia. f_equal. f_equal. lia.
Qed.

Lemma length_grid {A} (g : nat -> nat -> A) (nc : nat) : forall nr s,
  length (flat_map (fun i => map (g i) (seq 0 nc)) (seq s nr)) = (nr * nc)%nat.
Proof.
  induction nr as [|nr IH]; intros s; simpl; [reflexivity|].
  rewrite app_length, map_length, seq_length, IH. reflexivity.
Qed.

(* ------------------------------------------------------------------ masking *)
Lemma drawn_is_filter : forall xs ys, drawn xs ys = filter both_finite (pairs xs ys).
Proof.
  unfold drawn, pairs. induction xs as [|x xs IH]; intros ys; [reflexivity|].
  destruct ys as [|y ys]; [reflexivity|].
  simpl. unfold both_finite at 1. simpl.
  destruct (is_fin x && is_fin y); simpl; now rewrite IH.
Qed.

(* a companion array (c, y_err, x_err) cut with the same mask stays aligned with the points *)
Lemma companion_aligned : forall xs ys (cs : list cell),
  combine (drawn xs ys) (select (mask xs ys) cs)
  = filter (fun t => both_finite (fst t)) (combine (pairs xs ys) cs).
Proof.
  unfold drawn, pairs. induction xs as [|x xs IH]; intros ys cs; [reflexivity|].
  destruct ys as [|y ys]; [reflexivity|].
  destruct cs as [|c cs].
  - simpl. destruct (is_fin x && is_fin y); simpl; [reflexivity|].
    generalize (select (mask xs ys) xs) (select (mask xs ys) ys). intros a b.
    destruct (combine a b); reflexivity.
  - simpl. unfold both_finite at 1. simpl.
    destruct (is_fin x && is_fin y); simpl; now rewrite IH.
Qed.

Lemma drawn_in : forall xs ys p, In p (drawn xs ys) <-> In p (pairs xs ys) /\ both_finite p = true.
Proof. intros. rewrite drawn_is_filter. apply filter_In. Qed.

Lemma drawn_nil : forall xs ys,
  (forall p, In p (pairs xs ys) -> both_finite p = false) -> drawn xs ys = [].
Proof.
  intros xs ys H. rewrite drawn_is_filter.
  induction (pairs xs ys) as [|p l IH]; [reflexivity|].
  simpl. rewrite (H p (or_introl eq_refl)). apply IH. intros q Hq. apply H. now right.
Qed.

Lemma length_select_le {A} : forall m (l : list A), (length (select m l) <= length l)%nat.
Proof.
  induction m as [|b m IH]; intros l; [simpl; lia|].
  destruct l as [|a l]; [simpl; lia|]. simpl. specialize (IH l). destruct b; simpl; lia.
Qed.

(* ------------------------------------------------------------------ one series per z *)
Lemma z_series_length_z : forall sp sel zd,
  p_z sp = Some zd -> length (z_series sp sel) = size_of (p_ds sp) zd.
Proof. intros sp sel zd H. unfold z_series. rewrite H, map_length, seq_length. reflexivity. Qed.

Lemma z_series_nth_z : forall sp sel zd k,
  p_z sp = Some zd -> (k < size_of (p_ds sp) zd)%nat ->
  nth_error (z_series sp sel) k = Some (one_series sp (sel ++ [(zd, k)]) (hd 0 (p_ys sp)) k).
Proof.
  intros sp sel zd k H Hk. unfold z_series. rewrite H.
  now rewrite (nth_error_map_seq (fun k => one_series sp (sel ++ [(zd, k)]) (hd 0 (p_ys sp)) k)) by exact Hk.
Qed.

Lemma z_series_length_multi : forall sp sel,
  p_z sp = None -> length (z_series sp sel) = length (p_ys sp).
Proof. intros sp sel H. unfold z_series. rewrite H. apply length_mapi_from. Qed.

Lemma z_series_nth_multi : forall sp sel k yv,
  p_z sp = None -> nth_error (p_ys sp) k = Some yv ->
  nth_error (z_series sp sel) k = Some (one_series sp sel yv k).
Proof.
  intros sp sel k yv H Hy. unfold z_series. rewrite H, nth_error_mapi_from, Hy. reflexivity.
Qed.

Lemma one_series_points : forall sp sel yv k,
  s_pts (one_series sp sel yv k)
  = filter both_finite (pairs (column (p_ds sp) (p_x sp) sel (free_dims sp sel yv))
                              (column (p_ds sp) yv sel (free_dims sp sel yv))).
Proof. intros. unfold one_series. simpl. apply drawn_is_filter. Qed.

(* ------------------------------------------------------------------ bins *)
Definition in_bin (edges : list Z) (i : nat) (x : Z) : Prop :=
  (S i < length edges)%nat /\ nth i edges 0 <= x /\
  (x < nth (S i) edges 0 \/ (S (S i) = length edges /\ x = nth (S i) edges 0)).

Lemma in_bin_shift : forall a l k x, in_bin l k x -> in_bin (a :: l) (S k) x.
Proof. unfold in_bin. intros a l k x (H1 & H2 & H3). simpl. repeat split; try lia. Qed.

Lemma bin_from_sound : forall rest i lo x j,
  bin_from i lo rest x = Some j -> exists k, j = (i + k)%nat /\ in_bin (lo :: rest) k x.
Proof.
  induction rest as [|hi rest IH]; intros i lo x j H; [discriminate|].
  destruct rest as [|h2 r].
  - simpl in H. destruct ((lo <=? x) && (x <=? hi)) eqn:E; [|discriminate].
    inversion H; subst. exists 0%nat. split; [lia|]. unfold in_bin. simpl.
    apply andb_true_iff in E. destruct E as [E1 E2]. apply Z.leb_le in E1. apply Z.leb_le in E2.
    repeat split; try lia.
  - cbn [bin_from] in H. destruct ((lo <=? x) && (x <? hi)) eqn:E.
    + inversion H; subst. exists 0%nat. split; [lia|]. unfold in_bin. simpl.
      apply andb_true_iff in E. destruct E as [E1 E2]. apply Z.leb_le in E1. apply Z.ltb_lt in E2.
      repeat split; try lia.
    + destruct (IH (S i) hi x j H) as (k & Hk & Hin).
      exists (S k). split; [lia|]. now apply in_bin_shift.
Qed.

Lemma last_indep {A} : forall (l : list A) a b, l <> [] -> last l a = last l b.
Proof.
  induction l as [|x l IH]; intros a b H; [congruence|].
  destruct l as [|y l]; [reflexivity|]. simpl. apply (IH a b). discriminate.
Qed.

Lemma bin_from_complete : forall rest i lo x,
  rest <> [] -> lo <= x <= last rest lo -> exists j, bin_from i lo rest x = Some j.
Proof.
  induction rest as [|hi rest IH]; intros i lo x Hne Hx; [congruence|].
  destruct rest as [|h2 r].
  - simpl in *. exists i. replace ((lo <=? x) && (x <=? hi)) with true; [reflexivity|].
    symmetry. apply andb_true_iff. split; [apply Z.leb_le|apply Z.leb_le]; lia.
  - cbn [bin_from]. destruct ((lo <=? x) && (x <? hi)) eqn:E; [eauto|].
    apply (IH (S i) hi x); [discriminate|].
    apply andb_false_iff in E. split.
    + destruct E as [E|E]; [apply Z.leb_gt in E|apply Z.ltb_ge in E]; lia.
    + change (last (hi :: h2 :: r) lo) with (last (h2 :: r) lo) in Hx.
      rewrite (last_indep (h2 :: r) hi lo) by discriminate. lia.
Qed.

Lemma ss_nth_lt : forall l i j,
  StronglySorted Z.lt l -> (i < j)%nat -> (j < length l)%nat -> nth i l 0 < nth j l 0.
Proof.
  induction l as [|a l IH]; intros i j Hs Hij Hj; [simpl in Hj; lia|].
  inversion Hs as [|? ? Hs' Hall]; subst.
  destruct j as [|j]; [lia|]. destruct i as [|i]; simpl.
  - rewrite Forall_forall in Hall. apply Hall. apply nth_In. simpl in Hj. lia.
  - apply IH; auto; simpl in Hj; lia.
Qed.

Lemma in_bin_unique : forall edges i j x,
  StronglySorted Z.lt edges -> in_bin edges i x -> in_bin edges j x -> i = j.
Proof.
  intros edges i j x Hs (Hi1 & Hi2 & Hi3) (Hj1 & Hj2 & Hj3).
  destruct (Nat.lt_trichotomy i j) as [L|[E|L]]; [exfalso| exact E |exfalso].
  - (* i < j: x is below edge i+1 <= edge j <= x, or i is the last bin *)
    assert (nth (S i) edges 0 <= nth j edges 0).
    { destruct (Nat.eq_dec (S i) j) as [->|N]; [lia|].
      apply Z.lt_le_incl. apply ss_nth_lt; auto; lia. }
    destruct Hi3 as [Hi3|[Hl _]]; lia.
  - assert (nth (S j) edges 0 <= nth i edges 0).
    { destruct (Nat.eq_dec (S j) i) as [->|N]; [lia|].
      apply Z.lt_le_incl. apply ss_nth_lt; auto; lia. }
    destruct Hj3 as [Hj3|[Hl _]]; lia.
Qed.

Lemma bin_index_sound : forall edges x i, bin_index edges x = Some i -> in_bin edges i x.
Proof.
  intros [|e0 rest] x i H; [discriminate|]. simpl in H.
  destruct (bin_from_sound rest 0 e0 x i H) as (k & -> & Hin). exact Hin.
Qed.

Lemma bin_index_complete : forall edges x,
  (2 <= length edges)%nat -> hd 0 edges <= x <= last edges 0 -> exists i, bin_index edges x = Some i.
Proof.
  intros [|e0 rest] x Hl Hx; [simpl in Hl; lia|].
  destruct rest as [|e1 r]; [simpl in Hl; lia|].
  unfold bin_index. apply bin_from_complete; [discriminate|].
  simpl hd in Hx. change (last (e0 :: e1 :: r) 0) with (last (e1 :: r) 0) in Hx.
  rewrite (last_indep (e1 :: r) e0 0) by discriminate. exact Hx.
Qed.

Lemma bin_index_iff : forall edges x i,
  StronglySorted Z.lt edges -> (bin_index edges x = Some i <-> in_bin edges i x).
Proof.
  intros edges x i Hs. split; [apply bin_index_sound|].
  intros Hin. assert (Hin' := Hin). destruct Hin' as (H1 & H2 & H3).
  assert (Hrange : hd 0 edges <= x <= last edges 0).
  { split.
    - destruct i as [|i]; [destruct edges; simpl in *; lia|].
      assert (nth 0 edges 0 < nth (S i) edges 0) by (apply ss_nth_lt; auto; lia).
      destruct edges; simpl in *; lia.
    - assert (Hlast : last edges 0 = nth (length edges - 1) edges 0).
      { clear. induction edges as [|a l IH]; [reflexivity|].
        destruct l as [|b l]; [reflexivity|].
        change (last (a :: b :: l) 0) with (last (b :: l) 0). rewrite IH. simpl. now rewrite Nat.sub_0_r. }
      rewrite Hlast.
      destruct (Nat.eq_dec (S i) (length edges - 1)) as [E|N].
      + rewrite <- E. destruct H3; lia.
      + assert (nth (S i) edges 0 < nth (length edges - 1) edges 0) by (apply ss_nth_lt; auto; lia).
        destruct H3 as [H3|[Hl _]]; lia. }
  destruct (bin_index_complete edges x ltac:(lia) Hrange) as (j & Hj).
  rewrite Hj. f_equal. apply (in_bin_unique edges j i x Hs); [now apply bin_index_sound|exact Hin].
Qed.

(* counts *)
Lemma list_sum_map_add {A} (f g : A -> nat) : forall l,
  list_sum (map (fun a => (f a + g a)%nat) l) = (list_sum (map f l) + list_sum (map g l))%nat.
Proof. induction l as [|a l IH]; simpl; [reflexivity|]. rewrite IH. lia. Qed.

Lemma sum_indicator : forall n s j,
  list_sum (map (fun i => if Nat.eqb j i then 1%nat else 0%nat) (seq s n))
  = if (s <=? j)%nat && (j <? s + n)%nat then 1%nat else 0%nat.
Proof.
  induction n as [|n IH]; intros s j; simpl; [|rewrite IH];
    repeat match goal with
           | |- context [Nat.eqb ?a ?b] => destruct (Nat.eqb_spec a b)
           | |- context [Nat.ltb ?a ?b] => destruct (Nat.ltb_spec a b)
           | |- context [Nat.leb ?a ?b] => destruct (Nat.leb_spec a b)
           end; simpl; lia.
Qed.

Lemma list_sum_zero {A} : forall (l : list A), list_sum (map (fun _ => 0%nat) l) = 0%nat.
Proof. induction l; simpl; auto. Qed.

Lemma bin_counts_sum : forall edges xs,
  list_sum (bin_counts edges xs) = length (filter (in_range edges) xs).
Proof.
  intros edges xs. unfold bin_counts.
  induction xs as [|x xs IH].
  - simpl. unfold count_in. simpl. apply list_sum_zero.
  - assert (Hc : forall i, count_in edges (x :: xs) i
                 = ((if onat_eqb (bin_index edges x) i then 1 else 0) + count_in edges xs i)%nat).
    { intros i. unfold count_in. simpl. destruct (onat_eqb (bin_index edges x) i); reflexivity. }
    rewrite (map_ext _ _ Hc), list_sum_map_add, IH. simpl filter. unfold in_range at 2.
    destruct (bin_index edges x) as [j|] eqn:Eb.
    + simpl length. unfold onat_eqb.
      rewrite sum_indicator. simpl.
      apply bin_index_sound in Eb. destruct Eb as (Hl & _).
      replace (j <? length edges - 1)%nat with true by (symmetry; apply Nat.ltb_lt; lia). reflexivity.
    + unfold onat_eqb. rewrite list_sum_zero. reflexivity.
Qed.

Lemma in_range_iff : forall edges x,
  StronglySorted Z.lt edges -> (2 <= length edges)%nat ->
  (in_range edges x = true <-> hd 0 edges <= x <= last edges 0).
Proof.
  intros edges x Hs Hl. unfold in_range. split.
  - destruct (bin_index edges x) as [i|] eqn:E; [|discriminate]. intros _.
    apply bin_index_sound in E. destruct E as (H1 & H2 & H3).
    assert (Hlast : last edges 0 = nth (length edges - 1) edges 0).
    { clear. induction edges as [|a l IH]; [reflexivity|].
      destruct l as [|b l]; [reflexivity|].
      change (last (a :: b :: l) 0) with (last (b :: l) 0). rewrite IH. simpl. now rewrite Nat.sub_0_r. }
    split.
    + destruct i as [|i]; [destruct edges; simpl in *; lia|].
      assert (nth 0 edges 0 < nth (S i) edges 0) by (apply ss_nth_lt; auto; lia).
      destruct edges; simpl in *; lia.
    + rewrite Hlast. destruct (Nat.eq_dec (S i) (length edges - 1)) as [E|N].
      * rewrite <- E. destruct H3; lia.
      * assert (nth (S i) edges 0 < nth (length edges - 1) edges 0) by (apply ss_nth_lt; auto; lia).
        destruct H3 as [H3|[Hl' _]]; lia.
  - intros Hx. destruct (bin_index_complete edges x Hl Hx) as (i & ->). reflexivity.
Qed.

(* ------------------------------------------------------------------ mesh *)
Lemma mesh_entry : forall ds v xd yd sel i j,
  (i < size_of ds yd)%nat -> (j < size_of ds xd)%nat ->
  nth_error (mesh ds v xd yd sel) i
  = Some (map (fun j => get ds v (sel ++ [(yd, i); (xd, j)])) (seq 0 (size_of ds xd)))
  /\ option_map (fun r => nth j r NonFin) (nth_error (mesh ds v xd yd sel) i)
     = Some (get ds v (sel ++ [(yd, i); (xd, j)])).
Proof.
  intros ds v xd yd sel i j Hi Hj. unfold mesh.
  rewrite (nth_error_map_seq (fun i => map (fun j => get ds v (sel ++ [(yd, i); (xd, j)])) (seq 0 (size_of ds xd)))) by exact Hi.
  split; [reflexivity|]. simpl. f_equal.
  apply nth_error_nth. now rewrite (nth_error_map_seq (fun j => get ds v (sel ++ [(yd, i); (xd, j)]))) by exact Hj.
Qed.

(* stored as (y, x): row-major position i * nx + j ; stored as (x, y): position j * ny + i *)
Lemma get_layout_yx : forall ds v xd yd i j,
  v_dims (the_var ds v) = [yd; xd] -> xd <> yd ->
  get ds v [(yd, i); (xd, j)] = nth (i * size_of ds xd + j) (v_data (the_var ds v)) NonFin.
Proof.
  intros ds v xd yd i j Hd Hne. unfold get, ravel. rewrite Hd. simpl.
  rewrite Z.eqb_refl. replace (xd =? yd) with false by (symmetry; now apply Z.eqb_neq).
  rewrite Z.eqb_refl. reflexivity.
Qed.
Lemma get_layout_xy : forall ds v xd yd i j,
  v_dims (the_var ds v) = [xd; yd] -> xd <> yd ->
  get ds v [(yd, i); (xd, j)] = nth (j * size_of ds yd + i) (v_data (the_var ds v)) NonFin.
Proof.
  intros ds v xd yd i j Hd Hne. unfold get, ravel. rewrite Hd. simpl.
  rewrite Z.eqb_refl. replace (xd =? yd) with false by (symmetry; now apply Z.eqb_neq).
  rewrite Z.eqb_refl. reflexivity.
Qed.

(* ------------------------------------------------------------------ panels *)
Definition axis_n (ds : dset) (o : option Z) : nat :=
  match o with Some d => size_of ds d | None => 1%nat end.
Lemma axis_idx_seq : forall ds o, axis_idx ds o = seq 0 (axis_n ds o).
Proof. intros ds [d|]; reflexivity. Qed.

Lemma panels_nth {C} : forall sp (content : env -> C) i j,
  (i < axis_n (p_ds sp) (p_row sp))%nat -> (j < axis_n (p_ds sp) (p_col sp))%nat ->
  nth_error (panels sp content) (i * axis_n (p_ds sp) (p_col sp) + j) = Some (panel_at sp content i j).
Proof.
  intros sp content i j Hi Hj. unfold panels. rewrite !axis_idx_seq.
  now rewrite (nth_error_grid (fun i j => panel_at sp content i j)) by assumption.
Qed.

Lemma panels_length {C} : forall sp (content : env -> C),
  length (panels sp content) = (axis_n (p_ds sp) (p_row sp) * axis_n (p_ds sp) (p_col sp))%nat.
Proof.
  intros. unfold panels. rewrite !axis_idx_seq.
  apply (length_grid (fun i j => panel_at sp content i j)).
Qed.

(* ------------------------------------------------------------------ colour index *)
Lemma lut_index_in : forall N vmin vmax z,
  vmin < vmax -> vmin <= z < vmax -> lut_index N vmin vmax z = ((z - vmin) * N) / (vmax - vmin).
Proof.
  intros N vmin vmax z H Hz. unfold lut_index.
  replace (vmin =? vmax) with false by (symmetry; apply Z.eqb_neq; lia).
  replace (z <? vmin) with false by (symmetry; apply Z.ltb_ge; lia).
  replace (vmax <? z) with false by (symmetry; apply Z.ltb_ge; lia).
  replace (z =? vmax) with false by (symmetry; apply Z.eqb_neq; lia). reflexivity.
Qed.
Lemma lut_index_top : forall N vmin vmax, vmin < vmax -> lut_index N vmin vmax vmax = N - 1.
Proof.
  intros N vmin vmax H. unfold lut_index.
  replace (vmin =? vmax) with false by (symmetry; apply Z.eqb_neq; lia).
  replace (vmax <? vmin) with false by (symmetry; apply Z.ltb_ge; lia).
  rewrite Z.ltb_irrefl, Z.eqb_refl. reflexivity.
Qed.
Lemma lut_index_bottom : forall N vmin vmax, vmin < vmax -> lut_index N vmin vmax vmin = 0.
Proof.
  intros N vmin vmax H. rewrite lut_index_in by lia. rewrite Z.sub_diag. simpl. apply Z.div_0_l. lia.
Qed.
Lemma lut_index_range : forall N vmin vmax z,
  0 < N -> vmin < vmax -> vmin <= z <= vmax -> 0 <= lut_index N vmin vmax z < N.
Proof.
  intros N vmin vmax z HN H Hz. destruct (Z.eq_dec z vmax) as [->|Hne].
  - rewrite lut_index_top by lia. lia.
  - rewrite lut_index_in by lia. split.
    + apply Z.div_pos; nia.
    + apply Z.div_lt_upper_bound; nia.
Qed.
Lemma lut_index_mono : forall N vmin vmax z1 z2,
  0 < N -> vmin < vmax -> vmin <= z1 -> z1 <= z2 -> z2 <= vmax ->
  lut_index N vmin vmax z1 <= lut_index N vmin vmax z2.
Proof.
  intros N vmin vmax z1 z2 HN H H1 H12 H2. destruct (Z.eq_dec z2 vmax) as [->|Hne].
  - rewrite (lut_index_top N vmin vmax) by lia.
    pose proof (lut_index_range N vmin vmax z1 HN H ltac:(lia)). lia.
  - rewrite !lut_index_in by lia. apply Z.div_le_mono; nia.
Qed.
Lemma lut_index_outside : forall N vmin vmax z, vmin < vmax ->
  (z < vmin -> lut_index N vmin vmax z = N) /\ (vmax < z -> lut_index N vmin vmax z = N + 1).
Proof.
  intros N vmin vmax z H. unfold lut_index.
  replace (vmin =? vmax) with false by (symmetry; apply Z.eqb_neq; lia). split; intros Hz.
  - replace (z <? vmin) with true by (symmetry; apply Z.ltb_lt; lia). reflexivity.
  - replace (z <? vmin) with false by (symmetry; apply Z.ltb_ge; lia).
    replace (vmax <? z) with true by (symmetry; apply Z.ltb_lt; lia). reflexivity.
Qed.
