(* The flow interpreter on the model flows is the hand-written step function; a failed file write is
   atomic (file untouched, memory = file, error visible to the caller). *)
From XV Require Import Prelude Grid Names Harvest HarvestFlow HarvestProofs.
Open Scope Z_scope.

Lemma dispatch_is_merge pol old new :
  combine_eval (dispatch_at model_ow_dispatch pol) old new = merge pol old new.
Proof. destruct pol; reflexivity. Qed.

Theorem hadd_flow_is_hstep st name e s new sync pol :
  hadd_flow st name e model_add_flow model_save_flow s new sync pol = hstep st name e s (HAdd new sync pol).
Proof.
  unfold hadd_flow. cbn [hstep af_stages model_add_flow fold_left].
  destruct sync.
  - unfold astage at 3. set (s1 := load st name e s). clearbody s1.
    unfold astage at 2. cbn [h_mem]. destruct (h_mem s1) as [old|] eqn:Em.
    + cbn [af_dispatch model_add_flow]. rewrite dispatch_is_merge. destruct (merge pol old new) as [m|t].
      * unfold astage, mem_after_save. cbn. reflexivity.
      * reflexivity.
    + unfold astage, mem_after_save. cbn. reflexivity.
  - unfold astage at 3. unfold astage at 2. destruct (h_mem s) as [old|] eqn:Em.
    + cbn [af_dispatch model_add_flow]. rewrite dispatch_is_merge. destruct (merge pol old new) as [m|t].
      * unfold astage. cbn. reflexivity.
      * reflexivity.
    + unfold astage. cbn. reflexivity.
Qed.

Theorem save_merge_flow_is_hstep st name e s new pol :
  save_merge_flow st name e model_ow_dispatch true s new pol = hstep st name e s (HSaveMerge new pol).
Proof.
  unfold save_merge_flow. cbn [hstep].
  destruct (fget (h_disk s) (merge_test st name e)); [destruct (fget (h_disk s) (merge_from st name e))|];
    rewrite dispatch_is_merge; reflexivity.
Qed.

Theorem fstep_model_is_hstep st name e s o :
  fstep model_flows st name e s (FOp o) = hstep st name e s o.
Proof.
  destruct o; cbn [fstep model_flows fl_add fl_save fl_merge fl_merge_absent_empty];
    [apply hadd_flow_is_hstep|reflexivity|apply save_merge_flow_is_hstep|reflexivity|reflexivity].
Qed.

Theorem sadd_flow_is_sstep s rows sync :
  sadd_flow_run model_sadd_flow model_save_flow s rows sync = sstep s (SAdd rows sync).
Proof.
  unfold sadd_flow_run. cbn [sa_stages model_sadd_flow fold_left]. cbn [sstep].
  destruct sync; destruct (s_file s) as [t|] eqn:Ef; destruct (s_mem s) as [u|] eqn:Eu;
    cbn; rewrite ?Ef, ?Eu; cbn; rewrite ?app_nil_r; reflexivity.
Qed.

(* the sampler's failed write: the interpretation on the model flow is the model step: nothing but the reload *)
Theorem sadd_wfail_is_sstep s rows :
  sadd_wfail_run model_sadd_flow model_save_flow s rows = sstep s (SAddFail rows).
Proof.
  unfold sadd_wfail_run. cbn [sa_stages model_sadd_flow fold_left]. cbn [sstep].
  destruct (s_file s) as [t|] eqn:Ef; destruct (s_mem s) as [u|] eqn:Eu;
    cbn; rewrite ?Ef, ?Eu; cbn; reflexivity.
Qed.

(* a failed write: the error reaches the caller, the file is untouched, memory holds what the file holds *)
Theorem write_failure_atomic name e s a new pol tmp :
  Rel name e s a ->
  let r := hadd_wfail model_sites name e model_add_flow model_save_flow s new pol tmp in
  snd r = true /\ h_disk (fst r) = h_disk s /\ h_mem (fst r) = a /\ Rel name e (fst r) a.
Proof.
  intros [Hd Hm]. destruct (model_paths name e) as (P1 & P2 & P3 & _).
  unfold hadd_wfail. cbn [af_stages model_add_flow fold_left astage_wfail astage]. unfold load.
  rewrite P1, P2, Hd. destruct a as [old|].
  - cbn [h_mem af_dispatch model_add_flow]. rewrite dispatch_is_merge.
    destruct (merge pol old new) as [m|t]; cbn; (repeat split; try assumption; try reflexivity; discriminate).
  - rewrite (Hm eq_refl). cbn. repeat split; try assumption; try reflexivity; auto.
Qed.

Definition fspec_step (a : option pmap) (o : fop) : option pmap * bool :=
  match o with FOp o => ospec_step a o | FWFail _ _ _ => (a, true) end.
Fixpoint fspec_run (a : option pmap) (ops : list fop) : list (option pmap * bool) :=
  match ops with [] => [] | o :: rest => let q := fspec_step a o in q :: fspec_run (fst q) rest end.
Definition fall_synced (o : fop) : bool := match o with FOp o => all_synced o | _ => true end.

Theorem fstep_refines name e s a o :
  Rel name e s a -> fall_synced o = true ->
  let r := fstep model_flows model_sites name e s o in
  let q := fspec_step a o in
  Rel name e (fst r) (fst q) /\ snd r = snd q.
Proof.
  intros HR Hs. destruct o as [o|new pol tmp].
  - cbn zeta. rewrite fstep_model_is_hstep. apply hstep_refines; assumption.
  - destruct (write_failure_atomic name e s a new pol tmp HR) as (H1 & _ & _ & H4).
    cbn [fstep fspec_step fst snd model_flows fl_add fl_save]. split; assumption.
Qed.

Theorem frun_refines name e ops : forall s a,
  Rel name e s a -> forallb fall_synced ops = true ->
  Forall2 (fun r q => Rel name e (fst r) (fst q) /\ snd r = snd q)
          (frun model_flows model_sites name e s ops) (fspec_run a ops).
Proof.
  induction ops as [|o ops IH]; intros s a HR Hs; cbn [frun fspec_run]; [constructor|].
  cbn in Hs. apply andb_true_iff in Hs as [Ho Hs].
  destruct (fstep_refines name e s a o HR Ho) as [HR' Heq].
  constructor; [split; assumption|]. apply IH; assumption.
Qed.

(* whatever the state, a failed write makes add_ds raise (so the caller's next step is not reached) *)
Theorem wfail_raises st name e s new pol tmp :
  snd (hadd_wfail st name e model_add_flow model_save_flow s new pol tmp) = true.
Proof.
  unfold hadd_wfail. cbn [af_stages model_add_flow fold_left].
  unfold astage_wfail at 3. unfold astage. set (s1 := load st name e s). clearbody s1.
  unfold astage_wfail at 2. unfold astage. destruct (h_mem s1) as [old|].
  - cbn [af_dispatch model_add_flow]. rewrite dispatch_is_merge. destruct (merge pol old new); reflexivity.
  - reflexivity.
Qed.
