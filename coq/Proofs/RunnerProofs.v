(* What combo_runner_core computes: calls, placement, strategy independence, sparse
   cases -- for every grid, arity, permutation and swept function. *)
From XV Require Import Prelude Grid Perm Runner GridProofs PermProofs.
From Coq Require Import Permutation Sorting.Sorted.
Open Scope Z_scope.

Definition set_perm (i : input) (p : option (list nat)) : input :=
  mk_input (i_has_cases i) (i_case_args i) (i_case_values i) (i_combo_args i) (i_combo_values i)
           (i_consts i) (i_split i) (i_flat i) p.

Definition wf_perm (i : input) : Prop :=
  match i_perm i with
  | None => True
  | Some p => Permutation p (seq 0 (length (settings i)))
  end.

Definition disjoint_args (i : input) : Prop := disjointb (eff_case_args i) (i_combo_args i) = true.

Section Generic.
  Context {R : Type}.
  Variable f : kwargs -> R.
  Variable comps : R -> list R.

  Lemma results_linear_eq i : wf_perm i -> results_linear f i = map f (settings i).
  Proof.
    unfold wf_perm, results_linear, run_order. destruct (i_perm i) as [p|]; intros H; [|reflexivity].
    apply unshuffle_shuffled. exact H.
  Qed.

  Lemma run_order_perm i : wf_perm i -> Permutation (run_order i) (settings i).
  Proof.
    unfold wf_perm, run_order. destruct (i_perm i) as [p|]; intros H; [|apply Permutation_refl].
    apply shuffled_perm. exact H.
  Qed.

  (* ---- calls: exactly the requested settings, each once, whatever the order ---- *)
  Theorem calls_exactly_once i :
    disjoint_args i -> wf_perm i -> Permutation (snd (core f comps i)) (settings i).
  Proof.
    intros Hd Hp. unfold core. unfold disjoint_args in Hd. rewrite Hd. cbn. apply run_order_perm, Hp.
  Qed.

  Theorem calls_sequential_unshuffled i :
    disjoint_args i -> i_perm i = None -> snd (core f comps i) = settings i.
  Proof.
    intros Hd Hp. unfold core. unfold disjoint_args in Hd. rewrite Hd. cbn. unfold run_order. rewrite Hp.
    reflexivity.
  Qed.

  Theorem overlap_rejected i :
    disjointb (eff_case_args i) (i_combo_args i) = false -> core f comps i = (ORejected, []).
  Proof. intros H. unfold core. rewrite H. reflexivity. Qed.

  (* ---- the output does not depend on the shuffle ---- *)
  Lemma process_set_perm i p (r : list R) : process (set_perm i p) r = process i r.
  Proof. reflexivity. Qed.

  Lemma settings_set_perm i p : settings (set_perm i p) = settings i.
  Proof. reflexivity. Qed.

  Theorem output_strategy_independent i :
    wf_perm i -> fst (core f comps i) = fst (core f comps (set_perm i None)).
  Proof.
    intros Hp. unfold core.
    change (eff_case_args (set_perm i None)) with (eff_case_args i).
    change (i_combo_args (set_perm i None)) with (i_combo_args i).
    destruct (negb (disjointb (eff_case_args i) (i_combo_args i))); [reflexivity|]. cbn [fst].
    change (i_split (set_perm i None)) with (i_split i).
    rewrite (results_linear_eq i Hp).
    rewrite (results_linear_eq (set_perm i None) I). rewrite settings_set_perm.
    destruct (i_split i); [f_equal|reflexivity].
  Qed.

  (* ---- flat output: results in requested order ---- *)
  Theorem flat_output i :
    disjoint_args i -> wf_perm i -> i_flat i = true -> i_split i = false ->
    fst (core f comps i) = OFlat (map f (settings i)).
  Proof.
    intros Hd Hp Hf Hs. unfold core. unfold disjoint_args in Hd. rewrite Hd, Hs. cbn.
    rewrite (results_linear_eq i Hp). unfold process. rewrite Hf. reflexivity.
  Qed.

  (* ---- nested output ---- *)
  Definition dims_of (i : input) : list (list Z) :=
    if i_has_cases i then all_combo_values i else i_combo_values i.

  Lemma nested_output i :
    disjoint_args i -> wf_perm i -> i_flat i = false -> i_split i = false ->
    forall r0 rest, map f (settings i) = r0 :: rest ->
    fst (core f comps i) =
    ONest (build (dims_of i)
                 (fun k => lookup (map (fun loc => (loc, Leaf (Got (f (kw_of i loc))))) (locs i)) k
                                  (Leaf (Hole r0))) []).
  Proof.
    intros Hd Hp Hf Hs r0 rest Hr. unfold core. unfold disjoint_args in Hd. rewrite Hd, Hs. cbn.
    rewrite (results_linear_eq i Hp). unfold process. rewrite Hf, Hr, <- Hr.
    assert (Hstore : combine (locs i) (map (fun x => Leaf (Got x)) (map f (settings i)))
                     = map (fun loc => (loc, Leaf (Got (f (kw_of i loc))))) (locs i)).
    { unfold settings. rewrite !map_map. apply (combine_map_key (fun loc => Leaf (Got (f (kw_of i loc))))). }
    rewrite Hstore. unfold dims_of. destruct (i_has_cases i); rewrite unflatten_is_build; reflexivity.
  Qed.

  (* a requested location holds the function's value for exactly that setting *)
  Theorem requested_slot i idx loc :
    disjoint_args i -> wf_perm i -> i_flat i = false -> i_split i = false ->
    vals_at (dims_of i) idx = Some loc -> In loc (locs i) ->
    exists n, fst (core f comps i) = ONest n
              /\ nest_at n idx = Some (Leaf (Got (f (kw_of i loc)))).
  Proof.
    intros Hd Hp Hf Hs Hv Hin.
    assert (Hne : exists r0 rest, map f (settings i) = r0 :: rest).
    { unfold settings. destruct (locs i) as [|l0 ls]; [destruct Hin|]. cbn. eauto. }
    destruct Hne as (r0 & rest & Hr).
    eexists. split; [apply (nested_output i Hd Hp Hf Hs r0 rest Hr)|].
    rewrite (nest_at_build _ _ [] idx loc Hv). cbn [app].
    rewrite (lookup_map_key (fun loc => Leaf (Got (f (kw_of i loc)))) (locs i) loc _ Hin). reflexivity.
  Qed.

  (* every other location of the grid holds the placeholder *)
  Theorem other_slot i idx vs :
    disjoint_args i -> wf_perm i -> i_flat i = false -> i_split i = false ->
    vals_at (dims_of i) idx = Some vs -> ~ In vs (locs i) ->
    forall r0 rest, map f (settings i) = r0 :: rest ->
    exists n, fst (core f comps i) = ONest n /\ nest_at n idx = Some (Leaf (Hole r0)).
  Proof.
    intros Hd Hp Hf Hs Hv Hnin r0 rest Hr.
    eexists. split; [apply (nested_output i Hd Hp Hf Hs r0 rest Hr)|].
    rewrite (nest_at_build _ _ [] idx vs Hv). cbn [app].
    rewrite (lookup_map_absent (fun loc => Leaf (Got (f (kw_of i loc)))) (locs i) vs _ Hnin). reflexivity.
  Qed.

  (* split output: one nest per component of the (tuple) results *)
  Theorem split_output i :
    disjoint_args i -> wf_perm i -> i_split i = true ->
    fst (core f comps i) = OSplit (map (process i) (zip_star (map comps (map f (settings i))))).
  Proof.
    intros Hd Hp Hs. unfold core. unfold disjoint_args in Hd. rewrite Hd, Hs. cbn.
    rewrite (results_linear_eq i Hp). reflexivity.
  Qed.
End Generic.

(* ---- grids (no cases) ---- *)
Lemma locs_grid i : i_has_cases i = false -> locs i = product (i_combo_values i).
Proof.
  intros H. unfold locs, eff_case_values. rewrite H. cbn. rewrite app_nil_r.
  exact (map_id (product (i_combo_values i))).
Qed.

Lemma disjoint_grid i : i_has_cases i = false -> disjoint_args i.
Proof. intros H. unfold disjoint_args, eff_case_args. rewrite H. reflexivity. Qed.

Lemma dims_grid i : i_has_cases i = false -> dims_of i = i_combo_values i.
Proof. intros H. unfold dims_of. rewrite H. reflexivity. Qed.

Lemma settings_grid i :
  i_has_cases i = false ->
  settings i = map (fun vs => combine (i_combo_args i) vs ++ i_consts i) (product (i_combo_values i)).
Proof.
  intros H. unfold settings. rewrite (locs_grid i H). apply map_ext. intros vs.
  unfold kw_of, fn_args, eff_case_args. rewrite H. reflexivity.
Qed.

(* ---- zip-star of rectangular results is transposition ---- *)
Lemma heads_some {A} (ls : list (list A)) (d : A) :
  Forall (fun l => l <> []) ls -> heads ls = Some (map (fun l => nth 0 l d) ls).
Proof.
  induction ls as [|l ls IH]; intros H; [reflexivity|].
  inversion H as [|? ? Hl Hls]; subst. destruct l as [|x l]; [contradiction|]. cbn.
  rewrite (IH Hls). reflexivity.
Qed.

Lemma zip_star_fuel_rect {A} (d : A) : forall k (ls : list (list A)),
  Forall (fun l => length l = k) ls -> ls <> [] ->
  zip_star_fuel k ls = map (fun j => map (fun l => nth j l d) ls) (seq 0 k).
Proof.
  induction k as [|k IH]; intros ls Hall Hne; [reflexivity|].
  cbn [zip_star_fuel]. rewrite (heads_some ls d).
  2:{ eapply Forall_impl; [|exact Hall]. intros l Hl E. subst. discriminate. }
  cbn [seq map]. f_equal.
  rewrite IH.
  - rewrite <- seq_shift, map_map. apply map_ext. intros j. rewrite map_map. apply map_ext_in.
    intros l Hl. destruct l; [|reflexivity]. rewrite Forall_forall in Hall. specialize (Hall _ Hl). discriminate.
  - apply Forall_forall. intros l Hl. apply in_map_iff in Hl as (l' & <- & Hl').
    rewrite Forall_forall in Hall. specialize (Hall _ Hl'). destruct l'; [discriminate|]. cbn in *. lia.
  - destruct ls; [contradiction|discriminate].
Qed.

Theorem zip_star_rect {A} (d : A) k (ls : list (list A)) :
  Forall (fun l => length l = k) ls -> ls <> [] ->
  zip_star ls = map (fun j => map (fun l => nth j l d) ls) (seq 0 k).
Proof.
  intros Hall Hne. unfold zip_star. destruct ls as [|l ls]; [contradiction|].
  inversion Hall; subst. apply zip_star_fuel_rect; assumption.
Qed.

(* ---- sorted union of the case values ---- *)
Lemma zinsert_in x l z : In z (zinsert x l) <-> z = x \/ In z l.
Proof.
  induction l as [|y l IH]; cbn; [intuition|].
  destruct (x <? y) eqn:E1; [cbn; intuition|].
  destruct (x =? y) eqn:E2.
  - apply Z.eqb_eq in E2. subst. cbn. intuition.
  - cbn. rewrite IH. intuition.
Qed.

Lemma sort_dedup_in l z : In z (sort_dedup l) <-> In z l.
Proof.
  induction l as [|x l IH]; cbn; [tauto|]. rewrite zinsert_in, IH. intuition.
Qed.

Lemma zinsert_sorted x l : StronglySorted Z.lt l -> StronglySorted Z.lt (zinsert x l).
Proof.
  induction l as [|y l IH]; intros Hs; cbn; [constructor; constructor|].
  inversion Hs as [|? ? Hs' Hall]; subst.
  destruct (x <? y) eqn:E1.
  - apply Z.ltb_lt in E1. constructor; [exact Hs|]. constructor; [exact E1|].
    eapply Forall_impl; [|exact Hall]. intros a Ha. lia.
  - destruct (x =? y) eqn:E2; [exact Hs|].
    apply Z.ltb_ge in E1. apply Z.eqb_neq in E2.
    constructor; [apply IH, Hs'|]. apply Forall_forall. intros z Hz. apply zinsert_in in Hz as [->|Hz]; [lia|].
    rewrite Forall_forall in Hall. apply Hall, Hz.
Qed.

Lemma sort_dedup_sorted l : StronglySorted Z.lt (sort_dedup l).
Proof. induction l as [|x l IH]; cbn; [constructor|apply zinsert_sorted, IH]. Qed.

(* membership in a product, pointwise *)
Lemma in_product_pointwise (dims : list (list Z)) : forall vs,
  length vs = length dims ->
  (forall j, (j < length dims)%nat -> In (nth j vs 0) (nth j dims [])) ->
  In vs (product dims).
Proof.
  induction dims as [|d ds IH]; intros vs Hlen H.
  - destruct vs; [left; reflexivity|discriminate].
  - destruct vs as [|v vs]; [discriminate|]. cbn. apply in_flat_map. exists v. split.
    + apply (H 0%nat). cbn. lia.
    + apply in_map. apply IH; [cbn in Hlen; lia|]. intros j Hj. apply (H (S j)). cbn. lia.
Qed.

Lemma nth_map_seq {A} (g : nat -> A) n j d : (j < n)%nat -> nth j (map g (seq 0 n)) d = g j.
Proof.
  intros Hj. rewrite (nth_indep _ d (g 0%nat)) by (rewrite map_length, seq_length; exact Hj).
  rewrite (map_nth g (seq 0 n) 0%nat j), seq_nth by exact Hj. reflexivity.
Qed.

Definition wf_cases (i : input) : Prop :=
  i_has_cases i = true /\ i_case_values i <> [] /\
  Forall (fun cv => length cv = length (i_case_args i)) (i_case_values i).

Lemma case_in_coords i cv :
  wf_cases i -> In cv (i_case_values i) -> In cv (product (case_coords i)).
Proof.
  intros (Hc & _ & Hall) Hin. rewrite Forall_forall in Hall.
  unfold case_coords, eff_case_args, eff_case_values. rewrite Hc.
  apply in_product_pointwise.
  - rewrite map_length, seq_length. apply Hall, Hin.
  - intros j Hj. rewrite map_length, seq_length in Hj.
    rewrite nth_map_seq by exact Hj. apply sort_dedup_in. apply in_map_iff. exists cv. split; [reflexivity|exact Hin].
Qed.

(* every requested location lies inside the output grid *)
Theorem requested_in_grid i loc :
  wf_cases i -> In loc (locs i) -> exists idx, vals_at (dims_of i) idx = Some loc.
Proof.
  intros Hwf Hin. apply in_product_vals_at.
  destruct Hwf as (Hc & Hne & Hall). unfold dims_of, all_combo_values. rewrite Hc.
  unfold locs, eff_case_values in Hin. rewrite Hc in Hin.
  apply in_flat_map in Hin as (cv & Hcv & Hin). apply in_map_iff in Hin as (vs & <- & Hvs).
  apply product_app. exists cv, vs. repeat split; [|exact Hvs].
  apply case_in_coords; [repeat split; assumption|exact Hcv].
Qed.

(* the grid spans exactly the union of the case values, in increasing order *)
Theorem case_coords_spec i j :
  wf_cases i -> (j < length (i_case_args i))%nat ->
  let col := nth j (case_coords i) [] in
  StronglySorted Z.lt col /\
  forall v, In v col <-> exists cv, In cv (i_case_values i) /\ nth j cv 0 = v.
Proof.
  intros (Hc & _ & _) Hj col. subst col. unfold case_coords, eff_case_args, eff_case_values. rewrite Hc.
  rewrite nth_map_seq by exact Hj. split; [apply sort_dedup_sorted|].
  intros v. rewrite sort_dedup_in, in_map_iff. split; intros (cv & A & B); exists cv; tauto.
Qed.

(* ---- the placeholder has the shape of a real result ---- *)
From XV Require Import RunnerInst.

Fixpoint infer_shape_rect (x : rv) : forall sh, rect_shape x = Some sh -> infer_shape x = sh.
Proof.
  destruct x as [z|b|s|l|z]; intros sh H; try (cbn in H; injection H as <-; reflexivity).
  destruct l as [|h t].
  - cbn in H. injection H as <-. reflexivity.
  - cbn [rect_shape] in H. destruct (rect_shape h) as [shh|] eqn:Eh; [|discriminate].
    destruct (forallb _ t); [|discriminate]. injection H as <-.
    cbn [infer_shape]. f_equal. exact (infer_shape_rect h shh Eh).
Qed.

Lemma nan_like_shape (l : list rv) (shs : list (list Z)) :
  map rect_shape l = map Some shs -> nan_like (RT l) = PTup shs.
Proof.
  intros H. cbn. f_equal. revert shs H. induction l as [|x l IH]; intros [|sh shs] H; try discriminate.
  - reflexivity.
  - cbn in H. injection H as Hx Hl. cbn. rewrite (infer_shape_rect x sh Hx), (IH shs Hl). reflexivity.
Qed.

Lemma core_finish {R} (f : kwargs -> R) (comps : R -> list R) i :
  disjoint_args i -> fst (core f comps i) = finish comps i (map f (run_order i)).
Proof.
  intros Hd. unfold core, finish, results_linear. unfold disjoint_args in Hd. rewrite Hd. reflexivity.
Qed.
