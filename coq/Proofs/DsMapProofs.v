(* Specification predicates for the labelled-dataset model (Model/DsMap.v) and the lemmas
   behind C13: the executable is_case_missing / find_missing / parse_into_cases meet a
   specification that quantifies over variables and internal positions, results follow the
   grid order, and harvesting what was reported leaves nothing missing.  No bound on the
   number of dimensions, their sizes or the number of variables. *)
From XV Require Import Prelude Grid DsMap GridProofs.
Open Scope Z_scope.

(* ------------------------------------------------------------------ generic list facts *)
Inductive sublist {A} : list A -> list A -> Prop :=
| sub_nil : sublist [] []
| sub_skip x l m : sublist l m -> sublist l (x :: m)
| sub_take x l m : sublist l m -> sublist (x :: l) (x :: m).

Lemma sublist_refl {A} (l : list A) : sublist l l.
Proof. induction l; constructor; assumption. Qed.

Lemma sublist_In {A} (l m : list A) x : sublist l m -> In x l -> In x m.
Proof.
  induction 1 as [|y l m _ IH|y l m _ IH]; cbn; intros Hin; [exact Hin|right; apply IH, Hin|].
  destruct Hin as [->|Hin]; [left; reflexivity|right; apply IH, Hin].
Qed.

Lemma filter_sublist {A} (f : A -> bool) l : sublist (filter f l) l.
Proof. induction l as [|x l IH]; cbn; [constructor|]. destruct (f x); constructor; exact IH. Qed.

Lemma sublist_NoDup {A} (l m : list A) : sublist l m -> NoDup m -> NoDup l.
Proof.
  induction 1 as [|y l m Hs IH|y l m Hs IH]; intros Hnd; [constructor| |];
    inversion Hnd as [|? ? Hnin Hnd']; subst.
  - apply IH, Hnd'.
  - constructor; [|apply IH, Hnd']. intros Hin. apply Hnin. eapply sublist_In; eassumption.
Qed.

Lemma NoDup_app_intro {A} (a b : list A) :
  NoDup a -> NoDup b -> (forall x, In x a -> ~ In x b) -> NoDup (a ++ b).
Proof.
  induction a as [|x a IH]; cbn; intros Ha Hb Hd; [exact Hb|].
  inversion Ha as [|? ? Hnin Ha']; subst. constructor.
  - rewrite in_app_iff. intros [H|H]; [contradiction|]. apply (Hd x); [left; reflexivity|exact H].
  - apply IH; [exact Ha'|exact Hb|]. intros y Hy. apply Hd. right. exact Hy.
Qed.

Lemma NoDup_map_cons {A} (x : A) (P : list (list A)) : NoDup P -> NoDup (map (cons x) P).
Proof.
  induction 1 as [|p P Hnin _ IH]; cbn; constructor; [|exact IH].
  intros Hin. apply in_map_iff in Hin as (q & Heq & Hq). injection Heq as ->. contradiction.
Qed.

(* itertools.product of duplicate-free lists has no duplicates *)
Lemma NoDup_product {A} (ls : list (list A)) :
  (forall l, In l ls -> NoDup l) -> NoDup (product ls).
Proof.
  induction ls as [|l ls IH]; intros H; cbn.
  - constructor; [intros []|constructor].
  - assert (HP : NoDup (product ls)) by (apply IH; intros l' Hl'; apply H; right; exact Hl').
    assert (Hl : NoDup l) by (apply H; left; reflexivity).
    clear H IH. induction Hl as [|x l Hnin _ IHl]; cbn; [constructor|].
    apply NoDup_app_intro; [apply NoDup_map_cons, HP|exact IHl|].
    intros p Hp Hq. apply in_map_iff in Hp as (p' & <- & _).
    apply in_flat_map in Hq as (y & Hy & Hq). apply in_map_iff in Hq as (q' & Heq & _).
    injection Heq as -> _. contradiction.
Qed.

Lemma in_product_Forall2 {A} (ls : list (list A)) : forall key,
  In key (product ls) <-> Forall2 (fun l x => In x l) ls key.
Proof.
  induction ls as [|l ls IH]; intros key; cbn.
  - split.
    + intros [<-|[]]. constructor.
    + intros H. inversion H. left. reflexivity.
  - rewrite in_flat_map. split.
    + intros (x & Hx & H). apply in_map_iff in H as (k' & <- & Hk'). constructor; [exact Hx|].
      apply IH, Hk'.
    + intros H. inversion H as [|? x ? k' Hx Hk']; subst. exists x. split; [exact Hx|].
      apply in_map, IH, Hk'.
Qed.

Lemma Forall2_map_l {A B C} (f : A -> B) (R : B -> C -> Prop) l m :
  Forall2 R (map f l) m <-> Forall2 (fun a c => R (f a) c) l m.
Proof.
  revert m. induction l as [|a l IH]; intros m; cbn.
  - split; intros H; inversion H; constructor.
  - split; intros H; inversion H; subst; constructor; try assumption; apply IH; assumption.
Qed.

Lemma Forall2_impl_in {A B} (R S : A -> B -> Prop) l m :
  (forall a b, In a l -> R a b -> S a b) -> Forall2 R l m -> Forall2 S l m.
Proof.
  intros H F. induction F as [|a b l m Hab _ IH]; constructor.
  - apply H; [left; reflexivity|exact Hab].
  - apply IH. intros a' b' Ha'. apply H. right. exact Ha'.
Qed.

Lemma product_nonempty {A} (ls : list (list A)) :
  (forall l, In l ls -> l <> []) -> exists key, In key (product ls).
Proof.
  induction ls as [|l ls IH]; intros H.
  - exists []. left. reflexivity.
  - destruct IH as [k Hk]; [intros l' Hl'; apply H; right; exact Hl'|].
    destruct l as [|x l]; [exfalso; apply (H []); [left; reflexivity|reflexivity]|].
    exists (x :: k). cbn. apply in_or_app. left. apply in_map, Hk.
Qed.

Lemma filter_all_false {A} (f : A -> bool) l : (forall x, In x l -> f x = false) -> filter f l = [].
Proof.
  induction l as [|x l IH]; intros H; cbn; [reflexivity|].
  rewrite (H x (or_introl eq_refl)). apply IH. intros y Hy. apply H. right. exact Hy.
Qed.

Lemma filter_all_true {A} (f : A -> bool) l : (forall x, In x l -> f x = true) -> filter f l = l.
Proof.
  induction l as [|x l IH]; intros H; cbn; [reflexivity|].
  rewrite (H x (or_introl eq_refl)). f_equal. apply IH. intros y Hy. apply H. right. exact Hy.
Qed.

Lemma forallb_false_witness {A} (f : A -> bool) l :
  forallb f l = false -> exists x, In x l /\ f x = false.
Proof.
  induction l as [|x l IH]; cbn; [discriminate|].
  destruct (f x) eqn:E; cbn.
  - intros H. destruct (IH H) as (y & Hy & Hf). exists y. split; [right; exact Hy|exact Hf].
  - intros _. exists x. split; [left; reflexivity|exact E].
Qed.

Lemma zmemb_In x l : zmemb x l = true <-> In x l.
Proof.
  induction l as [|y l IH]; cbn; [split; [discriminate|intros []]|].
  rewrite orb_true_iff, Z.eqb_eq, IH. split; intros [H|H]; auto.
Qed.

Lemma assoc_In {V} k (v : V) l : assoc k l = Some v -> In (k, v) l.
Proof.
  induction l as [|[k' v'] l IH]; cbn; [discriminate|].
  destruct (k =? k') eqn:E.
  - apply Z.eqb_eq in E. subst. intros H. injection H as ->. left. reflexivity.
  - intros H. right. apply IH, H.
Qed.

Lemma assoc_NoDup_In {V} k (v : V) l : NoDup (map fst l) -> In (k, v) l -> assoc k l = Some v.
Proof.
  induction l as [|[k' v'] l IH]; cbn; intros Hnd Hin; [destruct Hin|].
  inversion Hnd as [|? ? Hnin Hnd']; subst.
  destruct Hin as [Heq|Hin].
  - injection Heq as -> ->. rewrite Z.eqb_refl. reflexivity.
  - destruct (k =? k') eqn:E; [|apply IH; assumption].
    apply Z.eqb_eq in E. subst. exfalso. apply Hnin. apply in_map_iff. exists (k', v). split; [reflexivity|exact Hin].
Qed.

(* a dict built by a comprehension followed by older entries: the new entries win *)
Lemma lookup_fill_in {V} (g : list Z -> V) ks rest k d :
  In k ks -> lookup (map (fun p => (p, g p)) ks ++ rest) k d = g k.
Proof.
  induction ks as [|k0 ks IH]; intros Hin; [destruct Hin|].
  cbn. destruct (list_eqb k0 k) eqn:E.
  - apply list_eqb_eq in E. subst. reflexivity.
  - apply list_eqb_neq in E. destruct Hin as [->|Hin]; [contradiction|]. apply IH, Hin.
Qed.

Lemma lookup_fill_out {V} (g : list Z -> V) ks rest k d :
  ~ In k ks -> lookup (map (fun p => (p, g p)) ks ++ rest) k d = lookup rest k d.
Proof.
  induction ks as [|k0 ks IH]; intros Hnin; [reflexivity|].
  cbn. destruct (list_eqb k0 k) eqn:E.
  - apply list_eqb_eq in E. subst. exfalso. apply Hnin. left. reflexivity.
  - apply IH. intros H. apply Hnin. right. exact H.
Qed.

(* ------------------------------------------------------------------ specification *)
(* a cell is null under the criterion: NaN, or infinite when the criterion is isfinite *)
Definition null_cell (method : Z) (c : cell) : Prop :=
  c = CNan \/ (c = CInf /\ method <> M_isnull).

Lemma is_null_spec method c : is_null method c = true <-> null_cell method c.
Proof.
  unfold null_cell. destruct c; cbn.
  - split; [discriminate|]. intros [H|[H _]]; discriminate.
  - split; auto.
  - rewrite negb_true_iff, Z.eqb_neq. split.
    + intros H. right. split; [reflexivity|exact H].
    + intros [H|[_ H]]; [discriminate|exact H].
Qed.

(* every label of the setting is a coordinate of the dataset (otherwise sel raises KeyError) *)
Definition present (dims : list (Z * list Z)) (s : setting) : Prop :=
  forall d l, In (d, l) s -> In l (coord_of dims d).

(* [key] is a position of a variable with dimensions [vdims] (each label taken from the
   coordinate of its dimension) that agrees with the setting on the dimensions they share *)
Definition in_sel (dims : list (Z * list Z)) (s : setting) (vdims key : list Z) : Prop :=
  Forall2 (fun d l => In l (coord_of dims d) /\ forall l', assoc d s = Some l' -> l = l') vdims key.

(* the location holds no data: every such position of every variable is null *)
Definition all_null_at (ds : dataset) (s : setting) (method : Z) : Prop :=
  forall v key, In v (d_vars ds) -> in_sel (d_dims ds) s (v_dims v) key ->
                null_cell method (cell_at (v_cells v) key).

Definition wf_ds (ds : dataset) : Prop := NoDup (map fst (d_dims ds)).
Definition coords_nodup (ds : dataset) : Prop := forall d ls, In (d, ls) (d_dims ds) -> NoDup ls.
(* some variable has at least one position (no zero-length dimension) *)
Definition has_data_var (ds : dataset) : Prop :=
  exists v, In v (d_vars ds) /\ forall d, In d (v_dims v) -> coord_of (d_dims ds) d <> [].

(* ------------------------------------------------------------------ sel *)
Lemma sel_ok_spec dims s : sel_ok dims s = true <-> present dims s.
Proof.
  unfold sel_ok, present. rewrite forallb_forall. split.
  - intros H d l Hin. apply zmemb_In. exact (H (d, l) Hin).
  - intros H [d l] Hin. apply zmemb_In. cbn. apply H, Hin.
Qed.

Lemma sel_axis_spec dims s d l : present dims s ->
  (In l (sel_axis dims s d) <-> In l (coord_of dims d) /\ forall l', assoc d s = Some l' -> l = l').
Proof.
  intros Hp. unfold sel_axis. destruct (assoc d s) as [l0|] eqn:E.
  - cbn. split.
    + intros [<-|[]]. split; [apply Hp, assoc_In, E|]. intros l' H. injection H as <-. reflexivity.
    + intros [_ H]. left. symmetry. apply H. reflexivity.
  - split; [intros H; split; [exact H|discriminate]|intros [H _]; exact H].
Qed.

Lemma sel_keys_spec dims s vdims key : present dims s ->
  (In key (sel_keys dims vdims s) <-> in_sel dims s vdims key).
Proof.
  intros Hp. unfold sel_keys, in_sel. rewrite in_product_Forall2, Forall2_map_l.
  split; apply Forall2_impl_in; intros d l _; apply sel_axis_spec; exact Hp.
Qed.

(* ------------------------------------------------------------------ is_case_missing *)
Lemma all_null_b_keys ds s method :
  all_null_b ds s method = true <->
  forall v, In v (d_vars ds) -> forall key, In key (sel_keys (d_dims ds) (v_dims v) s) ->
            is_null method (cell_at (v_cells v) key) = true.
Proof.
  unfold all_null_b. rewrite forallb_forall. split.
  - intros H v Hv key Hk. specialize (H v Hv). rewrite forallb_forall in H. apply H.
    unfold sel_cells. apply in_map, Hk.
  - intros H v Hv. apply forallb_forall. intros c Hc. unfold sel_cells in Hc.
    apply in_map_iff in Hc as (key & <- & Hk). apply (H v Hv key Hk).
Qed.

Lemma all_null_b_spec ds s method : present (d_dims ds) s ->
  (all_null_b ds s method = true <-> all_null_at ds s method).
Proof.
  intros Hp. rewrite all_null_b_keys. unfold all_null_at. split.
  - intros H v key Hv Hk. apply is_null_spec, (H v Hv), sel_keys_spec; assumption.
  - intros H v Hv key Hk. apply is_null_spec, (H v key Hv), sel_keys_spec; assumption.
Qed.

(* missing = the coordinates are absent, or present and the location is all-null *)
Lemma is_case_missing_spec ds s method :
  is_case_missing ds s method = true <-> ~ present (d_dims ds) s \/ all_null_at ds s method.
Proof.
  unfold is_case_missing. destruct (sel_ok (d_dims ds) s) eqn:E.
  - apply sel_ok_spec in E. rewrite (all_null_b_spec ds s method E). split; [auto|].
    intros [H|H]; [contradiction|exact H].
  - split; [|reflexivity]. intros _. left. intros Hp. apply sel_ok_spec in Hp. congruence.
Qed.

Lemma is_case_missing_present ds s method : present (d_dims ds) s ->
  (is_case_missing ds s method = true <-> all_null_at ds s method).
Proof. intros Hp. rewrite is_case_missing_spec. split; [intros [H|H]; [contradiction|exact H]|auto]. Qed.

(* ------------------------------------------------------------------ the grid *)
Lemma combine_product_in (F : list (Z * list Z)) : forall loc d l,
  In loc (product (map snd F)) -> In (d, l) (combine (map fst F) loc) ->
  exists ls, In (d, ls) F /\ In l ls.
Proof.
  induction F as [|[d0 ls0] F IH]; intros loc d l Hloc Hin; cbn in *.
  - destruct Hloc as [<-|[]]. destruct Hin.
  - apply in_flat_map in Hloc as (x & Hx & Hloc). apply in_map_iff in Hloc as (loc' & <- & Hloc').
    cbn in Hin. destruct Hin as [Heq|Hin].
    + injection Heq as <- <-. exists ls0. split; [left; reflexivity|exact Hx].
    + destruct (IH loc' d l Hloc' Hin) as (ls & Hls & Hl). exists ls. split; [right; exact Hls|exact Hl].
Qed.

(* every location of the grid names coordinates that exist *)
Lemma grid_present ds ignore loc : wf_ds ds ->
  In loc (grid ds ignore) -> present (d_dims ds) (setting_of ds ignore loc).
Proof.
  intros Hwf Hloc d l Hin. unfold grid, setting_of, fn_args in *.
  destruct (combine_product_in _ loc d l Hloc Hin) as (ls & Hls & Hl).
  unfold fn_dims in Hls. apply filter_In in Hls as [Hls _].
  unfold coord_of. rewrite (assoc_NoDup_In d ls (d_dims ds) Hwf Hls). exact Hl.
Qed.

Lemma find_missing_spec ds ignore method loc : wf_ds ds ->
  (In loc (find_missing ds ignore method) <->
   In loc (grid ds ignore) /\ all_null_at ds (setting_of ds ignore loc) method).
Proof.
  intros Hwf. unfold find_missing. rewrite filter_In. split; intros [Hg H]; split; try exact Hg.
  - apply is_case_missing_present; [apply grid_present; assumption|exact H].
  - apply is_case_missing_present; [apply grid_present; assumption|exact H].
Qed.

Lemma find_missing_no_data ds ignore method loc v key : wf_ds ds ->
  In v (d_vars ds) -> in_sel (d_dims ds) (setting_of ds ignore loc) (v_dims v) key ->
  ~ null_cell method (cell_at (v_cells v) key) ->
  ~ In loc (find_missing ds ignore method).
Proof.
  intros Hwf Hv Hk Hnn Hin. apply (find_missing_spec ds ignore method loc Hwf) in Hin as [_ Hall].
  apply Hnn, (Hall v key Hv Hk).
Qed.

Lemma grid_NoDup ds ignore : coords_nodup ds -> NoDup (grid ds ignore).
Proof.
  intros Hc. unfold grid. apply NoDup_product. intros l Hl.
  apply in_map_iff in Hl as ([d ls] & <- & Hin). unfold fn_dims in Hin. apply filter_In in Hin as [Hin _].
  exact (Hc d ls Hin).
Qed.

Lemma find_missing_sublist ds ignore method : sublist (find_missing ds ignore method) (grid ds ignore).
Proof. apply filter_sublist. Qed.

(* ------------------------------------------------------------------ parse_into_cases *)
Lemma parse_no_ds combos cases method :
  parse_into_cases combos cases None method = requested combos cases.
Proof. unfold parse_into_cases. apply filter_all_true. reflexivity. Qed.

(* ------------------------------------------------------------------ harvesting *)
Section Harvest.
  Variable g : Z -> list Z -> Z.

  (* a cell of the harvested variable is the new value inside a harvested selection and the
     old cell elsewhere *)
  Lemma harvest_cell_in dims sets v s key :
    In s sets -> In key (sel_keys dims (v_dims v) s) ->
    cell_at (v_cells (harvest_var g dims sets v)) key = CVal (g (v_id v) key).
  Proof.
    intros Hs Hk. unfold harvest_var, cell_at. cbn [v_cells].
    apply (lookup_fill_in (fun key => CVal (g (v_id v) key))).
    apply in_flat_map. exists s. split; assumption.
  Qed.

  Lemma harvest_cell_mono method dims sets v key :
    is_null method (cell_at (v_cells (harvest_var g dims sets v)) key) = true ->
    is_null method (cell_at (v_cells v) key) = true.
  Proof.
    unfold harvest_var, cell_at. cbn [v_cells]. set (K := flat_map (sel_keys dims (v_dims v)) sets).
    destruct (in_dec (list_eq_dec Z.eq_dec) key K) as [Hin|Hnin].
    - rewrite (lookup_fill_in (fun key => CVal (g (v_id v) key)) K _ key CNan Hin). discriminate.
    - rewrite (lookup_fill_out (fun key => CVal (g (v_id v) key)) K _ key CNan Hnin). auto.
  Qed.

  (* harvesting exactly the reported locations leaves nothing missing *)
  Lemma harvest_missing_fixpoint ds ignore method : wf_ds ds -> has_data_var ds ->
    find_missing (harvest_missing g ds ignore method) ignore method = [].
  Proof.
    intros Hwf (w & Hw & Hwne).
    set (S := map (setting_of ds ignore) (find_missing ds ignore method)).
    unfold harvest_missing. fold S. unfold find_missing at 1.
    apply filter_all_false. intros loc Hloc.
    change (grid (harvest g ds S) ignore) with (grid ds ignore) in Hloc.
    change (setting_of (harvest g ds S) ignore loc) with (setting_of ds ignore loc).
    set (s := setting_of ds ignore loc).
    assert (Hp : present (d_dims ds) s) by (apply grid_present; assumption).
    unfold is_case_missing. cbn [harvest d_dims].
    replace (sel_ok (d_dims ds) s) with true by (symmetry; apply sel_ok_spec, Hp).
    destruct (all_null_b (harvest g ds S) s method) eqn:E; [exfalso|reflexivity].
    rewrite all_null_b_keys in E. cbn [harvest d_dims d_vars] in E.
    assert (E' : forall v, In v (d_vars ds) -> forall key, In key (sel_keys (d_dims ds) (v_dims v) s) ->
                 is_null method (cell_at (v_cells (harvest_var g (d_dims ds) S v)) key) = true).
    { intros v Hv key Hk. apply (E (harvest_var g (d_dims ds) S v)); [apply in_map, Hv|exact Hk]. }
    clear E. destruct (is_case_missing ds s method) eqn:Em.
    - (* reported, hence harvested: the witness variable now holds a value there *)
      assert (HsS : In s S).
      { unfold S. apply in_map. unfold find_missing. apply filter_In. split; assumption. }
      destruct (product_nonempty (map (sel_axis (d_dims ds) s) (v_dims w))) as [key Hk].
      { intros l Hl. apply in_map_iff in Hl as (d & <- & Hd). unfold sel_axis.
        destruct (assoc d s); [discriminate|apply Hwne, Hd]. }
      specialize (E' w Hw key Hk). rewrite (harvest_cell_in (d_dims ds) S w s key HsS Hk) in E'.
      discriminate.
    - (* not reported: it had data, and harvesting never removes data *)
      unfold is_case_missing in Em.
      replace (sel_ok (d_dims ds) s) with true in Em by (symmetry; apply sel_ok_spec, Hp).
      unfold all_null_b in Em. apply forallb_false_witness in Em as (v & Hv & Em).
      apply forallb_false_witness in Em as (c & Hc & Hnull).
      unfold sel_cells in Hc. apply in_map_iff in Hc as (key & <- & Hk).
      specialize (E' v Hv key Hk). apply harvest_cell_mono in E'. congruence.
  Qed.

  (* data present before harvesting is still there afterwards (no location is emptied) *)
  Lemma harvest_keeps_data ds sets method v key :
    In v (d_vars ds) -> ~ null_cell method (cell_at (v_cells v) key) ->
    exists v', In v' (d_vars (harvest g ds sets)) /\ v_id v' = v_id v /\ v_dims v' = v_dims v
               /\ ~ null_cell method (cell_at (v_cells v') key).
  Proof.
    intros Hv Hnn. exists (harvest_var g (d_dims ds) sets v). repeat split.
    - cbn. apply in_map, Hv.
    - intros H. apply Hnn. apply is_null_spec. apply is_null_spec in H.
      eapply harvest_cell_mono, H.
  Qed.
End Harvest.
