(* C11 -- proofs about Model/Sched.v for the atomic publication (unique temporary file in the
   same directory + rename): an inductive invariant of the global step relation, for ANY number
   of growers, batches and ANY schedule. *)
From XV Require Import Prelude Sched.
From Coq Require Import Arith Lia.
Open Scope nat_scope.

(* ------------------------------------------------------------------ file-system facts *)
Lemma fname_eqb_eq a b : fname_eqb a b = true <-> a = b.
Proof.
  destruct a as [i|i u], b as [j|j v]; cbn; split; intro H; try discriminate.
  - apply Nat.eqb_eq in H. now subst.
  - injection H as ->. apply Nat.eqb_refl.
  - apply andb_true_iff in H as [H1 H2]. apply Nat.eqb_eq in H1, H2. now subst.
  - injection H as -> ->. now rewrite !Nat.eqb_refl.
Qed.

Lemma fname_eqb_refl a : fname_eqb a a = true.
Proof. now apply fname_eqb_eq. Qed.

Lemma fname_eqb_neq a b : a <> b -> fname_eqb a b = false.
Proof. intro H. destruct (fname_eqb a b) eqn:E; [|reflexivity]. apply fname_eqb_eq in E. contradiction. Qed.

Lemma fs_get_del_same n d : fs_get n (fs_del n d) = None.
Proof.
  induction d as [|[m c] d IH]; [reflexivity|]. cbn. destruct (fname_eqb n m) eqn:E; [exact IH|].
  cbn. now rewrite E.
Qed.

Lemma fs_get_del_other n m d : n <> m -> fs_get n (fs_del m d) = fs_get n d.
Proof.
  intro H. induction d as [|[k c] d IH]; [reflexivity|]. cbn. destruct (fname_eqb m k) eqn:E.
  - apply fname_eqb_eq in E. subst k. rewrite (fname_eqb_neq n m H). exact IH.
  - cbn. destruct (fname_eqb n k); [reflexivity|exact IH].
Qed.

Lemma fs_get_set_same n c d : fs_get n (fs_set n c d) = Some c.
Proof. unfold fs_set. cbn. now rewrite fname_eqb_refl. Qed.

Lemma fs_get_set_other n m c d : n <> m -> fs_get n (fs_set m c d) = fs_get n d.
Proof. intro H. unfold fs_set. cbn. rewrite (fname_eqb_neq n m H). now apply fs_get_del_other. Qed.

Lemma In_fs_del m c n d : In (m, c) (fs_del n d) -> In (m, c) d /\ m <> n.
Proof.
  induction d as [|[k e] d IH]; cbn; [tauto|]. destruct (fname_eqb n k) eqn:E.
  - intro H. destruct (IH H). tauto.
  - intros [H|H].
    + injection H as -> ->. split; [now left|]. intro; subst. now rewrite fname_eqb_refl in E.
    + destruct (IH H). tauto.
Qed.

Lemma keys_del n d : NoDup (map fst d) -> NoDup (map fst (fs_del n d)).
Proof.
  induction d as [|[k e] d IH]; cbn; intro H; [constructor|]. inversion H as [|? ? Hn Hd]; subst.
  destruct (fname_eqb n k); [now apply IH|]. cbn. constructor; [|now apply IH].
  intro Hin. apply Hn. apply in_map_iff in Hin as [[k' e'] [Hk Hin]]. cbn in Hk. subst k'.
  apply In_fs_del in Hin as [Hin _]. apply in_map_iff. now exists (k, e').
Qed.

Lemma keys_set n c d : NoDup (map fst d) -> NoDup (map fst (fs_set n c d)).
Proof.
  intro H. unfold fs_set. cbn. constructor; [|now apply keys_del].
  intro Hin. apply in_map_iff in Hin as [[k e] [Hk Hin]]. cbn in Hk. subst k.
  apply In_fs_del in Hin as [_ Hne]. now apply Hne.
Qed.

Lemma get_In n c d : fs_get n d = Some c -> In (n, c) d.
Proof.
  induction d as [|[k e] d IH]; cbn; [discriminate|]. destruct (fname_eqb n k) eqn:E.
  - intro H. injection H as ->. apply fname_eqb_eq in E. subst. now left.
  - intro H. right. now apply IH.
Qed.

Lemma In_get n c d : NoDup (map fst d) -> In (n, c) d -> fs_get n d = Some c.
Proof.
  induction d as [|[k e] d IH]; cbn; [tauto|]. intros Hnd [H|H].
  - injection H as -> ->. now rewrite fname_eqb_refl.
  - inversion Hnd as [|? ? Hn Hd]; subst. destruct (fname_eqb n k) eqn:E.
    + apply fname_eqb_eq in E. subst k. exfalso. apply Hn. apply in_map_iff. now exists (n, c).
    + now apply IH.
Qed.

(* ------------------------------------------------------------------ list update facts *)
Lemma map_upd {A B} (f : A -> B) k x (l : list A) g :
  nth_error l k = Some g -> f x = f g -> map f (upd k x l) = map f l.
Proof.
  revert k. induction l as [|y l IH]; intros [|k]; cbn; try discriminate; intros H E.
  - injection H as ->. now rewrite E.
  - f_equal. now apply IH.
Qed.

Lemma In_upd_self {A} k (x : A) l : k < length l -> In x (upd k x l).
Proof.
  revert k. induction l as [|y l IH]; intros [|k]; cbn; try lia; intro H; [now left|right; apply IH; lia].
Qed.

Lemma In_upd_other {A} k (x : A) l g z : nth_error l k = Some g -> In z l -> z <> g -> In z (upd k x l).
Proof.
  revert k. induction l as [|y l IH]; intros [|k]; cbn; try discriminate; intros H Hin Hne.
  - injection H as ->. destruct Hin as [->|Hin]; [contradiction|now right].
  - destruct Hin as [->|Hin]; [now left|right; eapply IH; eauto].
Qed.

Lemma In_upd_nodup {A B} (f : A -> B) k (x : A) l g z :
  NoDup (map f l) -> nth_error l k = Some g -> In z (upd k x l) -> z = x \/ (In z l /\ f z <> f g).
Proof.
  revert k. induction l as [|y l IH]; intros [|k]; cbn; try discriminate; intros Hnd H Hin.
  - injection H as ->. inversion Hnd as [|? ? Hn Hd]; subst. destruct Hin as [<-|Hin]; [now left|right].
    split; [now right|]. intro E. apply Hn. rewrite <- E. now apply in_map.
  - inversion Hnd as [|? ? Hn Hd]; subst. destruct Hin as [<-|Hin].
    + right. split; [now left|]. intro E. apply Hn. rewrite E. apply in_map. eapply nth_error_In; eauto.
    + destruct (IH k Hd H Hin) as [->|[Hz Hf]]; [now left|right; split; [now right|exact Hf]].
Qed.

Lemma length_upd {A} k (x : A) l : length (upd k x l) = length l.
Proof. revert k. induction l as [|y l IH]; intros [|k]; cbn; auto. Qed.

Lemma nth_error_upd_same {A} k (x : A) l : k < length l -> nth_error (upd k x l) k = Some x.
Proof. revert k. induction l as [|y l IH]; intros [|k]; cbn; try lia; intro H; [reflexivity|apply IH; lia]. Qed.

Lemma nth_error_upd_other {A} k j (x : A) l : j <> k -> nth_error (upd k x l) j = nth_error l j.
Proof.
  revert k j. induction l as [|y l IH]; intros [|k] [|j]; cbn; try reflexivity; try lia; intro H.
  apply IH. lia.
Qed.

(* ------------------------------------------------------------------ the shape of a step *)
Arguments fs_set : simpl never.
Notation pa := publish_atomic.

Definition set_fs_growers (s : state) d gs : state :=
  {| s_fs := d; s_growers := gs; s_reaper := s_reaper s; s_poller := s_poller s |}.
Definition set_reaper (s : state) r : state :=
  {| s_fs := s_fs s; s_growers := s_growers s; s_reaper := r; s_poller := s_poller s |}.
Definition set_poller (s : state) p : state :=
  {| s_fs := s_fs s; s_growers := s_growers s; s_reaper := s_reaper s; s_poller := p |}.

Definition rstep (d : fs) (r : reaper) : reaper :=
  if r_enabled r then fst (fst (reaper_op r d)) else r.

Inductive step_shape (pb : publish) (s : state) (k : nat) : state -> Prop :=
| SS_idle : step_shape pb s k s
| SS_grower g o : k < length (s_growers s) -> nth_error (s_growers s) k = Some g ->
    g_enabled pb g = true -> nth_error (pb_ops pb) (g_pc g) = Some o ->
    step_shape pb s k (set_fs_growers s (fst (grower_op pb o g (s_fs s)))
                                        (upd k (snd (grower_op pb o g (s_fs s))) (s_growers s)))
| SS_reaper : k = length (s_growers s) -> step_shape pb s k (set_reaper s (rstep (s_fs s) (s_reaper s)))
| SS_poller : k = S (length (s_growers s)) -> p_enabled (s_poller s) = true ->
    step_shape pb s k (set_poller s (fst (fst (fst (poller_op pb (s_poller s) (s_fs s)))))).

Lemma step_has_shape pb s k : step_shape pb s k (step pb s k).
Proof.
  unfold step, step_ev. destruct (k <? length (s_growers s)) eqn:Ek.
  - apply Nat.ltb_lt in Ek. destruct (nth_error (s_growers s) k) as [g|] eqn:Eg; [|constructor].
    destruct (g_enabled pb g) eqn:Een; [|constructor].
    destruct (nth_error (pb_ops pb) (g_pc g)) as [o|] eqn:Eo; [|constructor].
    destruct (grower_op pb o g (s_fs s)) as [d' g'] eqn:Eop. cbn [fst].
    pose proof (SS_grower pb s k g o Ek Eg Een Eo) as H. rewrite Eop in H. exact H.
  - destruct (k =? length (s_growers s)) eqn:Er.
    + apply Nat.eqb_eq in Er. pose proof (SS_reaper pb s k Er) as H. unfold rstep in H.
      destruct (r_enabled (s_reaper s)).
      * destruct (reaper_op (s_reaper s) (s_fs s)) as [[r' ek] res]. exact H.
      * destruct s; exact H.
    + destruct (k =? S (length (s_growers s))) eqn:Ep; [|constructor].
      apply Nat.eqb_eq in Ep. destruct (p_enabled (s_poller s)) eqn:Een; [|constructor].
      pose proof (SS_poller pb s k Ep Een) as H.
      destruct (poller_op pb (s_poller s) (s_fs s)) as [[[p' ek] ef] res]. exact H.
Qed.

Lemma step_reaper_id pb s : step pb s (length (s_growers s)) = set_reaper s (rstep (s_fs s) (s_reaper s)).
Proof.
  unfold step, step_ev. rewrite Nat.ltb_irrefl, Nat.eqb_refl. unfold rstep.
  destruct (r_enabled (s_reaper s)).
  - now destruct (reaper_op (s_reaper s) (s_fs s)) as [[r' ek] res].
  - now destruct s.
Qed.

(* ------------------------------------------------------------------ the invariant *)
Definition tmp_expect (g : grower) : option content :=
  match g_pc g with
  | 1 | 2 | 3 => Some Torn
  | 4 => Some (Whole (g_batch g))
  | _ => None
  end.

Definition grower_ok (d : fs) (g : grower) : Prop :=
  g_err g = false /\ g_pc g <= 5 /\
  fs_get (FTmp (g_batch g) (g_uid g)) d = tmp_expect g /\
  (g_pc g = 5 -> fs_get (FResult (g_batch g)) d = Some (Whole (g_batch g))).

Definition results_ok (d : fs) (gs : list grower) : Prop :=
  forall i c, fs_get (FResult i) d = Some c ->
    c = Whole i /\ exists g, In g gs /\ g_batch g = i /\ g_pc g = 5 /\ g_err g = false.

Definition reaper_ok (d : fs) (r : reaper) : Prop :=
  match r_status r with
  | RRunning =>
      1 <= r_batch r <= r_nb r /\ r_read r = seq 1 (r_batch r - 1) /\
      match r_phase r with
      | RPoll => True
      | RStat | ROpen => fs_get (FResult (r_batch r)) d <> None
      | RRead c => c = Whole (r_batch r)
      end
  | RDone => r_read r = seq 1 (r_nb r)
  | RFailed => False
  end.

Record Inv (s : state) : Prop := {
  inv_keys : NoDup (map fst (s_fs s));
  inv_uids : NoDup (map g_uid (s_growers s));
  inv_growers : Forall (grower_ok (s_fs s)) (s_growers s);
  inv_results : results_ok (s_fs s) (s_growers s);
  inv_reaper : reaper_ok (s_fs s) (s_reaper s)
}.

(* ---- the reaper's step *)
Lemma seq_snoc b : 1 <= b -> seq 1 (b - 1) ++ [b] = seq 1 b.
Proof.
  intro H. destruct b as [|n]; [lia|]. replace (S n - 1) with n by lia.
  rewrite seq_S. reflexivity.
Qed.

Lemma reaper_ok_step d gs r : results_ok d gs -> reaper_ok d r -> reaper_ok d (rstep d r).
Proof.
  intros HR H. unfold rstep. destruct r as [nb b ph rd st]. unfold r_enabled. cbn [r_status].
  destruct st; [|exact H|exact H].
  unfold reaper_ok in H. cbn in H. destruct H as (Hb & Hrd & Hph).
  unfold reaper_op. cbn [r_phase r_batch r_read r_nb].
  destruct ph as [| | |c].
  - destruct (fs_get (FResult b) d) as [c|] eqn:E; cbn.
    + unfold reaper_ok. cbn. repeat split; try lia; try exact Hrd. now rewrite E.
    + unfold reaper_ok. cbn. repeat split; try lia; exact Hrd.
  - destruct (fs_get (FResult b) d) as [c|] eqn:E; [|contradiction]. cbn.
    unfold reaper_ok. cbn. repeat split; try lia; try exact Hrd. now rewrite E.
  - destruct (fs_get (FResult b) d) as [c|] eqn:E; [|contradiction]. cbn.
    unfold reaper_ok. cbn. repeat split; try lia; try exact Hrd. now destruct (HR b c E).
  - subst c. cbn -[Nat.ltb]. destruct (b <? nb) eqn:El; cbn; unfold reaper_ok; cbn.
    + apply Nat.ltb_lt in El. repeat split; try lia. rewrite Hrd. replace (b - 0) with b by lia.
      now apply seq_snoc.
    + apply Nat.ltb_ge in El. rewrite Hrd. replace nb with b by lia. apply seq_snoc. lia.
Qed.

Lemma rstep_nb d r : r_nb (rstep d r) = r_nb r.
Proof.
  unfold rstep. destruct (r_enabled r); [|reflexivity]. unfold reaper_op.
  destruct (r_phase r) as [| | |c]; cbn -[Nat.ltb].
  - now destruct (is_some (fs_get (FResult (r_batch r)) d)).
  - now destruct (is_some (fs_get (FResult (r_batch r)) d)).
  - now destruct (fs_get (FResult (r_batch r)) d).
  - destruct c; [|reflexivity]. now destruct (r_batch r <? r_nb r).
Qed.

(* ---- one grower operation, summarised *)
Lemma g_enabled_pa g : g_enabled pa g = true -> g_err g = false /\ g_pc g < 5.
Proof.
  unfold g_enabled. change (length (pb_ops pa)) with 5. intro H. apply andb_true_iff in H as [H1 H2].
  apply negb_true_iff in H1. apply Nat.ltb_lt in H2. split; assumption.
Qed.

Record op_facts (g : grower) (d d' : fs) (g' : grower) : Prop := {
  of_batch : g_batch g' = g_batch g;
  of_uid : g_uid g' = g_uid g;
  of_pc : g_pc g' = S (g_pc g);
  of_keys : NoDup (map fst d');
  of_ok : grower_ok d' g';
  of_frame : forall n, n <> FTmp (g_batch g) (g_uid g) -> n <> FResult (g_batch g) -> fs_get n d' = fs_get n d;
  of_tmp_only : g_pc g < 4 -> forall n, n <> FTmp (g_batch g) (g_uid g) -> fs_get n d' = fs_get n d;
  of_new : forall c, fs_get (FResult (g_batch g)) d' = Some c ->
           fs_get (FResult (g_batch g)) d = Some c \/ (c = Whole (g_batch g) /\ g_pc g' = 5);
  of_keep : fs_get (FResult (g_batch g)) d <> None -> fs_get (FResult (g_batch g)) d' <> None;
  of_keep_whole : fs_get (FResult (g_batch g)) d = Some (Whole (g_batch g)) ->
                  fs_get (FResult (g_batch g)) d' = Some (Whole (g_batch g))
}.

Lemma grower_op_facts g o d :
  NoDup (map fst d) -> grower_ok d g -> g_enabled pa g = true ->
  nth_error (pb_ops pa) (g_pc g) = Some o ->
  op_facts g d (fst (grower_op pa o g d)) (snd (grower_op pa o g d)).
Proof.
  intros Hk (He & Hle & Htmp & Hres) Hen Ho. apply g_enabled_pa in Hen as [_ Hlt].
  destruct g as [b u pc e]. cbn in *. subst e.
  assert (Hne : forall i, FResult i <> FTmp b u) by (intros i; discriminate).
  assert (Hne' : forall i, FTmp b u <> FResult i) by (intros i; discriminate).
  unfold tmp_expect in Htmp. cbn in Htmp.
  destruct pc as [|[|[|[|[|pc]]]]]; try lia; cbn in Ho; injection Ho as <-;
    unfold grower_op, wname, g_advance; cbn [pb_target pb_tmp_unique g_batch g_uid g_pc g_err fst snd pa].
  - (* create *)
    constructor; cbn; try reflexivity.
    + now apply keys_set.
    + unfold grower_ok, tmp_expect. cbn. repeat split; try lia. apply fs_get_set_same.
    + intros n H1 H2. now apply fs_get_set_other.
    + intros _ n H1. now apply fs_get_set_other.
    + intros c H. left. now rewrite fs_get_set_other in H.
    + now rewrite fs_get_set_other.
    + now rewrite fs_get_set_other.
  - (* first chunk *)
    constructor; cbn; try reflexivity.
    + now apply keys_set.
    + unfold grower_ok, tmp_expect. cbn. repeat split; try lia. apply fs_get_set_same.
    + intros n H1 H2. now apply fs_get_set_other.
    + intros _ n H1. now apply fs_get_set_other.
    + intros c H. left. now rewrite fs_get_set_other in H.
    + now rewrite fs_get_set_other.
    + now rewrite fs_get_set_other.
  - (* last chunk *)
    constructor; cbn; try reflexivity.
    + now apply keys_set.
    + unfold grower_ok, tmp_expect. cbn. repeat split; try lia. apply fs_get_set_same.
    + intros n H1 H2. now apply fs_get_set_other.
    + intros _ n H1. now apply fs_get_set_other.
    + intros c H. left. now rewrite fs_get_set_other in H.
    + now rewrite fs_get_set_other.
    + now rewrite fs_get_set_other.
  - (* close: the buffered rest reaches the file *)
    constructor; cbn; try reflexivity.
    + now apply keys_set.
    + unfold grower_ok, tmp_expect. cbn. repeat split; try lia. apply fs_get_set_same.
    + intros n H1 H2. now apply fs_get_set_other.
    + intros _ n H1. now apply fs_get_set_other.
    + intros c H. left. now rewrite fs_get_set_other in H.
    + now rewrite fs_get_set_other.
    + now rewrite fs_get_set_other.
  - (* rename *)
    rewrite Htmp. cbn [fst snd g_batch g_uid g_pc g_err].
    constructor; cbn; try reflexivity.
    + apply keys_set. now apply keys_del.
    + unfold grower_ok, tmp_expect. cbn. repeat split; try lia.
      * rewrite fs_get_set_other by apply Hne'. apply fs_get_del_same.
      * intros _. apply fs_get_set_same.
    + intros n H1 H2. rewrite fs_get_set_other by exact H2. now apply fs_get_del_other.
    + lia.
    + intros c H. right. rewrite fs_get_set_same in H. injection H as <-. split; reflexivity.
    + rewrite fs_get_set_same. discriminate.
    + intros _. apply fs_get_set_same.
Qed.

(* ---- preservation *)
Lemma grower_ok_frame d d' b u x :
  (forall n, n <> FTmp b u -> n <> FResult b -> fs_get n d' = fs_get n d) ->
  (fs_get (FResult b) d = Some (Whole b) -> fs_get (FResult b) d' = Some (Whole b)) ->
  g_uid x <> u -> grower_ok d x -> grower_ok d' x.
Proof.
  intros Hf Hk Hu (He & Hle & Htmp & Hres). repeat split; try assumption.
  - rewrite Hf; [exact Htmp| |discriminate]. intro E. injection E as _ E. contradiction.
  - intro H5. specialize (Hres H5). destruct (Nat.eq_dec (g_batch x) b) as [E|Hb].
    + rewrite E in *. now apply Hk.
    + rewrite Hf; [exact Hres|discriminate|]. intro E. injection E as E. contradiction.
Qed.

Theorem step_preserves_Inv s k : Inv s -> Inv (step pa s k).
Proof.
  intros [Hkeys Huids Hgs Hres Hrp]. destruct (step_has_shape pa s k) as [|g o Hk Hg Hen Ho|Hk|Hk Hen].
  - now constructor.
  - (* a grower moves *)
    assert (Hok : grower_ok (s_fs s) g) by (rewrite Forall_forall in Hgs; apply Hgs; eapply nth_error_In; eauto).
    pose proof (grower_op_facts g o (s_fs s) Hkeys Hok Hen Ho) as F.
    set (d' := fst (grower_op pa o g (s_fs s))) in *. set (g' := snd (grower_op pa o g (s_fs s))) in *.
    destruct (g_enabled_pa g Hen) as [Herr Hpc].
    constructor; cbn [s_fs s_growers s_reaper set_fs_growers].
    + exact (of_keys _ _ _ _ F).
    + rewrite (map_upd g_uid k g' (s_growers s) g Hg (of_uid _ _ _ _ F)). exact Huids.
    + rewrite Forall_forall. intros x Hx.
      destruct (In_upd_nodup g_uid k g' (s_growers s) g x Huids Hg Hx) as [->|[Hin Hne]].
      * exact (of_ok _ _ _ _ F).
      * rewrite Forall_forall in Hgs. eapply grower_ok_frame; [exact (of_frame _ _ _ _ F)|exact (of_keep_whole _ _ _ _ F)|exact Hne|now apply Hgs].
    + intros i c Hget. destruct (Nat.eq_dec i (g_batch g)) as [->|Hi].
      * destruct (of_new _ _ _ _ F c Hget) as [Hold|[-> H5]].
        -- destruct (Hres _ _ Hold) as [Hc (g0 & Hin & Hb & Hp & He)]. split; [exact Hc|].
           exists g0. repeat split; try assumption. eapply In_upd_other; eauto. intro E. subst g0. lia.
        -- split; [reflexivity|]. exists g'. repeat split.
           ++ now apply In_upd_self.
           ++ exact (of_batch _ _ _ _ F).
           ++ exact H5.
           ++ now destruct (of_ok _ _ _ _ F).
      * rewrite (of_frame _ _ _ _ F) in Hget; [| discriminate | intro E; injection E as E; contradiction].
        destruct (Hres _ _ Hget) as [Hc (g0 & Hin & Hb & Hp & He)]. split; [exact Hc|].
        exists g0. repeat split; try assumption. eapply In_upd_other; eauto. intro E. subst g0. lia.
    + unfold reaper_ok in *. destruct (r_status (s_reaper s)); [|exact Hrp|exact Hrp].
      destruct Hrp as (Hb & Hrd & Hph). repeat split; try lia; try exact Hrd.
      destruct (r_phase (s_reaper s)); try exact Hph.
      * destruct (Nat.eq_dec (r_batch (s_reaper s)) (g_batch g)) as [E|E].
        -- rewrite E in *. now apply (of_keep _ _ _ _ F).
        -- rewrite (of_frame _ _ _ _ F); [exact Hph|discriminate|intro X; injection X as X; contradiction].
      * destruct (Nat.eq_dec (r_batch (s_reaper s)) (g_batch g)) as [E|E].
        -- rewrite E in *. now apply (of_keep _ _ _ _ F).
        -- rewrite (of_frame _ _ _ _ F); [exact Hph|discriminate|intro X; injection X as X; contradiction].
  - (* the reaper moves *)
    constructor; cbn; try assumption. eapply reaper_ok_step; eauto.
  - (* the poller moves *)
    constructor; cbn; assumption.
Qed.

Theorem run_preserves_Inv sched : forall s, Inv s -> Inv (run pa s sched).
Proof. induction sched as [|k sched IH]; intros s H; [exact H|]. cbn. apply IH. now apply step_preserves_Inv. Qed.

(* ------------------------------------------------------------------ initial states *)
Record init_ok (s : state) (nb : nat) : Prop := {
  io_fs : s_fs s = [];
  io_growers : Forall (fun g => g_pc g = 0 /\ g_err g = false) (s_growers s);
  io_uids : NoDup (map g_uid (s_growers s));
  io_reaper : s_reaper s = reaper_init nb
}.

Lemma Inv_init s nb : init_ok s nb -> Inv s.
Proof.
  intros [Hfs Hg Hu Hr]. constructor.
  - rewrite Hfs. constructor.
  - exact Hu.
  - rewrite Hfs. eapply Forall_impl; [|exact Hg]. intros g [Hp He]. unfold grower_ok, tmp_expect.
    rewrite Hp. cbn. repeat split; try assumption; try lia; try discriminate.
  - rewrite Hfs. intros i c H. discriminate.
  - rewrite Hr. unfold reaper_ok, reaper_init. destruct (nb =? 0) eqn:E; cbn.
    + apply Nat.eqb_eq in E. now subst.
    + apply Nat.eqb_neq in E. repeat split; lia.
Qed.

Lemma seq_uids (bs : list nat) k :
  map g_uid (map (fun bu => grower_init (fst bu) (snd bu)) (combine bs (seq k (length bs)))) = seq k (length bs).
Proof.
  revert k. induction bs as [|b bs IH]; intro k; [reflexivity|]. cbn. f_equal. apply IH.
Qed.

Lemma init_ok_mk_init bs nb prog : init_ok (mk_init bs nb prog) nb.
Proof.
  unfold mk_init, init_state. constructor; cbn; try reflexivity.
  - rewrite Forall_forall. intros g Hg. apply in_map_iff in Hg as [[b u] [<- _]]. now split.
  - rewrite seq_uids. apply seq_NoDup.
Qed.

(* the number of batches the reaper waits for never changes *)
Lemma step_nb pb s k : r_nb (s_reaper (step pb s k)) = r_nb (s_reaper s).
Proof. destruct (step_has_shape pb s k); cbn; try reflexivity. apply rstep_nb. Qed.

Lemma run_nb pb sched : forall s, r_nb (s_reaper (run pb s sched)) = r_nb (s_reaper s).
Proof. induction sched as [|k sched IH]; intro s; [reflexivity|]. cbn. rewrite IH. apply step_nb. Qed.

Lemma run_app pb a b : forall s, run pb s (a ++ b) = run pb (run pb s a) b.
Proof. induction a as [|k a IH]; intro s; [reflexivity|]. cbn. apply IH. Qed.

(* ------------------------------------------------------------------ consequences of Inv *)
Lemma g_done_pa g : g_done pa g = true <-> g_err g = false /\ 5 <= g_pc g.
Proof.
  unfold g_done. change (length (pb_ops pa)) with 5. rewrite andb_true_iff, negb_true_iff, Nat.leb_le. tauto.
Qed.

(* every visible entry is a whole result that belongs to a finished grower *)
Lemma Inv_visible s : Inv s ->
  forall n c, In (n, c) (s_fs s) ->
    match n with
    | FResult i => c = Whole i /\ exists g, In g (s_growers s) /\ g_batch g = i /\ g_done pa g = true
    | FTmp _ _ => globbed pa n = false
    end.
Proof.
  intros H n c Hin. destruct n as [i|i u]; [|reflexivity].
  destruct (inv_results s H i c (In_get _ _ _ (inv_keys s H) Hin)) as [Hc (g & Hg & Hb & Hp & He)].
  split; [exact Hc|]. exists g. repeat split; try assumption. apply g_done_pa. split; [exact He|lia].
Qed.

Lemma visible_entries s : Inv s ->
  forall e, In e (visible pa (s_fs s)) ->
    exists i, e = (FResult i, Whole i) /\ exists g, In g (s_growers s) /\ g_batch g = i /\ g_done pa g = true.
Proof.
  intros H [n c] Hin. unfold visible in Hin. apply filter_In in Hin as [Hin Hg]. cbn in Hg.
  pose proof (Inv_visible s H n c Hin) as V. destruct n as [i|i u]; [|cbn in Hg; discriminate].
  destruct V as [-> Hex]. now exists i.
Qed.

(* the count is bounded by the number of growers that have executed their rename *)
Lemma NoDup_map_filter_keys (f : fname * content -> bool) (d : fs) :
  NoDup (map fst d) -> NoDup (map fst (filter f d)).
Proof.
  induction d as [|e d IH]; cbn; intro H; [constructor|]. inversion H as [|? ? Hn Hd]; subst.
  destruct (f e); [|now apply IH]. cbn. constructor; [|now apply IH].
  intro Hin. apply Hn. apply in_map_iff in Hin as [x [Hx Hin]]. apply filter_In in Hin as [Hin _].
  apply in_map_iff. now exists x.
Qed.

Definition name_batch (n : fname) : nat := match n with FResult i => i | FTmp i _ => i end.

Lemma poll_count_le_done s : Inv s ->
  poll_count pa (s_fs s) <= length (filter (g_done pa) (s_growers s)).
Proof.
  intro H. unfold poll_count.
  set (v := visible pa (s_fs s)).
  assert (Hall : forall e, In e v -> exists i, e = (FResult i, Whole i)).
  { intros e He. destruct (visible_entries s H e He) as [i [-> _]]. now exists i. }
  assert (Hnd : NoDup (map (fun e => name_batch (fst e)) v)).
  { pose proof (NoDup_map_filter_keys (fun e => globbed pa (fst e)) (s_fs s) (inv_keys s H)) as K.
    fold (visible pa (s_fs s)) in K. fold v in K. clearbody v.
    induction v as [|e v IH]; cbn; [constructor|]. inversion K as [|? ? Kn Kd]; subst.
    constructor; [|apply IH; [intros; apply Hall; now right|exact Kd]].
    intro Hin. apply Kn. apply in_map_iff in Hin as [x [Hx Hin]].
    destruct (Hall e (or_introl eq_refl)) as [i ->]. destruct (Hall x (or_intror Hin)) as [j ->].
    cbn in Hx. subst j. apply in_map_iff. now exists (FResult i, Whole i). }
  rewrite <- (map_length (fun e => name_batch (fst e)) v).
  rewrite <- (map_length g_batch (filter (g_done pa) (s_growers s))).
  apply NoDup_incl_length; [exact Hnd|].
  intros i Hi. apply in_map_iff in Hi as [e [<- He]].
  destruct (visible_entries s H e He) as [j [-> (g & Hg & Hb & Hd)]]. cbn.
  apply in_map_iff. exists g. split; [exact Hb|]. apply filter_In. now split.
Qed.

(* what a listing / an isfile of the poller reports *)
Lemma poller_list_reports pb p d rest :
  p_prog p = PList :: rest \/ p_prog p = PListIfPos :: rest ->
  exists p', poller_op pb p d = (p', EList, OnDir, poll_count pb d)
             /\ p_log p' = p_log p ++ [(PList, poll_count pb d)].
Proof. intros [E|E]; unfold poller_op; rewrite E; eexists; split; reflexivity. Qed.

Lemma poller_isfile_reports pb p d i rest :
  p_prog p = PIsFile i :: rest ->
  exists p', poller_op pb p d = (p', EIsFile, OnFile (FResult i), b2n (is_some (fs_get (FResult i) d)))
             /\ p_log p' = p_log p ++ [(PIsFile i, b2n (is_some (fs_get (FResult i) d)))].
Proof. intro E. unfold poller_op. rewrite E. eexists. split; reflexivity. Qed.

(* ------------------------------------------------------------------ a grower's footprint *)
Lemma grower_footprint s k g : Inv s -> nth_error (s_growers s) k = Some g ->
  forall n, n <> FTmp (g_batch g) (g_uid g) -> (n <> FResult (g_batch g) \/ g_pc g < 4) ->
  fs_get n (s_fs (step pa s k)) = fs_get n (s_fs s).
Proof.
  intros H Hg n H1 H2. destruct (step_has_shape pa s k) as [|g0 o Hk Hg0 Hen Ho|Hk|Hk Hen]; try reflexivity.
  rewrite Hg in Hg0. injection Hg0 as <-. cbn [s_fs set_fs_growers].
  assert (Hok : grower_ok (s_fs s) g).
  { pose proof (inv_growers s H) as F. rewrite Forall_forall in F. apply F. eapply nth_error_In; eauto. }
  pose proof (grower_op_facts g o (s_fs s) (inv_keys s H) Hok Hen Ho) as F.
  destruct H2 as [H2|H2]; [now apply (of_frame _ _ _ _ F)|now apply (of_tmp_only _ _ _ _ F)].
Qed.

(* a finished grower's batch is on disk, whole -- whichever grower of that batch renamed last *)
Lemma done_grower_result s g : Inv s -> In g (s_growers s) -> g_done pa g = true ->
  fs_get (FResult (g_batch g)) (s_fs s) = Some (Whole (g_batch g))
  /\ fs_get (FTmp (g_batch g) (g_uid g)) (s_fs s) = None.
Proof.
  intros H Hg Hd. pose proof (inv_growers s H) as F. rewrite Forall_forall in F.
  destruct (F g Hg) as (He & Hle & Htmp & Hres). apply g_done_pa in Hd as [_ Hd].
  assert (E : g_pc g = 5) by lia. split; [now apply Hres|]. rewrite Htmp. unfold tmp_expect. now rewrite E.
Qed.

Lemma distinct_positions_distinct_uids (l : list grower) j k gj gk :
  NoDup (map g_uid l) -> j <> k -> nth_error l j = Some gj -> nth_error l k = Some gk -> g_uid gj <> g_uid gk.
Proof.
  intros Hnd Hjk Hj Hk E. apply Hjk.
  assert (Lj : j < length (map g_uid l)) by (rewrite map_length; apply nth_error_Some; congruence).
  eapply (proj1 (NoDup_nth_error (map g_uid l)) Hnd j k Lj).
  rewrite !nth_error_map, Hj, Hk. cbn. now rewrite E.
Qed.

(* ------------------------------------------------------------------ progress of the reaper *)
Definition rem_phase (ph : rphase) : nat :=
  match ph with RPoll => 4 | RStat => 3 | ROpen => 2 | RRead _ => 1 end.
Definition mu (r : reaper) : nat :=
  match r_status r with RRunning => 4 * (r_nb r - r_batch r) + rem_phase (r_phase r) | _ => 0 end.

Lemma mu_decreases d r :
  (forall i, 1 <= i <= r_nb r -> fs_get (FResult i) d <> None) ->
  reaper_ok d r -> r_status r = RRunning -> mu (rstep d r) < mu r.
Proof.
  intros Hall Hok Hrun. destruct r as [nb b ph rd st]. cbn in *. subst st.
  unfold reaper_ok in Hok. cbn in Hok. destruct Hok as (Hb & Hrd & Hph).
  unfold rstep, r_enabled, reaper_op, mu. cbn -[Nat.ltb Nat.mul Nat.sub].
  specialize (Hall b Hb). destruct ph as [| | |c]; cbn -[Nat.ltb Nat.mul Nat.sub].
  - destruct (fs_get (FResult b) d); [cbn -[Nat.ltb Nat.mul Nat.sub]; lia|contradiction].
  - destruct (fs_get (FResult b) d); [cbn -[Nat.ltb Nat.mul Nat.sub]; lia|contradiction].
  - destruct (fs_get (FResult b) d); [cbn -[Nat.ltb Nat.mul Nat.sub]; lia|contradiction].
  - destruct c; cbn -[Nat.ltb Nat.mul Nat.sub]; [|lia].
    destruct (b <? nb) eqn:E; cbn -[Nat.ltb Nat.mul Nat.sub]; [|lia]. apply Nat.ltb_lt in E. lia.
Qed.

Fixpoint iter_r {A} (n : nat) (f : A -> A) (x : A) : A :=
  match n with O => x | S n' => iter_r n' f (f x) end.

Lemma iter_rstep_done d gs n : forall r,
  results_ok d gs -> (forall i, 1 <= i <= r_nb r -> fs_get (FResult i) d <> None) ->
  reaper_ok d r -> mu r <= n -> r_status (iter_r n (rstep d) r) = RDone.
Proof.
  induction n as [|n IH]; intros r HR Hall Hok Hmu.
  - cbn. destruct r as [nb b ph rd st]. unfold mu in Hmu. cbn -[Nat.mul Nat.sub] in *. destruct st; try reflexivity.
    + destruct ph; cbn -[Nat.mul Nat.sub] in Hmu; lia.
    + contradiction.
  - cbn [iter_r]. destruct (r_status r) eqn:Est.
    + apply IH; try assumption.
      * now rewrite rstep_nb.
      * eapply reaper_ok_step; eauto.
      * pose proof (mu_decreases d r Hall Hok Est). lia.
    + assert (E : rstep d r = r) by (unfold rstep, r_enabled; now rewrite Est). rewrite E.
      apply IH; try assumption. unfold mu. rewrite Est. lia.
    + unfold reaper_ok in Hok. now rewrite Est in Hok.
Qed.

Lemma run_repeat_reaper pb n : forall s,
  run pb s (repeat (length (s_growers s)) n)
  = set_reaper s (iter_r n (rstep (s_fs s)) (s_reaper s)).
Proof.
  induction n as [|n IH]; intro s; [now destruct s|].
  cbn [repeat run]. rewrite step_reaper_id.
  change (length (s_growers s)) with (length (s_growers (set_reaper s (rstep (s_fs s) (s_reaper s))))).
  rewrite IH. cbn [set_reaper s_fs s_growers s_reaper s_poller iter_r]. reflexivity.
Qed.

Lemma mu_bound r : 1 <= r_batch r <= r_nb r -> mu r <= 4 * r_nb r.
Proof. intro H. unfold mu. destruct (r_status r); try lia. destruct (r_phase r); cbn -[Nat.mul Nat.sub]; lia. Qed.

(* ------------------------------------------------------------------ reachable states *)
Lemma step_length pb s k : length (s_growers (step pb s k)) = length (s_growers s).
Proof. destruct (step_has_shape pb s k); cbn; try reflexivity. apply length_upd. Qed.

Lemma run_length pb sched : forall s, length (s_growers (run pb s sched)) = length (s_growers s).
Proof. induction sched as [|k sched IH]; intro s; [reflexivity|]. cbn. rewrite IH. apply step_length. Qed.

Lemma reach_Inv s0 nb sched : init_ok s0 nb -> Inv (run pa s0 sched).
Proof. intro H. apply run_preserves_Inv. eapply Inv_init; eauto. Qed.

Lemma reach_nb s0 nb sched : init_ok s0 nb -> r_nb (s_reaper (run pa s0 sched)) = nb.
Proof.
  intro H. rewrite run_nb, (io_reaper _ _ H). reflexivity.
Qed.

Lemma reaper_never_fails s : Inv s ->
  r_status (s_reaper s) <> RFailed
  /\ (r_status (s_reaper s) = RDone -> r_read (s_reaper s) = seq 1 (r_nb (s_reaper s))).
Proof.
  intro H. pose proof (inv_reaper s H) as R. unfold reaper_ok in R.
  destruct (r_status (s_reaper s)); split; try discriminate; try (intro; exact R); try contradiction.
Qed.

(* once every batch has a finished grower, 4 * nb further reaper steps complete the reap *)
Lemma reaper_terminates s : Inv s ->
  (forall i, 1 <= i <= r_nb (s_reaper s) ->
     exists g, In g (s_growers s) /\ g_batch g = i /\ g_done pa g = true) ->
  let s' := run pa s (repeat (reaper_id s) (4 * r_nb (s_reaper s))) in
  r_status (s_reaper s') = RDone /\ r_read (s_reaper s') = seq 1 (r_nb (s_reaper s)).
Proof.
  intros H Hall s'.
  assert (Hst : r_status (s_reaper s') = RDone).
  { unfold s', reaper_id. rewrite run_repeat_reaper. cbn [s_reaper set_reaper].
    apply (iter_rstep_done (s_fs s) (s_growers s)).
    - exact (inv_results s H).
    - intros i Hi. destruct (Hall i Hi) as (g & Hg & Hb & Hd).
      destruct (done_grower_result s g H Hg Hd) as [E _]. rewrite Hb in E. rewrite E. discriminate.
    - exact (inv_reaper s H).
    - pose proof (inv_reaper s H) as R. unfold reaper_ok in R. unfold mu.
      destruct (r_status (s_reaper s)) eqn:Est; try lia.
      pose proof (mu_bound (s_reaper s)) as B. unfold mu in B. rewrite Est in B. apply B. tauto. }
  split; [exact Hst|].
  assert (HI : Inv s') by (unfold s'; now apply run_preserves_Inv).
  destruct (reaper_never_fails s' HI) as [_ Hd]. rewrite (Hd Hst). unfold s'. now rewrite run_nb.
Qed.
