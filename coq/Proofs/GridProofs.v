(* The iterative _unflatten equals the recursive specification [build], and what the
   built nest holds at every index vector -- for any number of dimensions and sizes. *)
From XV Require Import Prelude Grid.
Open Scope Z_scope.

Lemma list_eqb_eq a b : list_eqb a b = true <-> a = b.
Proof.
  revert b. induction a as [|x a IH]; intros [|y b]; cbn; try (split; [discriminate|discriminate]); try tauto.
  rewrite andb_true_iff, Z.eqb_eq, IH. split.
  - intros [-> ->]. reflexivity.
  - intros H. injection H as -> ->. split; reflexivity.
Qed.

Lemma list_eqb_refl a : list_eqb a a = true.
Proof. apply list_eqb_eq. reflexivity. Qed.

Lemma list_eqb_neq a b : list_eqb a b = false <-> a <> b.
Proof.
  split.
  - intros H E. apply list_eqb_eq in E. congruence.
  - intros H. destruct (list_eqb a b) eqn:E; [apply list_eqb_eq in E; contradiction|reflexivity].
Qed.

Section Lookup.
  Context {V : Type}.

  Lemma lookup_map_key (g : list Z -> V) ks k d :
    In k ks -> lookup (map (fun p => (p, g p)) ks) k d = g k.
  Proof.
    induction ks as [|k0 ks IH]; intros Hin; [destruct Hin|].
    cbn. destruct (list_eqb k0 k) eqn:E.
    - apply list_eqb_eq in E. subst. reflexivity.
    - apply list_eqb_neq in E. destruct Hin as [->|Hin]; [contradiction|]. apply IH, Hin.
  Qed.

  Lemma lookup_map_absent (g : list Z -> V) ks k d :
    ~ In k ks -> lookup (map (fun p => (p, g p)) ks) k d = d.
  Proof.
    induction ks as [|k0 ks IH]; intros Hnin; [reflexivity|].
    cbn. destruct (list_eqb k0 k) eqn:E.
    - apply list_eqb_eq in E. subst. exfalso. apply Hnin. left. reflexivity.
    - apply IH. intros H. apply Hnin. right. exact H.
  Qed.

  Lemma combine_map_key (g : list Z -> V) ks :
    combine ks (map g ks) = map (fun p => (p, g p)) ks.
  Proof. induction ks as [|k ks IH]; cbn; [reflexivity|]. rewrite IH. reflexivity. Qed.
End Lookup.

Section Build.
  Context {R : Type}.

  (* [build] only consults [look] at keys prefix ++ vs with vs in the product *)
  Lemma build_ext (dims : list (list Z)) : forall (l1 l2 : list Z -> nest R) prefix,
    (forall vs, In vs (product dims) -> l1 (prefix ++ vs) = l2 (prefix ++ vs)) ->
    build dims l1 prefix = build dims l2 prefix.
  Proof.
    induction dims as [|d ds IH]; intros l1 l2 prefix H; cbn.
    - specialize (H [] (or_introl eq_refl)). rewrite app_nil_r in H. exact H.
    - f_equal. apply map_ext_in. intros v Hv. apply IH. intros vs Hvs.
      rewrite <- !app_assoc. cbn. apply H. cbn. apply in_flat_map. exists v. split; [exact Hv|].
      apply in_map. exact Hvs.
  Qed.

  Lemma build_snoc (dims : list (list Z)) : forall (look : list Z -> nest R) last prefix,
    build (dims ++ [last]) look prefix
    = build dims (fun p => Node (map (fun v => look (p ++ [v])) last)) prefix.
  Proof.
    induction dims as [|d ds IH]; intros look last prefix; cbn.
    - reflexivity.
    - f_equal. apply map_ext. intros v. apply IH.
  Qed.

  Lemma lookup_round (store : list (list Z * nest R)) dims last d p :
    In p (product dims) ->
    lookup (unflatten_round store dims last d) p d
    = Node (map (fun v => lookup store (p ++ [v]) d) last).
  Proof.
    intros Hin. unfold unflatten_round.
    exact (lookup_map_key (fun p => Node (map (fun v => lookup store (p ++ [v]) d) last)) _ p d Hin).
  Qed.

  Lemma unflatten_loop_spec (rdims : list (list Z)) : forall (store : list (list Z * nest R)) d,
    lookup (unflatten_loop store rdims d) [] d
    = build (rev rdims) (fun k => lookup store k d) [].
  Proof.
    induction rdims as [|last rest IH]; intros store d; cbn [unflatten_loop rev].
    - reflexivity.
    - rewrite IH, build_snoc. apply build_ext. intros vs Hvs. cbn [app].
      apply lookup_round. exact Hvs.
  Qed.

  (* the iterative algorithm of combo_runner.py computes the recursive specification *)
  Theorem unflatten_is_build (store : list (list Z * nest R)) dims d :
    unflatten store dims d = build dims (fun k => lookup store k d) [].
  Proof. unfold unflatten. rewrite unflatten_loop_spec, rev_involutive. reflexivity. Qed.

  Lemma nest_at_build (dims : list (list Z)) : forall (look : list Z -> nest R) prefix idx vs,
    vals_at dims idx = Some vs ->
    nest_at (build dims look prefix) idx = Some (look (prefix ++ vs)).
  Proof.
    induction dims as [|d ds IH]; intros look prefix idx vs H.
    - destruct idx; [|discriminate]. cbn in H. injection H as <-. cbn. rewrite app_nil_r. reflexivity.
    - destruct idx as [|i idx]; [discriminate|]. cbn in H.
      destruct (nth_error d i) as [v|] eqn:Hv; [|discriminate].
      destruct (vals_at ds idx) as [vs'|] eqn:Hvs; [|discriminate].
      injection H as <-. cbn. rewrite nth_error_map, Hv. cbn.
      rewrite (IH look (prefix ++ [v]) idx vs' Hvs), <- app_assoc. reflexivity.
  Qed.
End Build.

Lemma vals_at_in_product (dims : list (list Z)) : forall idx vs,
  vals_at dims idx = Some vs -> In vs (product dims).
Proof.
  induction dims as [|d ds IH]; intros idx vs H.
  - destruct idx; [|discriminate]. injection H as <-. left. reflexivity.
  - destruct idx as [|i idx]; [discriminate|]. cbn in H.
    destruct (nth_error d i) as [v|] eqn:Hv; [|discriminate].
    destruct (vals_at ds idx) as [vs'|] eqn:Hvs; [|discriminate].
    injection H as <-. cbn. apply in_flat_map. exists v. split; [eapply nth_error_In, Hv|].
    apply in_map. eapply IH, Hvs.
Qed.

Lemma in_product_vals_at (dims : list (list Z)) : forall vs,
  In vs (product dims) -> exists idx, vals_at dims idx = Some vs.
Proof.
  induction dims as [|d ds IH]; intros vs H.
  - destruct H as [<-|[]]. exists []. reflexivity.
  - cbn in H. apply in_flat_map in H as (v & Hv & H). apply in_map_iff in H as (vs' & <- & Hvs').
    destruct (IH vs' Hvs') as [idx Hidx]. apply In_nth_error in Hv as [i Hi].
    exists (i :: idx). cbn. rewrite Hi, Hidx. reflexivity.
Qed.

Lemma length_product {A} (ls : list (list A)) :
  length (product ls) = fold_right (fun l acc => (length l * acc)%nat) 1%nat ls.
Proof.
  induction ls as [|l ls IH]; cbn; [reflexivity|].
  rewrite <- IH. induction l as [|x l IHl]; cbn; [reflexivity|].
  rewrite app_length, map_length, IHl. reflexivity.
Qed.

Lemma product_lengths {A} (ls : list (list A)) vs :
  In vs (product ls) -> length vs = length ls.
Proof.
  revert vs. induction ls as [|l ls IH]; intros vs H; cbn in H.
  - destruct H as [<-|[]]. reflexivity.
  - apply in_flat_map in H as (x & _ & H). apply in_map_iff in H as (vs' & <- & H').
    cbn. f_equal. apply IH, H'.
Qed.

Lemma product_app {A} (l1 l2 : list (list A)) vs :
  In vs (product (l1 ++ l2)) <->
  exists a b, vs = a ++ b /\ In a (product l1) /\ In b (product l2).
Proof.
  revert vs. induction l1 as [|l l1 IH]; intros vs; cbn.
  - split.
    + intros H. exists [], vs. repeat split; [left; reflexivity|exact H].
    + intros (a & b & -> & [<-|[]] & Hb). exact Hb.
  - rewrite in_flat_map. split.
    + intros (x & Hx & H). apply in_map_iff in H as (vs' & <- & H'). apply IH in H' as (a & b & -> & Ha & Hb).
      exists (x :: a), b. repeat split; [|exact Hb]. apply in_flat_map. exists x. split; [exact Hx|].
      apply in_map, Ha.
    + intros (a & b & -> & Ha & Hb). apply in_flat_map in Ha as (x & Hx & Ha).
      apply in_map_iff in Ha as (a' & <- & Ha'). exists x. split; [exact Hx|].
      cbn. apply in_map. apply IH. exists a', b. repeat split; assumption.
Qed.
