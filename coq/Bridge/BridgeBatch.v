(* Proof obligations of the translator: the Gallina regenerated from
   xyzpy/gen/cropping.py on this run equals the hand-written model. *)
From XV Require Import Prelude Batch GenBatch.
Open Scope Z_scope.

Lemma bridge_choose : forall cne pc sne lc bs nb r,
  gen_choose cne pc sne lc bs nb r = choose (total_n cne pc sne lc) bs nb r.
Proof.
  intros cne pc sne lc bs nb r.
  unfold gen_choose, choose, total_n.
  destruct cne, sne, bs as [s|], nb as [k|], r as [x|]; cbn [negb];
    repeat match goal with
           | |- context [if ?c then _ else _] => destruct c eqn:?
           end;
    try reflexivity; try lia;
    repeat match goal with
           | H : (_ && _)%bool = true |- _ => apply andb_true_iff in H; destruct H
           | H : (_ && _)%bool = false |- _ => apply andb_false_iff in H; destruct H
           end;
    try (rewrite ?Z.mul_1_l, ?Z.mul_1_r in *; reflexivity || lia).
Qed.

Lemma bridge_sower_call : forall cnt bc s r,
  gen_sower_call cnt bc s r = (cnt + 1, true, cut s r (cnt + 1) bc).
Proof.
  intros. unfold gen_sower_call, cut.
  destruct (cnt + 1 =? s + b2z (bc <? r)); reflexivity.
Qed.

Lemma bridge_save_batch : forall bc cnt,
  gen_save_batch bc cnt = (bc + 1, bc + 1, 0, true).
Proof. reflexivity. Qed.

Lemma bridge_sower_exit : forall b, gen_sower_exit b = b.
Proof. destruct b; reflexivity. Qed.

Lemma bridge_reload_overrides : gen_reload_overrides_request = true.
Proof. reflexivity. Qed.
