(* Translator obligations: the stage programs of the reap entry points and the shuffle wiring
   regenerated from cropping.py are the ones the model reasons about. *)
From XV Require Import Prelude Stages GenStages.

Lemma bridge_prog : forall e, gen_prog e = model_prog e.
Proof. intros []; reflexivity. Qed.

Lemma bridge_dispatch : forall k, gen_dispatch k = model_dispatch k.
Proof. intros []; reflexivity. Qed.

Lemma bridge_wiring : gen_wiring = model_wiring.
Proof. reflexivity. Qed.
