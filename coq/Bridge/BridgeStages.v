(* Translator obligations: the stage programs of the reap entry points and the shuffle wiring
   regenerated from cropping.py are the ones the model reasons about. *)
From XV Require Import Prelude Stages GenStages.

Lemma bridge_prog : forall e, gen_prog e = model_prog e.
Proof. intros []; reflexivity. Qed.

Lemma bridge_dispatch : forall k, gen_dispatch k = model_dispatch k.
Proof. intros []; reflexivity. Qed.

Lemma bridge_wiring : gen_wiring = model_wiring.
Proof. reflexivity. Qed.

Lemma bridge_sow_combos_sites : gen_sow_combos_sites = model_sow_combos_sites.
Proof. reflexivity. Qed.
Lemma bridge_sow_cases_sites : gen_sow_cases_sites = model_sow_cases_sites.
Proof. reflexivity. Qed.

(* consistent sites denote one description *)
Lemma dterm_eqb_eq a : forall b, dterm_eqb a b = true -> a = b.
Proof.
  induction a as [|a IH|a IH|]; intros [|b|b|] H; cbn in H; try discriminate; try reflexivity;
    f_equal; apply IH; exact H.
Qed.
Lemma consistent_one_description s :
  descr_consistent s = true ->
  ds_saved_combos s = ds_run_combos s /\ ds_saved_cases s = ds_run_cases s
  /\ ds_batch_combos s = ds_run_combos s /\ ds_batch_cases s = ds_run_cases s.
Proof.
  unfold descr_consistent. intros H.
  apply Bool.andb_true_iff in H as [H H4]. apply Bool.andb_true_iff in H as [H H3].
  apply Bool.andb_true_iff in H as [H1 H2].
  repeat split; apply dterm_eqb_eq; assumption.
Qed.

Lemma bridge_info_from_disk : gen_info_read_from_disk_each_time = true.
Proof. reflexivity. Qed.
