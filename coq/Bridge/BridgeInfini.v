(* Translator obligations for C18: what Gen/GenInfini.v extracts from infiniplot.py is what
   Model/Infini.v assumes (order of the init_mapped_dim calls, default value sources and their
   constants, stack -> sel -> dropna(how='all'), panel indexing, style loop, default tables). *)
From XV Require Import Prelude Infini GenInfini.
Open Scope Z_scope.

Lemma bridge_init_order : gen_init_order = prop_names.
Proof. reflexivity. Qed.

Lemma bridge_init_defaults :
  gen_init_defaults = [DHueSweep; DLinspace 0 1; DCycleMarkers; DLinspace ms_lo ms_hi; DAutoColors;
                       DCycleLinestyles; DLinspace lw_lo lw_hi; DNone; DNone].
Proof. reflexivity. Qed.

Lemma bridge_init_steps : gen_init_steps = init_step_names /\ gen_dropna_how = dropna_how.
Proof. split; reflexivity. Qed.

Lemma bridge_panel : gen_panel_lines = panel_names /\ gen_panel_heat = panel_names.
Proof. split; reflexivity. Qed.

Lemma bridge_style_loop : gen_style_loop = style_loop_names.
Proof. reflexivity. Qed.

Lemma bridge_tables :
  gen_n_markers = n_markers /\ gen_markers_distinct = true
  /\ gen_n_linestyles = n_linestyles /\ gen_linestyles_distinct = true
  /\ gen_n_colors = n_colors /\ gen_colors_distinct = true.
Proof. repeat split; reflexivity. Qed.

Lemma bridge_hist : gen_hist_density = "density=self.bins_density"%string.
Proof. reflexivity. Qed.

(* '__hist_dim__' is a stack of the unmapped dimensions, or a length-one dimension when there is none *)
Lemma bridge_hist_stack : gen_hist_stack = hist_dim_shape.
Proof. reflexivity. Qed.
