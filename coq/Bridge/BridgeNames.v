(* Translator obligations for file names, attribute coercion and the per-site paths. *)
From XV Require Import Prelude Names GenNames.

Lemma bridge_extensions : gen_extensions = model_extensions.
Proof. reflexivity. Qed.

Lemma bridge_auto_add_extension : forall n e, gen_auto_add_extension n e = auto_add_extension n e.
Proof. intros. reflexivity. Qed.

Lemma bridge_attr_coerce : forall e a, gen_attr_coerce e a = attr_coerce e a.
Proof. intros [] []; reflexivity. Qed.

Lemma bridge_sites : gen_sites = model_sites.
Proof. reflexivity. Qed.

(* wherever an engine is in scope, every load / save call names it (so a file is read and written with the
   engine whose extension its name carries) *)
Lemma bridge_engine_forwarded : gen_engine_forwarded_everywhere = true.
Proof. reflexivity. Qed.

Lemma bridge_dtype_rule : gen_dtype_rule = model_dtype_rule.
Proof. reflexivity. Qed.
