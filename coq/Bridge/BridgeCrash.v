(* Translator obligations for C10: the order of file-system effects regenerated from
   cropping.py / farming.py (GenCrash), the stage order of the reap entry points (GenStages) and
   the harvester's save path (GenNames) are the ones Model/CrashFS.v refines into atomic steps. *)
From XV Require Import Prelude CrashFS Stages Names GenCrash GenStages GenNames.

Lemma bridge_shape : gen_shape = model_shape.
Proof. reflexivity. Qed.

(* write_to_disk = create the unique temporary file, dump, close, os.replace *)
Lemma bridge_write b p w : steps_of_write (cs_write gen_shape) b p w = write b p w.
Proof. reflexivity. Qed.

(* sow_combos / sow_cases: Crop.prepare (directories, function, settings) and then the Sower's
   batches 1, 2, ..., every file through write_to_disk *)
Lemma bridge_sow_combos st sw w : steps_of_sow gen_shape (cs_sow_combos gen_shape) st sw w = sow_steps st sw w.
Proof.
  unfold steps_of_sow, steps_of_prepare, sow_steps, sow_files, mkdir_steps.
  cbn [gen_shape cs_sow_combos cs_prepare cs_dirs cs_write flat_map].
  unfold steps_of_dirs. cbn [flat_map]. rewrite !app_nil_r. rewrite <- !app_assoc. reflexivity.
Qed.
Lemma bridge_sow_cases st sw w : steps_of_sow gen_shape (cs_sow_cases gen_shape) st sw w = sow_steps st sw w.
Proof. exact (bridge_sow_combos st sw w). Qed.

Lemma bridge_writers :
  cs_writers_atomic gen_shape = true /\ cs_batch_counter_first gen_shape = true /\ cs_tmp_unique gen_shape = true.
Proof. repeat split; reflexivity. Qed.

(* grow: one write, after the loop over every case of the batch *)
Lemma bridge_grow :
  write_after_loop (cs_grow gen_shape) false = true
  /\ length (filter (fun g => match g with GWrite => true | _ => false end) (cs_grow gen_shape)) = 1%nat.
Proof. split; reflexivity. Qed.

(* save_full_ds / save_full_df: the new file is complete under <name>.tmp before it replaces the old one *)
Lemma bridge_save_ds p : steps_of_save (cs_save_ds gen_shape) BData p = write BData p 0.
Proof. reflexivity. Qed.
Lemma bridge_save_df p : steps_of_save (cs_save_df gen_shape) BTable p = write BTable p 0.
Proof. reflexivity. Qed.
Lemma bridge_save_names :
  cs_save_ds_tmp_suffix gen_shape = true /\ cs_save_df_tmp_suffix gen_shape = true
  /\ p_hsave_removes_first gen_sites = false /\ p_hsave_tmp_write gen_sites = PResolvedTmp
  /\ p_hsave_replace_dst gen_sites = PResolved.
Proof. repeat split; reflexivity. Qed.

(* reap of a harvester / sampler crop: the sync (merge and save, step 6) comes before the deletion,
   and nothing that can fail comes after the deletion *)
Lemma bridge_sync_then_delete :
  reap_prims gen_prog gen_dispatch FHarvester None false
  = [PFallible 7; PFallible 2; PFallible 1; PFallible 2; PFallible 3; PFallible 4; PFallible 5; PFallible 6; PDelete]
  /\ reap_prims gen_prog gen_dispatch FSampler None false
  = [PFallible 7; PFallible 2; PFallible 1; PFallible 2; PFallible 3; PFallible 4; PFallible 5; PFallible 6; PDelete]
  /\ reap_prims gen_prog gen_dispatch FNone None false
  = [PFallible 1; PFallible 2; PFallible 3; PFallible 5; PDelete]
  /\ reap_prims gen_prog gen_dispatch FRunner None false
  = [PFallible 2; PFallible 1; PFallible 2; PFallible 3; PFallible 4; PFallible 5; PDelete].
Proof. repeat split; vm_compute; reflexivity. Qed.
