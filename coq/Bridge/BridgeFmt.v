(* Proof obligation of the translator for C20: the Gallina regenerated from
   xyzpy/utils.py (format_number_with_error) on this run equals the hand-written model.
   The regenerated code works on STRINGS (f-string, split("e"), replace(".", ""), int(...));
   the model works on the decimal exponent and the mantissa digits; the lemmas below show that
   splitting and re-reading the printed strings recovers exactly those. *)
From XV Require Import Prelude DecFmt DecFmtProofs GenFmt.
From Coq Require Import QArith.
Open Scope Z_scope.

Lemma to_str_app a b : to_str (a ++ b) = String.append (to_str a) (to_str b).
Proof. induction a as [|c a IH]; cbn; [reflexivity|]. f_equal. exact IH. Qed.

Lemma digit_char_is_digit d : char_digit (digit_char d) <> None.
Proof.
  unfold digit_char.
  repeat match goal with |- context [if ?c then _ else _] => destruct c end; discriminate.
Qed.

Lemma digit_char_ne c d : char_digit c = None -> Ascii.eqb (digit_char d) c = false.
Proof.
  intros Hc. destruct (Ascii.eqb (digit_char d) c) eqn:E; [|reflexivity].
  apply Ascii.eqb_eq in E. subst c. exfalso. exact (digit_char_is_digit d Hc).
Qed.

Definition noe (c : Ascii.ascii) : Prop := Ascii.eqb c "e" = false.

Lemma chars_noe ds : Forall noe (chars ds).
Proof. induction ds; constructor; [apply digit_char_ne; reflexivity|assumption]. Qed.

Lemma sign_noe b : Forall noe (sign_l b).
Proof. destruct b; repeat constructor. Qed.

Lemma mant_noe prec v : Forall noe (mant_l prec v).
Proof.
  unfold mant_l. apply Forall_app. split; [apply sign_noe|].
  apply Forall_app. split; [apply chars_noe|].
  destruct (prec <=? 0); [constructor|]. constructor; [reflexivity|apply chars_noe].
Qed.

Lemma split_e_l_app a b : Forall noe a -> split_e_l (a ++ "e"%char :: b) = (a, b).
Proof.
  induction 1 as [|c a Hc _ IH]; [reflexivity|].
  cbn [app split_e_l]. unfold noe in Hc. rewrite Hc, IH. reflexivity.
Qed.

Lemma split_fmt_e prec v :
  split_e (fmt_e_str prec v) = (to_str (mant_l prec v), to_str (exp_l (dexp prec (fmag v)))).
Proof.
  unfold split_e, fmt_e_str, fmt_e_l. rewrite of_to_str, split_e_l_app by apply mant_noe.
  reflexivity.
Qed.

Lemma int_of_exp e : int_of_str (to_str (exp_l e)) = e.
Proof. unfold int_of_str. rewrite of_to_str, parse_exp_l. reflexivity. Qed.

(* int(f"{v:.Pe}".split("e")[1]) is the decimal exponent *)
Lemma exponent_field prec v :
  int_of_str (snd (split_e (fmt_e_str prec v))) = dexp prec (fmag v).
Proof. rewrite split_fmt_e. cbn [snd]. apply int_of_exp. Qed.

Lemma remove_dot_chars ds : remove_dot_l (chars ds) = chars ds.
Proof.
  induction ds as [|d ds IH]; [reflexivity|].
  cbn [chars map remove_dot_l filter]. rewrite digit_char_ne by reflexivity.
  cbn [negb]. f_equal. exact IH.
Qed.

Lemma fmt_e_m_range prec q : 0 <= prec -> 0 <= fst (fmt_e prec q) < 10 ^ (prec + 1).
Proof.
  intros Hp. destruct (Z_le_gt_dec (Qnum q) 0) as [Hn|Hn].
  - unfold fmt_e. destruct (Qnum q <=? 0) eqn:C; [|apply Z.leb_gt in C; lia].
    cbn [fst]. pose proof (pow10_pos (prec + 1) ltac:(lia)). lia.
  - assert (Hq : (0 < q)%Q) by (unfold Qlt; cbn; lia).
    pose proof (fmt_e_spec prec q Hp Hq) as H. destruct (fmt_e prec q) as [m e].
    cbn [fst]. destruct H as ((H1 & H2) & _). pose proof (pow10_pos prec Hp). lia.
Qed.

(* the mantissa "d.d" with the point removed: the two digits of the mantissa integer *)
Lemma mantissa_digits v :
  remove_dot (to_str (mant_l 1 v))
  = to_str (sign_l (fneg v) ++ chars (fixw 2 (fst (fmt_e 1 (fmag v))))).
Proof.
  unfold remove_dot. rewrite of_to_str. f_equal.
  pose proof (fmt_e_m_range 1 (fmag v) ltac:(lia)) as Hm. change (10 ^ (1 + 1)) with 100 in Hm.
  unfold mant_l. set (m := fst (fmt_e 1 (fmag v))) in *.
  change (1 <=? 0) with false. cbv iota. change (10 ^ 1) with 10. change (Z.to_nat 1) with 1%nat.
  unfold remove_dot_l. rewrite !filter_app. fold (remove_dot_l (chars [m / 10])).
  rewrite remove_dot_chars.
  replace (filter _ (sign_l (fneg v))) with (sign_l (fneg v)) by (destruct (fneg v); reflexivity).
  cbn [filter]. change (Ascii.eqb "." ".") with true. cbn [negb].
  fold (remove_dot_l (chars (fixw 1 (m mod 10)))). rewrite remove_dot_chars.
  f_equal. rewrite <- chars_app. f_equal.
  unfold fixw. cbn [fixw_le rev app].
  rewrite Z.mod_mod by lia.
  rewrite (Z.mod_small (m / 10) 10); [reflexivity|].
  split; [apply Z.div_pos; lia|apply Z.div_lt_upper_bound; lia].
Qed.

(* the return expression *)
Lemma assemble A B S :
  String.append (to_str A)
    (String.append "(" (String.append (to_str B) (String.append ")" (to_str S))))
  = to_str (A ++ "("%char :: B ++ ")"%char :: S).
Proof. rewrite to_str_app. cbn. rewrite to_str_app. reflexivity. Qed.

Lemma tail_of_format x err sfx :
  (let '(mantissa, exponent) := split_e (fmt_e_str 1 err) in
   Ok (String.append (fmt_f_str (Z.max 0 (1 - int_of_str exponent)) x)
         (String.append "(" (String.append (remove_dot mantissa)
            (String.append ")" (to_str (suffix_l sfx)))))))
  = Ok (render x err sfx).
Proof.
  rewrite split_fmt_e, int_of_exp, mantissa_digits. unfold fmt_f_str. rewrite assemble.
  unfold render, render_l, render_with, dexp, nd_rule.
  destruct (fmt_e 1 (fmag err)) as [m e]. cbn [fst snd]. rewrite <- app_assoc. reflexivity.
Qed.

Theorem bridge_format : forall (ops : fops) (x err : FT ops),
  gen_format ops x err = format ops x err.
Proof.
  intros ops x err. unfold gen_format, format, format_with, x_exponent_of, x_exponent_old, hide_of.
  rewrite !exponent_field.
  set (k := Z.min (Z.max (dexp 6 (fmag (fval ops x))) (dexp 6 (fmag (fval ops err)) + 1)) 308).
  change (- (1)) with (-1).
  destruct (((k =? 0) || (k =? -1))
            || ((k =? 1) && fl_lt (fval ops err) (fl_abs (fval ops (fdiv ops x (fofZ ops 10)))))).
  - exact (tail_of_format (fval ops x) (fval ops err) None).
  - destruct (fpow10 ops k) as [p|t]; [|reflexivity].
    exact (tail_of_format (fval ops (fdiv ops x p)) (fval ops (fdiv ops err p)) (Some k)).
Qed.
