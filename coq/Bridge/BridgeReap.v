(* Translator obligations: reaping / progress decision logic regenerated from cropping.py
   equals the model (Model/Crop.v). *)
From XV Require Import Prelude Crop GenReap.
Open Scope Z_scope.

Lemma bridge_clean_up : forall cu allow, gen_clean_up_default cu allow = (eff_clean_up cu allow, allow).
Proof. intros [[|]|] [|]; reflexivity. Qed.

Lemma bridge_check_ready : forall allow ready,
  gen_check_ready allow false ready = if negb (allow || ready) then Err E_XYZ else Ok tt.
Proof. intros [|] [|]; reflexivity. Qed.

Lemma bridge_check_ready_wait : forall allow ready, gen_check_ready allow true ready = Ok tt.
Proof. intros [|] [|]; reflexivity. Qed.

Lemma bridge_is_ready : forall nr ns, gen_is_ready nr ns = (0 <? nr) && (nr =? ns).
Proof. intros. unfold gen_is_ready. rewrite Z.gtb_ltb. reflexivity. Qed.

Lemma bridge_missing : forall nb e, gen_missing_range nb = (1, nb + 1) /\ gen_no_result e = negb e.
Proof. intros. split; reflexivity. Qed.

Lemma bridge_use_default : forall allow isfile, gen_use_default allow false isfile = allow && negb isfile.
Proof. intros [|] [|]; reflexivity. Qed.

Lemma bridge_size : gen_size_from_batch_file = true /\ gen_leftover_is_error = true.
Proof. split; reflexivity. Qed.

(* both reap entry points hand the Reaper the saved batch count, the caller's wait flag, the placeholder and
   the caller's allow_incomplete (so that a bool / str crop, whose placeholder is None, is still reaped
   partially when asked to) *)
Lemma bridge_reaper_calls :
  gen_reaper_call_raw = (true, true, true, true) /\ gen_reaper_call_to_ds = (true, true, true, true).
Proof. split; reflexivity. Qed.

Lemma bridge_reference_result : gen_reference_result_is_pinned = true.
Proof. reflexivity. Qed.
