(* the regenerated data path of the classic plots is the modelled one *)
From XV Require Import Prelude PlotSeries PlotFlow GenPlot.

Lemma bridge_plot_flow : gen_plot_flow = model_plot_flow.
Proof. reflexivity. Qed.

Lemma bridge_plot_sources : gen_plot_sources_checked = true /\ gen_plot_helpers_pinned = true.
Proof. split; reflexivity. Qed.
