(* Translator obligations: the wiring of is_case_missing / find_missing_cases /
   parse_into_cases regenerated from case_runner.py is the one Model/DsMap.v assumes, hence
   the regenerated functions are the model functions the C13 theorems are about. *)
From XV Require Import Prelude Grid DsMap Missing GenMissing.
Open Scope Z_scope.

Lemma bridge_wiring : gen_wiring = model_wiring.
Proof. reflexivity. Qed.

Lemma bridge_is_case_missing : forall ds s method,
  is_case_missing_w gen_wiring ds s method = is_case_missing ds s method.
Proof. intros. rewrite bridge_wiring. reflexivity. Qed.

Lemma bridge_find_missing : forall ds ignore method,
  find_missing_w gen_wiring ds ignore method = find_missing ds ignore method.
Proof. intros. rewrite bridge_wiring. reflexivity. Qed.

Lemma bridge_parse_into_cases : forall combos cases ds method,
  parse_into_cases_w gen_wiring combos cases ds method = parse_into_cases combos cases ds method.
Proof. intros. rewrite bridge_wiring. unfold parse_into_cases_w, parse_into_cases. destruct ds; reflexivity. Qed.
