(* Translator obligations: the data flow of combo_runner_core regenerated from
   combo_runner.py denotes exactly the lists of the runner model. *)
From XV Require Import Prelude Grid Perm Runner Flow GenRunner.

Definition run_prov (i : input) : prov :=
  match i_perm i with Some _ => gen_run_shuffled | None => gen_run_plain end.
Definition results_prov (i : input) : prov :=
  match i_perm i with Some _ => gen_results_shuffled | None => gen_results_plain end.
Definition info_prov (i : input) : prov :=
  match i_perm i with Some _ => gen_info_settings_shuffled | None => gen_info_settings_plain end.

Lemma bridge_run {R} (f : kwargs -> R) i : interp f i (run_prov i) = DS (run_order i).
Proof. unfold run_prov, run_order. destruct (i_perm i) eqn:E; cbn; rewrite ?E; reflexivity. Qed.

Lemma bridge_results {R} (f : kwargs -> R) i : interp f i (results_prov i) = DR (results_linear f i).
Proof. unfold results_prov, results_linear, run_order. destruct (i_perm i) eqn:E; cbn; rewrite ?E; reflexivity. Qed.

Lemma bridge_info {R} (f : kwargs -> R) i : interp f i (info_prov i) = DS (settings i).
Proof. unfold info_prov. destruct (i_perm i) eqn:E; cbn; reflexivity. Qed.

Lemma bridge_flags : gen_unflatten_is_transcribed = true /\ gen_return_uses_results_linear = true.
Proof. split; reflexivity. Qed.

Lemma bridge_duplicates : gen_duplicates_rejected_by_equality = true.
Proof. reflexivity. Qed.

Lemma bridge_prologue : gen_prologue_is_transcribed = true.
Proof. reflexivity. Qed.

Lemma bridge_linear_runners : gen_linear_runners_are_transcribed = true.
Proof. reflexivity. Qed.

Lemma bridge_prepare_pinned : gen_prepare_is_pinned = true.
Proof. reflexivity. Qed.

Lemma bridge_placeholder_pinned : gen_placeholder_is_pinned = true.
Proof. reflexivity. Qed.
