(* Translator obligations: the description a farmer's crop hands to the Dataset / DataFrame
   builder, regenerated from cropping.py / farming.py, is the model's. *)
From XV Require Import Prelude Farmer GenFarmer.

Lemma bridge_reap_to_ds : gen_reap_to_ds_call = model_reap_to_ds_call.
Proof. reflexivity. Qed.
Lemma bridge_reap_runner : gen_reap_runner_call = model_reap_runner_call.
Proof. reflexivity. Qed.
Lemma bridge_run_combos : gen_run_combos_call = model_run_combos_call.
Proof. reflexivity. Qed.
Lemma bridge_run_cases : gen_run_cases_call = model_run_combos_call.
Proof. reflexivity. Qed.
Lemma bridge_constants_order : gen_sown_constants_order = gen_direct_constants_order.
Proof. reflexivity. Qed.
Lemma bridge_farmer_flags :
  gen_records_last = true /\ gen_harvest_uses_add_ds = true /\ gen_samples_use_add_df = true.
Proof. repeat split; reflexivity. Qed.

(* every entry point of the crop route and of the direct route has the same default merge policy (None:
   merge unless conflicting) and syncs by default; Crop.reap forwards both *)
Lemma bridge_policy_defaults :
  forallb (fun qd => match snd qd with None => true | Some _ => false end) gen_overwrite_defaults = true
  /\ forallb (fun qd => match snd qd with Some true => true | _ => false end) gen_sync_defaults = true
  /\ gen_reap_forwards_policy = true.
Proof. repeat split; reflexivity. Qed.
