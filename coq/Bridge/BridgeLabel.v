(* The regenerated shape of results_to_df / results_to_ds is the model's, and the interpreters of that shape
   are Label.df_row / Label.to_ds. *)
From XV Require Import Prelude Grid Perm Runner Label LabelFlow GenLabel.
Open Scope Z_scope.

Lemma bridge_label_flow : gen_label_flow = model_label_flow.
Proof. reflexivity. Qed.

Lemma bridge_multi_concat : gen_multi_concat_is_pinned = true.
Proof. reflexivity. Qed.

Section B.
  Context {R : Type}.
  Variable comps : R -> list R.

  Lemma df_row_flow_model resources attrs var_names s (r : R) :
    df_row_flow comps model_label_flow resources attrs var_names s r = df_row comps resources attrs var_names s r.
  Proof. reflexivity. Qed.

  Lemma to_ds_flow_model var_names var_dims var_coords constants attrs args coords (o : out R) :
    to_ds_flow model_label_flow var_names var_dims var_coords constants attrs args coords o
    = match to_ds var_names var_dims var_coords constants attrs args coords o with
      | Ok d => Ok (d, attrs)
      | Err e => Err e
      end.
  Proof.
    unfold to_ds_flow.
    destruct (to_ds var_names var_dims var_coords constants attrs args coords o) as [d|e] eqn:E; [|reflexivity].
    unfold to_ds in E.
    match type of E with (match ?n with Some _ => _ | None => _ end) = _ => destruct n as [ns|]; [|discriminate] end.
    destruct (negb (Nat.eqb (length ns) (length var_names))); [discriminate|].
    injection E as <-. cbn [dm_vars lf_coord_order lf_dims_args_first lf_const_rule lf_const_target lf_attrs_copied
                            model_label_flow flat_map].
    rewrite app_nil_r, map_map. reflexivity.
  Qed.
End B.
