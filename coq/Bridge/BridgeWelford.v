(* Proof obligations of the translator: the Gallina regenerated from xyzpy/utils.py on
   this run equals the hand-written model of Model/Welford.v, for every operations
   record (hence for the reals of the theorems and the binary64 of the executions). *)
From XV Require Import Prelude Welford GenWelford.
Open Scope Z_scope.

Section Bridge.
  Context {T : Type}.
  Variable Op : ops T.

  Definition rs_tuple (s : stats T) : nat * T * T := (count s, mean s, M2 s).
  Definition rc_tuple (s : cov T) : nat * T * T * T := (ccount s, xmean s, ymean s, CC s).

  Lemma bridge_rs_init : gen_rs_init Op = rs_tuple (init Op).
  Proof. reflexivity. Qed.

  Lemma bridge_rs_update : forall s x,
    gen_rs_update Op (count s) (mean s) (M2 s) x = rs_tuple (upd Op s x).
  Proof. reflexivity. Qed.

  Lemma bridge_rs_var : forall s, gen_rs_var Op (count s) (mean s) (M2 s) = var Op s.
  Proof. intro s. unfold gen_rs_var, var. destruct (count s); reflexivity. Qed.

  Lemma bridge_rs_std : forall s, gen_rs_std Op (count s) (mean s) (M2 s) = std Op s.
  Proof.
    intro s. unfold gen_rs_std, std. rewrite bridge_rs_var. destruct (count s); reflexivity.
  Qed.

  Lemma bridge_rs_err : forall s, gen_rs_err Op (count s) (mean s) (M2 s) = err Op s.
  Proof.
    intro s. unfold gen_rs_err, err. rewrite bridge_rs_std. destruct (count s); reflexivity.
  Qed.

  Lemma bridge_rs_rel_err : forall s, gen_rs_rel_err Op (count s) (mean s) (M2 s) = rel_err Op s.
  Proof.
    intro s. unfold gen_rs_rel_err, rel_err. rewrite bridge_rs_err. destruct (count s); reflexivity.
  Qed.

  Lemma bridge_rs_converged : forall s rtol atol,
    gen_rs_converged Op (count s) (mean s) (M2 s) rtol atol = converged Op s rtol atol.
  Proof. intros. unfold gen_rs_converged, converged. rewrite bridge_rs_err. reflexivity. Qed.

  Lemma bridge_rc_init : gen_rc_init Op = rc_tuple (cov_init Op).
  Proof. reflexivity. Qed.

  Lemma bridge_rc_update : forall s x y,
    gen_rc_update Op (ccount s) (xmean s) (ymean s) (CC s) x y = rc_tuple (upd_cov Op s x y).
  Proof. reflexivity. Qed.

  Lemma bridge_rc_covar : forall s, gen_rc_covar Op (ccount s) (xmean s) (ymean s) (CC s) = covar Op s.
  Proof. reflexivity. Qed.

  Lemma bridge_rc_sample_covar : forall s,
    gen_rc_sample_covar Op (ccount s) (xmean s) (ymean s) (CC s) = sample_covar Op s.
  Proof. reflexivity. Qed.

  Lemma bridge_conv_args : forall rtol tol_scale,
    gen_conv_args Op rtol tol_scale = (rtol, Stopping.atol Op rtol tol_scale).
  Proof. reflexivity. Qed.
End Bridge.

Lemma bridge_guard_conv : forall i mn mx, gen_guard_conv i mn mx = guard_conv i mn.
Proof. intros. unfold gen_guard_conv, guard_conv. apply Z.gtb_ltb. Qed.

Lemma bridge_guard_max : forall i mn mx, gen_guard_max i mn mx = guard_max i mx.
Proof. intros. unfold gen_guard_max, guard_max. apply Z.geb_leb. Qed.
