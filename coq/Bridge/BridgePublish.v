(* C11 bridge: what the translator read off write_to_disk / read_from_disk / grow / Reaper /
   the progress queries of the CURRENT xyzpy/gen/cropping.py is exactly what Model/Sched.v
   assumes.  Any edit that changes the publication protocol changes Gen/GenPublish.v and one
   of these stops checking. *)
From XV Require Import Prelude Sched GenPublish.

Lemma bridge_publish : gen_publish = publish_atomic.
Proof. reflexivity. Qed.

Lemma bridge_load : gen_load = load_model.
Proof. reflexivity. Qed.

Lemma bridge_grow_shape : gen_grow_shape = grow_shape_model.
Proof. reflexivity. Qed.

Lemma bridge_reaper_wait : gen_reaper_wait = reaper_wait_model.
Proof. reflexivity. Qed.

Lemma bridge_query_ops : gen_query_ops = query_ops_model.
Proof. reflexivity. Qed.
