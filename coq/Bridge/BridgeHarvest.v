(* The regenerated control flow of the harvester / sampler persistence code is the model's. *)
From XV Require Import Prelude Harvest HarvestFlow GenHarvest.

Lemma bridge_add_flow : gen_add_flow = model_add_flow.
Proof. reflexivity. Qed.
Lemma bridge_save_flow : gen_save_flow = model_save_flow.
Proof. reflexivity. Qed.
Lemma bridge_load_rule : gen_load_rule = model_load_rule.
Proof. reflexivity. Qed.
Lemma bridge_sadd_flow : gen_sadd_flow = model_sadd_flow.
Proof. reflexivity. Qed.
Lemma bridge_ssave_flow : gen_ssave_flow = model_save_flow.
Proof. reflexivity. Qed.
Lemma bridge_sload_rule : gen_sload_rule = model_load_rule.
Proof. reflexivity. Qed.
Lemma bridge_save_merge : gen_save_merge_dispatch = model_ow_dispatch /\ gen_save_merge_absent_is_empty = true.
Proof. split; reflexivity. Qed.

Lemma bridge_flows : gen_flows = model_flows.
Proof. reflexivity. Qed.

Lemma bridge_sampler_draw : gen_sampler_draw_is_transcribed = true.
Proof. reflexivity. Qed.
