(* Translator obligations: the selection logic regenerated from gen_cluster_script, the strings
   of its PBS rewrite and of the dynamic ids expression, and what the command line grower calls
   are the ones the model reasons about. *)
From XV Require Import Prelude Script GenTemplates.
Open Scope Z_scope.

(* [a] is the batch_ids argument as the caller spells it (absent / one int / a sequence);
   norm_ids reads the int spelling as the one-element list *)
Lemma bridge_select : forall sc md a nres missing B,
  gen_select sc md a nres missing B = select sc md (norm_ids a) nres missing B.
Proof.
  intros sc md a nres missing B.
  destruct sc, md, a as [|z|l]; unfold gen_select, select;
    cbn [arg_is_some arg_is_int arg_singleton arg_ids norm_ids negb];
    try (destruct (nres =? 0)); cbn [sched_eqb andb]; try reflexivity;
    match goal with |- context [ids_len ?e =? 1] => destruct (ids_len e =? 1) end; reflexivity.
Qed.

Lemma bridge_dynamic_expr : gen_dynamic_expr = dynamic_expr.
Proof. reflexivity. Qed.

(* the rewrite deletes exactly the PBS array line of the range 1-1 and replaces exactly the PBS
   index variable by the text of [rewrite_value] *)
Lemma bridge_rewrite :
  rewrite_ok (gen_template PPbsArrayHeader) gen_rewrite_drop gen_rewrite_var gen_rewrite_val = true.
Proof. vm_compute. reflexivity. Qed.

Lemma bridge_cli : gen_cli = CliGrowMissing /\ gen_grow_missing = GmMissingResults.
Proof. split; reflexivity. Qed.
