(* C19 -- running statistics equal the statistics of the whole sample.
   Property theorems only; every proof is `exact`/short assembly of lemmas from Proofs/.

   Vocabulary (Model/WelfordR.v): Rsum, avg, dev2 l m = sum of (x - m)^2, wvar = dev2/n,
   wstd = sqrt wvar, werr = wstd / sqrt n, wcov = sum of (x - xbar)(y - ybar) / n, all
   computed from the complete list at once.  The theorems of the first two groups are over
   the real numbers and hold for ANY list (no length bound).

   PARTIAL: the clause "to floating-point accuracy relative to the data scale" is a
   rounding-error bound on the binary64 recurrence.  It is NOT proved here; it is tested
   by the check (harness/props/c19.py) against exact rational whole-sample values.  The
   theorems below that are generic in the operations record (C19_chunks, C19_rows_columns,
   C19_stop, C19_code_tie) do hold for binary64 as they stand. *)
From Coq Require Import Reals Permutation QArith.
From XV Require Import Prelude Welford WelfordR GenWelford BridgeWelford WelfordProofs.

(* ------------------------------------------------------------------ one series *)
(* feeding l one value at a time gives count, mean and M2 of the whole sample *)
Theorem C19_whole : forall l : list R,
  update_from_it opsR (init opsR) l = mk_stats (length l) (avg l) (dev2 l (avg l)).
Proof. exact fold_whole. Qed.

Theorem C19_mean : forall l : list R, l <> [] ->
  let s := update_from_it opsR (init opsR) l in
  count s = length l /\ mean s = (Rsum l / INR (length l))%R.
Proof. intros l H s. unfold s. rewrite fold_whole. split; reflexivity. Qed.

Theorem C19_m2 : forall l : list R,
  let s := update_from_it opsR (init opsR) l in
  M2 s = Rsum (map (fun x => (x - mean s) * (x - mean s))%R l).
Proof. intros l s. unfold s. rewrite fold_whole. reflexivity. Qed.

Theorem C19_var_std_err : forall l : list R, l <> [] ->
  let s := update_from_it opsR (init opsR) l in
  var opsR s = (dev2 l (avg l) / INR (length l))%R
  /\ std opsR s = R_sqrt.sqrt (wvar l)
  /\ err opsR s = (R_sqrt.sqrt (wvar l) / R_sqrt.sqrt (INR (length l)))%R
  /\ rel_err opsR s = (werr l / Rabs (avg l))%R.
Proof.
  intros l H s. unfold s. rewrite fold_whole.
  exact (conj (whole_var l H) (conj (whole_std l H) (conj (whole_err l H) (whole_rel_err l H)))).
Qed.

(* in chunks: any operations record, any starting state *)
Theorem C19_chunks : forall (T : Type) (Op : ops T) (s : stats T) (l1 l2 : list T),
  update_from_it Op s (l1 ++ l2) = update_from_it Op (update_from_it Op s l1) l2.
Proof. intros T Op s l1 l2. exact (update_from_it_app Op l1 l2 s). Qed.

Theorem C19_any_chunking : forall (T : Type) (Op : ops T) (s : stats T) (chunks : list (list T)),
  update_chunks Op s chunks = update_from_it Op s (concat chunks).
Proof. intros T Op s chunks. exact (update_chunks_concat Op chunks s). Qed.

(* in any order (exact arithmetic): the whole state is the same *)
Theorem C19_any_order : forall l l' : list R, Permutation l l' ->
  update_from_it opsR (init opsR) l' = update_from_it opsR (init opsR) l.
Proof. intros l l' H. rewrite !fold_whole. symmetry. exact (whole_perm l l' H). Qed.

(* ------------------------------------------------------------------ two series *)
Theorem C19_cov : forall xs ys : list R,
  let p := combine xs ys in
  let s := update_cov_from_it opsR (cov_init opsR) xs ys in
  ccount s = length p
  /\ xmean s = avg (map fst p) /\ ymean s = avg (map snd p)
  /\ CC s = Rsum (map (fun q => (fst q - avg (map fst p)) * (snd q - avg (map snd p)))%R p)
  /\ covar opsR s = wcov xs ys
  /\ sample_covar opsR s = (CC s / INR (length p - 1))%R.
Proof.
  intros xs ys p s. unfold s. rewrite cov_from_it_whole.
  repeat split; reflexivity.
Qed.

Theorem C19_cov_chunks : forall (T : Type) (Op : ops T) (s : cov T) (p1 p2 : list (T * T)),
  fold_left (upd_cov_p Op) (p1 ++ p2) s = fold_left (upd_cov_p Op) p2 (fold_left (upd_cov_p Op) p1 s).
Proof. intros T Op s p1 p2. exact (update_cov_from_it_app Op p1 p2 s). Qed.

(* ------------------------------------------------------------------ the matrix *)
(* entry (i, j) is the covariance of series i and series j, the matrix is symmetric, the
   diagonal holds the variances *)
Theorem C19_cov_matrix : forall (n : nat) (xs : list (list R)) (i j : nat),
  (i < n)%nat -> (j < n)%nat ->
  let st := cm_update_from_it opsR (cm_init opsR n) xs in
  cm_covar opsR st i j = wcov (nth i xs []) (nth j xs [])
  /\ cm_covar opsR st i j = cm_covar opsR st j i
  /\ cm_covar opsR st i i = wvar (nth i xs []).
Proof.
  intros n xs i j Hi Hj st. unfold st. repeat split.
  - exact (cm_covar_entry n xs i j Hi Hj).
  - unfold cm_covar. rewrite (cm_cell_sym opsR _ i j). reflexivity.
  - rewrite (cm_covar_entry n xs i i Hi Hi). exact (wcov_diag _).
Qed.

(* fed row by row (update) = fed as whole series (update_from_it); any operations record *)
Theorem C19_rows_columns : forall (T : Type) (Op : ops T) (n : nat) (rows : list (list T)),
  fold_left (cm_upd Op) rows (cm_init Op n)
  = cm_update_from_it Op (cm_init Op n) (columns Op n rows).
Proof. intros T Op n rows. exact (cm_rows_columns Op n rows). Qed.

(* ------------------------------------------------------------------ estimate_from_repeats *)
(* for every operations record, sample stream and parameters: the loop stops (within
   max(1, max_samples) iterations); with c the number of samples drawn,
   1 <= c <= max(1, max_samples); the reported statistics are those of exactly the first
   c samples; if it stopped short of max_samples then c >= min_samples + 2 and the first c
   samples are converged; and no earlier prefix of at least min_samples + 2 samples was *)
Theorem C19_stop : forall (T : Type) (Op : ops T) (rtol tol_scale : T) (min_samples max_samples : Z)
    (xs : nat -> T) (fuel : nat),
  (Stopping.fuel_for max_samples <= fuel)%nat ->
  let atol := mul Op tol_scale rtol in
  let stats_of := fun c => update_from_it Op (init Op) (prefix xs c) in
  exists c : nat,
    Stopping.run Op rtol tol_scale min_samples max_samples xs fuel = Some (c, stats_of c)
    /\ (1 <= c)%nat /\ (Z.of_nat c <= Z.max 1 max_samples)%Z
    /\ ((Z.of_nat c < max_samples)%Z ->
          (min_samples + 2 <= Z.of_nat c)%Z /\ converged Op (stats_of c) rtol atol = true)
    /\ (forall c' : nat, (1 <= c' < c)%nat -> (min_samples + 2 <= Z.of_nat c')%Z ->
          converged Op (stats_of c') rtol atol = false).
Proof.
  intros T Op rtol tol_scale mn mx xs fuel Hf atol stats_of.
  exact (run_spec Op rtol tol_scale mn mx xs fuel Hf).
Qed.

(* ------------------------------------------------------------------ the tie to the code *)
(* the definitions regenerated from xyzpy/utils.py on this run are the model *)
Theorem C19_code_tie : forall (T : Type) (Op : ops T),
  (gen_rs_init Op = rs_tuple (init Op))
  /\ (forall s x, gen_rs_update Op (count s) (mean s) (M2 s) x = rs_tuple (upd Op s x))
  /\ (forall s, gen_rs_var Op (count s) (mean s) (M2 s) = var Op s)
  /\ (forall s, gen_rs_std Op (count s) (mean s) (M2 s) = std Op s)
  /\ (forall s, gen_rs_err Op (count s) (mean s) (M2 s) = err Op s)
  /\ (forall s, gen_rs_rel_err Op (count s) (mean s) (M2 s) = rel_err Op s)
  /\ (forall s rtol atol, gen_rs_converged Op (count s) (mean s) (M2 s) rtol atol = converged Op s rtol atol)
  /\ (gen_rc_init Op = rc_tuple (cov_init Op))
  /\ (forall s x y, gen_rc_update Op (ccount s) (xmean s) (ymean s) (CC s) x y = rc_tuple (upd_cov Op s x y))
  /\ (forall s, gen_rc_covar Op (ccount s) (xmean s) (ymean s) (CC s) = covar Op s)
  /\ (forall s, gen_rc_sample_covar Op (ccount s) (xmean s) (ymean s) (CC s) = sample_covar Op s)
  /\ (forall rtol tol_scale, gen_conv_args Op rtol tol_scale = (rtol, Stopping.atol Op rtol tol_scale))
  /\ (forall i mn mx, gen_guard_conv i mn mx = guard_conv i mn)
  /\ (forall i mn mx, gen_guard_max i mn mx = guard_max i mx).
Proof.
  intros T Op.
  exact (conj (bridge_rs_init Op) (conj (bridge_rs_update Op) (conj (bridge_rs_var Op)
        (conj (bridge_rs_std Op) (conj (bridge_rs_err Op) (conj (bridge_rs_rel_err Op)
        (conj (bridge_rs_converged Op) (conj (bridge_rc_init Op) (conj (bridge_rc_update Op)
        (conj (bridge_rc_covar Op) (conj (bridge_rc_sample_covar Op) (conj (bridge_conv_args Op)
        (conj bridge_guard_conv bridge_guard_max))))))))))))).
Qed.

(* ------------------------------------------------------------------ non-vacuity *)
(* exact rationals: the running state of 1, 2, 3, 4, 10 fed in two chunks is the
   whole-sample (count, mean 4, M2 50) *)
Example C19_example_Q :
  update_chunks opsQ (init opsQ) [[1#1; 2#1]; [3#1; 4#1; 10#1]]%Q = mk_stats 5%nat (4#1)%Q (50#1)%Q
  /\ var opsQ (update_from_it opsQ (init opsQ) [10#1; 4#1; 3#1; 2#1; 1#1]%Q) = (10#1)%Q.
Proof. vm_compute. split; reflexivity. Qed.

(* exact rationals: covariance matrix of the series (1,2,3,6) and (2,0,4,2), rows vs columns *)
Example C19_example_matrix :
  let st := fold_left (cm_upd opsQ) [[1#1; 2#1]; [2#1; 0#1]; [3#1; 4#1]; [6#1; 2#1]]%Q (cm_init opsQ 2) in
  st = cm_update_from_it opsQ (cm_init opsQ 2) [[1#1; 2#1; 3#1; 6#1]; [2#1; 0#1; 4#1; 2#1]]%Q
  /\ (cm_covar opsQ st 0 0, cm_covar opsQ st 0 1, cm_covar opsQ st 1 0, cm_covar opsQ st 1 1)
     = ((7#2)%Q, (1#2)%Q, (1#2)%Q, (2#1)%Q).
Proof. vm_compute. split; reflexivity. Qed.

(* exact rationals: alternating 9, 11, ... with rtol 1/50, tol_scale 0, min_samples 5,
   max_samples 1000 stops after 26 samples, short of the limit, on a converged prefix *)
Example C19_example_stop :
  let xs := fun i : nat => if Nat.even i then (9#1)%Q else (11#1)%Q in
  let s := mk_stats 26%nat (10#1)%Q (26#1)%Q in
  Stopping.run opsQ (1#50)%Q (0#1)%Q 5 1000 xs 1000 = Some (26%nat, s)
  /\ converged opsQ s (1#50)%Q (Stopping.atol opsQ (1#50)%Q (0#1)%Q) = true.
Proof. vm_compute. split; reflexivity. Qed.

Print Assumptions C19_whole.
Print Assumptions C19_mean.
Print Assumptions C19_m2.
Print Assumptions C19_var_std_err.
Print Assumptions C19_chunks.
Print Assumptions C19_any_chunking.
Print Assumptions C19_any_order.
Print Assumptions C19_cov.
Print Assumptions C19_cov_chunks.
Print Assumptions C19_cov_matrix.
Print Assumptions C19_rows_columns.
Print Assumptions C19_stop.
Print Assumptions C19_code_tie.
