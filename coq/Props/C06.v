(* C06 -- a crop attached to a Runner, Harvester or Sampler reaps what a direct run gives. *)
From XV Require Import Prelude Grid Perm Runner Batch Crop Label Farmer GenFarmer BridgeFarmer
     Names Harvest GridProofs PermProofs RunnerProofs BatchProofs AssocProofs CropProofs ReapProofs HarvestProofs.
From XV Require CrashFS GenCrash BridgeCrash Stages GenStages BridgeStages HarvestFlow GenHarvest BridgeHarvest.
Open Scope Z_scope.

(* the labelled-output description reaching the Dataset / DataFrame builder through a crop
   (reap_runner -> reap_combos_to_ds -> combo_runner_to_ds) is the runner's own: names, internal
   dimensions, their coordinates, constants AS CONSTANTS (coordinate if they name a dimension,
   attribute otherwise) and attributes -- the same fields a direct run passes; the constants are the
   runner's overridden by those given for this run (at sow time for a crop: recorded with it), on both
   routes *)
Theorem C06_same_description :
  description gen_reap_runner_call gen_reap_to_ds_call = [FVarNames; FVarDims; FVarCoords; FConstantsPlusCall; FAttrs]
  /\ description gen_run_combos_call identity_call = [FVarNames; FVarDims; FVarCoords; FConstantsPlusCall; FAttrs]
  /\ description gen_run_cases_call identity_call = [FVarNames; FVarDims; FVarCoords; FConstantsPlusCall; FAttrs].
Proof.
  rewrite bridge_reap_runner, bridge_reap_to_ds, bridge_run_combos, bridge_run_cases. repeat split; reflexivity.
Qed.

(* the settings sown into the batches carry the runner's resources and constants with the same
   precedence as the keyword arguments of a direct run *)
Theorem C06_same_kwargs : gen_sown_constants_order = gen_direct_constants_order.
Proof. exact bridge_constants_order. Qed.

(* hence (with C04): the Dataset description built from the reaped crop is the one built from
   the direct sweep, for every sweep, batching, shuffle and grow history *)
Theorem C06_runner : forall (R : Type) (g : kwargs -> R) (i : input) (bs nb : option Z)
    (o0 : obj) (d0 d1 : @disk R) (ids : list Z) (cu : option bool)
    (var_names : list Z) var_dims var_coords constants attrs,
  (bs = None \/ nb = None) -> (1 <= length (run_order i))%nat -> disjoint_args i ->
  sow fresh_obj empty_disk i bs nb = Ok (o0, d0) ->
  (forall k, In k ids <-> 1 <= k <= num_sown d0) ->
  grow_list (fn g (fun _ => false)) d0 ids = Ok d1 ->
  exists out d2, reap d1 false cu = Ok (out, d2)
    /\ to_ds var_names var_dims var_coords constants attrs (fn_args i) (dims_of i) out
       = to_ds var_names var_dims var_coords constants attrs (fn_args i) (dims_of i)
               (fst (core (fun kw => SGot (g kw)) (fun _ => []) i)).
Proof.
  intros R g i bs nb o0 d0 d1 ids cu vn vd vc cs at_ Hn HN Hd Hs Hi Hg.
  destruct (roundtrip g i bs nb o0 d0 d1 ids cu Hn HN Hd Hs Hi Hg) as (out & Hr & Ho).
  exists out. eexists. split; [exact Hr|]. rewrite Ho. reflexivity.
Qed.

(* the reaped result is recorded as the runner's last result, a harvester crop hands the
   reaped Dataset to add_ds (the operation a direct harvest uses: C05 then applies verbatim), a
   sampler crop hands the reaped DataFrame to add_df (C15 applies) *)
Theorem C06_records_and_syncs :
  gen_records_last = true /\ gen_harvest_uses_add_ds = true /\ gen_samples_use_add_df = true.
Proof. exact bridge_farmer_flags. Qed.

(* the old wiring moved the constants into the attributes: the builder then saw no constants
   and could not turn one into a coordinate -- the record of defect D13 *)
Definition old_reap_to_ds_call : call_args :=
  {| ca_var_names := AVarNames; ca_var_dims := AVarDims; ca_var_coords := AVarCoords;
     ca_constants := AEmpty; ca_resources := AEmpty; ca_attrs := AAttrs; ca_parse := AParse |}.
Lemma C06_same_description_refuted_old :
  description model_reap_runner_call old_reap_to_ds_call <> [FVarNames; FVarDims; FVarCoords; FConstantsPlusCall; FAttrs].
Proof. cbn. discriminate. Qed.

(* ... and before the sow-time constants were recorded with the crop, a crop described its data with the
   runner's stored constants only, although the sown settings carried the overriding ones: the two routes
   disagreed (the record of defect D29) *)
Definition old_reap_runner_call : call_args :=
  {| ca_var_names := RVarNames; ca_var_dims := RVarDims; ca_var_coords := RVarCoords;
     ca_constants := RConstants; ca_resources := AEmpty; ca_attrs := RAttrs; ca_parse := Farmer.AFalse |}.
Lemma C06_sown_constants_refuted_old :
  description old_reap_runner_call model_reap_to_ds_call <> description model_run_combos_call identity_call.
Proof. cbn. discriminate. Qed.

(* a crop reaped with default arguments merges into the harvester's dataset under the same policy as a direct
   harvest with default arguments (conflicts raise on both routes), and both sync by default *)
Theorem C06_default_policy_agrees :
  (forall q d, In (q, d) gen_overwrite_defaults -> d = None)
  /\ (forall q d, In (q, d) gen_sync_defaults -> d = Some true)
  /\ gen_reap_forwards_policy = true.
Proof.
  destruct bridge_policy_defaults as (H1 & H2 & H3). split; [|split; [|exact H3]].
  - intros q d Hin. rewrite forallb_forall in H1. specialize (H1 _ Hin). cbn in H1. destruct d; [discriminate|reflexivity].
  - intros q d Hin. rewrite forallb_forall in H2. specialize (H2 _ Hin). cbn in H2.
    destruct d as [[|]|]; try discriminate. reflexivity.
Qed.

(* every sow -- also a re-sow into a folder left by an earlier sow -- writes the farmer's current function
   anew (then the settings): Crop.prepare's steps, regenerated (GenCrash), are directories / function /
   settings, none of them conditional on what the folder already holds; growing reads the function from there *)
Theorem C06_function_written_on_every_sow :
  CrashFS.cs_prepare GenCrash.gen_shape = [CrashFS.PDirs; CrashFS.PFunction; CrashFS.PSettings].
Proof. rewrite BridgeCrash.bridge_shape. reflexivity. Qed.

(* the description a reap works from is read from the settings file at that moment (load_info keeps no copy
   on the Crop object), so a re-sow through the same object is seen by the next reap *)
Theorem C06_description_read_at_reap : GenStages.gen_info_read_from_disk_each_time = true.
Proof. exact BridgeStages.bridge_info_from_disk. Qed.

(* a harvester crop hands its Dataset to add_ds, which re-reads the file before merging whatever the
   (possibly stale, unpickled) harvester object holds in memory -- the regenerated add_ds / save_full_ds flow *)
Theorem C06_harvest_merges_into_the_file :
  GenHarvest.gen_add_flow = HarvestFlow.model_add_flow /\ GenHarvest.gen_save_flow = HarvestFlow.model_save_flow.
Proof. exact (conj BridgeHarvest.bridge_add_flow BridgeHarvest.bridge_save_flow). Qed.

Print Assumptions C06_harvest_merges_into_the_file.
Print Assumptions C06_description_read_at_reap.
Print Assumptions C06_function_written_on_every_sow.
Print Assumptions C06_default_policy_agrees.
Print Assumptions C06_same_description.
Print Assumptions C06_same_kwargs.
Print Assumptions C06_runner.
Print Assumptions C06_records_and_syncs.
