(* C18 -- infiniplot draws each data slice once, correctly styled and correctly placed.
   PARTIAL: the theorems are about the logic of Infiniplotter as modelled in Model/Infini.v (which
   combinations are drawn, once each, in which panel, with which data, style = injective function of the
   mapped coordinate, mesh, bins).  xarray / numpy / matplotlib behaviour, the aggregation statistics and
   everything about rendering are only tested (see the TRUSTED list of harness/props/c18.py). *)
From XV Require Import Prelude Grid Infini InfiniProofs GenInfini BridgeInfini.
From Coq Require Import QArith Permutation Sorting.Sorted.
Open Scope Z_scope.

Section Loop.
  Variable pt : Type.
  Variable mask : pt -> bool.
  Variable doms : list (list label).          (* domains of the iterated axes *)
  Variable slice : list label -> list pt.     (* the series of a coordinate combination *)
  Variable jam : bool.
  Variable rowpos colpos : option nat.
  Variable styled : list (nat * nat).
  Variable pal : bool.
  Notation lines := (plot_lines pt mask doms slice jam rowpos colpos styled pal).
  Notation coords l := (labels_at doms (l_iloc l)).

  (* the drawn lines are, in order, exactly the combinations of mapped coordinates that have data:
     none missing, none twice *)
  Theorem C18_each_slice_once :
    map (fun l => coords l) lines = filter (fun ls => existsb mask (slice ls)) (product doms)
    /\ NoDup (map (@l_iloc pt) lines)
    /\ (Forall (@NoDup label) doms -> NoDup (map (fun l => coords l) lines)).
  Proof.
    split; [apply lines_coords|]. split; [apply lines_NoDup|apply lines_coords_NoDup].
  Qed.

  Corollary C18_each_slice_once_perm :
    Permutation (map (fun l => coords l) lines) (filter (fun ls => existsb mask (slice ls)) (product doms)).
  Proof. rewrite lines_coords. apply Permutation_refl. Qed.

  (* a line sits in panel (i, j), i = index of its row coordinate in the row domain, j likewise *)
  Theorem C18_panel : forall l, In l lines ->
    l_panel l = (pos_idx rowpos (l_iloc l), pos_idx colpos (l_iloc l))
    /\ forall q, (rowpos = Some q \/ colpos = Some q) -> (q < length doms)%nat ->
         let i := nth q (l_iloc l) 0%nat in
         (i < length (nth q doms []))%nat /\ nth q (coords l) [] = nth i (nth q doms []) []
         /\ (NoDup (nth q doms []) ->
             forall i', (i' < length (nth q doms []))%nat -> nth i' (nth q doms []) [] = nth q (coords l) [] -> i' = i).
  Proof.
    intros l Hl. split; [exact (line_panel pt mask doms slice jam rowpos colpos styled pal l Hl)|]. intros q _ Hq i.
    destruct (line_coord_at pt mask doms slice jam rowpos colpos styled pal l q Hl Hq) as (E & B).
    split; [exact B|]. split; [exact E|]. intros Hnd i' Hi' E'. rewrite E in E'.
    eapply (proj1 (NoDup_nth _ [])); eassumption.
  Qed.

  (* it carries exactly the slice's (x, y) series: NaNs kept as gaps, or removed when joining across
     missing; and it is drawn only if the slice has data *)
  Theorem C18_data_exact : forall l, In l lines ->
    l_pts l = (if jam then filter mask (slice (coords l)) else slice (coords l))
    /\ existsb mask (slice (coords l)) = true.
  Proof. intros l Hl. exact (line_data pt mask doms slice jam rowpos colpos styled pal l Hl). Qed.

  (* equal mapped coordinate -> equal style value *)
  Theorem C18_style_functional : forall l1 l2 p q,
    In l1 lines -> In l2 lines -> In (p, q) styled -> (q < length doms)%nat -> NoDup (nth q doms []) ->
    nth q (coords l1) [] = nth q (coords l2) [] ->
    style_val pal p (length (nth q doms [])) (nth q (l_iloc l1) 0%nat)
    = style_val pal p (length (nth q doms [])) (nth q (l_iloc l2) 0%nat)
    /\ In (p, style_val pal p (length (nth q doms [])) (nth q (l_iloc l1) 0%nat)) (l_style l1)
    /\ In (p, style_val pal p (length (nth q doms [])) (nth q (l_iloc l2) 0%nat)) (l_style l2).
  Proof.
    intros l1 l2 p q H1 H2 Hs Hq Hnd E.
    pose proof (same_coord_same_index pt mask doms slice jam rowpos colpos styled pal l1 l2 q H1 H2 Hq Hnd E) as E'.
    split; [rewrite E'; reflexivity|].
    split; [rewrite (line_style _ _ _ _ _ _ _ _ _ l1 H1)|rewrite (line_style _ _ _ _ _ _ _ _ _ l2 H2)];
      apply in_map_iff; exists (p, q); split; try reflexivity; exact Hs.
  Qed.

  (* the whole style record is a function of the styled coordinates *)
  Corollary C18_style_functional_record : forall l1 l2,
    In l1 lines -> In l2 lines ->
    (forall p q, In (p, q) styled -> (q < length doms)%nat /\ NoDup (nth q doms [])
                                     /\ nth q (coords l1) [] = nth q (coords l2) []) ->
    l_style l1 = l_style l2.
  Proof.
    intros l1 l2 H1 H2 H. rewrite (line_style _ _ _ _ _ _ _ _ _ l1 H1), (line_style _ _ _ _ _ _ _ _ _ l2 H2).
    apply map_ext_in. intros (p, q) Hpq. destruct (H p q Hpq) as (Hq & Hnd & E). cbn [fst snd].
    rewrite (same_coord_same_index pt mask doms slice jam rowpos colpos styled pal l1 l2 q H1 H2 Hq Hnd E).
    reflexivity.
  Qed.
End Loop.

(* different coordinates -> different style, as long as distinct defaults remain: 15 markers and 6 line
   styles are used cyclically, sizes / widths / colormap positions are strictly monotone linspace values *)
Theorem C18_style_injective : forall pal p N k1 k2,
  (2 <= N)%nat -> k1 <> k2 -> (k1 < n_distinct p N)%nat -> (k2 < n_distinct p N)%nat ->
  ~ sval_eq (style_val pal p N k1) (style_val pal p N k2).
Proof. exact style_val_injective. Qed.

Theorem C18_style_linspace_monotone : forall lo hi N k1 k2,
  lo < hi -> (2 <= N)%nat -> (k1 < k2)%nat ->
  (linspace lo hi N k1 < linspace lo hi N k2)%Q
  /\ (linspace lo hi N 0 == inject_Z lo)%Q /\ (linspace lo hi N (N - 1) == inject_Z hi)%Q.
Proof.
  intros lo hi N k1 k2 H HN Hk. split; [apply linspace_lt; assumption|apply linspace_ends, HN].
Qed.

Theorem C18_style_hue_monotone : forall N k1 k2,
  (0 < N)%nat -> (k1 < k2)%nat -> (hue_param N k1 < hue_param N k2)%Q.
Proof. exact hue_param_lt. Qed.

(* markers and line styles repeat with the period of their default table *)
Theorem C18_style_cyclic : forall pal N k,
  style_val pal P_marker N (k + n_markers) = style_val pal P_marker N k
  /\ style_val pal P_linestyle N (k + n_linestyles) = style_val pal P_linestyle N k.
Proof.
  intros pal N k. unfold style_val. cbn [Nat.eqb P_marker P_linestyle].
  split; f_equal; rewrite <- (Nat.mul_1_l n_markers) || rewrite <- (Nat.mul_1_l n_linestyles);
    apply Nat.mod_add; discriminate.
Qed.

(* ---------------------------------------------------------------- the concrete model of a call *)
(* every iterated domain is duplicate free when no dimension is used twice and explicit orders are
   duplicate free: hence "index of its coordinate" and "same coordinate" are meaningful *)
Theorem C18_domains_nodup : forall s,
  wf_maps (ndims_of s) (processed s) -> Forall (@NoDup label) (idoms (ctx_of s)).
Proof.
  intros s Hwf. pose proof (final_doms_nodup (ndims_of s) (notnull_of s) (s_shape s) (processed s) Hwf) as H.
  unfold idoms. apply Forall_forall. intros d Hd. apply in_map_iff in Hd. destruct Hd as (a & <- & Ha).
  apply c_iter_in_axes in Ha. unfold doms_nodup in H. rewrite Forall_forall in H. apply H. exact Ha.
Qed.

(* dropna(dim, how='all') never loses data: a point of the dataset that has a value and whose coordinates
   are allowed by every explicit order keeps all its coordinates in the final domains, so its combination
   of iterated coordinates is one of those the plotting loop visits *)
Theorem C18_dropna_keeps_data : forall s v,
  wf_maps (ndims_of s) (processed s) -> length v = ndims_of s ->
  (forall d, (d < ndims_of s)%nat -> 0 <= nth d v 0 < Z.of_nat (nth d (s_shape s) 0%nat)) ->
  Forall (fun m => forall o, mp_order m = Some o -> In (map (fun d => nth d v 0) (mp_dims m)) o) (processed s) ->
  notnull_of s v = true ->
  covered (axes_of s) v
  /\ In (map (proj v) (c_iter (ctx_of s))) (product (idoms (ctx_of s))).
Proof.
  intros s v Hwf Hl Hb Ho Hnn.
  pose proof (final_covered (ndims_of s) (notnull_of s) (s_shape s) (processed s) v Hwf Hl Hb Ho Hnn) as Hc.
  split; [exact Hc|]. apply in_product. unfold idoms.
  assert (H : forall a, In a (c_iter (ctx_of s)) -> In (proj v a) (a_dom a)).
  { intros a Ha. apply c_iter_in_axes in Ha. unfold covered in Hc. rewrite Forall_forall in Hc. apply Hc, Ha. }
  induction (c_iter (ctx_of s)) as [|a l IH]; cbn; constructor.
  - apply H. left. reflexivity.
  - apply IH. intros x Hx. apply H. right. exact Hx.
Qed.

(* NONE MISSING, end to end (line mode): every point of the dataset that carries an x and a y value and whose
   coordinates are allowed by the explicit orders belongs to a slice that IS drawn -- the line whose mapped
   coordinates are the point's coordinates (and by C18_each_slice_once that line is drawn once) *)
Theorem C18_none_missing : forall s xd v i j,
  wf_maps (ndims_of s) (processed s) ->
  s_xdim s = Some xd -> s_ydim s = None -> (xd < ndims_of s)%nat ->
  length v = ndims_of s ->
  (forall d, (d < ndims_of s)%nat -> 0 <= nth d v 0 < Z.of_nat (nth d (s_shape s) 0%nat)) ->
  Forall (fun m => forall o, mp_order m = Some o -> In (map (fun d => nth d v 0) (mp_dims m)) o) (processed s) ->
  yv s v = Some i -> xv s v = Some j ->
  exists l, In l (infini_lines s)
            /\ labels_at (idoms (ctx_of s)) (l_iloc l) = map (proj v) (c_iter (ctx_of s)).
Proof.
  intros s xd v i j Hwf Hx Hy Hxd Hl Hb Ho Hyv Hxv.
  assert (Hnn : notnull_of s v = true) by (unfold notnull_of; rewrite Hyv; reflexivity).
  destruct (C18_dropna_keeps_data s v Hwf Hl Hb Ho Hnn) as (Hcov & Hin).
  destruct (final_struct (ndims_of s) (notnull_of s) (s_shape s) (processed s) Hwf) as (Hcd & Hdj).
  fold (axes_of s) in Hcd, Hdj.
  pose proof (ctx_covers s xd Hcd Hdj Hx Hy) as Hcc.
  destruct (c_x_in_axes s xd Hcd Hdj Hx Hxd) as (HxF & Hxdin).
  set (c := ctx_of s) in *. set (ls := map (proj v) (c_iter c)) in *.
  assert (Hred : In (map (proj v) (c_red c)) (product (map a_dom (c_red c))))
    by (apply (covered_product v (axes_of s)); [exact Hcov|apply c_red_in_axes]).
  assert (Hdata : existsb pt_mask (line_slice s c ls) = true).
  { apply existsb_exists. unfold line_slice. eexists. split.
    - apply in_map_iff. exists (proj v (c_x c)). split; [reflexivity|].
      unfold covered in Hcov. rewrite Forall_forall in Hcov. apply Hcov, HxF.
    - assert (E : ls ++ [proj v (c_x c)] = map (proj v) (c_iter c ++ [c_x c])) by (subst ls; rewrite map_app; reflexivity).
      rewrite E. unfold pt_mask. cbn [fst snd]. apply andb_true_iff. split; apply negb_true_iff.
      + destruct (s_x s) eqn:Esx.
        * pose proof (group_has s c (xv s) (c_iter c ++ [c_x c]) v j Hcc Hl Hred Hxv) as Hg.
          destruct (group s c (xv s) (c_iter c ++ [c_x c]) (map (proj v) (c_iter c ++ [c_x c]))); [destruct Hg|reflexivity].
        * unfold proj. destruct (a_dims (c_x c)); [destruct Hxdin|reflexivity].
      + pose proof (group_has s c (yv s) (c_iter c ++ [c_x c]) v i Hcc Hl Hred Hyv) as Hg.
        destruct (group s c (yv s) (c_iter c ++ [c_x c]) (map (proj v) (c_iter c ++ [c_x c]))); [destruct Hg|reflexivity]. }
  assert (Hf : In ls (filter (fun ls0 => existsb pt_mask (line_slice s c ls0)) (product (idoms c))))
    by (apply filter_In; split; assumption).
  unfold infini_lines, lines_of. fold c.
  rewrite <- (lines_coords (cell * cell) pt_mask (idoms c) (line_slice s c) (s_jam s) (pos_of_prop c P_row)
                           (pos_of_prop c P_col) (styled_of c) (s_pal s)) in Hf.
  apply in_map_iff in Hf. destruct Hf as (l & El & Hl'). exists l. split; [exact Hl'|exact El].
Qed.

(* heat map: every combination of the row / col domains gets exactly one mesh; cell (a, b) of the mesh is
   the (aggregated) z value at (x_b, y_a) *)
Theorem C18_heatmap_mesh : forall s,
  let c := ctx_of s in
  map (fun l => labels_at (idoms c) (l_iloc l)) (infini_heat s) = product (idoms c)
  /\ forall l, In l (infini_heat s) ->
       let ls := labels_at (idoms c) (l_iloc l) in
       l_pts l = heat_slice s c ls
       /\ l_panel l = (pos_idx (pos_of_prop c P_row) (l_iloc l), pos_idx (pos_of_prop c P_col) (l_iloc l))
       /\ length (l_pts l) = length (a_dom (c_y c))
       /\ forall a b, (a < length (a_dom (c_y c)))%nat -> (b < length (a_dom (c_x c)))%nat ->
            nth b (nth a (l_pts l) []) []
            = group s c (yv s) (c_iter c ++ [c_x c; c_y c]) (ls ++ [nth b (a_dom (c_x c)) []; nth a (a_dom (c_y c)) []]).
Proof.
  intros s c. split; [apply plot_all_coords|]. intros l Hl ls.
  pose proof (in_plot_all _ _ _ _ _ _ _ _ _ l Hl) as E.
  assert (Ep : l_pts l = heat_slice s c ls) by (rewrite E at 1; reflexivity).
  split; [exact Ep|]. split; [rewrite E at 1; reflexivity|]. rewrite Ep. unfold heat_slice.
  split; [apply heat_mesh_shape|]. intros a b Ha Hb. apply heat_mesh_cell; assumption.
Qed.

(* histogram: the bins partition [e_0, e_n] (each value of that range is counted in exactly one bin, the
   others in none), the counts add up to the number of values in range, and the density drawn integrates to 1
   over the TRUE widths of the bins *)
Theorem C18_hist_counts : forall a b r vals,
  strictly_increasing (a :: b :: r) ->
  (forall v, n_bins_with (a :: b :: r) v = if in_range (a :: b :: r) v then 1%nat else 0%nat)
  /\ total (hist_counts (a :: b :: r) vals) = length (filter (in_range (a :: b :: r)) vals)
  /\ length (hist_counts (a :: b :: r) vals) = S (length r)
  /\ forall scale, 0 < scale ->
       (0 < total (hist_counts (a :: b :: r) vals))%nat ->
       (density_integral scale (a :: b :: r) vals == 1)%Q
       /\ hist_heights scale (a :: b :: r) true vals = map Some (hist_density scale (a :: b :: r) vals).
Proof.
  intros a b r vals Hs. split; [|split; [|split]].
  - intros v. rewrite (bins_partition a b r v Hs). reflexivity.
  - apply hist_total, Hs.
  - unfold hist_counts. rewrite map_length. clear. revert a b. induction r as [|c r IH]; intros a b; [reflexivity|].
    rewrite bins_of_cons. cbn [length]. f_equal. apply IH.
  - intros scale Hsc HT. split; [apply density_integrates_to_one; assumption|].
    unfold hist_heights. destruct (Nat.eqb_spec (total (hist_counts (a :: b :: r) vals)) 0); [lia|reflexivity].
Qed.

Theorem C18_hist_counts_drawn : forall scale edges vals,
  hist_heights scale edges false vals = map (fun c => Some (inject_Z (Z.of_nat c))) (hist_counts edges vals).
Proof. reflexivity. Qed.

(* every dimension mapped: the histogram dimension has exactly one entry, so each combination is binned as the
   single value it holds (and the default number of bins is 3); before the repair the construction failed *)
Theorem C18_hist_all_mapped :
  hist_dim [] = [[]] /\ default_nbins (length (hist_dim [])) = 3%nat
  /\ forall s c ls, c_red c = [] -> hist_values s c ls = opt_list (yv s (full_index (ndims_of s) (c_iter c) ls)).
Proof.
  split; [reflexivity|]. split; [reflexivity|]. intros s c ls H. unfold hist_values, group. rewrite H. cbn.
  rewrite !app_nil_r. reflexivity.
Qed.

Theorem C18_hist_all_mapped_refuted_old : hist_dim_old [] = None /\ forall a r, hist_dim_old (a :: r) = Some (hist_dim (a :: r)).
Proof. split; reflexivity. Qed.

(* the lines of a concrete call: instance of the loop theorems *)
Theorem C18_lines_of_call : forall s,
  let c := ctx_of s in
  map (fun l => labels_at (idoms c) (l_iloc l)) (infini_lines s)
  = filter (fun ls => existsb pt_mask (line_slice s c ls)) (product (idoms c))
  /\ (wf_maps (ndims_of s) (processed s) -> NoDup (map (fun l => labels_at (idoms c) (l_iloc l)) (infini_lines s))).
Proof.
  intros s c. split; [apply lines_coords|]. intros Hwf. apply lines_coords_NoDup. apply C18_domains_nodup, Hwf.
Qed.

Theorem C18_hist_of_call : forall s,
  let c := ctx_of s in
  map (fun l => labels_at (idoms c) (l_iloc l)) (infini_hist s)
  = filter (fun ls => existsb (@is_some Q) (hist_slice s c ls)) (product (idoms c))
  /\ forall l, In l (infini_hist s) ->
       l_pts l = hist_heights (s_scale s) (s_edges s) (s_dens s) (hist_values s c (labels_at (idoms c) (l_iloc l))).
Proof.
  intros s c. split; [apply lines_coords|]. intros l Hl.
  destruct (line_data _ _ _ _ _ _ _ _ _ l Hl) as (E & _). exact E.
Qed.

(* ---------------------------------------------------------------- non-vacuity *)
(* dims (a:3, b:2, t:3); y over all; color = a with explicit order [2; 0], col = b; x = t.
   a = 1 is left out by the order; (a = 2, b = 1) is entirely missing; one scattered NaN. *)
Definition ex_spec : spec :=
  mk_spec [3; 2; 3]%nat
          [Some 0; Some 1; Some 2;  Some 3; None; Some 5;
           Some 6; Some 7; Some 8;  Some 9; Some 10; Some 11;
           Some 12; Some 13; Some 14;  None; None; None]
          None (Some 2%nat) None
          [mk_mprop P_col [1]%nat None; mk_mprop P_color [0]%nat (Some [[2]; [0]])]
          false []%nat [[1]%nat; [0]%nat] false false 8 [] true false.

Example C18_example_wf : wf_maps (ndims_of ex_spec) (processed ex_spec).
Proof.
  unfold wf_maps.
  change (processed ex_spec) with [mk_mprop P_color [0]%nat (Some [[2]; [0]]); mk_mprop P_col [1]%nat None].
  change (ndims_of ex_spec) with 3%nat.
  split; [|split; [|split]].
  - cbn. split; [|split; [constructor|exact I]]. constructor; [|constructor].
    intros d [<-|[]] [E|[]]. discriminate.
  - constructor; [|constructor; [exact I|constructor]]. unfold order_ok. cbn. split.
    + constructor; [intros [E|[]]; discriminate|]. constructor; [intros []|constructor].
    + repeat constructor.
  - constructor; [|constructor; [|constructor]]; intros d [<-|[]]; lia.
  - repeat constructor; intros [].
Qed.

(* the hypotheses of C18_none_missing are met by the point (a=2, b=0, t=1) of the example (value id 13) *)
Example C18_example_none_missing :
  exists l, In l (infini_lines ex_spec)
            /\ labels_at (idoms (ctx_of ex_spec)) (l_iloc l) = map (proj [2; 0; 1]) (c_iter (ctx_of ex_spec)).
Proof.
  apply (C18_none_missing ex_spec 2%nat [2; 0; 1] 13 1 C18_example_wf); try reflexivity.
  - cbn. lia.
  - intros d Hd. change (ndims_of ex_spec) with 3%nat in Hd.
    destruct d as [|[|[|d]]]; cbn; lia.
  - change (processed ex_spec) with [mk_mprop P_color [0]%nat (Some [[2]; [0]]); mk_mprop P_col [1]%nat None].
    constructor; [|constructor; [|constructor]].
    + intros o E. inversion E; subst. cbn. left. reflexivity.
    + intros o E. discriminate.
Qed.

Example C18_example_lines :
  enc_lines ex_spec =
  VL [VL [VZ 1; VZ 2];
      VL [VL [VL [VL [VL [VL [VZ 0]; VL [VZ 12]]; VL [VL [VZ 1]; VL [VZ 13]]; VL [VL [VZ 2]; VL [VZ 14]]];
                  VL [VL [VS "idx"; VZ 0]; VN; VN; VN; VN]];
              VL [VL [VL [VL [VZ 0]; VL [VZ 0]]; VL [VL [VZ 1]; VL [VZ 1]]; VL [VL [VZ 2]; VL [VZ 2]]];
                  VL [VL [VS "idx"; VZ 1]; VN; VN; VN; VN]]];
          VL [VL [VL [VL [VL [VZ 0]; VL [VZ 3]]; VL [VL [VZ 1]; VN]; VL [VL [VZ 2]; VL [VZ 5]]];
                  VL [VL [VS "idx"; VZ 1]; VN; VN; VN; VN]]]]].
Proof. vm_compute. reflexivity. Qed.

(* 3 combinations have data, 3 lines; the all-missing (a=2, b=1) is skipped *)
Example C18_example_count :
  length (infini_lines ex_spec) = 3%nat /\ length (product (idoms (ctx_of ex_spec))) = 4%nat.
Proof. vm_compute. split; reflexivity. Qed.

(* non-uniform edges 0,1,3 (scale 1), values 0, 2, 2, 5: counts 1, 2; density 1/3 and 2/(3*2) = 1/3 *)
Example C18_example_hist :
  hist_counts [0; 1; 3] [0; 2; 2; 5] = [1; 2]%nat
  /\ map Qred (hist_density 1 [0; 1; 3] [0; 2; 2; 5]) = [(1 # 3)%Q; (1 # 3)%Q]
  /\ Qred (density_integral 1 [0; 1; 3] [0; 2; 2; 5]) = 1%Q
  /\ strictly_increasing [0; 1; 3].
Proof. vm_compute. repeat split. repeat constructor. Qed.

(* dims (a:2, b:2), both mapped (color = a, marker = b), values 8, 16, 24 (units of 1/8) and one NaN, edges
   0, 12, 32: three lines, each the density of ONE value: 8/12 in the first bin or 8/20 in the second *)
Definition ex_hist_all : spec :=
  mk_spec [2; 2]%nat [Some 8; Some 16; Some 24; None] None None None
          [mk_mprop P_color [0]%nat None; mk_mprop P_marker [1]%nat None]
          true []%nat [[0]%nat; [1]%nat] false false 8 [0; 12; 32] true false.
Example C18_example_hist_all_mapped :
  c_red (ctx_of ex_hist_all) = []
  /\ map (fun l => (l_iloc l, map (option_map Qred) (l_pts l))) (infini_hist ex_hist_all)
     = [([0; 0]%nat, [Some (2 # 3)%Q; Some 0%Q]); ([0; 1]%nat, [Some 0%Q; Some (2 # 5)%Q]);
        ([1; 0]%nat, [Some 0%Q; Some (2 # 5)%Q])].
Proof. vm_compute. split; reflexivity. Qed.

(* dividing by the width of the FIRST bin instead (a plausible slip) does not integrate to 1 *)
Example C18_example_first_width_wrong :
  let cs := hist_counts [0; 1; 3] [0; 2; 2; 5] in
  Qred (qsum (map (fun bc => (inject_Z (Z.of_nat (snd bc)) / (inject_Z (Z.of_nat (total cs)) * 1))
                             * inject_Z (width (fst bc)))%Q (combine (bins_of [0; 1; 3]) cs))) = (5 # 3)%Q.
Proof. vm_compute. reflexivity. Qed.

Example C18_example_styles :
  style_val false P_marker 20 16 = SIdx 1 /\ style_val false P_linestyle 9 7 = SIdx 1
  /\ Qred (linspace ms_lo ms_hi 4 1) = 5%Q /\ Qred (linspace lw_lo lw_hi 4 1) = (5 # 3)%Q
  /\ Qred (linspace 0 1 3 1) = (1 # 2)%Q.
Proof. vm_compute. repeat split. Qed.

Print Assumptions C18_each_slice_once.
Print Assumptions C18_each_slice_once_perm.
Print Assumptions C18_panel.
Print Assumptions C18_data_exact.
Print Assumptions C18_style_functional.
Print Assumptions C18_style_functional_record.
Print Assumptions C18_style_injective.
Print Assumptions C18_style_linspace_monotone.
Print Assumptions C18_style_hue_monotone.
Print Assumptions C18_style_cyclic.
Print Assumptions C18_domains_nodup.
Print Assumptions C18_dropna_keeps_data.
Print Assumptions C18_none_missing.
Print Assumptions C18_heatmap_mesh.
Print Assumptions C18_hist_counts.
Print Assumptions C18_hist_counts_drawn.
Print Assumptions C18_hist_all_mapped.
Print Assumptions C18_hist_all_mapped_refuted_old.
Print Assumptions C18_lines_of_call.
Print Assumptions C18_hist_of_call.
