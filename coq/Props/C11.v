(* C11 -- concurrent growers and a waiting reaper always agree, under every interleaving.

   Model: Model/Sched.v (small-step machine over the shared results directory; P1 a torn pickle
   never unpickles, P2 rename is atomic and an opened file reads its own inode -- both built into
   the step function, see the header of Model/Sched.v).  The theorems hold for ANY number of
   growers (distinct batches or the same batch several times), ANY number of batches and ANY
   schedule: they follow from an invariant proved by induction over the schedule
   (Proofs/SchedProofs.v).  The publication protocol they are about is the one regenerated from
   xyzpy/gen/cropping.py on this run (C11_code_tie).

   That whole results mean the reaped value is the direct run's is Proofs/ReapProofs.v
   (reap_complete, C04); here the file level is self-contained: C11_reaper_value. *)
From XV Require Import Prelude Sched SchedProofs GenPublish BridgePublish.
From Coq Require Import Arith Lia.
Open Scope nat_scope.

Notation pa := publish_atomic.

(* the code on this run publishes, loads, grows, waits and counts as the model assumes *)
Theorem C11_code_tie :
  gen_publish = publish_atomic /\ gen_load = load_model /\ gen_grow_shape = grow_shape_model
  /\ gen_reaper_wait = reaper_wait_model /\ gen_query_ops = query_ops_model.
Proof.
  exact (conj bridge_publish (conj bridge_load (conj bridge_grow_shape (conj bridge_reaper_wait bridge_query_ops)))).
Qed.

(* In every reachable state every entry under a result name is the WHOLE result of that batch and
   belongs to a grower that has executed its rename; temporary names never match the result glob. *)
Theorem C11_inv : forall s0 nb sched, init_ok s0 nb ->
  let s := run gen_publish s0 sched in
  forall n c, In (n, c) (s_fs s) ->
    match n with
    | FResult i => c = Whole i /\ exists g, In g (s_growers s) /\ g_batch g = i /\ g_done gen_publish g = true
    | FTmp _ _ => globbed gen_publish n = false
    end.
Proof. rewrite bridge_publish. intros s0 nb sched H. apply Inv_visible. eapply reach_Inv; eauto. Qed.

(* For every schedule the waiting reaper never fails, and when it is done it has read exactly the
   batches 1..nb, in order, each from a whole result. *)
Theorem C11_reaper_exact : forall s0 nb sched, init_ok s0 nb ->
  let r := s_reaper (run gen_publish s0 sched) in
  r_status r <> RFailed /\ (r_status r = RDone -> r_read r = seq 1 nb).
Proof.
  rewrite bridge_publish. intros s0 nb sched H.
  destruct (reaper_never_fails _ (reach_Inv s0 nb sched H)) as [H1 H2]. split; [exact H1|].
  intro Hd. cbv zeta. rewrite (H2 Hd). f_equal. now apply reach_nb.
Qed.

(* ... hence its value is the direct run's: the concatenation of the batches' results in batch
   order (batch_results i = the sown function mapped over batch i; a whole file unpickles to it). *)
Section Value.
  Variable R : Type.
  Variable batch_results : nat -> list R.
  Definition unpickle (c : content) : option (list R) :=
    match c with Whole i => Some (batch_results i) | Torn => None end.
  Definition reaper_value (r : reaper) : list R := flat_map batch_results (r_read r).
  Definition direct_run (nb : nat) : list R := flat_map batch_results (seq 1 nb).

  Theorem C11_reaper_value : forall s0 nb sched, init_ok s0 nb ->
    let r := s_reaper (run gen_publish s0 sched) in
    r_status r = RDone -> reaper_value r = direct_run nb.
  Proof.
    intros s0 nb sched H r Hd. unfold reaper_value, direct_run.
    pose proof (proj2 (C11_reaper_exact s0 nb sched H) Hd) as E. fold r in E. now rewrite E.
  Qed.
End Value.

(* Progress queries: at every instant, what the listing counts are result names only, each whole
   and each published by a grower that has executed its rename (so the count never exceeds the
   number of finished growers); a listing step reports exactly that count, an isfile step reports
   exactly whether the result name is present (hence whole). *)
Theorem C11_poller_sound : forall s0 nb sched, init_ok s0 nb ->
  let s := run gen_publish s0 sched in
  (forall e, In e (visible gen_publish (s_fs s)) ->
     exists i, e = (FResult i, Whole i)
               /\ exists g, In g (s_growers s) /\ g_batch g = i /\ g_done gen_publish g = true)
  /\ poll_count gen_publish (s_fs s) <= length (filter (g_done gen_publish) (s_growers s))
  /\ (forall rest, p_prog (s_poller s) = PList :: rest \/ p_prog (s_poller s) = PListIfPos :: rest ->
        exists p', poller_op gen_publish (s_poller s) (s_fs s) = (p', EList, OnDir, poll_count gen_publish (s_fs s))
                   /\ p_log p' = p_log (s_poller s) ++ [(PList, poll_count gen_publish (s_fs s))])
  /\ (forall i rest, p_prog (s_poller s) = PIsFile i :: rest ->
        exists p', poller_op gen_publish (s_poller s) (s_fs s)
                   = (p', EIsFile, OnFile (FResult i), b2n (is_some (fs_get (FResult i) (s_fs s))))
                   /\ (forall c, fs_get (FResult i) (s_fs s) = Some c -> c = Whole i)).
Proof.
  rewrite bridge_publish. intros s0 nb sched H s.
  pose proof (reach_Inv s0 nb sched H) as HI. fold s in HI.
  split; [exact (visible_entries s HI)|]. split; [exact (poll_count_le_done s HI)|].
  split; [intros rest E; exact (poller_list_reports pa (s_poller s) (s_fs s) rest E)|].
  intros i rest E. destruct (poller_isfile_reports pa (s_poller s) (s_fs s) i rest E) as [p' [E1 _]].
  exists p'. split; [exact E1|]. intros c Hc. exact (proj1 (inv_results s HI i c Hc)).
Qed.

(* The same batch grown twice (any two growers of one batch): their temporary names differ, a
   step of one touches only its own temporary name (and the result name only by its final
   rename), everything visible under the result name is whole, and once either has finished the
   result is on disk, whole -- whichever of them renamed last. *)
Theorem C11_same_batch_twice : forall s0 nb sched j k gj gk, init_ok s0 nb -> j <> k ->
  let s := run gen_publish s0 sched in
  nth_error (s_growers s) j = Some gj -> nth_error (s_growers s) k = Some gk ->
  g_batch gj = g_batch gk ->
  FTmp (g_batch gj) (g_uid gj) <> FTmp (g_batch gk) (g_uid gk)
  /\ (forall n, n <> FTmp (g_batch gj) (g_uid gj) -> (n <> FResult (g_batch gj) \/ g_pc gj < 4) ->
        fs_get n (s_fs (step gen_publish s j)) = fs_get n (s_fs s))
  /\ (forall c, fs_get (FResult (g_batch gj)) (s_fs s) = Some c -> c = Whole (g_batch gj))
  /\ (g_done gen_publish gj = true \/ g_done gen_publish gk = true ->
        fs_get (FResult (g_batch gj)) (s_fs s) = Some (Whole (g_batch gj))).
Proof.
  rewrite bridge_publish. intros s0 nb sched j k gj gk H Hjk s Hj Hk Hb.
  pose proof (reach_Inv s0 nb sched H) as HI. fold s in HI.
  split; [|split; [|split]].
  - intro E. injection E as _ E.
    exact (distinct_positions_distinct_uids _ j k gj gk (inv_uids s HI) Hjk Hj Hk E).
  - intros n H1 H2. exact (grower_footprint s j gj HI Hj n H1 H2).
  - intros c Hc. exact (proj1 (inv_results s HI _ c Hc)).
  - intros [Hd|Hd].
    + exact (proj1 (done_grower_result s gj HI (nth_error_In _ _ Hj) Hd)).
    + rewrite Hb. exact (proj1 (done_grower_result s gk HI (nth_error_In _ _ Hk) Hd)).
Qed.

(* Progress: after any schedule that has run a grower of each batch 1..nb to its end, scheduling
   the reaper 4 * nb more times completes the reap (with exactly the batches 1..nb). *)
Theorem C11_progress : forall s0 nb sched, init_ok s0 nb ->
  (forall i, 1 <= i <= nb ->
     exists g, In g (s_growers (run gen_publish s0 sched)) /\ g_batch g = i /\ g_done gen_publish g = true) ->
  let r := s_reaper (run gen_publish s0 (sched ++ repeat (reaper_id s0) (4 * nb))) in
  r_status r = RDone /\ r_read r = seq 1 nb.
Proof.
  rewrite bridge_publish. intros s0 nb sched H Hall. cbv zeta. rewrite run_app.
  pose proof (reach_Inv s0 nb sched H) as HI. pose proof (reach_nb s0 nb sched H) as Hnb.
  pose proof (reaper_terminates (run pa s0 sched) HI) as T. rewrite Hnb in T.
  unfold reaper_id in *. rewrite run_length in T. exact (T Hall).
Qed.

(* The publication before the repair (written in place under the result name) violates both
   statements: schedule `grower: create; reaper: exists, isfile, open, read` makes the reaper
   fail on an empty file; with one chunk written it fails on a torn one; and a listing made
   after the create counts a torn result although no grower has finished. *)
Theorem C11_reaper_exact_refuted_old :
  exists sched, r_status (s_reaper (run publish_inplace (mk_init [1] 1 []) sched)) = RFailed.
Proof. exists [0; 1; 1; 1; 1]. vm_compute. reflexivity. Qed.

Theorem C11_reaper_torn_refuted_old :
  exists sched, r_status (s_reaper (run publish_inplace (mk_init [1] 1 []) sched)) = RFailed
                /\ length sched = 6.
Proof. exists [0; 0; 1; 1; 1; 1]. vm_compute. split; reflexivity. Qed.

Theorem C11_poller_sound_refuted_old :
  exists sched, let s := run publish_inplace (mk_init [1] 1 [PList]) sched in
    p_log (s_poller s) = [(PList, 1)] /\ fs_get (FResult 1) (s_fs s) = Some Torn
    /\ filter (g_done publish_inplace) (s_growers s) = [].
Proof. exists [0; 2]. vm_compute. repeat split; reflexivity. Qed.

(* ---- non-vacuity: three growers (batch 1 twice, batch 2 once), two batches, an interleaved
   schedule; the initial state meets init_ok, the reaper ends Done having read [1; 2], the poller
   saw 0, then 1, then 2 finished results, and the second grower of batch 1 renamed over a
   result the reaper had already read. *)
Definition ex_sched : list nat :=
  [0; 4; 0; 0; 0; 3; 0; 3; 3; 3; 3; 1; 2; 4; 4; 4; 1; 1; 1; 1; 3; 3; 3; 3; 2; 2; 2; 2; 4; 4].
Definition ex_init : state := mk_init [1; 2; 1] 2 (prog_of gen_query_ops 2 [QNum; QMissing; QReady]).

Example C11_nonvacuous_init : init_ok ex_init 2.
Proof. apply init_ok_mk_init. Qed.

Example C11_nonvacuous_run :
  let s := run gen_publish ex_init ex_sched in
  r_status (s_reaper s) = RDone /\ r_read (s_reaper s) = [1; 2]
  /\ map snd (p_log (s_poller s)) = [0; 1; 1; 0; 2; 2]
  /\ answers 2 [QNum; QMissing; QReady] (p_log (s_poller s)) = [VZ 0; VL [VZ 2]; VZ 1]
  /\ map (g_done gen_publish) (s_growers s) = [true; true; true]
  /\ s_fs s = [(FResult 1, Whole 1); (FResult 2, Whole 2)].
Proof. vm_compute. repeat split; reflexivity. Qed.

Example C11_nonvacuous_progress :
  r_status (s_reaper (run gen_publish ex_init ([0;0;0;0;0; 1;1;1;1;1] ++ repeat (reaper_id ex_init) (4 * 2)))) = RDone.
Proof. vm_compute. reflexivity. Qed.

Print Assumptions C11_code_tie.
Print Assumptions C11_inv.
Print Assumptions C11_reaper_exact.
Print Assumptions C11_reaper_value.
Print Assumptions C11_poller_sound.
Print Assumptions C11_same_batch_twice.
Print Assumptions C11_progress.
Print Assumptions C11_reaper_exact_refuted_old.
Print Assumptions C11_reaper_torn_refuted_old.
Print Assumptions C11_poller_sound_refuted_old.
