(* C20 -- a number formatted with its error reads back as that number and that error.
   Property theorems only; proofs are `exact` of lemmas from Proofs/DecFmtProofs.v and
   Bridge/BridgeFmt.v.

   Reading convention (Model/DecFmt.v, denote): "123.45(67)e+05" denotes X = 12345 u,
   E = 67 u with u = 10^(5-2): the bracketed digits are the uncertainty in the last shown
   digits, times the shown power of ten. *)
From XV Require Import Prelude DecFmt DecFmtProofs GenFmt BridgeFmt.
From Coq Require Import QArith Qabs.
Delimit Scope string_scope with string.
Open Scope Z_scope.

(* ---------------------------------------------------------------- decimal core, ALL rationals *)
(* The last two lines of the function (two-digit rounding of the error, the value printed with
   max(0, 1 - exponent) decimals, bracket, suffix), for every value x' (sign bit and magnitude),
   every error err' > 0 whose two-digit rounding has decimal exponent <= 1, and every suffix:
   the string reads back as (X, E, u) with u = 10^(k + exponent - 1),
   E = the two-digit mantissa times u -- always between 10 u and 99 u: when 9.95.. rounds up
   the code prints mantissa 10 with the exponent raised by one, never 100 --,
   E within u/2 of err' 10^k and X within u/2 of x' 10^k (k = 0 without suffix). *)
Theorem C20_core : forall (x' err' : fl) (sfx : option Z),
  (0 <= fmag x')%Q -> (0 < fmag err')%Q -> fneg err' = false -> dexp 1 (fmag err') <= 1 ->
  exists X E u,
    denote (render x' err' sfx) = Some (X, E, u)
    /\ (u == q10 (sfx_exp sfx + dexp 1 (fmag err') - 1))%Q
    /\ (10 * u <= E /\ E <= 99 * u)%Q
    /\ (Qabs (E - fmag err' * q10 (sfx_exp sfx)) <= u * (1 # 2))%Q
    /\ (Qabs (X - fl_val x' * q10 (sfx_exp sfx)) <= u * (1 # 2))%Q.
Proof. exact core_thm. Qed.

(* the digit rule before the fix, abs(exponent) + 1 decimals, is wrong: 99.9 +- 9.96 was
   printed as 99.90(10), an error a hundred times too small *)
Theorem C20_core_refuted_old :
  exists x' err',
    (0 <= fmag x')%Q /\ (0 < fmag err')%Q /\ fneg err' = false /\ dexp 1 (fmag err') <= 1 /\
    exists X E u, denote (render_old x' err' None) = Some (X, E, u)
                  /\ ~ (Qabs (E - fmag err') <= u * (1 # 2))%Q.
Proof. exact core_refuted_old_lemma. Qed.

(* ---------------------------------------------------------------- float side *)
(* Assumptions on the float operations (hypotheses of the theorems, not axioms).
   Mg = exact magnitude, Sg = sign bit of a float of the operations record. *)
Definition H_val (ops : fops) : Prop := forall a : FT ops, (0 <= Mg ops a)%Q.

(* H-div: division by a positive float keeps the sign bit, maps zero to zero, and -- when the
   exact quotient r is in the normal range -- has relative error at most 2^-52 *)
Definition H_div (ops : fops) : Prop :=
  forall (a b : FT ops) (r : Q), (0 < Mg ops b)%Q -> (r * Mg ops b == Mg ops a)%Q ->
    (Sg ops b = false -> Sg ops (fdiv ops a b) = Sg ops a)
    /\ ((Mg ops a == 0)%Q -> (Mg ops (fdiv ops a b) == 0)%Q)
    /\ ((tiny <= r)%Q -> (r <= huge)%Q ->
        (Qabs (Mg ops (fdiv ops a b) - r) <= eps52 * r)%Q).

(* H-pow: 10**k exists for -307 <= k <= 308 and is 10^k within 2^-53 *)
Definition H_pow (ops : fops) : Prop :=
  forall k, -307 <= k <= 308 ->
    exists p, fpow10 ops k = Ok p /\ Sg ops p = false
              /\ (Qabs (Mg ops p - q10 k) <= eps53 * q10 k)%Q.

(* In both branches of the exponent / hide-exponent logic the (scaled) error meets the
   hypothesis of C20_core, and scaling by 10**k and back costs at most 2^-51 relative. *)
Theorem C20_branches : forall ops, H_val ops -> H_div ops -> H_pow ops ->
  forall x err : FT ops,
    Sg ops err = false -> in_range (Mg ops x) (Mg ops err) ->
    let k := x_exponent_of ops x err in
    (hide_of ops k x err = true -> dexp 1 (Mg ops err) <= 1)
    /\ (hide_of ops k x err = false ->
        exists p, fpow10 ops k = Ok p
          /\ Sg ops (fdiv ops err p) = false /\ (0 < Mg ops (fdiv ops err p))%Q
          /\ dexp 1 (Mg ops (fdiv ops err p)) <= 1
          /\ (Qabs (Mg ops (fdiv ops err p) * q10 k - Mg ops err) <= eps51 * Mg ops err)%Q
          /\ Sg ops (fdiv ops x p) = Sg ops x
          /\ (Qabs (Mg ops (fdiv ops x p) * q10 k - Mg ops x) <= eps51 * Mg ops x)%Q).
Proof. intros ops Hv Hd Hp x err. exact (branches_thm ops Hv Hd Hp x err). Qed.

(* The property: for every finite x and finite err > 0 in the stated domain (in_range: err any
   normal binary64 up to the largest finite one, |x| <= 1e300, x = 0 or
   1e-12 <= err/|x| <= 1e12) the
   function returns a string that reads back as (X, E, u) with E two digits (10 u .. 99 u),
   |X - x| <= u/2 + 2^-51 |x| and |E - err| <= u/2 + 2^-51 err. *)
Theorem C20_full : forall ops, H_val ops -> H_div ops -> H_pow ops ->
  forall x err : FT ops,
    Sg ops err = false -> in_range (Mg ops x) (Mg ops err) ->
    exists s X E u,
      format ops x err = Ok s /\ denote s = Some (X, E, u)
      /\ (0 < u)%Q /\ (10 * u <= E /\ E <= 99 * u)%Q
      /\ (Qabs (X - Vl ops x) <= u * (1 # 2) + eps51 * Mg ops x)%Q
      /\ (Qabs (E - Mg ops err) <= u * (1 # 2) + eps51 * Mg ops err)%Q.
Proof. intros ops Hv Hd Hp x err. exact (full_thm ops Hv Hd Hp x err). Qed.

(* H-pow is not only assumed: it is checked, by computation, for the binary64 table of
   Python's 10**k that the executable float instance uses (Model/DecFmtPow.v) *)
Theorem C20_pow10_table : H_pow ops_table.
Proof. exact table_pow. Qed.

(* ... so with exact division and Python's own powers of ten nothing is left to assume
   (this also shows that the hypotheses of C20_full are satisfiable) *)
Theorem C20_full_table : forall x err : Q,
  (0 <= err)%Q -> in_range (Qabs x) (Qabs err) ->
  exists s X E u,
    format ops_table x err = Ok s /\ denote s = Some (X, E, u)
    /\ (0 < u)%Q /\ (10 * u <= E /\ E <= 99 * u)%Q
    /\ (Qabs (X - Vl ops_table x) <= u * (1 # 2) + eps51 * Qabs x)%Q
    /\ (Qabs (E - Qabs err) <= u * (1 # 2) + eps51 * Qabs err)%Q.
Proof.
  intros x err He Hr. apply (full_thm_table x err); [|exact Hr].
  apply Sg_false. exact He.
Qed.

(* Why the cap x_exponent = min(x_exponent, 308) is there: the function as it was before the
   repair (format_old, no cap) raises OverflowError for the binary64 nearest 1e308 with x = 0
   -- the exponent is 309 and 10**309 cannot be converted to a float -- although the input is
   in the stated domain ("any err for x = 0").  The repaired function formats it. *)
Theorem C20_overflow_refuted_old :
  exists x err : Q, (x == 0)%Q /\ (0 < err)%Q /\ pow10_q 308 = Ok err
                    /\ format_old ops_table x err = Err E_Overflow
                    /\ format ops_table x err = Ok "0.0(10)e+308"%string.
Proof. exact overflow_refuted_old_lemma. Qed.

(* the tie: the definition regenerated from utils.py on this run is the model *)
Theorem C20_code_tie : forall (ops : fops) (x err : FT ops),
  gen_format ops x err = format ops x err.
Proof. exact bridge_format. Qed.

(* ---------------------------------------------------------------- non-vacuity *)
Definition dec (n : Z) (d : positive) : Q := n # d.

Example C20_example_doc1 :
  format ops_exact (dec 1542412 10000000) (dec 626653 10000000) = Ok "0.154(63)"%string.
Proof. vm_compute. reflexivity. Qed.

Example C20_example_doc2 :
  format ops_table (dec (-128124123097) 1) (dec 6424 1) = Ok "-1.281241231(64)e+11"%string.
Proof. vm_compute. reflexivity. Qed.

Example C20_example_fixed : format ops_table (dec 999 10) (dec 996 100) = Ok "100(10)"%string.
Proof. vm_compute. reflexivity. Qed.

Example C20_example_denote :
  denote "-1.281241231(64)e+11"%string = Some (dec (-128124123100) 1, dec 6400 1, dec 100 1).
Proof. vm_compute. reflexivity. Qed.

(* the hypotheses of C20_full_table hold at the documented example *)
Example C20_example_in_range :
  (0 <= dec 6424 1)%Q /\ in_range (Qabs (dec (-128124123097) 1)) (Qabs (dec 6424 1)).
Proof.
  split; [vm_compute; discriminate|].
  split; [vm_compute; discriminate|]. split; [vm_compute; discriminate|].
  split; [vm_compute; discriminate|]. right.
  split; vm_compute; discriminate.
Qed.

(* ... and at the largest finite binary64 with x = 0 (the cap is active) *)
Example C20_example_huge :
  in_range (Qabs 0) (Qabs fmax) /\ format ops_table 0%Q fmax = Ok "0.0(18)e+308"%string.
Proof.
  split; [|vm_compute; reflexivity].
  split; [vm_compute; discriminate|]. split; [vm_compute; discriminate|].
  split; [vm_compute; discriminate|]. left. reflexivity.
Qed.

(* and those of C20_core at 99.9 +- 9.96 (the rounding that carries into the next decade) *)
Example C20_example_core_hyp :
  dexp 1 (dec 996 100) = 1 /\ fmt_e 1 (dec 996 100) = (10, 1).
Proof. vm_compute. split; reflexivity. Qed.

Print Assumptions C20_core.
Print Assumptions C20_core_refuted_old.
Print Assumptions C20_branches.
Print Assumptions C20_full.
Print Assumptions C20_pow10_table.
Print Assumptions C20_full_table.
Print Assumptions C20_overflow_refuted_old.
Print Assumptions C20_code_tie.
