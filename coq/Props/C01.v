(* C01 -- a grid sweep evaluates every combination exactly once, in its own slot.
   Property theorems only (proved in Proofs/); f is an arbitrary swept function, the grid has
   any number of arguments and values, p is any permutation. *)
From XV Require Import Prelude Grid Perm Runner RunnerInst GridProofs PermProofs RunnerProofs.
From XV Require GenRunner BridgeRunner.
From Coq Require Import Permutation.
Open Scope Z_scope.

(* the function is called exactly once for every combination (constants appended, nothing
   else), whatever the shuffle; an executor only permutes the call log further *)
Theorem C01_exactly_once : forall (R : Type) (f : kwargs -> R) (comps : R -> list R) (i : input),
  i_has_cases i = false -> wf_perm i ->
  Permutation (snd (core f comps i))
              (map (fun vs => combine (i_combo_args i) vs ++ i_consts i) (product (i_combo_values i))).
Proof.
  intros R f comps i Hc Hp. rewrite <- (settings_grid i Hc).
  exact (calls_exactly_once f comps i (disjoint_grid i Hc) Hp).
Qed.

(* sequential and unshuffled: called in itertools.product order *)
Theorem C01_call_order : forall (R : Type) (f : kwargs -> R) (comps : R -> list R) (i : input),
  i_has_cases i = false -> i_perm i = None ->
  snd (core f comps i)
  = map (fun vs => combine (i_combo_args i) vs ++ i_consts i) (product (i_combo_values i)).
Proof.
  intros R f comps i Hc Hp. rewrite <- (settings_grid i Hc).
  exact (calls_sequential_unshuffled f comps i (disjoint_grid i Hc) Hp).
Qed.

(* the nested result holds, at the position indexed by each argument's value in the order the
   values were given, the value returned for precisely that combination *)
Theorem C01_placement : forall (R : Type) (f : kwargs -> R) (comps : R -> list R) (i : input) idx vs,
  i_has_cases i = false -> wf_perm i -> i_flat i = false -> i_split i = false ->
  vals_at (i_combo_values i) idx = Some vs ->
  exists n, fst (core f comps i) = ONest n
            /\ nest_at n idx = Some (Leaf (Got (f (combine (i_combo_args i) vs ++ i_consts i)))).
Proof.
  intros R f comps i idx vs Hc Hp Hf Hs Hv.
  pose proof (requested_slot f comps i idx vs (disjoint_grid i Hc) Hp Hf Hs) as H.
  rewrite (dims_grid i Hc), (locs_grid i Hc) in H.
  specialize (H Hv (vals_at_in_product _ _ _ Hv)).
  unfold kw_of, fn_args, eff_case_args in H. rewrite Hc in H. exact H.
Qed.

(* identical output whatever the execution order (shuffle with any seed; executors only change
   the order of the call log, see the trusted base for assumption E1) *)
Theorem C01_strategy_independent : forall (R : Type) (f : kwargs -> R) (comps : R -> list R) (i : input),
  wf_perm i -> fst (core f comps i) = fst (core f comps (set_perm i None)).
Proof. intros R f comps i Hp. exact (output_strategy_independent f comps i Hp). Qed.

(* flat list: the results in itertools.product order *)
Theorem C01_flat : forall (R : Type) (f : kwargs -> R) (comps : R -> list R) (i : input),
  i_has_cases i = false -> wf_perm i -> i_flat i = true -> i_split i = false ->
  fst (core f comps i)
  = OFlat (map (fun vs => f (combine (i_combo_args i) vs ++ i_consts i)) (product (i_combo_values i))).
Proof.
  intros R f comps i Hc Hp Hf Hs.
  rewrite (flat_output f comps i (disjoint_grid i Hc) Hp Hf Hs), (settings_grid i Hc), map_map. reflexivity.
Qed.

(* split outputs: component j of the output is the sweep of the j-th component of the results *)
Theorem C01_split : forall (R : Type) (f : kwargs -> R) (comps : R -> list R) (i : input) (k : nat) (d : R),
  i_has_cases i = false -> wf_perm i -> i_split i = true ->
  (forall kw, length (comps (f kw)) = k) -> settings i <> [] ->
  fst (core f comps i)
  = OSplit (map (fun j => process i (map (fun kw => nth j (comps (f kw)) d) (settings i))) (seq 0 k)).
Proof.
  intros R f comps i k d Hc Hp Hs Hk Hne.
  rewrite (split_output f comps i (disjoint_grid i Hc) Hp Hs).
  rewrite (zip_star_rect d k).
  - rewrite map_map. f_equal. apply map_ext. intros j. rewrite !map_map. reflexivity.
  - apply Forall_forall. intros l Hl. rewrite map_map in Hl. apply in_map_iff in Hl as (kw & <- & _). apply Hk.
  - destruct (settings i); [contradiction|discriminate].
Qed.

(* the iterative accumulation of combo_runner.py equals its recursive specification *)
Theorem C01_unflatten_is_build : forall (R : Type) (store : list (list Z * nest R)) dims d,
  unflatten store dims d = build dims (fun k => lookup store k d) [].
Proof. intros. apply unflatten_is_build. Qed.

(* non-vacuity: a concrete shuffled 2 x 3 sweep *)
Definition ex_input : input :=
  mk_input false [] [] [3; 1] [[0; 1]; [0; 1; 2]] [(6, 4)] false false (Some [4; 0; 5; 2; 1; 3]%nat).
Example C01_example_wf : i_has_cases ex_input = false /\ wf_perm ex_input.
Proof.
  split; [reflexivity|]. unfold wf_perm. cbn [i_perm ex_input].
  apply is_perm_sound. vm_compute. reflexivity.
Qed.
Example C01_example_out :
  run_core_out 0 ex_input = run_core_out 0 (set_perm ex_input None)
  /\ nest_at_val (fst (core (hfun 0) comps ex_input)) [1; 2]%nat
     = Some (enc_rv (hfun 0 [(3, 1); (1, 2); (6, 4)])).
Proof. vm_compute. split; reflexivity. Qed.

(* a grid with two EQUAL values for one argument (results are keyed by value, so they would share a slot) is
   refused before anything runs; every other grid is handled by the core the theorems above are about.
   [dup_free] is exactly NoDup; the test itself (membership by equality, every argument) is regenerated *)
Lemma dup_free_NoDup : forall l, dup_free l = true <-> NoDup l.
Proof.
  induction l as [|x r IH]; cbn.
  - split; [constructor|reflexivity].
  - rewrite andb_true_iff, negb_true_iff, IH. unfold mem. split.
    + intros [Hm Hn]. constructor; [|exact Hn]. intros Hin.
      assert (existsb (Z.eqb x) r = true) by (apply existsb_exists; exists x; split; [exact Hin|apply Z.eqb_refl]).
      congruence.
    + intros Hn. inversion Hn as [|? ? Hni Hnr]; subst. split; [|exact Hnr].
      destruct (existsb (Z.eqb x) r) eqn:E; [|reflexivity]. apply existsb_exists in E as (y & Hy & Heq).
      apply Z.eqb_eq in Heq. subst. contradiction.
Qed.

Theorem C01_duplicates_rejected : forall (R : Type) (f : kwargs -> R) (comps : R -> list R) (i : input),
  (values_ok i = false -> checked_core f comps i = (ORejected, []))
  /\ (values_ok i = true -> checked_core f comps i = core f comps i)
  /\ (values_ok i = true <-> Forall (@NoDup Z) (i_combo_values i))
  /\ GenRunner.gen_duplicates_rejected_by_equality = true /\ GenRunner.gen_prologue_is_transcribed = true
  /\ GenRunner.gen_linear_runners_are_transcribed = true.
Proof.
  intros R f comps i. unfold checked_core. split; [intros ->; reflexivity|]. split; [intros ->; reflexivity|].
  split; [|exact (conj BridgeRunner.bridge_duplicates (conj BridgeRunner.bridge_prologue BridgeRunner.bridge_linear_runners))].
  unfold values_ok. rewrite forallb_forall, Forall_forall. split; intros H l Hl; apply dup_free_NoDup, H, Hl.
Qed.

Example C01_duplicates_example :
  run_checked_core 0 (mk_input false [] [] [0; 1] [[0; 0; 1]; [0; 1]] [] false false None)
  = VL [VS "rejected"; VL []].
Proof. vm_compute. reflexivity. Qed.

Print Assumptions C01_duplicates_rejected.
Print Assumptions C01_exactly_once.
Print Assumptions C01_call_order.
Print Assumptions C01_placement.
Print Assumptions C01_strategy_independent.
Print Assumptions C01_flat.
Print Assumptions C01_split.
Print Assumptions C01_unflatten_is_build.
