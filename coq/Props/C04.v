(* C04 -- sow, grow, reap returns exactly what running directly would have. *)
From XV Require Import Prelude Grid Perm Runner Batch Crop Stages GenStages BridgeStages GenBatch BridgeBatch
     GridProofs PermProofs RunnerProofs BatchProofs AssocProofs CropProofs ReapProofs.
From XV Require Sched GenPublish BridgePublish.
From Coq Require Import Permutation.
Open Scope Z_scope.

(* For every sweep (any grid / case set, any shuffle permutation), every batch size or batch
   count, every grow history that covers the batches (any order, grouping, repetition), reaping
   gives exactly the output of the direct in-process sweep -- same value at every grid position,
   same missing slots -- and deletes the crop iff clean_up is in effect. *)
Theorem C04_roundtrip : forall (R : Type) (g : kwargs -> R) (i : input) (bs nb : option Z)
    (o0 : obj) (d0 d1 : @disk R) (ids : list Z) (cu : option bool),
  (bs = None \/ nb = None) -> (1 <= length (run_order i))%nat -> disjoint_args i ->
  sow fresh_obj empty_disk i bs nb = Ok (o0, d0) ->
  (forall k, In k ids <-> 1 <= k <= num_sown d0) ->
  grow_list (fn g (fun _ => false)) d0 ids = Ok d1 ->
  exists out, reap d1 false cu = Ok (out, if eff_clean_up cu false then empty_disk else d1)
              /\ out = fst (core (fun kw => SGot (g kw)) (fun _ => []) i).
Proof. intros. eapply roundtrip; eassumption. Qed.

(* the direct sweep's output does not depend on the shuffle either (so reaping a crop sown with
   any shuffle equals the unshuffled direct run) *)
Theorem C04_shuffle_irrelevant : forall (R : Type) (h : kwargs -> R) (i : input),
  wf_perm i -> fst (core h (fun _ => []) i) = fst (core h (fun _ => []) (set_perm i None)).
Proof. intros R h i Hp. exact (output_strategy_independent h (fun _ => []) i Hp). Qed.

(* every grow history gives the same result files: growing is idempotent and local *)
Theorem C04_grow_history : forall (R : Type) (g : kwargs -> R) (i : input) bl (d : @disk R) ids,
  Inv g i bl d ->
  (forall k, In k ids -> 1 <= k <= Z.of_nat (length bl)) ->
  exists d', grow_list (fn g (fun _ => false)) d ids = Ok d' /\ Inv g i bl d'
             /\ (forall k, finished d' k = true <-> In k ids \/ finished d k = true).
Proof.
  intros R g i bl d ids HI Hr. apply (grow_list_spec g (fun _ => false) i bl ids d HI Hr).
  intros k b _ _. clear. induction b; [reflexivity|exact IHb].
Qed.

(* a fresh process (object re-created from disk) sees the same crop: every operation of the
   model is a function of the disk state; the object only caches the three batch numbers *)
Theorem C04_fresh_process : forall (R : Type) (g : kwargs -> R) (i : input) bl (d : @disk R),
  Inv g i bl d ->
  exists s r, reload d = mk_obj (Some s) (Some (Z.of_nat (length bl))) (Some r)
              /\ sync fresh_obj d = reload d.
Proof.
  intros R g i bl d [HS _]. destruct (sw_info _ _ _ HS) as (s & r & Hi).
  exists s, r. unfold sync, reload. rewrite Hi. split; reflexivity.
Qed.

(* the shuffle flag used to order the sowing is the flag the reaper un-shuffles with, for
   sow_combos(shuffle=...) and for sow_cases on a Crop(shuffle=...), reaped raw or to a dataset,
   by the same object or by one re-created from disk (wiring regenerated from cropping.py) *)
Theorem C04_shuffle_alignment : forall (via_cases to_ds fresh : bool) (arg : option Z) (self0 : Z),
  let self1 := self_after_sow gen_wiring via_cases arg self0 in
  let '(used, saved) := sow_flags gen_wiring via_cases arg self0 in
  reap_flag gen_wiring to_ds fresh self1 saved = used.
Proof. rewrite bridge_wiring. intros [|] [|] [|] [a|] self0; reflexivity. Qed.

(* the old wiring (sow_cases not shuffling) misaligns: kept as the record of defect D3 *)
Definition old_wiring : wiring :=
  {| w_sow_combos_default := Some 0; w_sow_combos_sets_self := true; w_sow_combos_run := SrcArg;
     w_sow_cases_sets_self := false; w_sow_cases_run := SrcNone;
     w_saved := SrcSelf; w_sync_restores := false; w_reap_raw := SrcSaved; w_reap_ds := SrcSaved |}.
Lemma C04_shuffle_alignment_refuted_old :
  exists self0, let '(used, saved) := sow_flags old_wiring true None self0 in
                reap_flag old_wiring false true self0 saved <> used.
Proof. exists 1. cbn. discriminate. Qed.

(* sensitivity: a sow_combos whose shuffle parameter defaulted to None would sow a Crop(shuffle=s) unshuffled
   while recording s *)
Lemma C04_default_none_refuted :
  let w := {| w_sow_combos_default := None; w_sow_combos_sets_self := true; w_sow_combos_run := SrcArg;
              w_sow_cases_sets_self := false; w_sow_cases_run := SrcSelf;
              w_saved := SrcSelf; w_sync_restores := false; w_reap_raw := SrcSaved; w_reap_ds := SrcSaved |} in
  let '(used, saved) := sow_flags w false None 1 in reap_flag w false true 1 saved <> used.
Proof. cbn. discriminate. Qed.

(* the description (combos, cases) the reaper rebuilds the grid from -- the SAVED one -- is, as a term over
   the caller's arguments, the one the sowing runner enumerated and the one the batch planner counted, for
   sow_combos (sorted by argument name at all three sites) and sow_cases (as given at all three) *)
Theorem C04_one_description : forall (x : list (Z * list Z)),
  (dterm_eval (ds_saved_combos gen_sow_combos_sites) x = dterm_eval (ds_run_combos gen_sow_combos_sites) x
   /\ dterm_eval (ds_saved_cases gen_sow_combos_sites) x = dterm_eval (ds_run_cases gen_sow_combos_sites) x)
  /\ (dterm_eval (ds_saved_combos gen_sow_cases_sites) x = dterm_eval (ds_run_combos gen_sow_cases_sites) x
      /\ dterm_eval (ds_saved_cases gen_sow_cases_sites) x = dterm_eval (ds_run_cases gen_sow_cases_sites) x).
Proof.
  intros x.
  destruct (consistent_one_description gen_sow_combos_sites eq_refl) as (-> & -> & _).
  destruct (consistent_one_description gen_sow_cases_sites eq_refl) as (-> & -> & _).
  repeat split.
Qed.

(* sensitivity: were the saved combos sorted by name while sow_cases enumerates them as given, the two
   descriptions differ as soon as two sub-combos are not in alphabetical order *)
Lemma C04_saved_sorted_refuted :
  let s := mk_descr_sites (DParse DArg) (DParse DArg) (DSortByName (DParse DArg)) (DParse DArg) (DParse DArg) (DParse DArg) in
  let x := [(5, [1; 2]); (2, [7; 8; 9])] in
  descr_consistent s = false /\ dterm_eval (ds_saved_combos s) x <> dterm_eval (ds_run_combos s) x.
Proof. split; [reflexivity|vm_compute; discriminate]. Qed.

Theorem C04_code_tie :
  gen_wiring = model_wiring
  /\ gen_sow_combos_sites = model_sow_combos_sites /\ gen_sow_cases_sites = model_sow_cases_sites
  /\ (forall cne pc sne lc bs nb r, gen_choose cne pc sne lc bs nb r = choose (total_n cne pc sne lc) bs nb r)
  /\ (forall cnt bc s r, gen_sower_call cnt bc s r = (cnt + 1, true, cut s r (cnt + 1) bc)).
Proof. exact (conj bridge_wiring (conj bridge_sow_combos_sites (conj bridge_sow_cases_sites (conj bridge_choose bridge_sower_call)))). Qed.

(* non-vacuity: a shuffled 2 x 3 grid in 4 batches, grown in a scrambled order with repeats *)
From XV Require Import RunnerInst CropInst.
Example C04_example :
  run_crop 0 [OSow (mk_input false [] [] [1; 3] [[0; 1]; [0; 1; 2]] [] false false
                             (Some [4; 0; 5; 2; 1; 3]%nat)) None (Some 4);
              OGrow [3; 1]; OReload; OGrow [4; 2; 3]; OReap false None]
  = VL [VL [VZ 0; VZ 4; VZ 0; VL [VZ 1; VZ 2; VZ 3; VZ 4]; VZ 0; VL []];
        VL [VZ 0; VZ 4; VZ 2; VL [VZ 2; VZ 4]; VZ 0; VL [VZ 1; VZ 3]];
        VL [VZ 0; VZ 4; VZ 2; VL [VZ 2; VZ 4]; VZ 0; VL [VZ 1; VZ 3]];
        VL [VZ 0; VZ 4; VZ 4; VL []; VZ 1; VL [VZ 1; VZ 2; VZ 3; VZ 4]];
        VL [VZ 0; VZ (-1); VZ (-1); VL [VZ 1; VZ 2; VZ 3; VZ 4]; VZ 0; VL [];
            VL [VS "nest"; enc_nest_of (run_core_out 0 (mk_input false [] [] [1; 3] [[0; 1]; [0; 1; 2]] [] false false None))]]].
Proof. vm_compute. reflexivity. Qed.

(* a batch's result file holds the results in the order of the batch's settings, with or without a worker
   pool: `grow` evaluates every case, collects the futures in submission order and writes once (GenPublish) *)
Theorem C04_grow_keeps_batch_order : GenPublish.gen_grow_shape = Sched.grow_shape_model.
Proof. exact BridgePublish.bridge_grow_shape. Qed.

(* the description a reap works from is read from the settings file at that moment (load_info keeps no copy
   on the Crop object), so a re-sow through the same object is seen by the next reap *)
Theorem C04_description_read_at_reap : gen_info_read_from_disk_each_time = true.
Proof. exact bridge_info_from_disk. Qed.

Print Assumptions C04_description_read_at_reap.
Print Assumptions C04_grow_keeps_batch_order.
Print Assumptions C04_roundtrip.
Print Assumptions C04_shuffle_irrelevant.
Print Assumptions C04_grow_history.
Print Assumptions C04_fresh_process.
Print Assumptions C04_shuffle_alignment.
Print Assumptions C04_one_description.
Print Assumptions C04_code_tie.
