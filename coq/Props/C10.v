(* C10 -- killing a worker at any instant never corrupts what is later reaped.
   A crash = the process performed the first k atomic file-system steps of the operation (k
   beyond the last step: it completed); every theorem quantifies over ALL k, all sweeps (any
   number of batches), all deletion orders of shutil.rmtree (every permutation), and all states
   reachable by any number of earlier crashed operations and crashed recoveries.
   Assumptions: P1 a strict prefix of a pickle never unpickles (a torn file is unreadable),
   P2 rename is atomic; the process dies, the kernel survives (no power loss). *)
From XV Require Import Prelude CrashFS CrashProofs Stages Names GenCrash GenStages GenNames BridgeCrash.
From XV Require GenHarvest BridgeHarvest.
From Coq Require Import Permutation.
Local Open Scope nat_scope.

Section C10.
  Variable f : Z -> Z.                 (* the sown function on setting codes *)
  Variable sw : sweep.                 (* the sweep: the settings of batch 1, 2, ..., B *)
  Variable kd : kind.                  (* raw / Runner / Harvester / Sampler crop *)
  Variable old : option pdata.         (* what the harvester's data file held before *)
  Variable tab : option pdata.         (* what the sampler's table held before *)
  Hypothesis no_conflict : match old with Some od => conflict od (newd f sw) = false | None => True end.
  Hypothesis batches_nonempty : Forall (fun b => b <> []) sw.
  Hypothesis some_batch : sw <> [].

  Notation reach := (reachable f sw kd old tab).
  Notation crashed o k st := (crash (steps_of f o st) k st).

  (* A reap after ANY crash of ANY operation refuses, fails, or returns exactly the direct run's
     data; with allow_incomplete: finished batches exact, the others missing (see [slot]). *)
  Theorem C10_no_silent_corruption : forall st o k allow,
    reach st -> valid_op sw kd st o ->
    match later_reap kd allow (crashed o k st) with
    | Refused | Error => True
    | Value d => d = if allow then partial f sw (crashed o k st) else direct f sw
    end.
  Proof.
    intros st o k allow HR HV.
    pose proof (reachable_inv f sw kd old tab no_conflict batches_nonempty _ (r_op f sw kd old tab st o k HR HV)) as HI.
    destruct (later_reap kd allow (crashed o k st)) as [| |d] eqn:E; try exact I.
    apply later_reap_val in E. pose proof (reap_val_sound f sw kd old _ allow d HI E) as H.
    destruct allow; exact H.
  Qed.

  (* what "finished batches exact, the others missing" means *)
  Theorem C10_partial_meaning : forall st i b,
    In (i, b) (number sw) ->
    slot f st (i, b) = if present st (Fin (BResult i)) then map (fun c => Some (f c)) b else map (fun _ => None) b.
  Proof. reflexivity. Qed.

  Definition recovered (w : nat) (delf : fs -> list step) (st : fs) : Prop :=
    recover_outcome f kd sw w st = Value (direct f sw)
    /\ (forall x, is_crop_name x = true -> lookup (recover_final f kd sw w delf st) x = None)
    /\ (kd = KHarvester ->
        lookup (recover_final f kd sw w delf st) (Fin BData) = Some (Whole (PData (merged f sw old)))).

  (* From every crash state the documented recovery returns exactly the uninterrupted result,
     leaves the crop deleted, and (harvester) leaves exactly the merged data in the file. *)
  Theorem C10_recovery_exact : forall st o k w delf,
    reach st -> valid_op sw kd st o -> (forall s, Permutation (delf s) (del_canon s)) ->
    recovered w delf (crashed o k st).
  Proof.
    intros st o k w delf HR HV HD.
    pose proof (reachable_inv f sw kd old tab no_conflict batches_nonempty _ (r_op f sw kd old tab st o k HR HV)) as HI.
    split; [exact (recover_exact f sw kd old no_conflict batches_nonempty some_batch w _ HI)|].
    split; [intros x Hx; exact (recover_final_deleted f sw kd old no_conflict batches_nonempty some_batch w delf HD _ x HI Hx)|].
    intros Hk. exact (recover_final_data f sw kd old no_conflict batches_nonempty some_batch w delf HD _ HI Hk).
  Qed.

  (* the same guarantees at every crash point of a sampler re-sow that first clears the results of an earlier sow
     (sow_samples since the repair of D39: [resow_samples_steps], the results unlinked in any order, any subset done) *)
  Theorem C10_resow_samples_prefix : forall st ids k w0 w delf allow,
    reach st -> (forall s, Permutation (delf s) (del_canon s)) ->
    let st' := crash (resow_samples_steps st ids sw w0) k st in
    match later_reap kd allow st' with
    | Refused | Error => True
    | Value d => d = if allow then partial f sw st' else direct f sw
    end
    /\ recovered w delf st'.
  Proof.
    intros st ids k w0 w delf allow HR HD st'.
    pose proof (reachable_inv f sw kd old tab no_conflict batches_nonempty _ (r_resow f sw kd old tab st ids w0 k HR)) as HI.
    fold st' in HI. split.
    - destruct (later_reap kd allow st') as [| |d] eqn:E; try exact I.
      apply later_reap_val in E. pose proof (reap_val_sound f sw kd old _ allow d HI E) as H.
      destruct allow; exact H.
    - split; [exact (recover_exact f sw kd old no_conflict batches_nonempty some_batch w _ HI)|].
      split; [intros x Hx; exact (recover_final_deleted f sw kd old no_conflict batches_nonempty some_batch w delf HD _ x HI Hx)|].
      intros Hk. exact (recover_final_data f sw kd old no_conflict batches_nonempty some_batch w delf HD _ HI Hk).
  Qed.

  (* ... also when the recovery itself is killed after any number j of its steps and run again *)
  Theorem C10_recovery_reentrant : forall st o k w delf j w2 delf2,
    reach st -> valid_op sw kd st o ->
    (forall s, Permutation (delf s) (del_canon s)) -> (forall s, Permutation (delf2 s) (del_canon s)) ->
    recovered w2 delf2 (crash (recover_steps f kd sw w delf (crashed o k st)) j (crashed o k st)).
  Proof.
    intros st o k w delf j w2 delf2 HR HV HD HD2.
    pose proof (r_recover f sw kd old tab _ w delf j (r_op f sw kd old tab st o k HR HV) HD) as HR2.
    pose proof (reachable_inv f sw kd old tab no_conflict batches_nonempty _ HR2) as HI.
    split; [exact (recover_exact f sw kd old no_conflict batches_nonempty some_batch w2 _ HI)|].
    split; [intros x Hx; exact (recover_final_deleted f sw kd old no_conflict batches_nonempty some_batch w2 delf2 HD2 _ x HI Hx)|].
    intros Hk. exact (recover_final_data f sw kd old no_conflict batches_nonempty some_batch w2 delf2 HD2 _ HI Hk).
  Qed.

  (* The sampler's table, PARTIAL: the recovery is exact from every crash of every operation other
     than the reap, and from a crash of the reap before the table's rename (its first 3 steps:
     create / write / close of <table>.tmp).  Missing part: see C10_sampler_window_refuted. *)
  Theorem C10_recovery_exact_sampler_partial : forall st o k w delf t0,
    kd = KSampler -> reach st -> valid_op sw kd st o -> (forall s, Permutation (delf s) (del_canon s)) ->
    lookup st (Fin BTable) = option_map (fun r => Whole (PTable r)) t0 ->
    (forall del, o = OReap KSampler del -> k <= 3) ->
    lookup (recover_final f kd sw w delf (crashed o k st)) (Fin BTable)
    = Some (Whole (PTable (match t0 with Some r => r | None => [] end ++ newd f sw))).
  Proof.
    intros st o k w delf t0 Hk HR HV HD HT Hwin.
    pose proof (reachable_inv f sw kd old tab no_conflict batches_nonempty _ (r_op f sw kd old tab st o k HR HV)) as HI.
    apply (recover_final_table f sw kd old no_conflict batches_nonempty some_batch w delf HD _ t0 HI Hk).
    rewrite <- HT. destruct HV as [w'|ids w'|w'| |del Hp]; try (apply table_untouched; intros kk del'; discriminate).
    cbn [steps_of]. rewrite Hk. apply (sampler_table_before_rename st del k t0); [apply (Hwin del); rewrite Hk; reflexivity| |exact HT].
    eapply Permutation_Forall; [apply Permutation_sym, Hp | apply del_canon_delstep].
  Qed.

  (* during the sampler's reap the table holds the old rows up to the rename and the old rows followed
     by ALL the crop's rows from then on, and no result leaves the crop before its row is in the table *)
  Theorem C10_sampler_rows_never_lost : forall st del k i c,
    kd = KSampler -> reach st -> Permutation del (del_canon st) ->
    lookup st (Fin (BResult i)) = Some c ->
    lookup (crashed (OReap KSampler del) k st) (Fin (BResult i)) = Some c
    \/ exists rows, lookup (crashed (OReap KSampler del) k st) (Fin BTable) = Some (Whole (PTable rows))
                    /\ incl (newd f sw) rows.
  Proof.
    intros st del k i c Hk HR Hp L.
    pose proof (reachable_inv f sw kd old tab no_conflict batches_nonempty _ HR) as HI. rewrite Hk in HI.
    apply (sampler_rows_never_lost f sw old st del k i c HI); [|exact L].
    eapply Permutation_Forall; [apply Permutation_sym, Hp | apply del_canon_delstep].
  Qed.

  (* the same for a harvester crop: no result leaves the crop before its entries are in the data file *)
  Theorem C10_harvest_results_never_lost : forall st del k i c,
    kd = KHarvester -> reach st -> Permutation del (del_canon st) ->
    lookup st (Fin (BResult i)) = Some c ->
    lookup (crashed (OReap KHarvester del) k st) (Fin (BResult i)) = Some c
    \/ exists m, lookup (crashed (OReap KHarvester del) k st) (Fin BData) = Some (Whole (PData m))
                 /\ forall kv, In kv (newd f sw) -> klookup (fst kv) m = Some (snd kv).
  Proof.
    intros st del k i c Hk HR Hp L.
    pose proof (reachable_inv f sw kd old tab no_conflict batches_nonempty _ HR) as HI. rewrite Hk in HI.
    apply (harvest_results_never_lost f sw old no_conflict st del k i c HI); [|exact L].
    eapply Permutation_Forall; [apply Permutation_sym, Hp | apply del_canon_delstep].
  Qed.
End C10.

(* Data merged into the harvester's file before the crashed operation is still in the file after
   the crash, at every k, from ANY state (no invariant needed): the file is replaced atomically. *)
Theorem C10_harvest_survives : forall (f : Z -> Z) st o k od,
  lookup st (Fin BData) = Some (Whole (PData od)) ->
  (forall kk del, o = OReap kk del -> Permutation del (del_canon st)) ->
  exists m, lookup (crash (steps_of f o st) k st) (Fin BData) = Some (Whole (PData m)) /\ incl od m.
Proof.
  intros f st o k od L HD. apply harvest_survives; [exact L|]. intros kk del E.
  eapply Permutation_Forall; [apply Permutation_sym, (HD kk del E) | apply del_canon_delstep].
Qed.

(* ---- concrete instances: non-vacuity, the sampler window, the old behaviours ---- *)
Local Open Scope Z_scope.
Definition ex_f (c : Z) : Z := 7 * c + 3.
Definition ex_sw : sweep := [[100; 101]; [200; 201]; [300]].
Definition ex_old : pdata := [(900, 6303); (100, 703)].           (* overlaps the sweep without conflict *)
Definition ex_tab : pdata := [(901, 6310)].
Definition ex_sown (kd : kind) : fs :=
  crash (steps_of ex_f (OSow ex_sw 1) (base_state (Some ex_old) (Some ex_tab))) 100 (base_state (Some ex_old) (Some ex_tab)).
Definition ex_grown (kd : kind) : fs := crash (steps_of ex_f (OGrowMissing 2) (ex_sown kd)) 100 (ex_sown kd).
Definition ex_new : pdata := [(100, 703); (101, 710); (200, 1403); (201, 1410); (300, 2103)].

Lemma ex_grown_reachable kd : reachable ex_f ex_sw kd (Some ex_old) (Some ex_tab) (ex_grown kd).
Proof. unfold ex_grown, ex_sown. apply r_op; [apply r_op; [apply r_base | constructor] | constructor]. Qed.

(* THE SAMPLER WINDOW (a genuine finding, refuting "recovery is exact" for one window): kill the
   reap of a fully grown sampler crop right after the table's rename (k = 4) -- or at any later
   step of the deletion --; the documented recovery (here: reap again) appends the same rows a
   second time.  The sampler has no idempotence key. *)
Lemma C10_sampler_window_refuted :
  exists st k, reachable ex_f ex_sw KSampler (Some ex_old) (Some ex_tab) st
    /\ (* the uninterrupted reap leaves the old rows followed by the crop's rows *)
       lookup (run (steps_of ex_f (OReap KSampler (del_canon st)) st) st) (Fin BTable)
       = Some (Whole (PTable (ex_tab ++ ex_new)))
    /\ (* after the crash the table is already complete and the crop still whole *)
       lookup (crash (steps_of ex_f (OReap KSampler (del_canon st)) st) k st) (Fin BTable)
       = Some (Whole (PTable (ex_tab ++ ex_new)))
    /\ later_reap KSampler false (crash (steps_of ex_f (OReap KSampler (del_canon st)) st) k st)
       = Value (direct ex_f ex_sw)
    /\ (* and the recovery duplicates the rows *)
       lookup (recover_final ex_f KSampler ex_sw 9 del_canon
                 (crash (steps_of ex_f (OReap KSampler (del_canon st)) st) k st)) (Fin BTable)
       = Some (Whole (PTable (ex_tab ++ ex_new ++ ex_new))).
Proof.
  exists (ex_grown KSampler), 4%nat. split; [apply ex_grown_reachable|]. repeat split; vm_compute; reflexivity.
Qed.
(* the same at a later step of the deletion (results half deleted: the recovery re-grows them) *)
Lemma C10_sampler_window_refuted_mid_delete :
  let st := ex_grown KSampler in
  lookup (recover_final ex_f KSampler ex_sw 9 del_canon
            (crash (steps_of ex_f (OReap KSampler (del_canon st)) st) 9 st)) (Fin BTable)
  = Some (Whole (PTable (ex_tab ++ ex_new ++ ex_new))).
Proof. vm_compute. reflexivity. Qed.

(* OLD harvester: remove the data file, then write the new one in place.  A kill in between
   (k = 1) leaves no data at all; a kill during the write leaves a torn file. *)
Lemma C10_harvest_survives_refuted_old :
  let st := ex_grown KHarvester in
  lookup st (Fin BData) = Some (Whole (PData ex_old))
  /\ lookup (crash (reap_steps_old_harvest (del_canon st) st) 1 st) (Fin BData) = None
  /\ lookup (crash (reap_steps_old_harvest (del_canon st) st) 3 st) (Fin BData) = Some Torn.
Proof. repeat split; vm_compute; reflexivity. Qed.

(* OLD sampler: the crop was deleted before the table was saved.  A kill after the deletion and
   before the rename: the results are gone and their rows are not in the table. *)
Lemma C10_sampler_rows_never_lost_refuted_old :
  let st := ex_grown KSampler in
  let st' := crash (reap_steps_old_sampler (del_canon st) st) 13 st in
  lookup st (Fin (BResult 1)) = Some (Whole (PResult [703; 710]))
  /\ lookup st' (Fin (BResult 1)) = None
  /\ lookup st' (Fin BTable) = Some (Whole (PTable ex_tab)).
Proof. repeat split; vm_compute; reflexivity. Qed.

(* OLD write_to_disk (in place): a kill while growing leaves a TORN file under the final result name;
   it is counted as finished (the crop looks ready) although every reader fails on it *)
Lemma C10_torn_result_visible_refuted_old :
  let st := crash (steps_of ex_f (OGrow [1; 2]%nat 2) (ex_sown KRaw)) 100 (ex_sown KRaw) in
  let st' := crash (grow_steps_old ex_f st 3) 2 st in
  lookup st' (Fin (BResult 3)) = Some Torn /\ ready st' = true /\ later_reap KRaw false st' = Error.
Proof. repeat split; vm_compute; reflexivity. Qed.

(* ---- non-vacuity: concrete crash states, their reap and their recovery ---- *)
Example C10_example_sow_crash :
  let b := base_state (Some ex_old) (Some ex_tab) in
  let st := crash (steps_of ex_f (OSow ex_sw 1) b) 17 b in     (* killed while batch 2's temp file is open *)
  enc_progress st = VL [VZ 1; VZ 0; VL [VZ 1; VZ 2; VZ 3]; VZ 0]
  /\ later_reap KHarvester false st = Refused
  /\ recover_outcome ex_f KHarvester ex_sw 9 st = Value (direct ex_f ex_sw)
  /\ lookup (recover_final ex_f KHarvester ex_sw 9 del_canon st) (Fin BData)
     = Some (Whole (PData (ex_old ++ [(101, 710); (200, 1403); (201, 1410); (300, 2103)]))).
Proof. repeat split; vm_compute; reflexivity. Qed.

Example C10_example_reap_crash_mid_delete :
  let st := ex_grown KHarvester in
  (* a deletion order that removes result 1 and batch 2 first: the counts still agree (2 = 2), the
     crop LOOKS ready, and the reap fails on the missing result instead of returning short data *)
  let del := Unlink (Fin (BResult 1)) :: Unlink (Fin (BBatch 2)) :: del_canon st in
  let st' := crash (steps_of ex_f (OReap KHarvester del) st) 6 st in
  ready st' = true
  /\ later_reap KHarvester false st' = Error
  /\ later_reap KHarvester true st' = Value [None; None; Some 1403; Some 1410; Some 2103]
  /\ lookup st' (Fin BData) = Some (Whole (PData (merged ex_f ex_sw (Some ex_old))))
  /\ recover_outcome ex_f KHarvester ex_sw 9 st' = Value (direct ex_f ex_sw)
  /\ lookup (recover_final ex_f KHarvester ex_sw 9 del_canon st') (Fin BData)
     = Some (Whole (PData (merged ex_f ex_sw (Some ex_old)))).
Proof. repeat split; vm_compute; reflexivity. Qed.

Example C10_example_partial_reap :
  let st := crash (steps_of ex_f (OGrow [1; 3]%nat 2) (ex_sown KRaw)) 6 (ex_sown KRaw) in   (* result 3 not yet renamed *)
  later_reap KRaw true st = Value [Some 703; Some 710; None; None; None]
  /\ later_reap KRaw false st = Refused.
Proof. repeat split; vm_compute; reflexivity. Qed.

(* ---- tie to the code: the step order the theorems assume is the one regenerated from /repo ---- *)
Theorem C10_code_tie :
  gen_shape = model_shape
  /\ (forall b p w, steps_of_write (cs_write gen_shape) b p w = write b p w)
  /\ (forall st sw w, steps_of_sow gen_shape (cs_sow_combos gen_shape) st sw w = sow_steps st sw w)
  /\ (forall st sw w, steps_of_sow gen_shape (cs_sow_cases gen_shape) st sw w = sow_steps st sw w)
  /\ (cs_writers_atomic gen_shape = true /\ cs_batch_counter_first gen_shape = true /\ cs_tmp_unique gen_shape = true)
  /\ write_after_loop (cs_grow gen_shape) false = true
  /\ (forall p, steps_of_save (cs_save_ds gen_shape) BData p = write BData p 0)
  /\ (forall p, steps_of_save (cs_save_df gen_shape) BTable p = write BTable p 0)
  /\ p_hsave_removes_first gen_sites = false
  /\ reap_prims gen_prog gen_dispatch FHarvester None false
     = [PFallible 7; PFallible 2; PFallible 1; PFallible 2; PFallible 3; PFallible 4; PFallible 5; PFallible 6; PDelete]
  /\ reap_prims gen_prog gen_dispatch FSampler None false
     = [PFallible 7; PFallible 2; PFallible 1; PFallible 2; PFallible 3; PFallible 4; PFallible 5; PFallible 6; PDelete].
Proof.
  split; [exact bridge_shape|]. split; [exact bridge_write|]. split; [exact bridge_sow_combos|].
  split; [exact bridge_sow_cases|]. split; [exact bridge_writers|]. split; [exact (proj1 bridge_grow)|].
  split; [exact bridge_save_ds|]. split; [exact bridge_save_df|].
  split; [exact (proj1 (proj2 (proj2 bridge_save_names)))|].
  split; [exact (proj1 bridge_sync_then_delete) | exact (proj1 (proj2 bridge_sync_then_delete))].
Qed.

(* [resow_samples_steps] is what sow_samples does: its statements (draw the samples, unlink the results of the
   earlier sow, THEN sow the cases) are compared with their transcription on every run (GenHarvest) *)
Theorem C10_resow_order_tie : GenHarvest.gen_sampler_draw_is_transcribed = true.
Proof. exact BridgeHarvest.bridge_sampler_draw. Qed.

Print Assumptions C10_resow_samples_prefix.
Print Assumptions C10_no_silent_corruption.
Print Assumptions C10_recovery_exact.
Print Assumptions C10_recovery_reentrant.
Print Assumptions C10_recovery_exact_sampler_partial.
Print Assumptions C10_sampler_rows_never_lost.
Print Assumptions C10_harvest_results_never_lost.
Print Assumptions C10_harvest_survives.
Print Assumptions C10_sampler_window_refuted.
Print Assumptions C10_harvest_survives_refuted_old.
Print Assumptions C10_code_tie.
