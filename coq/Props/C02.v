(* C02 -- sparse cases run only what was asked and leave every other slot missing. *)
From XV Require Import Prelude Grid Perm Runner RunnerInst GridProofs PermProofs RunnerProofs.
From XV Require Flow GenRunner BridgeRunner.
From Coq Require Import Permutation Sorting.Sorted.
Open Scope Z_scope.

(* called exactly once for each requested setting (every case crossed with the sub-grid),
   never for any other *)
Theorem C02_calls_exact : forall (R : Type) (f : kwargs -> R) (comps : R -> list R) (i : input),
  wf_cases i -> disjoint_args i -> wf_perm i ->
  Permutation (snd (core f comps i))
    (flat_map (fun cv => map (fun vs => combine (i_case_args i ++ i_combo_args i) (cv ++ vs) ++ i_consts i)
                             (product (i_combo_values i)))
              (i_case_values i)).
Proof.
  intros R f comps i (Hc & Hne & Hall) Hd Hp.
  eapply perm_trans; [exact (calls_exactly_once f comps i Hd Hp)|].
  unfold settings, locs, kw_of, fn_args, eff_case_args, eff_case_values. rewrite Hc.
  rewrite flat_map_concat_map, concat_map, map_map, <- flat_map_concat_map.
  erewrite flat_map_ext; [apply Permutation_refl|]. intros cv. rewrite map_map. reflexivity.
Qed.

(* the output grid spans, per case argument, exactly the sorted union of the case values *)
Theorem C02_grid_spans_union : forall (i : input) (j : nat),
  wf_cases i -> (j < length (i_case_args i))%nat ->
  let col := nth j (case_coords i) [] in
  StronglySorted Z.lt col /\
  forall v, In v col <-> exists cv, In cv (i_case_values i) /\ nth j cv 0 = v.
Proof. intros i j Hwf Hj. exact (case_coords_spec i j Hwf Hj). Qed.

(* each computed result sits at its own coordinates (which lie inside the grid) *)
Theorem C02_requested_slot : forall (R : Type) (f : kwargs -> R) (comps : R -> list R) (i : input) loc,
  wf_cases i -> disjoint_args i -> wf_perm i -> i_flat i = false -> i_split i = false ->
  In loc (locs i) ->
  exists idx n, vals_at (all_combo_values i) idx = Some loc
                /\ fst (core f comps i) = ONest n
                /\ nest_at n idx = Some (Leaf (Got (f (kw_of i loc)))).
Proof.
  intros R f comps i loc Hwf Hd Hp Hf Hs Hin.
  destruct (requested_in_grid i loc Hwf Hin) as [idx Hidx].
  destruct (requested_slot f comps i idx loc Hd Hp Hf Hs Hidx Hin) as (n & Hn & Hat).
  exists idx, n. unfold dims_of in Hidx. destruct Hwf as (Hc & _). rewrite Hc in Hidx. auto.
Qed.

(* every other slot of the grid holds the all-missing placeholder derived from the first result *)
Theorem C02_other_slot : forall (R : Type) (f : kwargs -> R) (comps : R -> list R) (i : input) idx vs r0 rest,
  wf_cases i -> disjoint_args i -> wf_perm i -> i_flat i = false -> i_split i = false ->
  vals_at (all_combo_values i) idx = Some vs -> ~ In vs (locs i) ->
  map f (settings i) = r0 :: rest ->
  exists n, fst (core f comps i) = ONest n /\ nest_at n idx = Some (Leaf (Hole r0)).
Proof.
  intros R f comps i idx vs r0 rest (Hc & _) Hd Hp Hf Hs Hv Hnin Hr.
  apply (other_slot f comps i idx vs Hd Hp Hf Hs) with (rest := rest); [|exact Hnin|exact Hr].
  unfold dims_of. rewrite Hc. exact Hv.
Qed.

(* an argument in both the cases and the grid is rejected before anything runs *)
Theorem C02_overlap_rejected : forall (R : Type) (f : kwargs -> R) (comps : R -> list R) (i : input),
  disjointb (eff_case_args i) (i_combo_args i) = false -> core f comps i = (ORejected, []).
Proof. intros R f comps i H. exact (overlap_rejected f comps i H). Qed.

(* shuffled or not: same output *)
Theorem C02_strategy_independent : forall (R : Type) (f : kwargs -> R) (comps : R -> list R) (i : input),
  wf_perm i -> fst (core f comps i) = fst (core f comps (set_perm i None)).
Proof. intros R f comps i Hp. exact (output_strategy_independent f comps i Hp). Qed.

(* flat: results of the requested settings in request order, no placeholder *)
Theorem C02_flat : forall (R : Type) (f : kwargs -> R) (comps : R -> list R) (i : input),
  disjoint_args i -> wf_perm i -> i_flat i = true -> i_split i = false ->
  fst (core f comps i) = OFlat (map f (settings i)).
Proof. intros R f comps i Hd Hp Hf Hs. exact (flat_output f comps i Hd Hp Hf Hs). Qed.

(* the placeholder is shaped like a real result: for a rectangular nested result every
   component of the placeholder has that component's true shape; bool/str give None *)
Theorem C02_placeholder_shape : forall (l : list rv) (shs : list (list Z)),
  map rect_shape l = map Some shs -> nan_like (RT l) = PTup shs.
Proof. intros l shs H. exact (nan_like_shape l shs H). Qed.
Theorem C02_placeholder_scalar : forall z b s,
  nan_like (RZ z) = PNan /\ nan_like (RB b) = PNone /\ nan_like (RS s) = PNone.
Proof. intros. repeat split. Qed.

(* non-vacuity: two cases over (a, b) crossed with a sub-grid on c *)
Definition ex_cases : input :=
  mk_input true [3; 1] [[2; 0]; [0; 1]] [2] [[0; 1]] [] false false (Some [2; 0; 3; 1]%nat).
Example C02_example_wf : wf_cases ex_cases /\ disjoint_args ex_cases /\ wf_perm ex_cases.
Proof.
  repeat split; try discriminate.
  - repeat constructor.
  - unfold wf_perm. cbn [i_perm ex_cases]. apply is_perm_sound. vm_compute. reflexivity.
Qed.
Example C02_example_out :
  nest_at_val (fst (core (hfun 3) comps ex_cases)) [1; 0; 1]%nat
    = Some (enc_rv (hfun 3 [(3, 2); (1, 0); (2, 1)]))
  /\ nest_at_val (fst (core (hfun 3) comps ex_cases)) [0; 0; 1]%nat
    = Some (VL [VS "hole"; VL [VS "nantuple"; VL []; VL []]]).
Proof. vm_compute. split; reflexivity. Qed.

(* tie to the code: how argument names and value tuples are read off dict cases (by name, in the key order of
   the first case), the overlap guard placed before anything is enumerated or run, the iterative nest builder and
   the duplicate test are the transcribed ones; the run / results / info data flow is regenerated (GenRunner) *)
Theorem C02_code_tie :
  GenRunner.gen_prologue_is_transcribed = true /\ GenRunner.gen_unflatten_is_transcribed = true
  /\ GenRunner.gen_duplicates_rejected_by_equality = true
  /\ (forall (R : Type) (f : kwargs -> R) i,
        Flow.interp f i (BridgeRunner.run_prov i) = Flow.DS (run_order i)).
Proof.
  split; [exact BridgeRunner.bridge_prologue|]. split; [exact (proj1 BridgeRunner.bridge_flags)|].
  split; [exact BridgeRunner.bridge_duplicates|]. intros. apply BridgeRunner.bridge_run.
Qed.

(* the spellings of fn_args / cases / combos / var_names / var_dims are normalised by the pinned functions of
   prepare.py (bare values wrapped, strings not split, dicts kept, duplicates refused) *)
Theorem C02_spellings_pinned : GenRunner.gen_prepare_is_pinned = true /\ GenRunner.gen_placeholder_is_pinned = true.
Proof. exact (conj BridgeRunner.bridge_prepare_pinned BridgeRunner.bridge_placeholder_pinned). Qed.

Print Assumptions C02_spellings_pinned.
Print Assumptions C02_code_tie.
Print Assumptions C02_calls_exact.
Print Assumptions C02_grid_spans_union.
Print Assumptions C02_requested_slot.
Print Assumptions C02_other_slot.
Print Assumptions C02_overlap_rejected.
Print Assumptions C02_strategy_independent.
Print Assumptions C02_flat.
Print Assumptions C02_placeholder_shape.
