(* C07 -- batches partition the work exactly and honour the requested size or count.
   Property theorems only; every proof is `exact`/short assembly of lemmas from Proofs/. *)
From XV Require Import Prelude Batch GenBatch BridgeBatch BatchProofs.
From XV Require Stages GenStages BridgeStages Farmer GenFarmer BridgeFarmer.
Open Scope Z_scope.

Definition sizes_ok {A} (bs : list (list A)) (f : Z -> Z) : Prop :=
  forall i b, nth_error bs i = Some b -> Z.of_nat (length b) = f (Z.of_nat i).

(* a batch size s was requested: B = ceil(N/s), every batch non-empty and of at most s,
   batches concatenate to the settings in sow order (each setting in exactly one batch),
   and batch i of the list is file i (ids 1..B without gaps are list positions). *)
Theorem C07_by_size : forall (A : Type) (l : list A) (s : Z),
  let n := Z.of_nat (length l) in
  1 <= s -> 1 <= n ->
  exists bs, sow l (Some s) None = Ok ((Some s, Some (cdiv n s), Some 0), bs)
    /\ concat bs = l
    /\ Forall (fun b => 1 <= Z.of_nat (length b) <= s) bs
    /\ Z.of_nat (length bs) = cdiv n s
    /\ (cdiv n s - 1) * s < n <= cdiv n s * s.
Proof.
  intros A l s n Hs Hn. exists (sow_all s 0 l).
  unfold sow, choose. fold n.
  replace (s <? 1) with false by lia.
  repeat split.
  - exact (sow_all_concat s 0 Hs (Z.le_refl 0) l).
  - exact (by_size_bound l s Hs).
  - exact (by_size_count l s Hs).
  - apply cdiv_spec; exact Hs.
  - apply cdiv_spec; exact Hs.
Qed.

(* a batch count k was requested: B = min(k, N), the first (N mod B) batches hold
   one setting more than the others (so sizes differ by at most one, none empty). *)
Theorem C07_by_count : forall (A : Type) (l : list A) (k : Z),
  let n := Z.of_nat (length l) in
  let B := Z.min n k in
  1 <= k -> 1 <= n ->
  exists bs, sow l None (Some k) = Ok ((Some (n / B), Some B, Some (n mod B)), bs)
    /\ concat bs = l
    /\ Z.of_nat (length bs) = B
    /\ sizes_ok bs (fun i => n / B + b2z (i <? n mod B))
    /\ 1 <= n / B.
Proof.
  intros A l k n B Hk Hn.
  assert (HB : 1 <= B <= n) by (unfold B; lia).
  assert (Hq : 1 <= n / B) by (apply Z.div_le_lower_bound; lia).
  assert (Hr : 0 <= n mod B < B) by (apply Z.mod_pos_bound; lia).
  exists (sow_all (n / B) (n mod B) l).
  unfold sow, choose. fold n. fold B.
  replace (B <? 1) with false by lia.
  destruct (by_count_batches l B (proj1 HB) Hn (proj2 HB)) as [Hlen Hsz].
  repeat split.
  - exact (sow_all_concat (n / B) (n mod B) Hq (proj1 Hr) l).
  - exact Hlen.
  - exact Hsz.
  - exact Hq.
Qed.

(* no batch is empty, whatever (valid) batch size and remainder the crop holds *)
Theorem C07_nonempty : forall (A : Type) (l : list A) (s r : Z),
  1 <= s -> 0 <= r -> Forall (fun b => b <> []) (sow_all s r l).
Proof. intros A l s r Hs Hr. exact (sow_all_nonempty s r Hs Hr l). Qed.

(* the numbers saved with the crop pass the consistency check when the crop is
   re-created from disk and sown again with the same number of settings *)
Theorem C07_reload : forall (n : Z) (bs nb : option Z) (c : cfg),
  1 <= n -> (bs = None \/ nb = None) ->
  choose n bs nb None = Ok c ->
  let '(s', k', r') := c in choose n s' k' r' = Ok c.
Proof.
  intros n bs nb c Hn Hnone Hc. unfold choose in Hc.
  destruct bs as [s|], nb as [k|]; try (destruct Hnone; discriminate).
  - (* by size *)
    destruct (s <? 1) eqn:E; [discriminate|]. injection Hc as <-.
    pose proof (cdiv_spec n s ltac:(lia)) as Hcd.
    apply choose_both_ok. lia.
  - (* by count *)
    destruct (Z.min n k <? 1) eqn:E; [discriminate|]. injection Hc as <-.
    assert (H1 : 1 <= Z.min n k <= n) by lia.
    assert (Hdm : n = Z.min n k * (n / Z.min n k) + n mod Z.min n k) by (apply Z.div_mod; lia).
    assert (Hr : 0 <= n mod Z.min n k < Z.min n k) by (apply Z.mod_pos_bound; lia).
    assert (Hq : 1 <= n / Z.min n k) by (apply Z.div_le_lower_bound; lia).
    apply choose_both_ok. lia.
  - (* neither: batchsize 1 *)
    change (Ok (Some 1, Some (cdiv n 1), Some 0) = Ok c) in Hc. injection Hc as <-.
    pose proof (cdiv_spec n 1 ltac:(lia)) as Hcd.
    apply choose_both_ok. lia.
Qed.

(* the N the plan is made for is the N that is sown: at both sowing entry points the batch planner is handed
   the same combos AND cases terms as the runner that enumerates the settings (call sites regenerated) *)
Theorem C07_planner_counts_what_is_sown : forall (x : list (Z * list Z)),
  let cs := GenStages.gen_sow_combos_sites in let ca := GenStages.gen_sow_cases_sites in
  (Stages.dterm_eval (Stages.ds_batch_combos cs) x = Stages.dterm_eval (Stages.ds_run_combos cs) x
   /\ Stages.ds_batch_cases cs = Stages.ds_run_cases cs)
  /\ (Stages.dterm_eval (Stages.ds_batch_combos ca) x = Stages.dterm_eval (Stages.ds_run_combos ca) x
      /\ Stages.ds_batch_cases ca = Stages.ds_run_cases ca).
Proof.
  intros x cs ca. subst cs ca.
  destruct (BridgeStages.consistent_one_description GenStages.gen_sow_combos_sites eq_refl) as (_ & _ & -> & ->).
  destruct (BridgeStages.consistent_one_description GenStages.gen_sow_cases_sites eq_refl) as (_ & _ & -> & ->).
  repeat split.
Qed.

(* sensitivity: a planner that is not handed the sub-combos of sow_cases plans for the wrong N *)
Lemma C07_planner_without_combos_refuted :
  let x := [(2, [7; 8; 9])] in
  Stages.descr_size (Stages.dterm_eval Stages.DAbsent x) <> Stages.descr_size (Stages.dterm_eval (Stages.DParse Stages.DArg) x).
Proof. vm_compute. discriminate. Qed.

(* every sown setting carries the keyword arguments of a direct run: the constants merged into the settings at
   sow time (runner resources, overridden by runner constants, overridden by the call's constants) have the
   precedence of a direct run (Crop.parse_constants and combo_runner_to_ds, regenerated) *)
Theorem C07_sown_kwargs_precedence :
  GenFarmer.gen_sown_constants_order = GenFarmer.gen_direct_constants_order
  /\ GenFarmer.gen_sown_constants_order = [Farmer.CResources; Farmer.CRunnerConstants; Farmer.CCallConstants].
Proof. split; [exact BridgeFarmer.bridge_constants_order|reflexivity]. Qed.

(* the tie: the definitions regenerated from cropping.py on this run are the model *)
Theorem C07_code_tie :
  (forall cne pc sne lc bs nb r,
     gen_choose cne pc sne lc bs nb r = choose (total_n cne pc sne lc) bs nb r)
  /\ (forall cnt bc s r, gen_sower_call cnt bc s r = (cnt + 1, true, cut s r (cnt + 1) bc))
  /\ (forall bc cnt, gen_save_batch bc cnt = (bc + 1, bc + 1, 0, true))
  /\ (forall b, gen_sower_exit b = b)
  /\ gen_reload_overrides_request = true.
Proof.
  exact (conj bridge_choose (conj bridge_sower_call (conj bridge_save_batch (conj bridge_sower_exit bridge_reload_overrides)))).
Qed.

(* non-vacuity: concrete crops meeting the hypotheses *)
Example C07_example_size :
  sow [10; 11; 12; 13; 14; 15; 16] (Some 3) None
  = Ok ((Some 3, Some 3, Some 0), [[10; 11; 12]; [13; 14; 15]; [16]]).
Proof. vm_compute. reflexivity. Qed.
Example C07_example_count :
  sow [10; 11; 12; 13; 14; 15; 16] None (Some 3)
  = Ok ((Some 2, Some 3, Some 1), [[10; 11; 12]; [13; 14]; [15; 16]]).
Proof. vm_compute. reflexivity. Qed.

Print Assumptions C07_by_size.
Print Assumptions C07_by_count.
Print Assumptions C07_nonempty.
Print Assumptions C07_reload.
Print Assumptions C07_planner_counts_what_is_sown.
Print Assumptions C07_sown_kwargs_precedence.
Print Assumptions C07_code_tie.
