(* C13 -- missing-data discovery reports exactly the locations that have no data.
   Stated over the labelled-dataset model Model/DsMap.v for ANY dataset: no bound on the
   number of dimensions, coordinate sizes, variables or internal dimensions, for both null
   criteria.  The specification side (present / in_sel / all_null_at / null_cell, in
   Proofs/DsMapProofs.v) quantifies over variables and internal positions and does not
   mention the executable definitions.  xarray's sel / isnull / isfinite / all and the
   order of ds.dims are modelled, not proved (validated by correspondence). *)
From XV Require Import Prelude Grid DsMap Missing GenMissing BridgeMissing GridProofs DsMapProofs.
From XV Require Farmer GenFarmer BridgeFarmer.
Open Scope Z_scope.

(* a location is reported iff it lies in the grid of the non-ignored dimensions and every
   position of every variable there is null *)
Theorem C13_exact : forall ds ignore method loc, wf_ds ds ->
  (In loc (find_missing ds ignore method) <->
   In loc (grid ds ignore) /\ all_null_at ds (setting_of ds ignore loc) method).
Proof. intros ds ignore method loc Hwf. exact (find_missing_spec ds ignore method loc Hwf). Qed.

(* a location where some variable holds a non-null cell is never reported *)
Theorem C13_never_reports_data : forall ds ignore method loc v key, wf_ds ds ->
  In v (d_vars ds) -> in_sel (d_dims ds) (setting_of ds ignore loc) (v_dims v) key ->
  ~ null_cell method (cell_at (v_cells v) key) ->
  ~ In loc (find_missing ds ignore method).
Proof. intros ds ignore method loc v key. exact (find_missing_no_data ds ignore method loc v key). Qed.

(* the report follows the grid (itertools.product over the dataset's dimension order) and
   has no duplicates when the coordinates have none *)
Theorem C13_order_nodup : forall ds ignore method,
  sublist (find_missing ds ignore method) (grid ds ignore)
  /\ (coords_nodup ds -> NoDup (find_missing ds ignore method)).
Proof.
  intros ds ignore method. split; [apply find_missing_sublist|].
  intros Hc. eapply sublist_NoDup; [apply find_missing_sublist|apply grid_NoDup, Hc].
Qed.

(* a single question: missing = coordinates absent, or the location is all-null *)
Theorem C13_is_case_missing : forall ds s method,
  is_case_missing ds s method = true <-> ~ present (d_dims ds) s \/ all_null_at ds s method.
Proof. exact is_case_missing_spec. Qed.

(* requested combos and cases: exactly the requested settings that are absent or all-null are
   kept, in request order and with their multiplicity; without a dataset all are kept *)
Theorem C13_requested : forall combos cases ds method,
  parse_into_cases combos cases None method = requested combos cases
  /\ exists keep : setting -> bool,
       (forall s, keep s = true <-> ~ present (d_dims ds) s \/ all_null_at ds s method)
       /\ parse_into_cases combos cases (Some ds) method = filter keep (requested combos cases).
Proof.
  intros combos cases ds method. split; [apply parse_no_ds|].
  exists (fun s => is_case_missing ds s method). split; [|reflexivity].
  intros s. apply is_case_missing_spec.
Qed.

(* find -> harvest exactly the reported cases (function results non-null in every variable)
   -> find again with the same arguments: nothing is missing *)
Theorem C13_fixpoint : forall g ds ignore method, wf_ds ds -> has_data_var ds ->
  find_missing (harvest_missing g ds ignore method) ignore method = [].
Proof. intros g ds ignore method. exact (harvest_missing_fixpoint g ds ignore method). Qed.

(* the three functions as regenerated from xyzpy/gen/case_runner.py (reductions, KeyError
   answer, forwarding of the null criterion read from the source by the translator) are the
   model functions the theorems above speak about *)
Theorem C13_regenerated_code : forall ds s ignore combos cases ods method,
  is_case_missing_w gen_wiring ds s method = is_case_missing ds s method
  /\ find_missing_w gen_wiring ds ignore method = find_missing ds ignore method
  /\ parse_into_cases_w gen_wiring combos cases ods method = parse_into_cases combos cases ods method.
Proof.
  intros. split; [apply bridge_is_case_missing|split; [apply bridge_find_missing|apply bridge_parse_into_cases]].
Qed.

(* ------------------------------------------------------------------ non-vacuity *)
(* dims: 1 -> [2;0;1] (dataset order, not sorted), 2 -> [0;1], internal 9 -> [0;1;2];
   variable 5 over (2, 1, 9), variable 6 over (1) only.
   location (1=0, 2=1): variable 5 is NaN/inf only, variable 6 inf  -> missing for isfinite only
   location (1=0, 2=0): variable 5 all NaN, variable 6 inf          -> missing for isfinite only
   location (1=1, 2=1): all NaN in both variables                   -> missing for both criteria
   location (1=1, 2=0): all NaN except one internal position of variable 5 -> partial, not missing
   location (1=2, any): variable 6 has data -> never missing *)
Definition ex_ds : dataset :=
  mk_ds [(1, [2; 0; 1]); (2, [0; 1]); (9, [0; 1; 2])]
        [mk_var 5 [2; 1; 9] [([1; 0; 0], CInf); ([1; 0; 2], CInf); ([0; 1; 1], CVal 7);
                             ([0; 2; 0], CVal 1); ([1; 2; 1], CVal 2)];
         mk_var 6 [1] [([2], CVal 3); ([0], CInf)]].

Example C13_example_wf : wf_ds ex_ds /\ coords_nodup ex_ds /\ has_data_var ex_ds.
Proof.
  split; [|split].
  - unfold wf_ds. cbn. repeat constructor; cbn; intuition discriminate.
  - intros d ls H. cbn in H.
    destruct H as [H|[H|[H|[]]]]; injection H as <- <-; repeat constructor; cbn; intuition discriminate.
  - exists (mk_var 6 [1] [([2], CVal 3); ([0], CInf)]). split; [right; left; reflexivity|].
    intros d [<-|[]]. discriminate.
Qed.

Example C13_example_find :
  fn_args ex_ds [9] = [1; 2]
  /\ find_missing ex_ds [9] M_isnull = [[1; 1]]
  /\ find_missing ex_ds [9] M_isfinite = [[0; 0]; [0; 1]; [1; 1]]
  /\ find_missing ex_ds [] M_isfinite = [[0; 0; 0]; [0; 0; 1]; [0; 0; 2]; [0; 1; 0]; [0; 1; 1]; [0; 1; 2];
                                         [1; 0; 0]; [1; 0; 2]; [1; 1; 0]; [1; 1; 1]; [1; 1; 2]]
  /\ parse_into_cases [(1, [0; 7])] [[(2, 1)]; [(2, 5)]] (Some ex_ds) M_isnull
     = [[(2, 1); (1, 7)]; [(2, 5); (1, 0)]; [(2, 5); (1, 7)]]
  /\ parse_into_cases [(1, [0; 7])] [[(2, 1)]; [(2, 5)]] (Some ex_ds) M_isfinite
     = [[(2, 1); (1, 0)]; [(2, 1); (1, 7)]; [(2, 5); (1, 0)]; [(2, 5); (1, 7)]]
  /\ find_missing (harvest_missing (fun _ _ => 0) ex_ds [9] M_isfinite) [9] M_isfinite = []
  /\ find_missing (harvest_missing (fun _ _ => 0) ex_ds [9] M_isfinite) [] M_isnull = [].
Proof. vm_compute. repeat split; reflexivity. Qed.

(* closing the loop: harvest_cases hands the reported cases and the reported argument order to run_cases, which
   parses the cases against THAT order (not the runner's own) -- GenFarmer *)
Theorem C13_reported_order_is_used :
  GenFarmer.gen_run_cases_call = Farmer.model_run_combos_call.
Proof. exact BridgeFarmer.bridge_run_cases. Qed.

Print Assumptions C13_reported_order_is_used.
Print Assumptions C13_exact.
Print Assumptions C13_never_reports_data.
Print Assumptions C13_order_nodup.
Print Assumptions C13_is_case_missing.
Print Assumptions C13_requested.
Print Assumptions C13_fixpoint.
Print Assumptions C13_regenerated_code.
