(* C08 -- reported progress always matches the batches that really finished. *)
From XV Require Import Prelude Grid Perm Runner Batch Crop GenReap BridgeReap
     GridProofs PermProofs RunnerProofs BatchProofs AssocProofs CropProofs ReapProofs ProgressProofs TearProofs.
From XV Require Sched GenPublish BridgePublish GenBatch BridgeBatch.
Open Scope Z_scope.

(* after ANY history of grows (with any failures of the function or of the result write), result deletions, check_bad and re-sows of
   the same sweep, every result file on disk is the whole, correct result of its own batch,
   and the batch files are exactly 1..B *)
Theorem C08_inv : forall (R : Type) (g : kwargs -> R) (i : input) bl (d0 : @disk R) (ops : list dop),
  Inv g i bl d0 -> Inv g i bl (fold_left (dstep g i) ops d0).
Proof. intros R g i bl d0 ops HI. exact (history_inv g i bl ops d0 HI). Qed.

(* a batch is finished after an operation iff a grow of it just completed, or it was finished
   and its result was not deleted: finished = successful grow since the last deletion *)
Theorem C08_finished_history : forall (R : Type) (g : kwargs -> R) (i : input) bl (d : @disk R) o j,
  Inv g i bl d ->
  finished (dstep g i d o) j =
  match o with
  | DGrow k fails =>
      match grow (fn g fails) d k with
      | Ok _ => if j =? k then true else finished d j
      | Err _ => finished d j
      end
  | DDelete k => if j =? k then false else finished d j
  | DCheckBad | DResow | DGrowWriteFails _ => finished d j
  end.
Proof. intros R g i bl d o j HI. exact (dstep_finished g i bl d o j HI). Qed.

(* what the crop reports under the invariant *)
Theorem C08_observations : forall (R : Type) (g : kwargs -> R) (i : input) bl (d : @disk R) (o : obj),
  Inv g i bl d -> bl <> [] ->
  num_sown d = Z.of_nat (length bl)
  /\ num_results d = Z.of_nat (length (filter (finished d) (zseq 1 (length bl))))
  /\ (forall x, In x (missing o d) <-> 1 <= x <= Z.of_nat (length bl) /\ finished d x = false)
  /\ (ready d = true <-> missing o d = []).
Proof.
  intros R g i bl d o HI Hne.
  split; [exact (sown_num_sown i bl d (proj1 HI))|].
  split; [exact (num_results_spec g i bl d HI)|].
  split; [intros x; apply (missing_spec g i bl d o x HI)|].
  apply (ready_spec g i bl d o HI Hne).
Qed.

(* growing a batch writes only that batch's result *)
Theorem C08_grow_local : forall (R : Type) (g : kwargs -> R) fails (i : input) bl (d d' : @disk R) k,
  Inv g i bl d -> grow (fn g fails) d k = Ok d' ->
  d_info d' = d_info d /\ d_batches d' = d_batches d
  /\ forall j, j <> k -> zlookup j (d_results d') = zlookup j (d_results d).
Proof.
  intros R g fails i bl d d' k HI Hg. pose proof (grow_spec g fails i bl d k HI) as H. rewrite Hg in H. tauto.
Qed.

(* a batch whose function raised is not recorded *)
Theorem C08_failed_grow_not_recorded : forall (R : Type) (g : kwargs -> R) fails (i : input) bl (d : @disk R) k b,
  Inv g i bl d -> 1 <= k <= Z.of_nat (length bl) ->
  nth_error bl (Z.to_nat (k - 1)) = Some b -> existsb fails b = true ->
  exists e, grow (fn g fails) d k = Err e.
Proof. intros. eapply failed_grow_writes_nothing; eassumption. Qed.

(* growing the missing batches grows exactly those and makes the crop ready *)
Theorem C08_grow_missing : forall (R : Type) (g : kwargs -> R) (i : input) bl (d : @disk R) (o : obj),
  Inv g i bl d -> bl <> [] ->
  exists d', grow_missing (fn g (fun _ => false)) o d = Ok d' /\ Inv g i bl d' /\ ready d' = true
             /\ (forall k, finished d' k = true <-> In k (missing o d) \/ finished d k = true).
Proof. intros R g i bl d o HI Hne. exact (grow_missing_ready g i bl d o HI Hne). Qed.

(* re-sowing the same sweep keeps every existing result *)
Theorem C08_resow_keeps_results : forall (R : Type) (g : kwargs -> R) (i : input) bl (d : @disk R),
  Inv g i bl d ->
  exists d', sow (reload d) d i None None = Ok (reload d, d') /\ d_results d' = d_results d /\ Inv g i bl d'.
Proof. intros R g i bl d HI. exact (resow_keeps_results g i bl d HI). Qed.

(* the invariant is reachable: a first sow establishes it *)
Theorem C08_sow_establishes : forall (R : Type) (g : kwargs -> R) (i : input) bs nb o' (d' : @disk R),
  (bs = None \/ nb = None) -> (1 <= length (run_order i))%nat ->
  sow fresh_obj empty_disk i bs nb = Ok (o', d') ->
  exists bl, Inv g i bl d' /\ d_results d' = [] /\ bl <> [] /\ o' = reload d'.
Proof. intros. eapply sow_establishes; eassumption. Qed.

(* a grow whose result write fails leaves progress untouched: the model's grow is all-or-nothing because the
   result file is published by one rename after it has been written and closed under a temporary name that
   the progress listing does not match (the publication protocol is regenerated from write_to_disk and is
   the atomic one of Model/Sched.v; C11 proves over every interleaving that a visible result is whole) *)
Theorem C08_failed_write_not_recorded : forall (R : Type) (g : kwargs -> R) (i : input) bl (d : @disk R) k j,
  Inv g i bl d ->
  finished (dstep g i d (DGrowWriteFails k)) j = finished d j /\ Inv g i bl (dstep g i d (DGrowWriteFails k)).
Proof. intros. split; [reflexivity|assumption]. Qed.

Theorem C08_publication_tie :
  GenPublish.gen_publish = Sched.publish_atomic /\ GenPublish.gen_grow_shape = Sched.grow_shape_model
  /\ GenPublish.gen_query_ops = Sched.query_ops_model.
Proof.
  exact (conj BridgePublish.bridge_publish (conj BridgePublish.bridge_grow_shape BridgePublish.bridge_query_ops)).
Qed.

(* what a Crop object reports always follows the settings file: loading overrides whatever the object was
   constructed with or was asked for in a refused re-sow (pinned: _sync_info_from_disk, the progress counters) *)
Theorem C08_reports_follow_the_disk : GenBatch.gen_reload_overrides_request = true.
Proof. exact BridgeBatch.bridge_reload_overrides. Qed.

(* tie to the code: the ready test, the missing range/predicate regenerated from cropping.py *)
Theorem C08_code_tie :
  (forall nr ns, gen_is_ready nr ns = (0 <? nr) && (nr =? ns))
  /\ (forall nb e, gen_missing_range nb = (1, nb + 1) /\ gen_no_result e = negb e).
Proof. exact (conj bridge_is_ready bridge_missing). Qed.

(* a finished result torn from outside (truncated, as network file systems have been seen to leave one): after any
   history, check_bad reports exactly that batch and deletes exactly that file -- every other finished batch stays
   finished, the torn one is missing again *)
Theorem C08_torn_result_reported_exactly : forall (R : Type) (g : kwargs -> R) (i : input) bl (d : @disk R) (id : Z),
  Inv g i bl d -> finished d id = true ->
  check_bad (torn d id) = ([id], delete_result d id)
  /\ (forall j, finished (delete_result d id) j = if j =? id then false else finished d j).
Proof.
  intros R g i bl d id HI Hfin. pose proof HI as [HS HR]. split.
  - unfold finished, zmem in Hfin. destruct (zlookup id (d_results d)) as [rs|] eqn:E; [|discriminate].
    destruct (ri_content g bl d HR id rs E) as (Hk & b & Hb & _).
    apply (torn_check_bad d id b).
    + pose proof (check_bad_inv g i bl d HI) as Hc. unfold check_bad in Hc. injection Hc as Hbad _.
      intros x Hx. destruct (is_bad d x) eqn:Eb; [|reflexivity]. exfalso.
      assert (Hin : In (fst x) (map fst (filter (is_bad d) (d_results d)))).
      { apply in_map, filter_In. split; assumption. }
      rewrite Hbad in Hin. exact Hin.
    + rewrite (sw_batches i bl d HS id Hk). exact Hb.
    + pose proof (sw_nonempty i bl d HS) as Hf. rewrite Forall_forall in Hf. apply Hf. eapply nth_error_In, Hb.
  - intros j. unfold finished, zmem, delete_result. cbn [d_results].
    destruct (Z.eqb_spec j id) as [->|Hne].
    + rewrite zlookup_zremove_same. reflexivity.
    + rewrite zlookup_zremove_other by exact Hne. reflexivity.
Qed.

Print Assumptions C08_torn_result_reported_exactly.
Print Assumptions C08_failed_write_not_recorded.
Print Assumptions C08_publication_tie.
Print Assumptions C08_reports_follow_the_disk.
Print Assumptions C08_inv.
Print Assumptions C08_finished_history.
Print Assumptions C08_observations.
Print Assumptions C08_grow_local.
Print Assumptions C08_failed_grow_not_recorded.
Print Assumptions C08_grow_missing.
Print Assumptions C08_resow_keeps_results.
Print Assumptions C08_sow_establishes.
Print Assumptions C08_code_tie.
