(* C09 -- a partial reap shows finished batches exactly and everything else as missing. *)
From XV Require Import Prelude Grid Perm Runner Batch Crop GenReap BridgeReap
     GridProofs PermProofs RunnerProofs BatchProofs AssocProofs CropProofs ReapProofs.
From XV Require Sched GenPublish BridgePublish.
Open Scope Z_scope.

(* For ANY set of finished batches (at least one), reaping with allow_incomplete returns the
   output of the direct sweep of the function masked by "the batch this setting was sown into
   is finished": the exact value at every position of a finished batch, the placeholder at
   every other position -- for every grid / case set, shuffle, batch size or count. *)
Theorem C09_partial : forall (R : Type) (g : kwargs -> R) (i : input) bl (d : @disk R) (cu : option bool),
  Inv g i bl d -> NoDup (run_order i) -> disjoint_args i ->
  (exists k, finished d k = true) ->
  reap d true cu
  = Ok (fst (core (masked_fn g d bl) (fun _ => []) i),
        if eff_clean_up cu true then empty_disk else d).
Proof. intros R g i bl d cu HI Hnd Hd Hk. exact (reap_partial g i bl d cu HI Hnd Hd Hk). Qed.

(* a setting sown into batch k is masked exactly by whether batch k is finished *)
Theorem C09_mask : forall (R : Type) (g : kwargs -> R) (d : @disk R) bl kw,
  masked_fn g d bl kw = if finished d (batch_index 1 bl kw) then SGot (g kw) else SHole.
Proof. reflexivity. Qed.

(* by default nothing is deleted, so growing can continue *)
Theorem C09_nothing_deleted : forall (R : Type) (d : @disk R),
  (if eff_clean_up None true then empty_disk else d) = d.
Proof. reflexivity. Qed.

(* ... and a later full reap is exact (any further history keeps the invariant, see C08) *)
Theorem C09_then_full_reap_exact : forall (R : Type) (g : kwargs -> R) (i : input) bl (d : @disk R) cu,
  Inv g i bl d -> bl <> [] -> disjoint_args i ->
  (forall k, 1 <= k <= Z.of_nat (length bl) -> finished d k = true) ->
  reap d false cu
  = Ok (fst (core (fun kw => SGot (g kw)) (fun _ => []) i),
        if eff_clean_up cu false then empty_disk else d).
Proof.
  intros R g i bl d cu HI Hne Hd Hall. rewrite (reap_complete g i bl d cu HI Hne Hall).
  rewrite (core_finish (fun kw => SGot (g kw)) (fun _ => []) i Hd). reflexivity.
Qed.

(* without allow_incomplete an incomplete crop is refused; the state is not touched (the model
   returns no new disk on refusal) *)
Theorem C09_refused : forall (R : Type) (d : @disk R) cu, ready d = false -> reap d false cu = Err E_XYZ.
Proof. intros R d cu H. exact (reap_refused d cu H). Qed.

(* the placeholder of a missing batch has exactly the length of that batch (the reaper reads the
   batch file): tie to the regenerated code *)
Theorem C09_code_tie :
  gen_size_from_batch_file = true /\ gen_leftover_is_error = true
  /\ (forall allow isfile, gen_use_default allow false isfile = allow && negb isfile)
  /\ (forall cu allow, gen_clean_up_default cu allow = (eff_clean_up cu allow, allow))
  /\ (forall allow ready, gen_check_ready allow false ready = if negb (allow || ready) then Err E_XYZ else Ok tt)
  /\ gen_reaper_call_raw = (true, true, true, true) /\ gen_reaper_call_to_ds = (true, true, true, true)
  /\ gen_reference_result_is_pinned = true.
Proof.
  exact (conj (proj1 bridge_size) (conj (proj2 bridge_size)
        (conj bridge_use_default (conj bridge_clean_up (conj bridge_check_ready (conj (proj1 bridge_reaper_calls) (conj (proj2 bridge_reaper_calls) bridge_reference_result))))))).
Qed.

(* sensitivity: a reap entry point that does not pass allow_incomplete on leaves the Reaper with its own
   default (allowed iff a placeholder exists): a bool / str crop (placeholder None) then reads the result file
   of an unfinished batch although the caller asked for a partial reap *)
Lemma C09_reaper_default_refuted :
  gen_reaper_default_allow None false = false /\ gen_use_default (gen_reaper_default_allow None false) false false = false
  /\ gen_use_default (gen_reaper_default_allow (Some true) false) false false = true.
Proof. repeat split; reflexivity. Qed.

(* the old placeholder size rule: batchsize + [i < remainder] with the 1-based id i.  With 6
   settings in 4 batches (sizes 2,2,1,1; batchsize 1, remainder 2) it gives batch 2 one setting
   instead of two -- the record of defect D4 *)
Definition old_size_formula (i batchsize remainder : Z) : Z := batchsize + b2z (i <? remainder).
Lemma C09_reaper_size_refuted_old :
  exists i s r (l : list Z), sow_all s r l <> [] /\
    match nth_error (sow_all s r l) (Z.to_nat (i - 1)) with
    | Some b => Z.of_nat (length b) <> old_size_formula i s r
    | None => False
    end.
Proof. exists 2, 1, 2, [0; 1; 2; 3; 4; 5]. vm_compute. split; discriminate. Qed.

(* non-vacuity: 6 settings in 4 batches, batches 1 and 3 finished *)
From XV Require Import RunnerInst CropInst.
Example C09_example :
  run_crop 0 [OSow (mk_input false [] [] [1] [[0; 1; 2; 3; 4; 5]] [] false false None) None (Some 4);
              OGrow [3; 1]; OReap true None; OReap false None]
  = VL [VL [VZ 0; VZ 4; VZ 0; VL [VZ 1; VZ 2; VZ 3; VZ 4]; VZ 0; VL []];
        VL [VZ 0; VZ 4; VZ 2; VL [VZ 2; VZ 4]; VZ 0; VL [VZ 1; VZ 3]];
        VL [VZ 0; VZ 4; VZ 2; VL [VZ 2; VZ 4]; VZ 0; VL [VZ 1; VZ 3];
            VL [VS "nest"; VL [VL [VS "leaf"; VZ 7]; VL [VS "leaf"; VZ 14];
                               VL [VS "leaf"; VL [VS "hole"; VS "nan"]]; VL [VS "leaf"; VL [VS "hole"; VS "nan"]];
                               VL [VS "leaf"; VZ 35]; VL [VS "leaf"; VL [VS "hole"; VS "nan"]]]]];
        VL [VZ 1; VZ 4; VZ 2; VL [VZ 2; VZ 4]; VZ 0; VL [VZ 1; VZ 3]]].
Proof. vm_compute. reflexivity. Qed.

(* "finished" means published: a result under construction has a temporary name that the result glob (used by
   the progress count and by the reference result of a partial reap) does not match (GenPublish) *)
Theorem C09_unpublished_results_invisible : GenPublish.gen_publish = Sched.publish_atomic.
Proof. exact BridgePublish.bridge_publish. Qed.

Print Assumptions C09_unpublished_results_invisible.
Print Assumptions C09_partial.
Print Assumptions C09_then_full_reap_exact.
Print Assumptions C09_refused.
Print Assumptions C09_code_tie.
