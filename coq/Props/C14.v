(* C14 -- saving and loading a dataset gives the same dataset back (the logic xyzpy adds:
   file-name resolution and attribute coercion; the data round trip itself is HDF5 / joblib /
   xarray behaviour and is covered by the differential test of the check -- PARTIAL). *)
From XV Require Import Prelude Names GenNames BridgeNames Harvest HarvestProofs.

(* the file used is the given name with the engine's extension added when it has none,
   consistently for saving, loading, merging and deleting *)
Theorem C14_names_agree : forall name e,
  let P := gen_auto_add_extension name e in
  path_of (p_save_ds_write gen_sites) false name e = P
  /\ path_of (p_load_ds_open gen_sites) false name e = P
  /\ path_of (p_merge_exists gen_sites) false name e = P
  /\ path_of (p_merge_load gen_sites) true name e = P
  /\ path_of (p_merge_save gen_sites) true name e = P
  /\ path_of (p_hload_access gen_sites) false name e = P
  /\ path_of (p_hload_load gen_sites) true name e = P
  /\ path_of (p_hsave_replace_dst gen_sites) false name e = P
  /\ path_of (p_hdelete gen_sites) false name e = P
  /\ p_merge_load_passes_engine gen_sites = true.
Proof.
  intros name e P. subst P. rewrite bridge_sites, (bridge_auto_add_extension name e).
  unfold path_of. cbn [model_sites p_save_ds_write p_load_ds_open p_merge_exists p_merge_load p_merge_save
                       p_hload_access p_hload_load p_hsave_replace_dst p_hdelete p_merge_load_passes_engine].
  repeat split; reflexivity.
Qed.

(* a name that already carries a known extension is left alone; resolving is idempotent *)
Theorem C14_ext_idempotent : forall name e,
  auto_add_extension (auto_add_extension name e) e = auto_add_extension name e.
Proof. exact resolve_idempotent. Qed.

(* the temporary file written next to the data file keeps its name (it contains the extension) *)
Theorem C14_tmp_name_stable : forall name e,
  path_of (p_hsave_tmp_write gen_sites) true name e = String.append (auto_add_extension name e) ".tmp".
Proof. intros. rewrite bridge_sites. cbn. apply resolve_tmp. Qed.

(* attribute coercion: only None / True / False change, exactly as documented, and only for
   the netCDF engines *)
Theorem C14_attr_coercion : forall e a,
  gen_attr_coerce e a =
  match e with
  | Ejoblib | Ezarr => a
  | _ => match a with ANone => AStr 0 | ATrue => AStr 1 | AFalse => AStr 2 | other => other end
  end.
Proof. intros e a. rewrite bridge_attr_coerce. reflexivity. Qed.

Theorem C14_numbers_untouched : forall e z, gen_attr_coerce e (ANum z) = ANum z.
Proof. intros [] z; reflexivity. Qed.

Example C14_example_names :
  gen_auto_add_extension "data" Eh5netcdf = "data.h5"
  /\ gen_auto_add_extension "data.dmp" Eh5netcdf = "data.dmp"
  /\ gen_auto_add_extension "run.nc.old" Ejoblib = "run.nc.old"
  /\ gen_auto_add_extension "x" Ezarr = "x.zarr".
Proof. vm_compute. repeat split; reflexivity. Qed.

Theorem C14_engine_forwarded : gen_engine_forwarded_everywhere = true.
Proof. exact bridge_engine_forwarded. Qed.

Print Assumptions C14_names_agree.
Print Assumptions C14_ext_idempotent.
Print Assumptions C14_tmp_name_stable.
Print Assumptions C14_attr_coercion.
Print Assumptions C14_engine_forwarded.
