(* C14 -- saving and loading a dataset gives the same dataset back (the logic xyzpy adds:
   file-name resolution and attribute coercion; the data round trip itself is HDF5 / joblib /
   xarray behaviour and is covered by the differential test of the check -- PARTIAL). *)
From XV Require Import Prelude Names GenNames BridgeNames Harvest HarvestProofs.

(* the file used is the given name with the engine's extension added when it has none,
   consistently for saving, loading, merging and deleting *)
Theorem C14_names_agree : forall name e,
  let P := gen_auto_add_extension name e in
  path_of (p_save_ds_write gen_sites) false name e = P
  /\ path_of (p_load_ds_open gen_sites) false name e = P
  /\ path_of (p_merge_exists gen_sites) false name e = P
  /\ path_of (p_merge_load gen_sites) true name e = P
  /\ path_of (p_merge_save gen_sites) true name e = P
  /\ path_of (p_hload_access gen_sites) false name e = P
  /\ path_of (p_hload_load gen_sites) true name e = P
  /\ path_of (p_hsave_replace_dst gen_sites) false name e = P
  /\ path_of (p_hdelete gen_sites) false name e = P
  /\ p_merge_load_passes_engine gen_sites = true.
Proof.
  intros name e P. subst P. rewrite bridge_sites, (bridge_auto_add_extension name e).
  unfold path_of. cbn [model_sites p_save_ds_write p_load_ds_open p_merge_exists p_merge_load p_merge_save
                       p_hload_access p_hload_load p_hsave_replace_dst p_hdelete p_merge_load_passes_engine].
  repeat split; reflexivity.
Qed.

(* a name that already carries a known extension is left alone; resolving is idempotent *)
Theorem C14_ext_idempotent : forall name e,
  auto_add_extension (auto_add_extension name e) e = auto_add_extension name e.
Proof. exact resolve_idempotent. Qed.

(* the temporary file written next to the data file keeps its name (it contains the extension) *)
Theorem C14_tmp_name_stable : forall name e,
  path_of (p_hsave_tmp_write gen_sites) true name e = String.append (auto_add_extension name e) ".tmp".
Proof. intros. rewrite bridge_sites. cbn. apply resolve_tmp. Qed.

(* attribute coercion: only None / True / False change, exactly as documented, and only for
   the netCDF engines *)
Theorem C14_attr_coercion : forall e a,
  gen_attr_coerce e a =
  match e with
  | Ejoblib | Ezarr => a
  | _ => match a with ANone => AStr 0 | ATrue => AStr 1 | AFalse => AStr 2 | other => other end
  end.
Proof. intros e a. rewrite bridge_attr_coerce. reflexivity. Qed.

Theorem C14_numbers_untouched : forall e z, gen_attr_coerce e (ANum z) = ANum z.
Proof. intros [] z; reflexivity. Qed.

Example C14_example_names :
  gen_auto_add_extension "data" Eh5netcdf = "data.h5"
  /\ gen_auto_add_extension "data.dmp" Eh5netcdf = "data.dmp"
  /\ gen_auto_add_extension "run.nc.old" Ejoblib = "run.nc.old"
  /\ gen_auto_add_extension "x" Ezarr = "x.zarr".
Proof. vm_compute. repeat split; reflexivity. Qed.

(* whatever bool / integer / unsigned / float / complex dtype xarray remembers from an earlier load, an (unpacked)
   variable of such a dtype is written with a dtype that can hold its data safely -- by the rule regenerated from
   save_ds: missing cells padded into an integer variable stay missing, a coordinate grown past int32 keeps its
   values, values that have become complex keep their imaginary parts.  (A finite domain: 3 engines x 14 remembered
   states x 13 data dtypes, decided by computation and lifted.) *)
Definition written_ok (r : dtype_rule) : bool :=
  forallb (fun e => forallb (fun rem => forallb (fun d => safe_cast d (written_dtype r e rem d false)) all_numeric)
                            (None :: map Some all_numeric))
          [Eh5netcdf; Enetcdf4; Ejoblib].
Lemma written_ok_model : written_ok model_dtype_rule = true.
Proof. vm_compute. reflexivity. Qed.

Theorem C14_written_dtype_holds_the_data : forall e remembered data,
  In e [Eh5netcdf; Enetcdf4; Ejoblib] -> In data all_numeric -> In remembered (None :: map Some all_numeric) ->
  safe_cast data (written_dtype gen_dtype_rule e remembered data false) = true.
Proof.
  intros e remembered data He Hd Hr. rewrite bridge_dtype_rule.
  pose proof written_ok_model as H. unfold written_ok in H.
  rewrite forallb_forall in H. specialize (H e He).
  rewrite forallb_forall in H. specialize (H remembered Hr).
  rewrite forallb_forall in H. exact (H data Hd).
Qed.

(* in particular float data is never written with an integer dtype (defect D30), complex data never with a real one *)
Theorem C14_float_not_written_as_integer : forall e remembered data,
  In e [Eh5netcdf; Enetcdf4; Ejoblib] -> In data all_numeric -> In remembered (None :: map Some all_numeric) ->
  (fst data = KFloat -> fst (written_dtype gen_dtype_rule e remembered data false) = KFloat
                        \/ fst (written_dtype gen_dtype_rule e remembered data false) = KComplex)
  /\ (fst data = KComplex -> fst (written_dtype gen_dtype_rule e remembered data false) = KComplex).
Proof.
  intros e remembered data He Hd Hr.
  pose proof (C14_written_dtype_holds_the_data e remembered data He Hd Hr) as H.
  destruct data as [kd bd]. destruct (written_dtype gen_dtype_rule e remembered (kd, bd) false) as [kw bw].
  cbn [fst]. split; intros ->; destruct kw; cbn in H; try discriminate; auto.
Qed.

(* ... and a remembered dtype that CAN hold the data, or belongs to a packed variable, is kept *)
Theorem C14_other_dtypes_kept : forall e k data packed,
  e <> Ejoblib -> (safe_cast data k = true \/ packed = true) ->
  written_dtype gen_dtype_rule e (Some k) data packed = k.
Proof.
  intros e k data packed He H. rewrite bridge_dtype_rule.
  destruct e; try congruence; cbn [written_dtype]; try reflexivity;
    unfold forgets, model_dtype_rule; cbn [dr_disk dr_data dr_unsafe_only dr_unless_packed];
    destruct H as [H| ->]; rewrite ?H; cbn; rewrite ?andb_false_r; reflexivity.
Qed.

(* the behaviour before the repairs: no rule at all (D30: float data written as int64); the first repair's rule,
   integer -> float only (D41: a coordinate grown past int32 wrapped around); the second one's, which did not look at
   bool / complex (D44: imaginary parts dropped) *)
Lemma C14_written_dtype_refuted_old :
  written_ok (mk_dtype_rule [] [] true true) = false
  /\ written_dtype (mk_dtype_rule [KInt; KUInt] [KFloat] false true) Eh5netcdf (Some (KInt, 32)) (KInt, 64) false
     = (KInt, 32)
  /\ written_dtype (mk_dtype_rule [KInt; KUInt; KFloat] [KInt; KUInt; KFloat] true true) Eh5netcdf
                   (Some (KFloat, 64)) (KComplex, 128) false = (KFloat, 64).
Proof. repeat split; vm_compute; reflexivity. Qed.

Theorem C14_engine_forwarded : gen_engine_forwarded_everywhere = true.
Proof. exact bridge_engine_forwarded. Qed.

Print Assumptions C14_written_dtype_holds_the_data.
Print Assumptions C14_float_not_written_as_integer.
Print Assumptions C14_other_dtypes_kept.
Print Assumptions C14_names_agree.
Print Assumptions C14_ext_idempotent.
Print Assumptions C14_tmp_name_stable.
Print Assumptions C14_attr_coercion.
Print Assumptions C14_engine_forwarded.
