(* C14 -- saving and loading a dataset gives the same dataset back (the logic xyzpy adds:
   file-name resolution and attribute coercion; the data round trip itself is HDF5 / joblib /
   xarray behaviour and is covered by the differential test of the check -- PARTIAL). *)
From XV Require Import Prelude Names GenNames BridgeNames Harvest HarvestProofs.

(* the file used is the given name with the engine's extension added when it has none,
   consistently for saving, loading, merging and deleting *)
Theorem C14_names_agree : forall name e,
  let P := gen_auto_add_extension name e in
  path_of (p_save_ds_write gen_sites) false name e = P
  /\ path_of (p_load_ds_open gen_sites) false name e = P
  /\ path_of (p_merge_exists gen_sites) false name e = P
  /\ path_of (p_merge_load gen_sites) true name e = P
  /\ path_of (p_merge_save gen_sites) true name e = P
  /\ path_of (p_hload_access gen_sites) false name e = P
  /\ path_of (p_hload_load gen_sites) true name e = P
  /\ path_of (p_hsave_replace_dst gen_sites) false name e = P
  /\ path_of (p_hdelete gen_sites) false name e = P
  /\ p_merge_load_passes_engine gen_sites = true.
Proof.
  intros name e P. subst P. rewrite bridge_sites, (bridge_auto_add_extension name e).
  unfold path_of. cbn [model_sites p_save_ds_write p_load_ds_open p_merge_exists p_merge_load p_merge_save
                       p_hload_access p_hload_load p_hsave_replace_dst p_hdelete p_merge_load_passes_engine].
  repeat split; reflexivity.
Qed.

(* a name that already carries a known extension is left alone; resolving is idempotent *)
Theorem C14_ext_idempotent : forall name e,
  auto_add_extension (auto_add_extension name e) e = auto_add_extension name e.
Proof. exact resolve_idempotent. Qed.

(* the temporary file written next to the data file keeps its name (it contains the extension) *)
Theorem C14_tmp_name_stable : forall name e,
  path_of (p_hsave_tmp_write gen_sites) true name e = String.append (auto_add_extension name e) ".tmp".
Proof. intros. rewrite bridge_sites. cbn. apply resolve_tmp. Qed.

(* attribute coercion: only None / True / False change, exactly as documented, and only for
   the netCDF engines *)
Theorem C14_attr_coercion : forall e a,
  gen_attr_coerce e a =
  match e with
  | Ejoblib | Ezarr => a
  | _ => match a with ANone => AStr 0 | ATrue => AStr 1 | AFalse => AStr 2 | other => other end
  end.
Proof. intros e a. rewrite bridge_attr_coerce. reflexivity. Qed.

Theorem C14_numbers_untouched : forall e z, gen_attr_coerce e (ANum z) = ANum z.
Proof. intros [] z; reflexivity. Qed.

Example C14_example_names :
  gen_auto_add_extension "data" Eh5netcdf = "data.h5"
  /\ gen_auto_add_extension "data.dmp" Eh5netcdf = "data.dmp"
  /\ gen_auto_add_extension "run.nc.old" Ejoblib = "run.nc.old"
  /\ gen_auto_add_extension "x" Ezarr = "x.zarr".
Proof. vm_compute. repeat split; reflexivity. Qed.

(* float data (for instance an integer variable that merging padded with missing cells) is never written with an
   integer dtype remembered from an earlier load -- by the rule regenerated from save_ds -- so missing cells stay
   missing; packed variables (scale_factor / add_offset) keep their on-disk dtype *)
Theorem C14_float_not_written_as_integer : forall e remembered,
  e <> Ezarr ->
  written_kind gen_dtype_rule e remembered KFloat false <> KInt
  /\ written_kind gen_dtype_rule e remembered KFloat false <> KUInt.
Proof.
  intros e remembered He. rewrite bridge_dtype_rule.
  destruct e; try congruence; destruct remembered as [[]|]; cbn; split; discriminate.
Qed.

(* ... and nothing else is touched: a remembered dtype of the data's own kind, or of a packed variable, is kept *)
Theorem C14_other_dtypes_kept : forall e k data packed,
  e <> Ejoblib ->
  (data <> KFloat \/ packed = true \/ (k <> KInt /\ k <> KUInt)) ->
  written_kind gen_dtype_rule e (Some k) data packed = k.
Proof.
  intros e k data packed He H. rewrite bridge_dtype_rule.
  destruct e; try congruence; destruct k, data, packed; cbn; try reflexivity;
    destruct H as [H|[H|[H1 H2]]]; congruence.
Qed.

(* the behaviour before the repair (no rule): the record of defect D30 *)
Lemma C14_float_not_written_as_integer_refuted_old :
  written_kind (mk_dtype_rule [] [] true) Eh5netcdf (Some KInt) KFloat false = KInt.
Proof. reflexivity. Qed.

Theorem C14_engine_forwarded : gen_engine_forwarded_everywhere = true.
Proof. exact bridge_engine_forwarded. Qed.

Print Assumptions C14_float_not_written_as_integer.
Print Assumptions C14_other_dtypes_kept.
Print Assumptions C14_names_agree.
Print Assumptions C14_ext_idempotent.
Print Assumptions C14_tmp_name_stable.
Print Assumptions C14_attr_coercion.
Print Assumptions C14_engine_forwarded.
