(* C15 -- sampling only ever appends correct rows. *)
From XV Require Import Prelude Grid Perm Runner Flow Label GenRunner BridgeRunner Harvest HarvestFlow GenHarvest BridgeHarvest LabelFlow GenLabel BridgeLabel
     GridProofs PermProofs RunnerProofs LabelProofs HarvestProofs HarvestFlowProofs.
From XV Require Farmer GenFarmer BridgeFarmer.
Open Scope Z_scope.

(* every synced sampling run appends exactly its rows to the table on disk and changes no
   earlier row; memory equals the file afterwards; a new sampler continues from the file *)
Theorem C15_append_only : forall (s : sst) (rows : table),
  (s_mem s = None \/ s_mem s = s_file s) ->
  let s' := sstep s (SAdd rows true) in
  s_mem s' = s_file s'
  /\ s_file s' = Some (match s_file s with Some t => (t ++ rows)%list | None => rows end).
Proof. intros s rows H. exact (sstep_append s rows H). Qed.

Theorem C15_new_session_continues : forall (s : sst) (rows : table),
  let s1 := sstep s SNewSession in
  let s2 := sstep s1 (SAdd rows true) in
  s_file s2 = Some (match s_file s with Some t => (t ++ rows)%list | None => rows end).
Proof. intros s rows. cbn. destruct (s_file s); reflexivity. Qed.

(* the invariant "memory is empty or equals the file" is kept by every operation sequence in
   which every run is synced; a long-lived sampler with stale memory reloads the file *)
Theorem C15_stale_memory_reloaded : forall (s : sst) (t rows : table),
  s_file s = Some t ->
  s_file (sstep s (SAdd rows true)) = Some (t ++ rows)%list.
Proof. intros s t rows H. cbn. rewrite H. reflexivity. Qed.

(* n rows per run, each row pairing the drawn arguments with the function's value at exactly
   those arguments (for every shuffle permutation): the rows of a run are the DataFrame rows of
   a case sweep over the drawn cases (C03) *)
Theorem C15_rows_correct : forall (R : Type) (f : kwargs -> R) (comps : R -> list R)
    (resources : list Z) (attrs : kwargs) (var_names : list Z) (i : input),
  wf_perm i ->
  gen_df_rows f comps resources attrs var_names i
  = map (fun s => df_row comps resources attrs var_names s (f s)) (settings i)
  /\ length (gen_df_rows f comps resources attrs var_names i) = length (settings i).
Proof.
  intros R f comps resources attrs var_names i Hp. split.
  - exact (df_rows_aligned f comps resources attrs var_names i Hp).
  - exact (df_rows_length f comps resources attrs var_names i Hp).
Qed.

(* the sampler's add step as the code has it: the control flow REGENERATED from Sampler.add_df /
   save_full_df (load, concat [held; new], atomic save, memory updated after the write) is the step
   function the theorems above are about *)
Theorem C15_generated_add_is_append : forall (s : sst) (rows : table) (sync : bool),
  sadd_flow_run gen_sadd_flow gen_ssave_flow s rows sync = sstep s (SAdd rows sync).
Proof. intros. rewrite bridge_sadd_flow, bridge_ssave_flow. apply sadd_flow_is_sstep. Qed.

(* a run whose table write fails appends nothing anywhere: the file keeps its rows and memory holds what the
   file holds (over the REGENERATED flow of add_df / save_full_df) *)
Theorem C15_failed_write_appends_nothing : forall (s : sst) (rows : table),
  let s' := sadd_wfail_run gen_sadd_flow gen_ssave_flow s rows in
  s_file s' = s_file s /\ s_mem s' = match s_file s with Some t => Some t | None => s_mem s end.
Proof.
  intros s rows. cbn zeta. rewrite bridge_sadd_flow, bridge_ssave_flow, sadd_wfail_is_sstep. cbn. split; reflexivity.
Qed.

(* sensitivity: were memory updated before the write, a failed first run would leave its rows in memory *)
Lemma C15_mem_before_write_refuted :
  s_mem (sadd_wfail_run model_sadd_flow (mk_save_flow MemBeforeWrite RrAlways true) (mk_sst None None) [[1; 10]])
  = Some [[1; 10]].
Proof. vm_compute. reflexivity. Qed.

Theorem C15_code_tie : gen_sadd_flow = model_sadd_flow /\ gen_ssave_flow = model_save_flow /\ gen_sload_rule = model_load_rule
  /\ gen_label_flow = model_label_flow /\ gen_sampler_draw_is_transcribed = true.
Proof. exact (conj bridge_sadd_flow (conj bridge_ssave_flow (conj bridge_sload_rule (conj bridge_label_flow bridge_sampler_draw)))). Qed.

Example C15_example :
  let s1 := sstep (mk_sst None None) (SAdd [[1; 10]; [2; 20]] true) in
  let s2 := sstep (sstep s1 SNewSession) (SAdd [[3; 30]] true) in
  s_file s2 = Some [[1; 10]; [2; 20]; [3; 30]] /\ s_mem s2 = s_file s2.
Proof. vm_compute. split; reflexivity. Qed.

(* the direct routes Runner.run_combos / run_cases hand the runner's description and the caller's fn_args
   (which win over the runner's own) to the builders; cases are parsed against that order (GenFarmer) *)
Theorem C15_direct_route_wiring :
  GenFarmer.gen_run_cases_call = Farmer.model_run_combos_call /\ GenFarmer.gen_run_combos_call = Farmer.model_run_combos_call.
Proof. exact (conj BridgeFarmer.bridge_run_cases BridgeFarmer.bridge_run_combos). Qed.

Print Assumptions C15_direct_route_wiring.
Print Assumptions C15_append_only.
Print Assumptions C15_new_session_continues.
Print Assumptions C15_stale_memory_reloaded.
Print Assumptions C15_rows_correct.
Print Assumptions C15_generated_add_is_append.
Print Assumptions C15_failed_write_appends_nothing.
Print Assumptions C15_code_tie.
