(* C03 -- labelled outputs name every number correctly (Dataset and DataFrame). *)
From XV Require Import Prelude Grid Perm Runner Flow Label GenRunner BridgeRunner
     LabelFlow GenLabel BridgeLabel GridProofs PermProofs RunnerProofs LabelProofs.
From XV Require Farmer GenFarmer BridgeFarmer.
Open Scope Z_scope.

(* DataFrame: one row per evaluated setting, each row pairing that setting's argument values
   (resources removed, attrs added) with that same setting's outputs -- for every shuffle
   permutation.  The rows are computed from the data flow REGENERATED from combo_runner.py
   (which list becomes info["settings"], what the flat results are). *)
Theorem C03_df_rows : forall (R : Type) (f : kwargs -> R) (comps : R -> list R)
    (resources : list Z) (attrs : kwargs) (var_names : list Z) (i : input),
  wf_perm i ->
  gen_df_rows f comps resources attrs var_names i
  = map (fun s => df_row comps resources attrs var_names s (f s)) (settings i).
Proof. intros R f comps resources attrs var_names i Hp. exact (df_rows_aligned f comps resources attrs var_names i Hp). Qed.

Theorem C03_df_no_resources : forall (R : Type) (comps : R -> list R) resources attrs var_names s (r : R) k,
  In k resources -> ~ In k (map fst attrs) ->
  ~ In k (map fst (fst (df_row comps resources attrs var_names s r))).
Proof. intros R comps resources attrs var_names s r k Hk Hna. exact (row_has_no_resource (fun _ => r) comps resources attrs var_names s r k Hk Hna). Qed.

(* Dataset: each swept argument is a dimension whose coordinate holds exactly the values swept
   (given order for grids, sorted union for cases: [dims_of]); the variable carries those
   dimensions followed by its declared internal dimensions; selecting a grid point by label
   gives what the function returned for those arguments. *)
Theorem C03_ds_single_var : forall (R : Type) (f : kwargs -> R) (comps : R -> list R) (i : input)
    v var_dims var_coords constants attrs idx loc,
  disjoint_args i -> wf_perm i -> i_flat i = false -> i_split i = false ->
  vals_at (dims_of i) idx = Some loc -> In loc (locs i) ->
  exists n, fst (core f comps i) = ONest n
    /\ to_ds [v] var_dims var_coords constants attrs (fn_args i) (dims_of i) (ONest n)
       = Ok (mk_dsm (combine (fn_args i) (dims_of i) ++ var_coords)
                    [(v, (fn_args i ++ lookup_dims var_dims v, n))]
                    (kw_update attrs (filter (fun av => negb (mem (fst av) (fn_args i ++ flat_map snd var_dims ++ map fst var_coords))) constants))
                    (filter (fun av => mem (fst av) (fn_args i ++ flat_map snd var_dims ++ map fst var_coords)) constants))
    /\ nest_at n idx = Some (Leaf (Got (f (kw_of i loc)))).
Proof.
  intros R f comps i v var_dims var_coords constants attrs idx loc Hd Hp Hf Hs Hv Hin.
  destruct (requested_slot f comps i idx loc Hd Hp Hf Hs Hv Hin) as (n & Hn & Hat).
  exists n. split; [exact Hn|]. split; [apply to_ds_single|exact Hat].
Qed.

(* several output variables: variable j of the Dataset is the sweep of component j *)
Theorem C03_ds_multi_var : forall (R : Type) (f : kwargs -> R) (comps : R -> list R) (i : input) (k : nat) (d : R),
  i_has_cases i = false -> wf_perm i -> i_split i = true ->
  (forall kw, length (comps (f kw)) = k) -> settings i <> [] ->
  fst (core f comps i)
  = OSplit (map (fun j => process i (map (fun kw => nth j (comps (f kw)) d) (settings i))) (seq 0 k)).
Proof.
  intros R f comps i k d Hc Hp Hs Hk Hne.
  rewrite (split_output f comps i (disjoint_grid i Hc) Hp Hs), (zip_star_rect d k).
  - rewrite map_map. f_equal. apply map_ext. intros j. rewrite !map_map. reflexivity.
  - apply Forall_forall. intros l Hl. rewrite map_map in Hl. apply in_map_iff in Hl as (kw & <- & _). apply Hk.
  - destruct (settings i); [contradiction|discriminate].
Qed.

(* a wrong number of output names is rejected *)
Theorem C03_wrong_var_count : forall (R : Type) (var_names : list Z) var_dims var_coords constants attrs args coords (os : list (out R)),
  length os <> length var_names -> (2 <= length var_names)%nat ->
  to_ds var_names var_dims var_coords constants attrs args coords (OSplit os) = Err E_Value.
Proof. intros R var_names var_dims var_coords constants attrs args coords os H1 H2. exact (to_ds_wrong_count var_names var_dims var_coords constants attrs args coords os H1 H2). Qed.

(* the old flow (info["settings"] = the shuffled list) misaligns rows: the record of defect D2 *)
Lemma C03_df_rows_refuted_old :
  exists (i : input),
    let f := fun kw : kwargs => kw in
    match interp f i (PShuffled PSettings), interp f i (PUnshuffled (PResults (PShuffled PSettings))) with
    | DS ss, DR rs => combine ss rs <> map (fun s => (s, f s)) (settings i)
    | _, _ => True
    end.
Proof.
  exists (mk_input false [] [] [1] [[0; 1; 2]] [] false true (Some [2; 0; 1]%nat)).
  vm_compute. discriminate.
Qed.

(* the builders as the code has them: the row steps (drop resources, add attrs, add outputs) and the Dataset
   layout (coordinate order, dims = swept arguments then the variable's own, results zipped with var_names,
   attrs copied, constants to coordinates / attributes OF THE DATASET) are REGENERATED from results_to_df /
   results_to_ds; interpreted, they are the model's builders, and a run leaves the caller's attrs mapping as
   it was -- so a later run through the same Runner is labelled by its own description only *)
Theorem C03_generated_builders : forall (R : Type) (comps : R -> list R),
  (forall resources attrs var_names s (r : R),
     df_row_flow comps gen_label_flow resources attrs var_names s r = df_row comps resources attrs var_names s r)
  /\ (forall var_names var_dims var_coords constants attrs args coords (o : out R),
       to_ds_flow gen_label_flow var_names var_dims var_coords constants attrs args coords o
       = match to_ds var_names var_dims var_coords constants attrs args coords o with
         | Ok d => Ok (d, attrs) | Err e => Err e end).
Proof.
  intros R comps. rewrite bridge_label_flow. split; intros.
  - apply df_row_flow_model.
  - apply to_ds_flow_model.
Qed.

(* sensitivity: were the constants stored through the caller's attrs mapping, a run with a constant would
   leave it in the mapping for every later run *)
Lemma C03_constants_into_caller_mapping_refuted :
  let lf := mk_label_flow true [RDropResources; RUpdateAttrs; RUpdateOutputs] true true [CoCombos; CoVarCoords]
                          true true true KDimToCoordElseAttr TCallerMapping in
  match to_ds_flow lf [100] [] [] [(6, 3)] [(300, 1)] [0] [[0; 1]] (ONest (Node [Leaf (Got 5); Leaf (Got 6)])) with
  | Ok (_, caller) => caller = [(300, 1); (6, 3)]
  | Err _ => False
  end.
Proof. vm_compute. reflexivity. Qed.

Theorem C03_code_tie :
  (forall (R : Type) (f : kwargs -> R) i, interp f i (info_prov i) = DS (settings i))
  /\ (forall (R : Type) (f : kwargs -> R) i, interp f i (results_prov i) = DR (results_linear f i))
  /\ (forall (R : Type) (f : kwargs -> R) i, interp f i (run_prov i) = DS (run_order i))
  /\ gen_unflatten_is_transcribed = true
  /\ gen_label_flow = model_label_flow
  /\ gen_prologue_is_transcribed = true /\ gen_multi_concat_is_pinned = true.
Proof.
  split; [intros; apply bridge_info|]. split; [intros; apply bridge_results|].
  split; [intros; apply bridge_run|]. split; [exact (proj1 bridge_flags)|]. split; [exact bridge_label_flow|exact (conj bridge_prologue bridge_multi_concat)].
Qed.

(* the direct routes Runner.run_combos / run_cases hand the runner's description and the caller's fn_args
   (which win over the runner's own) to the builders; cases are parsed against that order (GenFarmer) *)
Theorem C03_direct_route_wiring :
  GenFarmer.gen_run_cases_call = Farmer.model_run_combos_call /\ GenFarmer.gen_run_combos_call = Farmer.model_run_combos_call.
Proof. exact (conj BridgeFarmer.bridge_run_cases BridgeFarmer.bridge_run_combos). Qed.

(* the spellings of fn_args / cases / combos / var_names / var_dims are normalised by the pinned functions of
   prepare.py (bare values wrapped, strings not split, dicts kept, duplicates refused) *)
Theorem C03_spellings_pinned : gen_prepare_is_pinned = true.
Proof. exact bridge_prepare_pinned. Qed.

Print Assumptions C03_spellings_pinned.
Print Assumptions C03_direct_route_wiring.
Print Assumptions C03_df_rows.
Print Assumptions C03_df_no_resources.
Print Assumptions C03_ds_single_var.
Print Assumptions C03_ds_multi_var.
Print Assumptions C03_wrong_var_count.
Print Assumptions C03_generated_builders.
Print Assumptions C03_code_tie.
