(* C17 -- classic line, scatter, histogram and heat-map plots draw exactly the data.
   PARTIAL: the theorems are about Model/PlotSeries.v, the logic xyzpy adds between the
   dataset and the matplotlib calls.  That matplotlib draws the arrays it is handed, and that
   the model matches the code, is established by differential testing only (harness/props/c17.py). *)
From XV Require Import Prelude PlotSeries PlotSeriesProofs.
From XV Require PlotFlow GenPlot BridgePlot PlotFlowProofs.
From Coq Require Import Sorting.Sorted.
Open Scope Z_scope.

(* one drawn series per z value, in order, each labelled with its own z value and holding the
   data selected at that z index; likewise one per listed variable *)
Theorem C17_one_series_per_z : forall sp sel,
  (forall zd, p_z sp = Some zd ->
     length (z_series sp sel) = size_of (p_ds sp) zd /\
     forall k, (k < size_of (p_ds sp) zd)%nat ->
       exists s, nth_error (z_series sp sel) k = Some s
                 /\ s = one_series sp (sel ++ [(zd, k)]) (hd 0 (p_ys sp)) k
                 /\ s_label s = nth_error (p_labels sp) k
                 /\ s_color s = series_color sp (sel ++ [(zd, k)]) k) /\
  (p_z sp = None ->
     length (z_series sp sel) = length (p_ys sp) /\
     forall k yv, nth_error (p_ys sp) k = Some yv ->
       exists s, nth_error (z_series sp sel) k = Some s
                 /\ s = one_series sp sel yv k
                 /\ s_label s = nth_error (p_labels sp) k).
Proof.
  intros sp sel. split.
  - intros zd Hz. split; [now apply z_series_length_z|].
    intros k Hk. eexists. split; [exact (z_series_nth_z sp sel zd k Hz Hk)|]. repeat split.
  - intros Hz. split; [now apply z_series_length_multi|].
    intros k yv Hy. eexists. split; [exact (z_series_nth_multi sp sel k yv Hz Hy)|]. repeat split.
Qed.

(* the points of a series are exactly the (x, y) pairs of the selected data with both finite,
   in data order, nothing else; c / y_err / x_err cut by the same mask stay aligned *)
Theorem C17_points_exact : forall sp sel yv k,
  let xs := column (p_ds sp) (p_x sp) sel (free_dims sp sel yv) in
  let ys := column (p_ds sp) yv sel (free_dims sp sel yv) in
  s_pts (one_series sp sel yv k) = filter both_finite (pairs xs ys)
  /\ (forall p, In p (s_pts (one_series sp sel yv k)) <-> In p (pairs xs ys) /\ both_finite p = true)
  /\ (forall ev, p_ye sp = Some ev ->
        exists es, s_ye (one_series sp sel yv k) = Some es /\
          combine (s_pts (one_series sp sel yv k)) es
          = filter (fun t => both_finite (fst t))
                   (combine (pairs xs ys) (column (p_ds sp) ev sel (free_dims sp sel yv))))
  /\ (forall ev, p_xe sp = Some ev ->
        exists es, s_xe (one_series sp sel yv k) = Some es /\
          combine (s_pts (one_series sp sel yv k)) es
          = filter (fun t => both_finite (fst t))
                   (combine (pairs xs ys) (column (p_ds sp) ev sel (free_dims sp sel yv))))
  /\ (forall cv lo hi, p_cmode sp = CPoints cv lo hi ->
        exists cs, s_c (one_series sp sel yv k) = Some cs /\
          combine (s_pts (one_series sp sel yv k)) cs
          = filter (fun t => both_finite (fst t))
                   (combine (pairs xs ys) (column (p_ds sp) cv sel (free_dims sp sel yv)))).
Proof.
  intros sp sel yv k xs ys.
  split; [apply one_series_points|].
  split; [intros p; rewrite one_series_points; apply filter_In|].
  split; [|split].
  - intros ev He. unfold one_series. cbn [s_ye s_pts]. rewrite He. eexists. split; [reflexivity|].
    apply (companion_aligned xs ys).
  - intros ev He. unfold one_series. cbn [s_xe s_pts]. rewrite He. eexists. split; [reflexivity|].
    apply (companion_aligned xs ys).
  - intros cv lo hi Hc. unfold one_series. cbn [s_c s_pts]. rewrite Hc. eexists. split; [reflexivity|].
    apply (companion_aligned xs ys).
Qed.

(* a series without a single finite pair is still there, empty, under its own label and colour:
   the number of series and the label / colour / data of every other series are untouched *)
Theorem C17_all_nan_series : forall sp sel zd k,
  p_z sp = Some zd -> (k < size_of (p_ds sp) zd)%nat ->
  (forall p, In p (pairs (column (p_ds sp) (p_x sp) (sel ++ [(zd, k)])
                                 (free_dims sp (sel ++ [(zd, k)]) (hd 0 (p_ys sp))))
                         (column (p_ds sp) (hd 0 (p_ys sp)) (sel ++ [(zd, k)])
                                 (free_dims sp (sel ++ [(zd, k)]) (hd 0 (p_ys sp)))))
             -> both_finite p = false) ->
  length (z_series sp sel) = size_of (p_ds sp) zd /\
  (exists s, nth_error (z_series sp sel) k = Some s /\ s_pts s = []
             /\ s_label s = nth_error (p_labels sp) k
             /\ s_color s = series_color sp (sel ++ [(zd, k)]) k) /\
  (forall j, (j < size_of (p_ds sp) zd)%nat ->
     nth_error (z_series sp sel) j = Some (one_series sp (sel ++ [(zd, j)]) (hd 0 (p_ys sp)) j)).
Proof.
  intros sp sel zd k Hz Hk Hall. split; [now apply z_series_length_z|]. split.
  - eexists. split; [exact (z_series_nth_z sp sel zd k Hz Hk)|]. split; [|split; reflexivity].
    unfold one_series. cbn [s_pts]. now apply drawn_nil.
  - intros j Hj. exact (z_series_nth_z sp sel zd j Hz Hj).
Qed.

(* numpy's rule (half-open bins, last one closed): with strictly increasing edges exactly one
   bin contains a value of [e_0, e_n], bin_index finds it, and the counts add up to the number
   of values in range *)
Theorem C17_bins_partition : forall edges x,
  StronglySorted Z.lt edges -> (2 <= length edges)%nat ->
  hd 0 edges <= x <= last edges 0 ->
  exists i, in_bin edges i x /\ bin_index edges x = Some i /\ forall j, in_bin edges j x -> j = i.
Proof.
  intros edges x Hs Hl Hx.
  destruct (bin_index_complete edges x Hl Hx) as (i & Hi).
  exists i. split; [now apply bin_index_sound|]. split; [exact Hi|].
  intros j Hj. apply (in_bin_unique edges j i x Hs Hj). now apply bin_index_sound.
Qed.
Theorem C17_bins_counts : forall edges xs,
  StronglySorted Z.lt edges -> (2 <= length edges)%nat ->
  length (bin_counts edges xs) = (length edges - 1)%nat /\
  list_sum (bin_counts edges xs)
  = length (filter (fun x => (hd 0 edges <=? x) && (x <=? last edges 0)) xs).
Proof.
  intros edges xs Hs Hl. split.
  - unfold bin_counts. now rewrite map_length, seq_length.
  - rewrite bin_counts_sum. f_equal. apply filter_ext. intros x.
    destruct (in_range edges x) eqn:E.
    + apply (in_range_iff edges x Hs Hl) in E. symmetry. apply andb_true_iff. split; apply Z.leb_le; lia.
    + symmetry. apply not_true_is_false. intros H. apply andb_true_iff in H. destruct H as [H1 H2].
      apply Z.leb_le in H1. apply Z.leb_le in H2.
      assert (in_range edges x = true) by (apply (in_range_iff edges x Hs Hl); lia). congruence.
Qed.
(* the histogram is fed the finite values of the selected data and nothing else *)
Theorem C17_hist_values : forall ds v sel i,
  In i (hist_values ds v sel) <-> In (Fin i) (column ds v sel (hist_free ds v sel)).
Proof.
  intros ds v sel i. unfold hist_values, fin_ids. rewrite in_flat_map. split.
  - intros (c & Hc & Hi). apply filter_In in Hc. destruct Hc as [Hc _].
    destruct c; simpl in Hi; [destruct Hi as [<-|[]]; exact Hc|contradiction].
  - intros H. exists (Fin i). split; [apply filter_In; split; [exact H|reflexivity]|now left].
Qed.

(* the mesh entry [i][j] is z at (y_i, x_j), whatever order the variable is stored in *)
Theorem C17_mesh_exact : forall ds v xd yd sel i j,
  (i < size_of ds yd)%nat -> (j < size_of ds xd)%nat ->
  length (mesh ds v xd yd sel) = size_of ds yd /\
  option_map (fun r => nth j r NonFin) (nth_error (mesh ds v xd yd sel) i)
  = Some (get ds v (sel ++ [(yd, i); (xd, j)])).
Proof.
  intros ds v xd yd sel i j Hi Hj. split.
  - unfold mesh. now rewrite map_length, seq_length.
  - apply (mesh_entry ds v xd yd sel i j Hi Hj).
Qed.
Theorem C17_mesh_layout : forall ds v xd yd i j, xd <> yd ->
  (v_dims (the_var ds v) = [yd; xd] ->
     get ds v [(yd, i); (xd, j)] = nth (i * size_of ds xd + j) (v_data (the_var ds v)) NonFin) /\
  (v_dims (the_var ds v) = [xd; yd] ->
     get ds v [(yd, i); (xd, j)] = nth (j * size_of ds yd + i) (v_data (the_var ds v)) NonFin).
Proof. intros. split; intros Hd; [now apply get_layout_yx|now apply get_layout_xy]. Qed.

(* the slice (row_i, col_j) is drawn in panel (i, j), which is axes number i * ncols + j; the
   first row carries the column titles, the last column the row titles *)
Theorem C17_panel_of_slice : forall (C : Type) sp (content : env -> C) i j,
  (i < axis_n (p_ds sp) (p_row sp))%nat -> (j < axis_n (p_ds sp) (p_col sp))%nat ->
  length (panels sp content) = (axis_n (p_ds sp) (p_row sp) * axis_n (p_ds sp) (p_col sp))%nat /\
  exists p, nth_error (panels sp content) (i * axis_n (p_ds sp) (p_col sp) + j) = Some p
    /\ pn_row p = i /\ pn_col p = j
    /\ pn_content p = content (axis_sel (p_row sp) i ++ axis_sel (p_col sp) j)
    /\ (forall cd, p_col sp = Some cd ->
          pn_title p = if Nat.eqb i 0 then Some (titled (p_colname sp) (p_collabels sp) j) else None)
    /\ (forall rd, p_row sp = Some rd ->
          pn_rlabel p = if Nat.eqb j (axis_n (p_ds sp) (p_col sp) - 1)
                        then Some (titled (p_rowname sp) (p_rowlabels sp) i) else None).
Proof.
  intros C sp content i j Hi Hj. split; [apply panels_length|].
  exists (panel_at sp content i j). split; [now apply panels_nth|].
  unfold panel_at. cbn [pn_row pn_col pn_content pn_title pn_rlabel]. repeat split.
  - intros cd Hc. rewrite Hc. reflexivity.
  - intros rd Hr. rewrite Hr, axis_idx_seq, seq_length. reflexivity.
Qed.

(* colour index: monotone in the value, first entry at vmin, last entry at vmax, inside the
   table in between, the under / over entries outside *)
Theorem C17_color_index_monotone : forall N vmin vmax z1 z2,
  0 < N -> vmin < vmax -> vmin <= z1 -> z1 <= z2 -> z2 <= vmax ->
  lut_index N vmin vmax z1 <= lut_index N vmin vmax z2.
Proof. exact lut_index_mono. Qed.
Theorem C17_color_index_endpoints : forall N vmin vmax,
  0 < N -> vmin < vmax ->
  lut_index N vmin vmax vmin = 0 /\ lut_index N vmin vmax vmax = N - 1 /\
  (forall z, vmin <= z <= vmax -> 0 <= lut_index N vmin vmax z < N) /\
  (forall z, z < vmin -> lut_index N vmin vmax z = N) /\
  (forall z, vmax < z -> lut_index N vmin vmax z = N + 1).
Proof.
  intros N vmin vmax HN H. split; [now apply lut_index_bottom|]. split; [now apply lut_index_top|].
  split; [intros z Hz; now apply lut_index_range|].
  split; intros z Hz; now apply (lut_index_outside N vmin vmax z H).
Qed.
(* the colour of a line does not depend on the data of any series: only on the series' own z
   value (or its own c value), the limits and the table *)
Theorem C17_series_color_from_z : forall sp sel zd k zv lo hi,
  p_z sp = Some zd -> p_cmode sp = CMapZ true lo hi -> get (p_ds sp) zd [(zd, k)] = Fin zv ->
  series_color sp sel k
  = Some (canon_at (p_canon sp)
            (lut_index (p_N sp) (norm_lo (p_ds sp) zd lo) (norm_hi (p_ds sp) zd hi) zv)).
Proof. intros sp sel zd k zv lo hi Hz Hm Hg. unfold series_color. now rewrite Hm, Hz, Hg. Qed.

(* scatter(c=<variable>): every point is coloured on the one scale the colour bar shows (user
   limits, else the range of the whole variable), whatever series it belongs to *)
Theorem C17_scatter_c_scale : forall sp sel yv k cv lo hi,
  p_cmode sp = CPoints cv lo hi ->
  exists cs, s_c (one_series sp sel yv k) = Some cs /\
    s_ccol (one_series sp sel yv k)
    = Some (map (fun c => match c with
                          | Fin i => canon_at (p_canon sp)
                                       (lut_index (p_N sp) (norm_lo (p_ds sp) cv lo) (norm_hi (p_ds sp) cv hi) i)
                          | NonFin => canon_at (p_canon sp) (lut_bad (p_N sp)) end) cs).
Proof.
  intros sp sel yv k cv lo hi Hc. unfold one_series. cbn [s_c s_ccol]. rewrite Hc. cbn [cpoint_var option_map].
  eexists. split; [reflexivity|]. unfold point_colors. rewrite Hc. reflexivity.
Qed.

(* ------------------------------------------------------------------ the code before the repair *)
(* Until the fix "hand the colour norm to Axes.scatter" no norm was passed and matplotlib scaled
   every collection to its own range (point_colors_old): a point's colour was NOT the colour map
   at the value normalised over the dataset.  Witness: two series over c = 1,2 and c = 3,4. *)
Definition ident_canon : list Z := zseq 0 259.
Definition ex_scatter : spec :=
  mkspec (mkds [(1, 2%nat); (2, 2%nat)]
               [(1, mkvar [1] [Fin 10; Fin 20]); (2, mkvar [2] [Fin 5; Fin 6]);
                (3, mkvar [2; 1] (cells [101; 102; 103; 104]));
                (4, mkvar [2; 1] (cells [1; 2; 3; 4]))])
         1 [3] false (Some 2) None None [str "5"; str "6"] (CPoints 4 None None) 256 ident_canon
         None None (str "") (str "") [] [].
Theorem C17_scatter_c_scale_refuted_old :
  exists sp s cs, nth_error (z_series sp []) 0 = Some s /\ s_c s = Some cs /\
    s_ccol s = Some (point_colors sp cs) /\ point_colors_old sp cs <> point_colors sp cs.
Proof.
  exists ex_scatter. eexists. eexists. split; [vm_compute; reflexivity|]. split; [reflexivity|].
  split; [reflexivity|]. vm_compute. discriminate.
Qed.

(* ------------------------------------------------------------------ non-vacuity *)
(* x = 1..4, z = 10, 20, 40; the series z = 20 is entirely NaN, z = 10 holds an inf *)
Definition ex_lines : spec :=
  mkspec (mkds [(1, 4%nat); (2, 3%nat)]
               [(1, mkvar [1] [Fin 4; Fin 8; Fin 12; Fin 16]); (2, mkvar [2] [Fin 40; Fin 80; Fin 160]);
                (3, mkvar [1; 2] (cells [101; 0; 103;  104; 0; 106;  0; 0; 109;  110; 0; 112]))])
         1 [3] false (Some 2) None None [str "10"; str "20"; str "40"] (CMapZ true None None) 256 ident_canon
         None None (str "") (str "") [] [].
Example C17_example_lines :
  map (fun s => (s_label s, s_color s, s_pts s)) (z_series ex_lines [])
  = [(Some (str "10"), Some 0, [(Fin 4, Fin 101); (Fin 8, Fin 104); (Fin 16, Fin 110)]);
     (Some (str "20"), Some 85, []);
     (Some (str "40"), Some 255, [(Fin 4, Fin 103); (Fin 8, Fin 106); (Fin 12, Fin 109); (Fin 16, Fin 112)])].
Proof. vm_compute. reflexivity. Qed.
Example C17_example_all_nan_hypothesis :
  forall p, In p (pairs (column (p_ds ex_lines) 1 [(2, 1%nat)] (free_dims ex_lines [(2, 1%nat)] 3))
                        (column (p_ds ex_lines) 3 [(2, 1%nat)] (free_dims ex_lines [(2, 1%nat)] 3)))
            -> both_finite p = false.
Proof. vm_compute. intros p H. repeat (destruct H as [<-|H]; [reflexivity|]). contradiction. Qed.
Example C17_example_bins :
  StronglySorted Z.lt [0; 4; 8; 20] /\ bin_counts [0; 4; 8; 20] [0; 3; 4; 8; 20; 21; -1; 19] = [2; 1; 3]%nat
  /\ bin_index [0; 4; 8; 20] 20 = Some 2%nat /\ bin_index [0; 4; 8; 20] 21 = None.
Proof. split; [repeat constructor|vm_compute; repeat split; reflexivity]. Qed.
Example C17_example_mesh :
  mesh (p_ds ex_lines) 3 1 2 [] = [[Fin 101; Fin 104; NonFin; Fin 110]; [NonFin; NonFin; NonFin; NonFin];
                                   [Fin 103; Fin 106; Fin 109; Fin 112]].
Proof. vm_compute. reflexivity. Qed.
Definition ex_grid : spec :=
  mkspec (mkds [(1, 2%nat); (5, 2%nat); (6, 3%nat)]
               [(1, mkvar [1] [Fin 4; Fin 8]); (5, mkvar [5] [Fin 1; Fin 2]); (6, mkvar [6] [Fin 1; Fin 2; Fin 3]);
                (3, mkvar [6; 1; 5] (cells [1; 2; 3; 4; 5; 6; 7; 8; 9; 10; 11; 12]))])
         1 [3] false None None None [] (CCycle 10) 0 []
         (Some 5) (Some 6) (str "r") (str "k") [str "u"; str "v"] [str "0.5"; str "1.25"; str "2.25"].
Example C17_example_grid :
  map (fun p => (pn_row p, pn_col p, pn_title p, pn_rlabel p, map s_pts (pn_content p)))
      (panels ex_grid (z_series ex_grid))
  = [(0, 0, Some (str "k = 0.5"), None, [[(Fin 4, Fin 1); (Fin 8, Fin 3)]]);
     (0, 1, Some (str "k = 1.25"), None, [[(Fin 4, Fin 5); (Fin 8, Fin 7)]]);
     (0, 2, Some (str "k = 2.25"), Some (str "r = u"), [[(Fin 4, Fin 9); (Fin 8, Fin 11)]]);
     (1, 0, None, None, [[(Fin 4, Fin 2); (Fin 8, Fin 4)]]);
     (1, 1, None, None, [[(Fin 4, Fin 6); (Fin 8, Fin 8)]]);
     (1, 2, None, Some (str "r = v"), [[(Fin 4, Fin 10); (Fin 8, Fin 12)]])]%nat.
Proof. vm_compute. reflexivity. Qed.
Example C17_example_color : lut_index 256 40 160 80 = 85 /\ lut_index 256 40 160 160 = 255
                            /\ lut_index 256 40 160 39 = 256 /\ lut_index 256 40 160 161 = 257.
Proof. vm_compute. repeat split; reflexivity. Qed.

(* the data path regenerated from xyzpy/plot/core.py on every run (GenPlot: which arrays decide the finite-mask
   of a series, which arrays it is applied to, what a histogram is fed, how the heat-map mesh is oriented) is the
   modelled one, and interpreting it gives exactly the figures the theorems above speak about: the correspondence
   check evaluates fig_*_flow on the REGENERATED description *)
Theorem C17_generated_flow :
  GenPlot.gen_plot_flow = PlotFlow.model_plot_flow
  /\ GenPlot.gen_plot_sources_checked = true /\ GenPlot.gen_plot_helpers_pinned = true.
Proof. exact (conj BridgePlot.bridge_plot_flow BridgePlot.bridge_plot_sources). Qed.

Theorem C17_flow_is_model :
  (forall sp, PlotFlow.fig_lines_flow GenPlot.gen_plot_flow sp = fig_lines sp)
  /\ (forall sp edges scale, PlotFlow.fig_hist_flow GenPlot.gen_plot_flow sp edges scale = fig_hist sp edges scale)
  /\ (forall sp v xd yd lo hi wc,
        PlotFlow.fig_heat_flow GenPlot.gen_plot_flow sp v xd yd lo hi wc = fig_heat sp v xd yd lo hi wc).
Proof.
  rewrite BridgePlot.bridge_plot_flow. split; [|split]; intros.
  - apply PlotFlowProofs.fig_lines_flow_model.
  - apply PlotFlowProofs.fig_hist_flow_model.
  - apply PlotFlowProofs.fig_heat_flow_model.
Qed.

(* sensitivity: a data path whose mask forgets y, or which does not apply the mask to a companion array, or
   transposes the mesh the other way, is a different figure on a concrete dataset *)
Definition flow_mask_x_only := PlotFlow.mk_plot_flow [PlotFlow.KX] [PlotFlow.KX; PlotFlow.KY; PlotFlow.KC; PlotFlow.KYE; PlotFlow.KXE] [PlotFlow.KX] [PlotFlow.KY; PlotFlow.KX].
Definition flow_mesh_xy := PlotFlow.mk_plot_flow [PlotFlow.KX; PlotFlow.KY] [PlotFlow.KX; PlotFlow.KY; PlotFlow.KC; PlotFlow.KYE; PlotFlow.KXE] [PlotFlow.KX] [PlotFlow.KX; PlotFlow.KY].
Definition flow_ds : dset :=
  mkds [(1, 3%nat); (2, 2%nat)] [(1, mkvar [1] (cells [4; 8; 12])); (2, mkvar [2] (cells [4; 8]));
                                 (10, mkvar [2; 1] (cells [16; 0; 20; 24; 28; 32]))].
Definition flow_spec : spec :=
  mkspec flow_ds 1 [10] false (Some 2) None None [str "a"; str "b"] (CCycle 10) 256 [] None None
         (str "") (str "") [] [].
Lemma C17_flow_sensitive :
  PlotFlow.fig_lines_flow flow_mask_x_only flow_spec <> fig_lines flow_spec
  /\ PlotFlow.mesh_flow flow_mesh_xy flow_ds 10 1 2 [] <> mesh flow_ds 10 1 2 [].
Proof. split; vm_compute; discriminate. Qed.

Print Assumptions C17_generated_flow.
Print Assumptions C17_flow_is_model.
Print Assumptions C17_one_series_per_z.
Print Assumptions C17_points_exact.
Print Assumptions C17_all_nan_series.
Print Assumptions C17_bins_partition.
Print Assumptions C17_bins_counts.
Print Assumptions C17_hist_values.
Print Assumptions C17_mesh_exact.
Print Assumptions C17_mesh_layout.
Print Assumptions C17_panel_of_slice.
Print Assumptions C17_color_index_monotone.
Print Assumptions C17_color_index_endpoints.
Print Assumptions C17_series_color_from_z.
Print Assumptions C17_scatter_c_scale.
Print Assumptions C17_scatter_c_scale_refuted_old.
