(* C12 -- a crop is deleted only after its data is safely delivered. *)
From XV Require Import Prelude Crop Stages GenStages BridgeStages GenReap BridgeReap.
From XV Require Import Names Harvest HarvestFlow GenNames GenHarvest BridgeHarvest HarvestFlowProofs.
Open Scope Z_scope.

Definition all_kinds := [FNone; FRunner; FHarvester; FSampler].
Definition all_cu := [None; Some true; Some false].
Definition all_bool := [true; false].

(* the primitive steps of a reap of a crop of kind k, from the programs regenerated from
   cropping.py on this run *)
Definition prims (k : farmer_kind) (cu : option bool) (allow : bool) : list prim :=
  reap_prims gen_prog gen_dispatch k cu allow.

(* General fact: if no deletion precedes a fallible step, a failure at ANY step leaves the crop
   in place. *)
Lemma exec_failure_keeps_crop : forall ps n del,
  delete_is_last ps = true -> (n < count_fallible ps)%nat -> exec ps (Some n) del = (true, del).
Proof.
  induction ps as [|p ps IH]; intros n del Hd Hn.
  - unfold count_fallible in Hn. cbn in Hn. lia.
  - destruct p as [w|].
    + cbn [exec]. destruct n; [reflexivity|]. apply IH; [exact Hd|].
      unfold count_fallible in *. cbn in Hn. lia.
    + exfalso. cbn [delete_is_last] in Hd. unfold count_fallible in Hn. cbn [filter] in Hn.
      assert (filter (fun p => match p with PFallible _ => true | PDelete => false end) ps = []) as E.
      { clear Hn IH. induction ps as [|q ps IHq]; [reflexivity|]. cbn in Hd. apply andb_true_iff in Hd as [Hq Hr].
        destruct q; [discriminate|]. cbn. apply IHq, Hr. }
      rewrite E in Hn. cbn in Hn. lia.
Qed.

(* every reap entry point, every farmer kind, clean_up and allow_incomplete setting: deletions
   come only after the last step that can fail (checked on the regenerated programs) *)
Theorem C12_delete_is_last :
  forallb (fun k => forallb (fun cu => forallb (fun allow => delete_is_last (prims k cu allow)) all_bool) all_cu) all_kinds
  = true.
Proof. vm_compute. reflexivity. Qed.

(* hence: a reap that raises at any stage (incomplete crop, unreadable / missing result, wrong
   output description, leftover results, merge conflict, save error) leaves every crop file *)
Theorem C12_failure_keeps_crop : forall k cu allow n,
  In k all_kinds -> In cu all_cu -> In allow all_bool ->
  (n < count_fallible (prims k cu allow))%nat ->
  exec (prims k cu allow) (Some n) false = (true, false).
Proof.
  intros k cu allow n Hk Hcu Ha Hn. apply exec_failure_keeps_crop; [|exact Hn].
  pose proof C12_delete_is_last as H. rewrite forallb_forall in H. specialize (H k Hk).
  rewrite forallb_forall in H. specialize (H cu Hcu). rewrite forallb_forall in H. exact (H allow Ha).
Qed.

(* a reap in which every stage succeeds removes the crop iff the effective clean_up is true:
   clean_up if given, else (not allow_incomplete) *)
Theorem C12_success_deletes_iff :
  forallb (fun k => forallb (fun cu => forallb (fun allow =>
    Bool.eqb (snd (exec (prims k cu allow) None false)) (eff_clean_up cu allow)
    && negb (fst (exec (prims k cu allow) None false))) all_bool) all_cu) all_kinds = true.
Proof. vm_compute. reflexivity. Qed.

(* for a harvester / sampler the deletion comes after the merge-and-save step *)
Theorem C12_sync_before_delete : forall cu allow,
  In cu all_cu -> In allow all_bool ->
  forall k, k = FHarvester \/ k = FSampler ->
  exists pre post, prims k cu allow = pre ++ PFallible 6 :: post
                   /\ forallb (fun p => match p with PDelete => false | _ => true end) pre = true.
Proof.
  intros cu allow Hcu Ha k Hk.
  destruct Hk as [-> | ->];
    destruct Hcu as [<-|[<-|[<-|[]]]]; destruct Ha as [<-|[<-|[]]];
    (eexists; eexists; split; [vm_compute; reflexivity | reflexivity]) ||
    idtac.
  all: try (exists [PFallible 7; PFallible 2; PFallible 1; PFallible 2; PFallible 3; PFallible 4; PFallible 5]; eexists; split; [vm_compute; reflexivity|reflexivity]).
Qed.

(* the merge-and-save step (PFallible 6) really is fallible in the sense the programs need: when the
   harvester's / sampler's file write fails, add_ds / add_df raise (control flow regenerated from
   save_full_ds / save_full_df), so the deletion that follows is not reached *)
Theorem C12_save_error_raises :
  (forall st name e s new pol tmp, snd (hadd_wfail st name e gen_add_flow gen_save_flow s new pol tmp) = true)
  /\ sf_reraise gen_ssave_flow = RrAlways.
Proof.
  split.
  - intros. rewrite bridge_add_flow, bridge_save_flow. apply wfail_raises.
  - rewrite bridge_ssave_flow. reflexivity.
Qed.

(* sensitivity: an except branch that re-raises only once the temporary file exists swallows the error
   of a write that fails earlier (e.g. the directory is missing) *)
Lemma C12_reraise_if_tmp_exists_refuted :
  snd (hadd_wfail model_sites "d/data" Eh5netcdf model_add_flow (mk_save_flow MemAfterWrite RrIfTmpExists true)
                  (mk_hst None []) [([100; 1; 1], 5)] PolNone false) = false.
Proof. vm_compute. reflexivity. Qed.

(* the clean-up rule itself, regenerated from calc_clean_up_default_res *)
Theorem C12_code_tie :
  (forall e, gen_prog e = model_prog e) /\ (forall k, gen_dispatch k = model_dispatch k)
  /\ (forall cu allow, gen_clean_up_default cu allow = (eff_clean_up cu allow, allow)).
Proof. exact (conj bridge_prog (conj bridge_dispatch bridge_clean_up)). Qed.

(* the old sampler program (clean_up passed down, delete before the table is saved) violates
   delete_is_last: the record of defect D12 *)
Definition old_prog (e : entry) : list stage :=
  match e with
  | ESamples => [SGuard; SCall ERunner CuVar; SSync; SReturn]
  | e' => model_prog e'
  end.
Lemma C12_delete_is_last_refuted_old :
  delete_is_last (reap_prims old_prog model_dispatch FSampler None false) = false.
Proof. vm_compute. reflexivity. Qed.

(* non-vacuity: the harvester program really contains a deletion and 8 fallible steps *)
Example C12_example :
  prims FHarvester None false
  = [PFallible 7; PFallible 2; PFallible 1; PFallible 2; PFallible 3; PFallible 4; PFallible 5; PFallible 6; PDelete].
Proof. vm_compute. reflexivity. Qed.

Print Assumptions C12_delete_is_last.
Print Assumptions C12_failure_keeps_crop.
Print Assumptions C12_success_deletes_iff.
Print Assumptions C12_sync_before_delete.
Print Assumptions C12_save_error_raises.
Print Assumptions C12_code_tie.
