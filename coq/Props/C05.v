(* C05 -- the harvested dataset is the faithful merge of everything ever harvested. *)
From XV Require Import Prelude Grid Names Harvest HarvestFlow GenNames BridgeNames GenHarvest BridgeHarvest GridProofs
  HarvestProofs HarvestFlowProofs.
Open Scope Z_scope.

(* the value at every point is the one the overwrite policy decides *)
Theorem C05_policy : forall pol old new m k,
  merge pol old new = Ok m ->
  pget m k =
  match pol with
  | PolNew => match pget (rev new) k with Some v => Some v | None => pget old k end
  | PolOld | PolNone => match pget old k with Some v => Some v | None => pget new k end
  end.
Proof. intros. apply merge_spec. assumption. Qed.

(* default policy: identical or disjoint data merge (the new data is all there too) *)
Theorem C05_default_merges_new : forall old new m k v,
  merge PolNone old new = Ok m -> pget new k = Some v -> pget m k = Some v.
Proof. intros. eapply merge_none_agrees; eassumption. Qed.

(* ... and conflicting data raise, leaving the file untouched and memory equal to the file *)
Theorem C05_conflict_atomic : forall name e s old new,
  Rel name e s (Some old) -> conflict old new = true ->
  let r := hstep model_sites name e s (HAdd new true PolNone) in
  snd r = true /\ h_disk (fst r) = h_disk s /\ h_mem (fst r) = Some old.
Proof. intros. apply conflict_atomic; assumption. Qed.

(* no previously harvested point is dropped or altered by harvesting other points *)
Theorem C05_monotone : forall pol old new m k,
  merge pol old new = Ok m -> pget new k = None -> pget (rev new) k = None -> pget m k = pget old k.
Proof. intros. eapply merge_monotone; eassumption. Qed.

(* every history of synced operations (harvests with any policy, save_merge_ds, drop_sel, new
   sessions at any step, long-lived harvesters with stale memory): after each step the file
   holds exactly the abstract merged dataset, and an operation raises exactly on a conflict *)
Theorem C05_refines_spec : forall name e ops,
  forallb all_synced ops = true ->
  Forall2 (fun r q => Rel name e (fst r) (fst q) /\ snd r = snd q)
          (hrun model_sites name e (mk_hst None []) ops) (ospec_run None ops).
Proof. intros name e ops H. apply hrun_refines; [split; [reflexivity|reflexivity]|exact H]. Qed.

(* memory equals the file after every synced harvest *)
Theorem C05_memory_equals_disk : forall name e s a new pol,
  Rel name e s a ->
  let r := hstep model_sites name e s (HAdd new true pol) in
  snd r = false -> h_mem (fst r) = fget (h_disk (fst r)) (auto_add_extension name e).
Proof.
  intros name e s a new pol [Hd Hm] r Hok. subst r.
  destruct (model_paths name e) as (P1 & P2 & P3 & _). cbn [hstep] in *. unfold load in *.
  rewrite P1, P2, P3, Hd in *. destruct a as [old|].
  - cbn [h_mem] in *. destruct (merge pol old new); [|discriminate]. cbn. rewrite fget_fset_same. reflexivity.
  - rewrite (Hm eq_refl) in *. cbn. rewrite fget_fset_same. reflexivity.
Qed.

(* with or without a file extension every site resolves the data name to the same path
   (sites regenerated from manage.py / farming.py) *)
Theorem C05_name_resolution : forall name e,
  let P := auto_add_extension name e in
  load_path gen_sites name e = P /\ load_from gen_sites name e = P /\ save_to gen_sites name e = P
  /\ merge_test gen_sites name e = P /\ merge_from gen_sites name e = P /\ merge_to gen_sites name e = P.
Proof.
  intros name e. rewrite bridge_sites. destruct (model_paths name e) as (P1 & P2 & P3 & P4 & P5 & P6 & _).
  repeat split; assumption.
Qed.

(* the old sites (existence tested under the bare name) lose the history of an extension-less
   data name: the record of defect D6 *)
Definition old_sites : sites :=
  {| p_save_ds_write := PResolved; p_load_ds_open := PResolved; p_merge_exists := PRaw; p_merge_load := PRaw;
     p_merge_save := PRaw; p_merge_load_passes_engine := false; p_hload_access := PRaw; p_hload_load := PRaw;
     p_hsave_tmp_write := PRawTmp; p_hsave_replace_dst := PResolved; p_hsave_removes_first := true;
     p_hdelete := PResolved |}.
Lemma C05_name_resolution_refuted_old :
  let ops := [HAdd [([100; 1; 1], 5)] true PolNone; HNewSession; HAdd [([100; 1; 3], 7)] true PolNone] in
  match rev (hrun old_sites "data" Eh5netcdf (mk_hst None []) ops) with
  | (s, _) :: _ => fget (h_disk s) "data.h5" = Some [([100; 1; 3], 7)]      (* a = 1 is gone *)
  | [] => False
  end.
Proof. vm_compute. reflexivity. Qed.

(* a harvest whose file write fails (disk full, unwritable directory, a value the engine cannot store) is
   atomic: the error reaches the caller, the file is untouched and memory still equals the file *)
Theorem C05_write_failure_atomic : forall name e s a new pol tmp,
  Rel name e s a ->
  let r := hadd_wfail model_sites name e model_add_flow model_save_flow s new pol tmp in
  snd r = true /\ h_disk (fst r) = h_disk s /\ h_mem (fst r) = a /\ Rel name e (fst r) a.
Proof. intros. apply write_failure_atomic. assumption. Qed.

(* ... and histories with such failures at any step still refine the one abstract dataset; here the
   steps are the interpretation of the control flow REGENERATED from add_ds / save_full_ds / save_merge_ds *)
Theorem C05_refines_spec_through_generated_flow : forall name e ops,
  forallb fall_synced ops = true ->
  Forall2 (fun r q => Rel name e (fst r) (fst q) /\ snd r = snd q)
          (frun gen_flows gen_sites name e (mk_hst None []) ops) (fspec_run None ops).
Proof.
  intros name e ops H. rewrite bridge_flows, bridge_sites.
  apply frun_refines; [split; [reflexivity|reflexivity]|exact H].
Qed.

(* what [overwrite] dispatches to in the code is the policy merge *)
Theorem C05_generated_dispatch_is_policy : forall pol old new,
  combine_eval (dispatch_at (af_dispatch gen_add_flow) pol) old new = merge pol old new /\
  combine_eval (dispatch_at gen_save_merge_dispatch pol) old new = merge pol old new.
Proof.
  intros. rewrite bridge_add_flow. destruct bridge_save_merge as [-> _].
  split; apply dispatch_is_merge.
Qed.

Example C05_write_failure_nonvacuous :
  let ops := [FOp (HAdd [([100; 1; 1], 5)] true PolNone); FWFail [([100; 1; 2], 6)] PolNone true;
              FOp (HAdd [([100; 1; 3], 7)] true PolNone)] in
  map snd (frun gen_flows gen_sites "data" Eh5netcdf (mk_hst None []) ops) = [false; true; false].
Proof. vm_compute. reflexivity. Qed.

(* sensitivity: had save_full_ds updated memory before the write, a failed write would leave memory
   ahead of the file (this is not the code's order; it shows the theorem depends on the order) *)
Lemma C05_mem_before_write_refuted :
  let s := mk_hst None [] in
  let r := hadd_wfail model_sites "data" Eh5netcdf model_add_flow (mk_save_flow MemBeforeWrite RrAlways true)
                      s [([100; 1; 1], 5)] PolNone true in
  h_mem (fst r) = Some [([100; 1; 1], 5)] /\ h_disk (fst r) = [].
Proof. vm_compute. split; reflexivity. Qed.

Theorem C05_code_tie : gen_sites = model_sites /\ (forall n e, gen_auto_add_extension n e = auto_add_extension n e)
  /\ gen_flows = model_flows /\ gen_load_rule = model_load_rule.
Proof. exact (conj bridge_sites (conj bridge_auto_add_extension (conj bridge_flows bridge_load_rule))). Qed.

Theorem C05_engine_forwarded : gen_engine_forwarded_everywhere = true.
Proof. exact bridge_engine_forwarded. Qed.

Print Assumptions C05_policy.
Print Assumptions C05_conflict_atomic.
Print Assumptions C05_monotone.
Print Assumptions C05_refines_spec.
Print Assumptions C05_memory_equals_disk.
Print Assumptions C05_name_resolution.
Print Assumptions C05_write_failure_atomic.
Print Assumptions C05_refines_spec_through_generated_flow.
Print Assumptions C05_generated_dispatch_is_policy.
Print Assumptions C05_engine_forwarded.
Print Assumptions C05_code_tie.
