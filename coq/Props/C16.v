(* C16 -- generated cluster scripts and the grow CLI grow exactly the intended batches.
   Covered by theorems: the selection logic of gen_cluster_script (regenerated into
   GenTemplates.gen_select) and the well-formedness of the regenerated template strings.
   Shell and Python syntactic validity of whole scripts and the growing itself are observed by
   executing every script (harness/props/c16.py). *)
From XV Require Import Prelude Grid Perm Runner Batch Crop Script GenTemplates BridgeTemplates
     GridProofs PermProofs RunnerProofs BatchProofs AssocProofs CropProofs ReapProofs ProgressProofs ScriptProofs.
From XV Require Sched GenPublish BridgePublish.
From Coq Require Import Permutation.
Open Scope Z_scope.

(* For every scheduler, mode, request (explicit ids / none), crop state and EVERY number of
   batches B and id lists of any length: running the script once per index of its header range
   (or once) passes to grow exactly the explicit ids, or the missing ids when some results
   exist, or 1..B when there are none -- as a list (same order, same multiplicities); hence,
   when the requested ids are duplicate-free, each exactly once. *)
Theorem C16_tasks_exact : forall sc md (a : ids_arg) nres missing B,
  let bids := norm_ids a in
  state_consistent bids nres missing B ->
  let tasks := tasks_grown (gen_select sc md a nres missing B) missing in
  tasks = intended bids nres missing B
  /\ ((forall l, bids = Some l -> NoDup l) -> NoDup missing ->
      NoDup tasks /\ Permutation tasks (intended bids nres missing B)).
Proof.
  intros sc md a nres missing B bids Hc tasks. subst tasks. rewrite bridge_select. fold bids.
  rewrite (tasks_exact sc bids nres missing B md Hc). split; [reflexivity|].
  intros Hl Hm. split; [apply intended_nodup; assumption|apply Permutation_refl].
Qed.

(* the request spelled as a single int (documented: "batch_ids : int or tuple[int]") grows
   exactly that batch, once -- under every scheduler and mode, whatever the crop state *)
Theorem C16_int_spelling : forall sc md z nres missing B,
  tasks_grown (gen_select sc md (ArgInt z) nres missing B) missing = [z].
Proof.
  intros sc md z nres missing B.
  apply (C16_tasks_exact sc md (ArgInt z) nres missing B). intros H. discriminate H.
Qed.

(* The array range written into the header is 1..n with n the number of intended tasks (so it
   has exactly as many indices as there are tasks); for PBS and a single task the array line is
   dropped and the rewrite is applied -- and only then. *)
Theorem C16_array_range : forall sc (a : ids_arg) nres missing B,
  let bids := norm_ids a in
  0 <= B ->
  let s := gen_select sc MArray a nres missing B in
  let n := Z.of_nat (length (intended bids nres missing B)) in
  header_range s = (if sched_eqb sc PBS && (n =? 1) then None else Some (1, n))
  /\ s_rewrite s = sched_eqb sc PBS && (n =? 1)
  /\ (forall lo hi, header_range s = Some (lo, hi) -> hi - lo + 1 = n)
  /\ (header_range s = None -> n = 1).
Proof.
  intros sc a nres missing B bids HB s n. subst s. rewrite bridge_select. fold bids.
  destruct (array_range sc bids nres missing B HB) as [Hr Hw]. fold n in Hr, Hw.
  split; [exact Hr|]. split; [exact Hw|]. rewrite Hr.
  destruct (sched_eqb sc PBS && (n =? 1)) eqn:E.
  - split; [discriminate|]. intros _. apply andb_true_iff in E as [_ E]. lia.
  - split; [|discriminate]. intros lo hi H. injection H as <- <-. lia.
Qed.

(* the PBS single-element case grows exactly that one id, with no array line in the script *)
Theorem C16_pbs_single_element : forall (a : ids_arg) nres missing B x,
  let bids := norm_ids a in
  state_consistent bids nres missing B -> 0 <= B ->
  intended bids nres missing B = [x] ->
  let s := gen_select PBS MArray a nres missing B in
  header_range s = None /\ s_rewrite s = true /\ runs s = [None] /\ tasks_grown s missing = [x].
Proof.
  intros a nres missing B x bids Hc HB Hx s.
  destruct (C16_array_range PBS a nres missing B HB) as (Hr & Hw & _). fold s bids in Hr, Hw.
  rewrite Hx in Hr, Hw. cbn in Hr, Hw.
  destruct (C16_tasks_exact PBS MArray a nres missing B Hc) as [Ht _]. fold s bids in Ht.
  repeat split; try assumption; [unfold runs; now rewrite Hr | now rewrite Ht].
Qed.

(* single mode: no array line, one execution, which hands crop.grow the whole list *)
Theorem C16_single_once : forall sc (a : ids_arg) nres missing B,
  runs (gen_select sc MSingle a nres missing B) = [None].
Proof.
  intros. rewrite bridge_select. unfold runs.
  destruct (single_tasks sc (select sc MSingle (norm_ids a) nres missing B) missing) as [_ ->];
    destruct (norm_ids a); reflexivity.
Qed.

(* the consistency hypothesis is a fact of the crop model: with no result on disk the missing
   batches are 1..B *)
Theorem C16_crop_state : forall (R : Type) (d : @disk R) (o : obj) inf bids,
  d_info d = Some inf ->
  state_consistent bids (num_results d) (missing o d) (inf_nb inf).
Proof. intros R d o inf bids Hi _ Hn. exact (fresh_crop_missing d o inf Hi Hn). Qed.

(* ---- templates ---- *)
Definition all_templates : list (piece * string) := map (fun p => (p, gen_template p)) all_pieces.

(* A finite check, by computation on the template strings regenerated from cropping.py on this
   run: every replacement field of every template is a key gen_cluster_script supplies (the
   array-only keys only in pieces used in array mode), the Python lines of each template have
   balanced brackets and quotes, each template contains the statement the execution model
   ascribes to it, and the index variables occur nowhere else. *)
Theorem C16_templates_wf :
  forallb (template_ok gen_opts_keys gen_ids_keys gen_array_keys) all_templates = true.
Proof. vm_compute. reflexivity. Qed.

(* with the selection: every field of every piece of every selected script is supplied *)
Theorem C16_fields_supplied : forall sc md (a : ids_arg) nres missing B p ts,
  let s := gen_select sc md a nres missing B in
  In p (s_pieces s) -> tokens (gen_template p) = Some ts ->
  forall f, In f (fields ts) ->
    In f (gen_opts_keys ++ gen_ids_keys ++
          (if opt_is_some (s_run_start s) && opt_is_some (s_run_stop s) then gen_array_keys else [])).
Proof.
  intros sc md a nres missing B p ts s Hp Ht f Hf. subst s. rewrite bridge_select in *.
  set (bids := norm_ids a) in *.
  pose proof C16_templates_wf as W. rewrite forallb_forall in W.
  assert (Hin : In (p, gen_template p) all_templates).
  { unfold all_templates. apply (in_map (fun q => (q, gen_template q)) all_pieces p). destruct p; cbn; tauto. }
  specialize (W _ Hin). unfold template_ok in W. rewrite Ht in W.
  destruct (python_part p (gen_template p)); [|discriminate].
  repeat (apply andb_true_iff in W as [W _]).
  rewrite forallb_forall in W. specialize (W f Hf).
  unfold str_mem in W. apply existsb_exists in W as (k & Hk & Ek). apply String.eqb_eq in Ek. subst k.
  pose proof (select_supplies sc md bids nres missing B) as S. cbv zeta in S.
  rewrite forallb_forall in S. specialize (S p Hp).
  apply in_app_or in Hk as [Hk|Hk]; [apply in_or_app; now left|].
  apply in_app_or in Hk as [Hk|Hk]; [apply in_or_app; right; apply in_or_app; now left|].
  apply in_or_app; right; apply in_or_app; right.
  destruct (array_only p); [|contradiction]. cbn [negb orb] in S. now rewrite S.
Qed.

(* the old SGE partial-array template (a stray closing bracket after the ids) is rejected by
   the same check: the record of the repaired defect *)
Definition old_sge_partial : string :=
  String.append t_ARRAY_GROW_KWARGS
    (String.append "    batch_ids = {batch_ids}]"
      (String.append nl (String.append "    grow(batch_ids[$SGE_TASK_ID - 1], **grow_kwargs)" nl))).
Lemma C16_templates_wf_refuted_old :
  template_ok gen_opts_keys gen_ids_keys gen_array_keys (PSgePartial, old_sge_partial) = false.
Proof. vm_compute. reflexivity. Qed.

(* ---- the command line grower ---- *)
(* xyzpy-grow opens the crop and calls grow_missing, which grows missing_results(): on a sown
   crop (any history of grows, deletions, ...) this grows exactly the missing batches, leaves
   every finished one, and makes the crop ready to reap *)
Theorem C16_cli : gen_cli = CliGrowMissing /\ gen_grow_missing = GmMissingResults /\
  forall (R : Type) (g : kwargs -> R) (i : input) bl (d : @disk R) (o : obj),
  Inv g i bl d -> bl <> [] ->
  exists d', grow_missing (fn g (fun _ => false)) o d = Ok d' /\ Inv g i bl d' /\ ready d' = true
             /\ (forall k, finished d' k = true <-> In k (missing o d) \/ finished d k = true).
Proof.
  split; [exact (proj1 bridge_cli)|]. split; [exact (proj2 bridge_cli)|].
  intros R g i bl d o HI Hne. exact (grow_missing_ready g i bl d o HI Hne).
Qed.

(* the tie: the definitions regenerated from cropping.py on this run are the model *)
Theorem C16_code_tie :
  (forall sc md a nres missing B, gen_select sc md a nres missing B = select sc md (norm_ids a) nres missing B)
  /\ gen_dynamic_expr = dynamic_expr
  /\ rewrite_ok (gen_template PPbsArrayHeader) gen_rewrite_drop gen_rewrite_var gen_rewrite_val = true.
Proof. exact (conj bridge_select (conj bridge_dynamic_expr bridge_rewrite)). Qed.

(* ---- non-vacuity ---- *)
(* a partially grown crop of 6 batches, SLURM array: tasks 1..3 grow the missing 2, 5, 6 *)
Example C16_example_partial :
  let s := gen_select SLURM MArray ArgNone 3 [2; 5; 6] 6 in
  header_range s = Some (1, 3) /\ tasks_grown s [2; 5; 6] = [2; 5; 6]
  /\ map (grown_by_run s [2; 5; 6]) (runs s) = [[2]; [5]; [6]]
  /\ s_pieces s = [PSlurmHeader; PSlurmArrayHeader; PBase; PSlurmPartial; PEnd].
Proof. vm_compute. repeat split; reflexivity. Qed.
(* PBS, one explicit id: no array line, constant index, grows batch 4 *)
Example C16_example_pbs_one :
  let s := gen_select PBS MArray (ArgList [4]) 0 [1; 2; 3; 4; 5] 5 in
  header_range s = None /\ s_rewrite s = true /\ tasks_grown s [1; 2; 3; 4; 5] = [4].
Proof. vm_compute. repeat split; reflexivity. Qed.
(* the int spelling on a partially grown crop, SGE array: one task, grows batch 3 *)
Example C16_example_int :
  let s := gen_select SGE MArray (ArgInt 3) 2 [1; 3; 4] 4 in
  header_range s = Some (1, 1) /\ s_ids s = IdsList [3] /\ tasks_grown s [1; 3; 4] = [3].
Proof. vm_compute. repeat split; reflexivity. Qed.
(* a fresh crop, SGE single mode: the program computes the ids when it runs *)
Example C16_example_single :
  let s := gen_select SGE MSingle ArgNone 0 [1; 2; 3] 3 in
  s_ids s = IdsDynamic /\ tasks_grown s [1; 2; 3] = [1; 2; 3] /\ state_consistent None 0 [1; 2; 3] 3.
Proof. vm_compute. repeat split; reflexivity. Qed.
(* the consistency hypothesis matters: were the dynamic list not the missing ids, the single
   script would not grow 1..B *)
Example C16_example_hypothesis_needed :
  tasks_grown (gen_select SGE MSingle ArgNone 0 [2] 3) [2] <> intended None 0 [2] 3.
Proof. vm_compute. discriminate. Qed.

(* a batch's result file holds the results in the order of the batch's settings, with or without a worker
   pool: `grow` evaluates every case, collects the futures in submission order and writes once (GenPublish) *)
Theorem C16_grow_keeps_batch_order : GenPublish.gen_grow_shape = Sched.grow_shape_model.
Proof. exact BridgePublish.bridge_grow_shape. Qed.

Print Assumptions C16_grow_keeps_batch_order.
Print Assumptions C16_tasks_exact.
Print Assumptions C16_int_spelling.
Print Assumptions C16_array_range.
Print Assumptions C16_pbs_single_element.
Print Assumptions C16_single_once.
Print Assumptions C16_crop_state.
Print Assumptions C16_templates_wf.
Print Assumptions C16_fields_supplied.
Print Assumptions C16_cli.
Print Assumptions C16_code_tie.
