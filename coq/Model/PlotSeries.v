(* C17 -- the logic xyzpy adds between a dataset and the matplotlib calls of the classic
   plots (xyzpy/plot/core.py, plotter_matplotlib.py): series extraction and masking, histogram
   bin membership, heat-map mesh orientation, the panel of a row/col slice, colour indices.
   Executable and proof-free.  Rendering is not modelled.

   Data: every finite value of the dataset is value = id / 4 for a distinct integer id (the
   harness guarantees it); NaN and +-inf are the single cell NonFin.  A variable is stored as
   xarray stores it: a list of dimension names and the row-major flat data. *)
From XV Require Import Prelude.
Open Scope Z_scope.

Inductive cell := Fin (id : Z) | NonFin.

Definition is_fin (c : cell) : bool := match c with Fin _ => true | NonFin => false end.
Definition both_finite (p : cell * cell) : bool := is_fin (fst p) && is_fin (snd p).

(* harness-to-model encoding of a data array: id 0 is never a data value and stands for NonFin *)
Definition cells (l : list Z) : list cell := map (fun z => if z =? 0 then NonFin else Fin z) l.

(* string literals of the harness: [str "abc"] *)
Definition str (s : string) : string := s.
Arguments str s%string_scope.

Record var := mkvar { v_dims : list Z; v_data : list cell }.
Record dset := mkds { d_sizes : list (Z * nat); d_vars : list (Z * var) }.

(* an assignment dimension -> index; unassigned dimensions read as index 0 (singletons) *)
Definition env := list (Z * nat).
Fixpoint env_get (e : env) (d : Z) : nat :=
  match e with
  | [] => 0%nat
  | (d', i) :: r => if d =? d' then i else env_get r d
  end.
Definition size_of (ds : dset) (d : Z) : nat := env_get (d_sizes ds) d.

Fixpoint find_var (vs : list (Z * var)) (v : Z) : var :=
  match vs with
  | [] => mkvar [] []
  | (n, x) :: r => if v =? n then x else find_var r v
  end.
Definition the_var (ds : dset) (v : Z) : var := find_var (d_vars ds) v.

(* row-major position of the element at e in an array over dims *)
Definition ravel (ds : dset) (dims : list Z) (e : env) : nat :=
  fold_left (fun k d => (k * size_of ds d + env_get e d)%nat) dims 0%nat.
Definition get (ds : dset) (v : Z) (e : env) : cell :=
  nth (ravel ds (v_dims (the_var ds v)) e) (v_data (the_var ds v)) NonFin.

(* all index assignments over dims, last dimension fastest (numpy flatten order) *)
Fixpoint envs (ds : dset) (dims : list Z) : list env :=
  match dims with
  | [] => [[]]
  | d :: r => flat_map (fun i => map (cons (d, i)) (envs ds r)) (seq 0 (size_of ds d))
  end.

Definition zmem (d : Z) (l : list Z) : bool := existsb (Z.eqb d) l.
Definition bound (e : env) (d : Z) : bool := existsb (fun p => Z.eqb d (fst p)) e.

(* xarray.broadcast: union of the dimensions in order of first appearance *)
Definition union_dims (ls : list (list Z)) : list Z :=
  fold_left (fun acc d => if zmem d acc then acc else acc ++ [d]) (concat ls) [].

(* the flattened values of variable v over the free dimensions fd, with sel fixed *)
Definition column (ds : dset) (v : Z) (sel : env) (fd : list Z) : list cell :=
  map (fun e => get ds v (sel ++ e)) (envs ds fd).

(* ------------------------------------------------------------------ masking (gen_xy) *)
(* not_null = isfinite(x) & isfinite(y) ;  x[not_null], y[not_null], c[not_null] ... *)
Fixpoint mask (xs ys : list cell) : list bool :=
  match xs, ys with
  | x :: xs', y :: ys' => (is_fin x && is_fin y) :: mask xs' ys'
  | _, _ => []
  end.
Fixpoint select {A} (m : list bool) (l : list A) : list A :=
  match m, l with
  | b :: m', a :: l' => if b then a :: select m' l' else select m' l'
  | _, _ => []
  end.
Definition pairs (xs ys : list cell) : list (cell * cell) := combine xs ys.
Definition drawn (xs ys : list cell) : list (cell * cell) :=
  combine (select (mask xs ys) xs) (select (mask xs ys) ys).

(* ------------------------------------------------------------------ colour index *)
(* matplotlib: Normalize(vmin, vmax)(z) = (z - vmin) / (vmax - vmin) (0 when vmin = vmax), then
   Colormap.__call__ on a float: times N, the value N itself is mapped to N - 1, negative ->
   under (position N of the table), >= N -> over (position N + 1), else truncate.
   Here on exact rationals (ids are 4 * value, the ratio does not depend on the scale). *)
Definition lut_index (N vmin vmax z : Z) : Z :=
  if vmin =? vmax then 0
  else if z <? vmin then N
  else if vmax <? z then N + 1
  else if z =? vmax then N - 1
  else ((z - vmin) * N) / (vmax - vmin).
Definition lut_bad (N : Z) : Z := N + 2.

Definition fin_ids (l : list cell) : list Z :=
  flat_map (fun c => match c with Fin i => [i] | NonFin => [] end) l.
Definition zmin_list (l : list Z) : option Z :=
  match l with [] => None | a :: r => Some (fold_left Z.min r a) end.
Definition zmax_list (l : list Z) : option Z :=
  match l with [] => None | a :: r => Some (fold_left Z.max r a) end.
Definition odflt (o : option Z) (d : Z) : Z := match o with Some v => v | None => d end.
Definition ofirst (a b : option Z) : option Z := match a with Some _ => a | None => b end.

(* calc_color_norm: limits = user vmin/vmax, else zlims, else min/max of the whole variable *)
Definition norm_lo (ds : dset) (coo : Z) (lo : option Z) : Z :=
  odflt (ofirst lo (zmin_list (fin_ids (v_data (the_var ds coo))))) 0.
Definition norm_hi (ds : dset) (coo : Z) (hi : option Z) : Z :=
  odflt (ofirst hi (zmax_list (fin_ids (v_data (the_var ds coo))))) 1.

Inductive cmode :=
| CCycle (n : Z)                               (* default palette / explicit list: entry k mod n *)
| CMapZ (numeric : bool) (lo hi : option Z)    (* colors=True: the z coordinate (numeric), else evenly spaced *)
| CMapC (cvar : Z) (lo hi : option Z)          (* c=<variable> on lines: one value per series *)
| CPoints (cvar : Z) (lo hi : option Z).       (* c=<variable> on scatter: one value per point, same scale *)

Definition canon_at (canon : list Z) (i : Z) : Z := nth (Z.to_nat i) canon (-1).

(* ------------------------------------------------------------------ one plot request *)
Record spec := mkspec {
  p_ds : dset;
  p_x : Z;                    (* the x variable (a coordinate is a variable over its own dimension) *)
  p_ys : list Z;              (* the y variable, or the listed y variables *)
  p_multi : bool;
  p_z : option Z;             (* the z dimension *)
  p_ye : option Z;
  p_xe : option Z;
  p_labels : list string;     (* str(z) for each z value / the variable names; [] when no z *)
  p_cmode : cmode;
  p_N : Z;                    (* size of the colour table *)
  p_canon : list Z;           (* table position -> representative of its colour (equal colours share one) *)
  p_row : option Z;
  p_col : option Z;
  p_rowname : string;
  p_colname : string;
  p_rowlabels : list string;
  p_collabels : list string
}.

Record series := mkser {
  s_label : option string;
  s_color : option Z;
  s_pts : list (cell * cell);
  s_ye : option (list cell);
  s_xe : option (list cell);
  s_c : option (list cell);
  s_ccol : option (list Z)
}.

Definition ovar_dims (ds : dset) (o : option Z) : list (list Z) :=
  match o with Some v => [v_dims (the_var ds v)] | None => [] end.
Definition cpoint_var (m : cmode) : option Z := match m with CPoints v _ _ => Some v | _ => None end.

(* free dimensions of one series: broadcast of x, y, c, y_err, x_err minus what is selected *)
Definition free_dims (sp : spec) (sel : env) (yv : Z) : list Z :=
  filter (fun d => negb (bound sel d))
         (union_dims ([v_dims (the_var (p_ds sp) (p_x sp)); v_dims (the_var (p_ds sp) yv)]
                      ++ ovar_dims (p_ds sp) (cpoint_var (p_cmode sp))
                      ++ ovar_dims (p_ds sp) (p_ye sp) ++ ovar_dims (p_ds sp) (p_xe sp))).

Definition series_color (sp : spec) (sel : env) (k : nat) : option Z :=
  let ds := p_ds sp in
  match p_cmode sp with
  | CCycle n => Some (Z.of_nat k mod n)
  | CMapZ true lo hi =>
      match p_z sp with
      | Some zd =>
          match get ds zd [(zd, k)] with
          | Fin zv => Some (canon_at (p_canon sp) (lut_index (p_N sp) (norm_lo ds zd lo) (norm_hi ds zd hi) zv))
          | NonFin => Some (canon_at (p_canon sp) (lut_bad (p_N sp)))
          end
      | None => None
      end
  | CMapZ false _ _ =>
      let n := match p_z sp with Some zd => size_of ds zd | None => length (p_ys sp) end in
      Some (canon_at (p_canon sp) (lut_index (p_N sp) 0 (Z.of_nat n - 1) (Z.of_nat k)))
  | CMapC cv lo hi =>
      match get ds cv sel with
      | Fin c => Some (canon_at (p_canon sp) (lut_index (p_N sp) (norm_lo ds cv lo) (norm_hi ds cv hi) c))
      | NonFin => Some (canon_at (p_canon sp) (lut_bad (p_N sp)))
      end
  | CPoints _ _ _ => None
  end.

(* scatter(c=array, cmap=..., norm=the plot's colour norm): every point on the scale of the colour bar,
   i.e. vmin / vmax, else zlims, else the range of the whole variable *)
Definition point_colors (sp : spec) (cs : list cell) : list Z :=
  match p_cmode sp with
  | CPoints cv lo hi =>
      map (fun c => match c with
                    | Fin i => canon_at (p_canon sp)
                                 (lut_index (p_N sp) (norm_lo (p_ds sp) cv lo) (norm_hi (p_ds sp) cv hi) i)
                    | NonFin => canon_at (p_canon sp) (lut_bad (p_N sp))
                    end) cs
  | _ => []
  end.

(* what the code did before the repair: no norm was passed, matplotlib scaled each collection to the
   range of its own drawn values (kept to document that the machinery tells the two apart) *)
Definition point_colors_old (sp : spec) (cs : list cell) : list Z :=
  let ids := fin_ids cs in
  let lo := odflt (zmin_list ids) 0 in
  let hi := odflt (zmax_list ids) 1 in
  map (fun c => match c with
                | Fin i => canon_at (p_canon sp) (lut_index (p_N sp) lo hi i)
                | NonFin => canon_at (p_canon sp) (lut_bad (p_N sp))
                end) cs.

Definition one_series (sp : spec) (sel : env) (yv : Z) (k : nat) : series :=
  let ds := p_ds sp in
  let fd := free_dims sp sel yv in
  let xs := column ds (p_x sp) sel fd in
  let ys := column ds yv sel fd in
  let m := mask xs ys in
  let pick := fun v => select m (column ds v sel fd) in
  let cs := option_map pick (cpoint_var (p_cmode sp)) in
  mkser (nth_error (p_labels sp) k)
        (series_color sp sel k)
        (combine (select m xs) (select m ys))
        (option_map pick (p_ye sp))
        (option_map pick (p_xe sp))
        cs
        (option_map (point_colors sp) cs).

Fixpoint mapi_from {A B} (f : nat -> A -> B) (k : nat) (l : list A) : list B :=
  match l with [] => [] | a :: r => f k a :: mapi_from f (S k) r end.

(* gen_xy: one series per z value (positional selection), else one per listed variable *)
Definition z_series (sp : spec) (sel : env) : list series :=
  match p_z sp with
  | Some zd => map (fun k => one_series sp (sel ++ [(zd, k)]) (hd 0 (p_ys sp)) k)
                   (seq 0 (size_of (p_ds sp) zd))
  | None => mapi_from (fun k yv => one_series sp sel yv k) 0%nat (p_ys sp)
  end.

(* ------------------------------------------------------------------ histogram *)
(* numpy.histogram with explicit edges: bins are half open, the last one is closed *)
Fixpoint bin_from (i : nat) (lo : Z) (rest : list Z) (x : Z) : option nat :=
  match rest with
  | [] => None
  | [hi] => if (lo <=? x) && (x <=? hi) then Some i else None
  | hi :: rest' => if (lo <=? x) && (x <? hi) then Some i else bin_from (S i) hi rest' x
  end.
Definition bin_index (edges : list Z) (x : Z) : option nat :=
  match edges with [] => None | e0 :: rest => bin_from 0 e0 rest x end.
Definition onat_eqb (o : option nat) (i : nat) : bool :=
  match o with Some j => Nat.eqb j i | None => false end.
Definition count_in (edges : list Z) (xs : list Z) (i : nat) : nat :=
  length (filter (fun x => onat_eqb (bin_index edges x) i) xs).
Definition bin_counts (edges : list Z) (xs : list Z) : list nat :=
  map (count_in edges xs) (seq 0 (length edges - 1)).
Definition in_range (edges : list Z) (x : Z) : bool :=
  match bin_index edges x with Some _ => true | None => false end.

(* prepare_x_vals_histogram: the variable's own flattened order, finite values only *)
Definition hist_free (ds : dset) (v : Z) (sel : env) : list Z :=
  filter (fun d => negb (bound sel d)) (v_dims (the_var ds v)).
Definition hist_values (ds : dset) (v : Z) (sel : env) : list Z :=
  fin_ids (filter is_fin (column ds v sel (hist_free ds v sel))).

Record hseries := mkhs { h_label : option string; h_color : option Z; h_fed : list Z; h_counts : list nat }.

(* edges are given on the integer grid value * scale4 (ids are value * 4, so id * scale is on it) *)
Definition hist_series (sp : spec) (edges : list Z) (scale : Z) (sel : env) : list hseries :=
  let one := fun sel' v k =>
    let fed := hist_values (p_ds sp) v sel' in
    mkhs (nth_error (p_labels sp) k) (series_color sp sel' k) fed
         (bin_counts edges (map (fun i => i * scale) fed)) in
  match p_z sp with
  | Some zd => map (fun k => one (sel ++ [(zd, k)]) (hd 0 (p_ys sp)) k) (seq 0 (size_of (p_ds sp) zd))
  | None => mapi_from (fun k v => one sel v k) 0%nat (p_ys sp)
  end.

(* ------------------------------------------------------------------ heat map *)
(* masked_invalid(ds[z].squeeze().transpose(y, x).values): entry [i][j] is z at y_i, x_j *)
Definition mesh (ds : dset) (v xd yd : Z) (sel : env) : list (list cell) :=
  map (fun i => map (fun j => get ds v (sel ++ [(yd, i); (xd, j)])) (seq 0 (size_of ds xd)))
      (seq 0 (size_of ds yd)).
Definition mesh_colors (sp : spec) (v : Z) (lo hi : option Z) (m : list (list cell)) : list (list Z) :=
  let ds := p_ds sp in
  map (map (fun c => match c with
                     | Fin i => canon_at (p_canon sp) (lut_index (p_N sp) (norm_lo ds v lo) (norm_hi ds v hi) i)
                     | NonFin => canon_at (p_canon sp) (lut_bad (p_N sp))
                     end)) m.

(* ------------------------------------------------------------------ row / column grids *)
Definition axis_idx (ds : dset) (o : option Z) : list nat :=
  match o with Some d => seq 0 (size_of ds d) | None => [0%nat] end.
Definition axis_sel (o : option Z) (i : nat) : env :=
  match o with Some d => [(d, i)] | None => [] end.
Definition titled (name : string) (labels : list string) (i : nat) : string :=
  String.append name (String.append " = " (nth i labels String.EmptyString)).

Record panel (C : Type) := mkpanel {
  pn_row : nat; pn_col : nat;
  pn_title : option string;      (* column title, on the first row *)
  pn_rlabel : option string;     (* row title, right-hand y label of the last column *)
  pn_content : C
}.
Arguments mkpanel {C}.
Arguments pn_row {C}. Arguments pn_col {C}. Arguments pn_title {C}. Arguments pn_rlabel {C}.
Arguments pn_content {C}.

Definition panel_at {C} (sp : spec) (content : env -> C) (i j : nat) : panel C :=
  let nc := length (axis_idx (p_ds sp) (p_col sp)) in
  mkpanel i j
    (match p_col sp with
     | Some _ => if Nat.eqb i 0 then Some (titled (p_colname sp) (p_collabels sp) j) else None
     | None => None end)
    (match p_row sp with
     | Some _ => if Nat.eqb j (nc - 1) then Some (titled (p_rowname sp) (p_rowlabels sp) i) else None
     | None => None end)
    (content (axis_sel (p_row sp) i ++ axis_sel (p_col sp) j)).

(* mpl_multi_plot: panels are created row by row *)
Definition panels {C} (sp : spec) (content : env -> C) : list (panel C) :=
  flat_map (fun i => map (fun j => panel_at sp content i j) (axis_idx (p_ds sp) (p_col sp)))
           (axis_idx (p_ds sp) (p_row sp)).

(* ------------------------------------------------------------------ observations *)
Definition enc_cell (c : cell) : val := match c with Fin i => VZ i | NonFin => VN end.
Definition enc_ocells (o : option (list cell)) : val := vopt (vlist enc_cell) o.
Definition enc_series (s : series) : val :=
  VL [vopt VS (s_label s); vopt VZ (s_color s);
      vlist (fun p => VL [enc_cell (fst p); enc_cell (snd p)]) (s_pts s);
      enc_ocells (s_ye s); enc_ocells (s_xe s); enc_ocells (s_c s); vopt (vlist VZ) (s_ccol s)].
Definition enc_hseries (h : hseries) : val :=
  VL [vopt VS (h_label h); vopt VZ (h_color h); vlist VZ (h_fed h);
      vlist (fun n => VZ (Z.of_nat n)) (h_counts h)].
Definition enc_panel (p : panel val) : val :=
  VL [VZ (Z.of_nat (pn_row p)); VZ (Z.of_nat (pn_col p)); vopt VS (pn_title p); vopt VS (pn_rlabel p);
      pn_content p].

Definition fig_lines (sp : spec) : val :=
  vlist enc_panel (panels sp (fun sel => vlist enc_series (z_series sp sel))).
Definition fig_hist (sp : spec) (edges : list (list Z)) (scale : Z) : val :=
  (* one list of edges per panel, in panel order *)
  VL (mapi_from (fun k p =>
        enc_panel (mkpanel (pn_row p) (pn_col p) (pn_title p) (pn_rlabel p)
                     (vlist enc_hseries (hist_series sp (nth k edges []) scale (pn_content p)))))
      0%nat (panels sp (fun sel => sel))).
Definition fig_heat (sp : spec) (v xd yd : Z) (lo hi : option Z) (with_colors : bool) : val :=
  vlist enc_panel
    (panels sp (fun sel =>
       let m := mesh (p_ds sp) v xd yd sel in
       VL [vlist (vlist enc_cell) m;
           if with_colors then vlist (vlist VZ) (mesh_colors sp v lo hi m) else VN])).
