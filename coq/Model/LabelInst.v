(* Executable instance of the labelled-output model for the C03 correspondence. *)
From XV Require Import Prelude Grid Perm Runner RunnerInst Flow Label.
Open Scope Z_scope.

(* a single array output (kinds 21) is ONE variable: its components are not split *)
Definition comps_for (nvars : nat) (r : rv) : list rv :=
  match nvars with 1%nat => [] | _ => comps r end.

Fixpoint enc_nest_simple (n : nest (cell rv)) : val :=
  match n with
  | Leaf (Got r) => VL [VS "leaf"; enc_rv r]
  | Leaf (Hole _) => VL [VS "leaf"; VL [VS "hole"]]
  | Node l => VL (map enc_nest_simple l)
  end.

Definition enc_dsm (d : @dsm rv) : val :=
  VL [vlist (fun kc => VL [VZ (fst kc); vlist VZ (snd kc)]) (dm_coords d);
      vlist (fun v => VL [VZ (fst v); vlist VZ (fst (snd v)); enc_nest_simple (snd (snd v))]) (dm_vars d);
      enc_kw (dm_attrs d);
      enc_kw (dm_const_coords d)].

(* combo_runner_to_ds: split iff more than one output variable *)
Definition run_ds (kind : Z) (var_names : list Z) (var_dims var_coords : list (Z * list Z))
           (constants attrs : kwargs) (i : input) : val :=
  let nv := length var_names in
  let i' := mk_input (i_has_cases i) (i_case_args i) (i_case_values i) (i_combo_args i) (i_combo_values i)
                     (i_consts i) (Nat.ltb 1 nv) false (i_perm i) in
  let o := fst (core (hfun kind) (comps_for nv) i') in
  let dims := if i_has_cases i' then all_combo_values i' else i_combo_values i' in
  vres enc_dsm (to_ds var_names var_dims var_coords constants attrs (fn_args i') dims o).

(* *_to_df: flat results and info["settings"] *)
Definition enc_row (r : kwargs * list (Z * rv)) : val :=
  VL [enc_kw (fst r); vlist (fun vr => VL [VZ (fst vr); enc_rv (snd vr)]) (snd r)].
Definition run_df (kind : Z) (resources : list Z) (attrs : kwargs) (var_names : list Z) (i : input) : val :=
  let i' := mk_input (i_has_cases i) (i_case_args i) (i_case_values i) (i_combo_args i) (i_combo_values i)
                     (i_consts i) false true (i_perm i) in
  vlist enc_row (df_rows (comps_for (length var_names)) resources attrs var_names
                         (settings i') (results_linear (hfun kind) i')).
