(* A labelled dataset (the part of xarray.Dataset the missing-data functions of
   xyzpy/gen/case_runner.py look at), as finite maps.  Executable, proof-free.

   - dimensions: association list  dim-id -> coordinate labels (duplicate-free), in the
     dataset's dimension order (the order of ds.dims);
   - variables: (var-id, list of dim-ids, cell map); the cell map sends a full label tuple
     (one label per dimension of that variable, in its own dimension order) to a cell,
     first binding wins, an absent tuple is NaN;
   - a setting (the dict given to ds.sel) is an association list dim-id -> label.
   Labels, dim-ids and var-ids are integers chosen by the harness (labels by rank). *)
From XV Require Import Prelude Grid.
Open Scope Z_scope.

Inductive cell := CVal (z : Z) | CNan | CInf.

Definition cellmap := list (list Z * cell).
Record var := mk_var { v_id : Z; v_dims : list Z; v_cells : cellmap }.
Record dataset := mk_ds { d_dims : list (Z * list Z); d_vars : list var }.
Definition setting := list (Z * Z).

(* null criteria: 0 = isnull, anything else = not isfinite *)
Definition M_isnull : Z := 0.
Definition M_isfinite : Z := 1.
Definition is_null (method : Z) (c : cell) : bool :=
  match c with
  | CVal _ => false
  | CNan => true
  | CInf => negb (method =? M_isnull)
  end.

Fixpoint zmemb (x : Z) (l : list Z) : bool :=
  match l with [] => false | y :: l' => (x =? y) || zmemb x l' end.

Fixpoint assoc {V} (k : Z) (l : list (Z * V)) : option V :=
  match l with
  | [] => None
  | (k', v) :: l' => if k =? k' then Some v else assoc k l'
  end.

(* coordinate labels of a dimension; a dimension the dataset does not have has none *)
Definition coord_of (dims : list (Z * list Z)) (d : Z) : list Z :=
  match assoc d dims with Some ls => ls | None => [] end.

Definition cell_at (cm : cellmap) (key : list Z) : cell := lookup cm key CNan.

(* ------------------------------------------------------------------ sel *)
(* labels of dimension d that a selection at [s] keeps *)
Definition sel_axis (dims : list (Z * list Z)) (s : setting) (d : Z) : list Z :=
  match assoc d s with Some l => [l] | None => coord_of dims d end.

(* positions (label tuples) of a variable with dimensions [vdims] inside the selection:
   a dimension of the setting that the variable does not have is ignored for it *)
Definition sel_keys (dims : list (Z * list Z)) (vdims : list Z) (s : setting) : list (list Z) :=
  product (map (sel_axis dims s) vdims).

Definition sel_cells (dims : list (Z * list Z)) (s : setting) (v : var) : list cell :=
  map (cell_at (v_cells v)) (sel_keys dims (v_dims v) s).

(* ds.sel(setting) raises KeyError when a label is not in the dataset's coordinate (or the
   dimension is unknown to the dataset); checked for the dataset, not per variable *)
Definition sel_ok (dims : list (Z * list Z)) (s : setting) : bool :=
  forallb (fun dl => zmemb (snd dl) (coord_of dims (fst dl))) s.

(* ------------------------------------------------------------------ is_case_missing *)
Definition all_null_b (ds : dataset) (s : setting) (method : Z) : bool :=
  forallb (fun v => forallb (is_null method) (sel_cells (d_dims ds) s v)) (d_vars ds).

Definition is_case_missing (ds : dataset) (s : setting) (method : Z) : bool :=
  if sel_ok (d_dims ds) s then all_null_b ds s method else true.

(* a DataArray taken out of the dataset (ds[name]): that variable alone, and only the
   dimensions it has -- a setting naming any other dimension raises KeyError there *)
Definition data_array (ds : dataset) (vid : Z) : dataset :=
  match filter (fun v => v_id v =? vid) (d_vars ds) with
  | v :: _ => mk_ds (filter (fun dc => zmemb (fst dc) (v_dims v)) (d_dims ds)) [v]
  | [] => mk_ds [] []
  end.

(* ------------------------------------------------------------------ find_missing_cases *)
(* the dataset's dimensions minus the ignored ones, in the dataset's dimension order *)
Definition fn_dims (ds : dataset) (ignore : list Z) : list (Z * list Z) :=
  filter (fun dc => negb (zmemb (fst dc) ignore)) (d_dims ds).
Definition fn_args (ds : dataset) (ignore : list Z) : list Z := map fst (fn_dims ds ignore).
Definition grid (ds : dataset) (ignore : list Z) : list (list Z) :=
  product (map snd (fn_dims ds ignore)).
Definition setting_of (ds : dataset) (ignore : list Z) (loc : list Z) : setting :=
  combine (fn_args ds ignore) loc.

Definition find_missing (ds : dataset) (ignore : list Z) (method : Z) : list (list Z) :=
  filter (fun loc => is_case_missing ds (setting_of ds ignore loc) method) (grid ds ignore).

(* ------------------------------------------------------------------ parse_into_cases *)
(* the Python dict merge  {**a, **b} : keys of a first (values overridden by b), then the
   new keys of b *)
Definition dict_merge (a b : setting) : setting :=
  map (fun kv => (fst kv, match assoc (fst kv) b with Some v => v | None => snd kv end)) a
  ++ filter (fun kv => match assoc (fst kv) a with Some _ => false | None => true end) b.

(* every requested setting: for each case, for each product setting of the combos *)
Definition requested (combos : list (Z * list Z)) (cases : list setting) : list setting :=
  flat_map (fun case => map (fun vals => dict_merge case (combine (map fst combos) vals))
                            (product (map snd combos))) cases.

Definition parse_into_cases (combos : list (Z * list Z)) (cases : list setting)
           (ds : option dataset) (method : Z) : list setting :=
  filter (fun s => match ds with None => true | Some d => is_case_missing d s method end)
         (requested combos cases).

(* ------------------------------------------------------------------ harvesting cases *)
(* Harvesting the settings [sets] with a function whose results are non-null: every
   position of every variable inside the selection of a harvested setting receives the
   value g var-id position (one run, one merge: all settings at once). *)
Definition harvest_var (g : Z -> list Z -> Z) (dims : list (Z * list Z)) (sets : list setting)
           (v : var) : var :=
  mk_var (v_id v) (v_dims v)
         (map (fun key => (key, CVal (g (v_id v) key)))
              (flat_map (sel_keys dims (v_dims v)) sets) ++ v_cells v).

Definition harvest (g : Z -> list Z -> Z) (ds : dataset) (sets : list setting) : dataset :=
  mk_ds (d_dims ds) (map (harvest_var g (d_dims ds) sets) (d_vars ds)).

(* find -> harvest exactly what was reported *)
Definition harvest_missing (g : Z -> list Z -> Z) (ds : dataset) (ignore : list Z) (method : Z)
  : dataset :=
  harvest g ds (map (setting_of ds ignore) (find_missing ds ignore method)).

(* ------------------------------------------------------------------ observations *)
(* per variable, the null flag of every position in product order of its own dimensions *)
Definition null_pattern (ds : dataset) (method : Z) : list (list bool) :=
  map (fun v => map (fun key => is_null method (cell_at (v_cells v) key))
                    (product (map (coord_of (d_dims ds)) (v_dims v)))) (d_vars ds).

Definition enc_locs (l : list (list Z)) : val := vlist (vlist VZ) l.
Definition enc_setting (s : setting) : val := vlist (fun kv => VL [VZ (fst kv); VZ (snd kv)]) s.
Definition enc_find (ds : dataset) (ignore : list Z) (method : Z) : val :=
  VL [vlist VZ (fn_args ds ignore); enc_locs (find_missing ds ignore method)].
Definition enc_parse (combos : list (Z * list Z)) (cases : list setting) (ds : option dataset)
           (method : Z) : val :=
  vlist enc_setting (parse_into_cases combos cases ds method).
Definition enc_pattern (ds : dataset) (method : Z) : val :=
  vlist (vlist vbool) (null_pattern ds method).
