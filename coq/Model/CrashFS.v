(* C10: a crop directory (and a harvester's data file / a sampler's table) as a file system of
   named files whose contents are whole or torn, the ATOMIC file-system steps every crop
   operation of xyzpy/gen/cropping.py and farming.py is made of, crashes as prefixes of those
   steps, and what the crop operations observe on an arbitrary (crashed) state.
   Executable, proof-free.

   P1 (assumed, exercised by the harness): a strict prefix of a pickle never unpickles -- a
   torn file and a missing file are both unreadable.
   P2 (assumed): rename within one directory is atomic. *)
From XV Require Import Prelude.
Local Open Scope nat_scope.

(* ---- names ---- *)
Inductive base :=
| BInfo                    (* xyz-settings.jbdmp *)
| BFn                      (* xyz-function.clpkl *)
| BBatch (i : nat)         (* batches/xyz-batch-i.jbdmp, i from 1 *)
| BResult (i : nat)        (* results/xyz-result-i.jbdmp *)
| BData                    (* the harvester's data file *)
| BTable.                  (* the sampler's table *)

Inductive fname :=
| Fin (b : base)                  (* the final name *)
| Tmp (b : base) (w : nat).       (* a temporary name next to it: for crop files unique per writer w
                                     (pid + uuid), for the data file / table the fixed suffix .tmp (w = 0) *)

Definition base_eqb (a b : base) : bool :=
  match a, b with
  | BInfo, BInfo | BFn, BFn | BData, BData | BTable, BTable => true
  | BBatch i, BBatch j | BResult i, BResult j => Nat.eqb i j
  | _, _ => false
  end.
Definition fname_eqb (a b : fname) : bool :=
  match a, b with
  | Fin x, Fin y => base_eqb x y
  | Tmp x w, Tmp y v => base_eqb x y && Nat.eqb w v
  | _, _ => false
  end.

(* ---- contents ---- *)
Definition sweep := list (list Z).         (* the settings (integer codes) of batch 1, 2, ... *)
Definition pdata := list (Z * Z).          (* (setting code, value): dataset entries / table rows *)

Inductive payload :=
| PInfo (sw : sweep)
| PFn
| PBatch (cs : list Z)
| PResult (rs : list Z)
| PData (m : pdata)
| PTable (rows : pdata).

Inductive content := Whole (p : payload) | Torn.

Inductive dname := DTop | DBat | DRes.      (* the crop directory, batches/, results/ *)
Definition dname_eqb (a b : dname) : bool :=
  match a, b with DTop, DTop | DBat, DBat | DRes, DRes => true | _, _ => false end.

Record fs := mk_fs { dirs : list dname;                 (* the directories that exist *)
                     files : list (fname * content) }.

Definition empty_fs : fs := mk_fs [] [].
Definition has_dir (st : fs) (d : dname) : bool := existsb (dname_eqb d) (dirs st).

Fixpoint alookup (l : list (fname * content)) (x : fname) : option content :=
  match l with
  | [] => None
  | (y, c) :: rest => if fname_eqb y x then Some c else alookup rest x
  end.
Fixpoint aremove (l : list (fname * content)) (x : fname) : list (fname * content) :=
  match l with
  | [] => []
  | (y, c) :: rest => if fname_eqb y x then aremove rest x else (y, c) :: aremove rest x
  end.

Definition lookup (st : fs) (x : fname) : option content := alookup (files st) x.
Definition fremove (st : fs) (x : fname) : fs := mk_fs (dirs st) (aremove (files st) x).
Definition fset (st : fs) (x : fname) (c : content) : fs := mk_fs (dirs st) ((x, c) :: aremove (files st) x).
Definition readp (st : fs) (x : fname) : option payload :=
  match lookup st x with Some (Whole p) => Some p | _ => None end.
Definition present (st : fs) (x : fname) : bool :=
  match lookup st x with Some _ => true | None => false end.
Definition names (st : fs) : list fname := map fst (files st).

(* ---- atomic steps ---- *)
Inductive step :=
| Mkdir (d : dname)
| Rmdir (d : dname)
| CreateTmp (x : fname)                 (* open for writing: the file exists and is empty *)
| AppendTmp (x : fname)                 (* some strict prefix of the bytes has reached the file *)
| CompleteTmp (x : fname) (p : payload) (* all bytes are in the file (flush at close) *)
| Rename (a b : fname)                  (* os.replace *)
| Unlink (x : fname).

Definition apply (st : fs) (s : step) : fs :=
  match s with
  | Mkdir d => mk_fs (if has_dir st d then dirs st else d :: dirs st) (files st)
  | Rmdir d => mk_fs (filter (fun e => negb (dname_eqb d e)) (dirs st)) (files st)
  | CreateTmp x => fset st x Torn
  | AppendTmp x => st
  | CompleteTmp x p => fset st x (Whole p)
  | Rename a b => match lookup st a with Some c => fset (fremove st a) b c | None => st end
  | Unlink x => fremove st x
  end.
Definition run (ss : list step) (st : fs) : fs := fold_left apply ss st.

(* a process killed after its first k steps *)
Definition crash (ss : list step) (k : nat) (st : fs) : fs := run (firstn k ss) st.

(* write_to_disk / save_full_ds / save_full_df: temporary file, then os.replace *)
Definition write (b : base) (p : payload) (w : nat) : list step :=
  [CreateTmp (Tmp b w); AppendTmp (Tmp b w); CompleteTmp (Tmp b w) p; Rename (Tmp b w) (Fin b)].

(* ---- progress (glob semantics: a temporary name matches no pattern) ---- *)
Definition is_batch (x : fname) : bool := match x with Fin (BBatch _) => true | _ => false end.
Definition is_result (x : fname) : bool := match x with Fin (BResult _) => true | _ => false end.
Definition is_crop_name (x : fname) : bool :=
  match x with
  | Fin BData | Fin BTable | Tmp BData _ | Tmp BTable _ => false
  | _ => true
  end.
Definition num_sown (st : fs) : nat := length (filter is_batch (names st)).
Definition num_results (st : fs) : nat := length (filter is_result (names st)).
Definition ready (st : fs) : bool :=
  present st (Fin BInfo) && (0 <? num_results st) && (num_results st =? num_sown st).
Definition crop_names (st : fs) : list fname := filter is_crop_name (names st).

(* Crop.delete_all = shutil.rmtree: every file unlinked, the three directories removed, in an
   order that depends on the directory listing.  The canonical schedule; theorems quantify over
   all permutations of it. *)
Definition del_canon (st : fs) : list step :=
  map Unlink (crop_names st) ++ [Rmdir DBat; Rmdir DRes; Rmdir DTop].

Inductive outcome :=
| Refused                          (* XYZError: not ready / nothing sown *)
| Error                            (* any other exception *)
| Value (d : list (option Z)).     (* one slot per setting, in sowing order; None = missing *)

Inductive kind := KRaw | KRunner | KHarvester | KSampler.

(* ---- merging into the harvester's dataset (no-conflict merge) ---- *)
Fixpoint klookup (k : Z) (m : pdata) : option Z :=
  match m with
  | [] => None
  | (k', v) :: rest => if Z.eqb k' k then Some v else klookup k rest
  end.
Definition kfresh (old : pdata) (kv : Z * Z) : bool :=
  match klookup (fst kv) old with Some _ => false | None => true end.
Definition kclash (old : pdata) (kv : Z * Z) : bool :=
  match klookup (fst kv) old with Some v => negb (Z.eqb v (snd kv)) | None => false end.
Definition conflict (old new : pdata) : bool := existsb (kclash old) new.
Definition merge (old new : pdata) : option pdata :=
  if conflict old new then None else Some (old ++ filter (kfresh old) new).

Section Ops.
  Variable f : Z -> Z.                  (* the sown function, on setting codes *)

  Definition number (sw : sweep) : list (nat * list Z) := combine (seq 1 (length sw)) sw.

  (* sow_combos / sow_cases / sow_samples: Crop.prepare (directories, function, settings), then the
     Sower writes batch 1, 2, ... -- every file through write_to_disk *)
  (* os.makedirs(crop/batches), os.makedirs(crop/results), exist_ok: mkdir is attempted on the crop
     directory only if it does not exist, on the two sub-directories always *)
  Definition mkdir_steps (st : fs) : list step :=
    (if has_dir st DTop then [] else [Mkdir DTop]) ++ [Mkdir DBat; Mkdir DRes].
  Definition sow_files (sw : sweep) (w : nat) : list step :=
    write BFn PFn w ++ write BInfo (PInfo sw) w
    ++ concat (map (fun ib => write (BBatch (fst ib)) (PBatch (snd ib)) w) (number sw)).
  Definition sow_steps (st : fs) (sw : sweep) (w : nat) : list step := mkdir_steps st ++ sow_files sw w.

  (* grow(i): load the function and the batch, compute EVERY result, then one write_to_disk (which
     fails if the results directory is not there: nothing creates it but a sow) *)
  Definition grow_steps (st : fs) (w : nat) (i : nat) : list step :=
    if has_dir st DRes then
      match readp st (Fin BFn), readp st (Fin (BBatch i)) with
      | Some PFn, Some (PBatch (c :: cs)) => write (BResult i) (PResult (map f (c :: cs))) w
      | _, _ => []
      end
    else [].

  Definition missing (st : fs) : list nat :=
    match readp st (Fin BInfo) with
    | Some (PInfo sw) => filter (fun i => negb (present st (Fin (BResult i)))) (seq 1 (length sw))
    | _ => []
    end.
  Definition grow_missing_steps (st : fs) (w : nat) : list step :=
    concat (map (grow_steps st w) (missing st)).

  (* check_bad(delete_bad=True): for every result file found by the glob, load its batch (an
     unreadable batch raises), unlink the result if it does not load or has the wrong length *)
  Fixpoint check_bad_go (st : fs) (ns : list fname) : list step :=
    match ns with
    | [] => []
    | Fin (BResult i) :: rest =>
        match readp st (Fin (BBatch i)) with
        | Some (PBatch cs) =>
            let bad := match lookup st (Fin (BResult i)) with
                       | Some (Whole (PResult rs)) => negb (length rs =? length cs)
                       | _ => true
                       end in
            (if bad then [Unlink (Fin (BResult i))] else []) ++ check_bad_go st rest
        | _ => []
        end
    | _ :: rest => check_bad_go st rest
    end.
  Definition check_bad_steps (st : fs) : list step := check_bad_go st (names st).

  (* the Reaper: results 1..nb in order; with allow_incomplete a missing result is replaced by
     placeholders, one per setting of its batch file *)
  Fixpoint reap_chain (st : fs) (allow : bool) (ids : list nat) : option (list (option Z)) :=
    match ids with
    | [] => Some []
    | i :: rest =>
        let here :=
          match lookup st (Fin (BResult i)) with
          | Some (Whole (PResult (r :: rs))) => Some (map Some (r :: rs))
          | Some _ => None
          | None =>
              if allow
              then match readp st (Fin (BBatch i)) with
                   | Some (PBatch (c :: cs)) => Some (map (fun _ => None) (c :: cs))
                   | _ => None
                   end
              else None
          end in
        match here, reap_chain st allow rest with
        | Some a, Some b => Some (a ++ b)
        | _, _ => None
        end
    end.

  (* what a reap in a NEW process computes from the files (before any syncing / deleting) *)
  Definition reap_val (st : fs) (allow : bool) : outcome :=
    match lookup st (Fin BInfo) with
    | None => Refused
    | Some Torn => Error
    | Some (Whole (PInfo sw)) =>
        if negb (allow || ready st) then Refused
        else if allow && (num_results st =? 0) then Refused
        else match reap_chain st allow (seq 1 (length sw)) with
             | None => Error
             | Some d => if length d =? length (concat sw) then Value d else Error
             end
    | Some (Whole _) => Error
    end.

  Definition codes_of (st : fs) : list Z :=
    match readp st (Fin BInfo) with Some (PInfo sw) => concat sw | _ => [] end.
  Definition got (codes : list Z) (d : list (option Z)) : pdata :=
    flat_map (fun cv => match snd cv with Some v => [(fst cv, v)] | None => [] end) (combine codes d).

  (* add_ds + save_full_ds / add_df + save_full_df: load what is on disk, merge / append, write the
     new file under <name>.tmp, os.replace *)
  Definition sync_steps (k : kind) (st : fs) (new : pdata) : option (list step) :=
    match k with
    | KRaw | KRunner => Some []
    | KHarvester =>
        match lookup st (Fin BData) with
        | None => Some (write BData (PData new) 0)
        | Some (Whole (PData old)) =>
            match merge old new with Some m => Some (write BData (PData m) 0) | None => None end
        | Some _ => None
        end
    | KSampler =>
        match lookup st (Fin BTable) with
        | None => Some (write BTable (PTable new) 0)
        | Some (Whole (PTable old)) => Some (write BTable (PTable (old ++ new)) 0)
        | Some _ => None
        end
    end.

  (* Crop.reap: read, then sync (harvester / sampler), then -- unless allow_incomplete -- delete the crop *)
  Definition reap_steps (k : kind) (allow : bool) (del : list step) (st : fs) : list step :=
    match reap_val st allow with
    | Value d =>
        match sync_steps k st (got (codes_of st) d) with
        | Some ss => ss ++ (if allow then [] else del)
        | None => []
        end
    | _ => []
    end.
  Definition later_reap (k : kind) (allow : bool) (st : fs) : outcome :=
    match reap_val st allow with
    | Value d => match sync_steps k st (got (codes_of st) d) with Some _ => Value d | None => Error end
    | o => o
    end.

  Inductive op :=
  | OSow (sw : sweep) (w : nat)            (* sow_combos / sow_cases / sow_samples; also a re-sow *)
  | OGrow (ids : list nat) (w : nat)       (* grow(i) / Crop.grow(ids) *)
  | OGrowMissing (w : nat)
  | OCheckBad
  | OReap (k : kind) (del : list step).    (* reap(); del = the deletion schedule of rmtree *)

  Definition steps_of (o : op) (st : fs) : list step :=
    match o with
    | OSow sw w => sow_steps st sw w
    | OGrow ids w => concat (map (grow_steps st w) ids)
    | OGrowMissing w => grow_missing_steps st w
    | OCheckBad => check_bad_steps st
    | OReap k del => reap_steps k false del st
    end.

  (* sow_samples on a crop that already has results (repair D39): the results of the earlier sow belong to other,
     randomly drawn samples and are unlinked first, in the order the directory listing gives them ([ids]); then the
     ordinary sow (which looks at the directories only, so the same steps before and after the unlinks).  Crash
     safety of this step list: Proofs/CrashProofs.resow_safe, Props/C10.C10_resow_samples_prefix. *)
  Definition resow_samples_steps (st : fs) (ids : list nat) (sw : sweep) (w : nat) : list step :=
    map (fun i => Unlink (Fin (BResult i))) ids ++ sow_steps st sw w.

  (* ---- the documented recovery ---- *)
  (* everything a sow creates is there and readable: the three directories, the function, the
     settings, every batch *)
  Definition sown_ok (st : fs) : bool :=
    has_dir st DTop && has_dir st DBat && has_dir st DRes &&
    match readp st (Fin BInfo), readp st (Fin BFn) with
    | Some (PInfo sw), Some PFn =>
        forallb (fun i => match readp st (Fin (BBatch i)) with Some (PBatch _) => true | _ => false end)
                (seq 1 (length sw))
    | _, _ => false
    end.

  Section Recover.
    Variable k : kind.
    Variable sw : sweep.
    Variable w : nat.
    Variable delf : fs -> list step.       (* the deletion schedule rmtree will follow on a state *)

    Definition rec_s1 (st : fs) : list step := if sown_ok st then [] else sow_steps st sw w.
    Definition rec_st1 (st : fs) : fs := run (rec_s1 st) st.
    Definition rec_st2 (st : fs) : fs := run (check_bad_steps (rec_st1 st)) (rec_st1 st).
    Definition rec_st3 (st : fs) : fs := run (grow_missing_steps (rec_st2 st) w) (rec_st2 st).
    Definition recover_steps (st : fs) : list step :=
      rec_s1 st ++ check_bad_steps (rec_st1 st) ++ grow_missing_steps (rec_st2 st) w
      ++ reap_steps k false (delf (rec_st3 st)) (rec_st3 st).
    Definition recover_outcome (st : fs) : outcome := later_reap k false (rec_st3 st).
    Definition recover_final (st : fs) : fs := run (recover_steps st) st.
  End Recover.

  (* the result of an uninterrupted run *)
  Definition direct (sw : sweep) : list (option Z) := map (fun c => Some (f c)) (concat sw).
  Definition new_data (sw : sweep) : pdata := map (fun c => (c, f c)) (concat sw).

  (* ---- OLD behaviours (before the repairs), kept to show that the model tells them apart ---- *)
  (* write_to_disk used to open the final name itself *)
  Definition write_inplace (b : base) (p : payload) : list step :=
    [CreateTmp (Fin b); AppendTmp (Fin b); CompleteTmp (Fin b) p].
  Definition grow_steps_old (st : fs) (i : nat) : list step :=
    if negb (has_dir st DRes) then [] else
    match readp st (Fin BFn), readp st (Fin (BBatch i)) with
    | Some PFn, Some (PBatch (c :: cs)) => write_inplace (BResult i) (PResult (map f (c :: cs)))
    | _, _ => []
    end.
  (* save_full_ds used to REMOVE the data file and only then write the new one *)
  Definition sync_steps_old_harvest (st : fs) (new : pdata) : option (list step) :=
    match lookup st (Fin BData) with
    | None => Some (write_inplace BData (PData new))
    | Some (Whole (PData old)) =>
        match merge old new with
        | Some m => Some (Unlink (Fin BData) :: write_inplace BData (PData m))
        | None => None
        end
    | Some _ => None
    end.
  Definition reap_steps_old_harvest (del : list step) (st : fs) : list step :=
    match reap_val st false with
    | Value d => match sync_steps_old_harvest st (got (codes_of st) d) with
                 | Some ss => ss ++ del | None => [] end
    | _ => []
    end.
  (* reap_samples used to pass clean_up down: the crop was deleted BEFORE the table was saved *)
  Definition reap_steps_old_sampler (del : list step) (st : fs) : list step :=
    match reap_val st false with
    | Value d => match sync_steps KSampler st (got (codes_of st) d) with
                 | Some ss => del ++ ss | None => [] end
    | _ => []
    end.
End Ops.

(* ---- canonical observations for the comparison with the implementation ---- *)
Local Open Scope Z_scope.

Definition enc_outcome (o : outcome) : val :=
  match o with
  | Refused | Error => VL [VZ 1]
  | Value d => VL [VZ 0; VL (map (vopt VZ) d)]
  end.

Definition enc_pdata (m : pdata) : val := VL (map (fun kv => VL [VZ (fst kv); VZ (snd kv)]) m).

Fixpoint kinsert (kv : Z * Z) (l : pdata) : pdata :=
  match l with
  | [] => [kv]
  | x :: rest => if fst kv <=? fst x then kv :: l else x :: kinsert kv rest
  end.
Definition ksort (l : pdata) : pdata := fold_right kinsert [] l.

Definition base_role (b : base) : Z * Z :=
  match b with
  | BInfo => (0, 0) | BFn => (1, 0) | BBatch i => (2, Z.of_nat i) | BResult i => (3, Z.of_nat i)
  | BData => (4, 0) | BTable => (5, 0)
  end.
Definition enc_payload (p : payload) : val :=
  match p with
  | PInfo sw => VL [VZ (Z.of_nat (length sw))]
  | PFn => VL []
  | PBatch cs => VL (map VZ cs)
  | PResult rs => VL (map VZ rs)
  | PData m => enc_pdata (ksort m)
  | PTable rows => enc_pdata rows
  end.
(* [role; index; is_tmp; class; content]: class 1 whole, 2 torn, 3 a temporary file (any content) *)
Definition enc_entry (xc : fname * content) : Z * val :=
  match xc with
  | (Fin b, Whole p) => let '(r, i) := base_role b in (r * 100000 + i * 10, VL [VZ r; VZ i; VZ 0; VZ 1; enc_payload p])
  | (Fin b, Torn) => let '(r, i) := base_role b in (r * 100000 + i * 10, VL [VZ r; VZ i; VZ 0; VZ 2; VL []])
  | (Tmp b _, _) => let '(r, i) := base_role b in (r * 100000 + i * 10 + 1, VL [VZ r; VZ i; VZ 1; VZ 3; VL []])
  end.
Fixpoint einsert (e : Z * val) (l : list (Z * val)) : list (Z * val) :=
  match l with
  | [] => [e]
  | x :: rest => if fst e <=? fst x then e :: l else x :: einsert e rest
  end.
Definition enc_state (st : fs) : val :=
  VL [VL [vbool (has_dir st DTop); vbool (has_dir st DBat); vbool (has_dir st DRes)]; VL (map snd (fold_right einsert [] (map enc_entry (files st))))].

Definition enc_name (x : fname) : val :=
  match x with
  | Fin b => let '(r, i) := base_role b in VL [VZ r; VZ i; VZ 0]
  | Tmp b _ => let '(r, i) := base_role b in VL [VZ r; VZ i; VZ 1]
  end.
Definition enc_step (s : step) : val :=
  match s with
  | Mkdir d => VL [VZ 0; VZ (match d with DTop => 0 | DBat => 1 | DRes => 2 end)]
  | Rmdir d => VL [VZ 1; VZ (match d with DTop => 0 | DBat => 1 | DRes => 2 end)]
  | CreateTmp x => VL [VZ 2; enc_name x]
  | AppendTmp x => VL [VZ 3; enc_name x]
  | CompleteTmp x _ => VL [VZ 4; enc_name x]
  | Rename a b => VL [VZ 5; enc_name a; enc_name b]
  | Unlink x => VL [VZ 6; enc_name x]
  end.
Definition enc_steps (ss : list step) : val := VL (map enc_step ss).

(* progress as a new Crop object reports it: [num_sown_batches; num_results; missing; ready];
   unprepared crop: -1, -1; missing_results needs the settings *)
Definition enc_progress (st : fs) : val :=
  match lookup st (Fin BInfo) with
  | None => VL [VZ (-1); VZ (-1); VN; VZ 0]
  | Some (Whole (PInfo _)) =>
      VL [VZ (Z.of_nat (num_sown st)); VZ (Z.of_nat (num_results st));
          VL (map (fun i => VZ (Z.of_nat i)) (missing st)); vbool (ready st)]
  | Some _ => VN
  end.

(* the unlink / rmdir steps of a real rmtree, as the harness reads them off the event log *)
Definition del_of (l : list (fname + dname)) : list step :=
  map (fun o => match o with inl x => Unlink x | inr d => Rmdir d end) l.

Definition run_ops (f : Z -> Z) (os : list op) (st : fs) : fs :=
  fold_left (fun s o => run (steps_of f o s) s) os st.

(* ---- the shape of the code that produces those steps (regenerated into Gen/GenCrash.v) ---- *)
Inductive wstep := WOpenTmp | WDump | WCloseTmp | WReplace.      (* write_to_disk *)
Inductive pstep := PDirs | PFunction | PSettings.                (* Crop.prepare *)
Inductive dstep := DBatches | DResults.                          (* ensure_dirs_exists (makedirs) *)
Inductive sstep := SPrepare | SSower.                            (* sow_combos / sow_cases *)
Inductive gstep := GLoadFn | GLoadCases | GLoop | GWrite.        (* grow *)
Inductive vstep := VSaveTmp | VReplace | VSetMem.                (* save_full_ds / save_full_df *)

Record code_shape := {
  cs_write : list wstep;          (* order of effects in write_to_disk *)
  cs_tmp_unique : bool;           (* the temporary name is "<final>.tmp-<pid>-<uuid>" *)
  cs_prepare : list pstep;
  cs_dirs : list dstep;
  cs_sow_combos : list sstep;
  cs_sow_cases : list sstep;
  cs_writers_atomic : bool;       (* save_info, save_function_to_disk, Sower.save_batch and grow each call
                                     write_to_disk exactly once and open no file for writing themselves *)
  cs_batch_counter_first : bool;  (* save_batch numbers the file with the incremented counter: 1, 2, ... *)
  cs_grow : list gstep;           (* the single write comes after the loop over all cases *)
  cs_save_ds : list vstep;        (* Harvester.save_full_ds, new dataset given, non-zarr engine *)
  cs_save_df : list vstep;        (* Sampler.save_full_df, new table given *)
  cs_save_ds_tmp_suffix : bool;   (* the temporary name is <resolved name> + ".tmp" *)
  cs_save_df_tmp_suffix : bool
}.

Definition model_shape : code_shape :=
  {| cs_write := [WOpenTmp; WDump; WCloseTmp; WReplace];
     cs_tmp_unique := true;
     cs_prepare := [PDirs; PFunction; PSettings];
     cs_dirs := [DBatches; DResults];
     cs_sow_combos := [SPrepare; SSower];
     cs_sow_cases := [SPrepare; SSower];
     cs_writers_atomic := true;
     cs_batch_counter_first := true;
     cs_grow := [GLoadFn; GLoadCases; GLoop; GWrite];
     cs_save_ds := [VSaveTmp; VReplace; VSetMem];
     cs_save_df := [VSaveTmp; VReplace; VSetMem];
     cs_save_ds_tmp_suffix := true;
     cs_save_df_tmp_suffix := true |}.

(* the file-system steps a shape stands for *)
Definition steps_of_write (ws : list wstep) (b : base) (p : payload) (w : nat) : list step :=
  map (fun s => match s with
                | WOpenTmp => CreateTmp (Tmp b w) | WDump => AppendTmp (Tmp b w)
                | WCloseTmp => CompleteTmp (Tmp b w) p | WReplace => Rename (Tmp b w) (Fin b)
                end) ws.
(* makedirs(crop/batches) creates crop/ and crop/batches; makedirs(crop/results) creates crop/results *)
Definition steps_of_dirs (st : fs) (ds : list dstep) : list step :=
  flat_map (fun d => match d with
                     | DBatches => (if has_dir st DTop then [] else [Mkdir DTop]) ++ [Mkdir DBat]
                     | DResults => [Mkdir DRes]
                     end) ds.
Definition steps_of_prepare (c : code_shape) (st : fs) (sw : sweep) (w : nat) : list step :=
  flat_map (fun s => match s with
                     | PDirs => steps_of_dirs st (cs_dirs c)
                     | PFunction => steps_of_write (cs_write c) BFn PFn w
                     | PSettings => steps_of_write (cs_write c) BInfo (PInfo sw) w
                     end) (cs_prepare c).
Definition steps_of_sow (c : code_shape) (order : list sstep) (st : fs) (sw : sweep) (w : nat) : list step :=
  flat_map (fun s => match s with
                     | SPrepare => steps_of_prepare c st sw w
                     | SSower => concat (map (fun ib => steps_of_write (cs_write c) (BBatch (fst ib)) (PBatch (snd ib)) w)
                                             (number sw))
                     end) order.
(* saving the harvester's dataset / the sampler's table: only the first two stages touch the disk *)
Definition steps_of_save (vs : list vstep) (b : base) (p : payload) : list step :=
  flat_map (fun s => match s with
                     | VSaveTmp => [CreateTmp (Tmp b 0); AppendTmp (Tmp b 0); CompleteTmp (Tmp b 0) p]
                     | VReplace => [Rename (Tmp b 0) (Fin b)]
                     | VSetMem => []
                     end) vs.
(* in grow, does any write precede the end of the loop? *)
Fixpoint write_after_loop (gs : list gstep) (seen_loop : bool) : bool :=
  match gs with
  | [] => true
  | GWrite :: rest => seen_loop && write_after_loop rest seen_loop
  | GLoop :: rest => write_after_loop rest true
  | _ :: rest => write_after_loop rest seen_loop
  end.
