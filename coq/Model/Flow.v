(* Provenance terms for the data flow of combo_runner_core (regenerated into Gen/GenRunner.v)
   and their meaning in the runner model. *)
From XV Require Import Prelude Grid Perm Runner.

Inductive prov :=
| PEmpty
| PSettings                    (* the settings in request order *)
| PShuffled (p : prov)         (* ... permuted by the shuffle *)
| PResults (p : prov)          (* the function mapped over a list of settings *)
| PUnshuffled (p : prov).      (* results put back with sorted(zip(enum, results)) *)

Section Interp.
  Context {R : Type}.
  Variable f : kwargs -> R.
  Variable i : input.

  Inductive dval := DS (l : list kwargs) | DR (l : list R) | DBad.

  Fixpoint interp (p : prov) : dval :=
    match p with
    | PEmpty => DS []
    | PSettings => DS (settings i)
    | PShuffled q =>
        match interp q, i_perm i with
        | DS l, Some pm => DS (shuffled l pm [])
        | _, _ => DBad
        end
    | PResults q => match interp q with DS l => DR (map f l) | _ => DBad end
    | PUnshuffled q =>
        match interp q, i_perm i with
        | DR l, Some pm => DR (unshuffle pm l)
        | _, _ => DBad
        end
    end.
End Interp.
Arguments DS {R} l.
Arguments DR {R} l.
Arguments DBad {R}.
