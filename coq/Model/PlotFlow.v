(* C17 -- the data path of the classic plots as DATA (regenerated from xyzpy/plot/core.py by
   harness/translator/gen_plot.py into Gen/GenPlot.v) and its interpretation: which arrays decide the
   finite-mask of a drawn series, which arrays the mask is applied to, what a histogram is fed, the
   orientation of the heat-map mesh.  Executable and proof-free; Proofs/PlotFlowProofs.v shows that
   the interpretation of [model_plot_flow] is the hand-written Model/PlotSeries.v. *)
From XV Require Import Prelude PlotSeries.
Open Scope Z_scope.

Inductive pkey := KX | KY | KC | KYE | KXE.
Definition pkey_eqb (a b : pkey) : bool :=
  match a, b with
  | KX, KX | KY, KY | KC, KC | KYE, KYE | KXE, KXE => true
  | _, _ => false
  end.
Definition kmem (k : pkey) (l : list pkey) : bool := existsb (pkey_eqb k) l.

Record plot_flow := mk_plot_flow {
  pf_mask_terms : list pkey;     (* not_null = AND over these of isfinite(data[k]) *)
  pf_masked : list pkey;         (* data[k] = data[k][not_null] for these *)
  pf_hist_terms : list pkey;     (* gen_x yields x[isfinite(x)] when KX is listed, x itself otherwise *)
  pf_mesh_order : list pkey      (* masked_invalid(z.squeeze().transpose(<these>).values) *)
}.

Definition model_plot_flow : plot_flow :=
  mk_plot_flow [KX; KY] [KX; KY; KC; KYE; KXE] [KX] [KY; KX].

(* ------------------------------------------------------------------ gen_xy *)
Fixpoint and_lists (a b : list bool) : list bool :=
  match a, b with
  | x :: a', y :: b' => (x && y) :: and_lists a' b'
  | _, _ => []
  end.

(* the arrays of one series after the joint broadcast; an absent optional array takes no part *)
Definition key_col (xs ys : list cell) (cs ye xe : option (list cell)) (k : pkey) : option (list cell) :=
  match k with KX => Some xs | KY => Some ys | KC => cs | KYE => ye | KXE => xe end.

(* not_null starts as the first term; no term at all selects everything *)
Definition mask_flow (terms : list pkey) (col : pkey -> option (list cell)) (n : nat) : list bool :=
  fold_left (fun m k => match col k with Some c => and_lists m (map is_fin c) | None => m end)
            terms (repeat true n).

Definition pick_flow (f : plot_flow) (m : list bool) (k : pkey) (c : list cell) : list cell :=
  if kmem k (pf_masked f) then select m c else c.

Definition one_series_flow (f : plot_flow) (sp : spec) (sel : env) (yv : Z) (k : nat) : series :=
  let ds := p_ds sp in
  let fd := free_dims sp sel yv in
  let xs := column ds (p_x sp) sel fd in
  let ys := column ds yv sel fd in
  let col := fun v => column ds v sel fd in
  let cs0 := option_map col (cpoint_var (p_cmode sp)) in
  let ye0 := option_map col (p_ye sp) in
  let xe0 := option_map col (p_xe sp) in
  let m := mask_flow (pf_mask_terms f) (key_col xs ys cs0 ye0 xe0) (length xs) in
  let cs := option_map (pick_flow f m KC) cs0 in
  mkser (nth_error (p_labels sp) k)
        (series_color sp sel k)
        (combine (pick_flow f m KX xs) (pick_flow f m KY ys))
        (option_map (pick_flow f m KYE) ye0)
        (option_map (pick_flow f m KXE) xe0)
        cs
        (option_map (point_colors sp) cs).

Definition z_series_flow (f : plot_flow) (sp : spec) (sel : env) : list series :=
  match p_z sp with
  | Some zd => map (fun k => one_series_flow f sp (sel ++ [(zd, k)]) (hd 0 (p_ys sp)) k)
                   (seq 0 (size_of (p_ds sp) zd))
  | None => mapi_from (fun k yv => one_series_flow f sp sel yv k) 0%nat (p_ys sp)
  end.

(* ------------------------------------------------------------------ gen_x (histogram) *)
(* a non-finite value that is fed is observed as id 0 *)
Definition hist_values_flow (f : plot_flow) (ds : dset) (v : Z) (sel : env) : list Z :=
  let c := column ds v sel (hist_free ds v sel) in
  if kmem KX (pf_hist_terms f) then fin_ids (filter is_fin c)
  else map (fun x => match x with Fin i => i | NonFin => 0 end) c.

Definition hist_series_flow (f : plot_flow) (sp : spec) (edges : list Z) (scale : Z) (sel : env) : list hseries :=
  let one := fun sel' v k =>
    let fed := hist_values_flow f (p_ds sp) v sel' in
    mkhs (nth_error (p_labels sp) k) (series_color sp sel' k) fed
         (bin_counts edges (map (fun i => i * scale) fed)) in
  match p_z sp with
  | Some zd => map (fun k => one (sel ++ [(zd, k)]) (hd 0 (p_ys sp)) k) (seq 0 (size_of (p_ds sp) zd))
  | None => mapi_from (fun k v => one sel v k) 0%nat (p_ys sp)
  end.

(* ------------------------------------------------------------------ heat map *)
(* transpose(a, b): rows run over a, columns over b *)
Definition mesh_flow (f : plot_flow) (ds : dset) (v xd yd : Z) (sel : env) : list (list cell) :=
  let dim := fun k => match k with KX => xd | _ => yd end in
  match pf_mesh_order f with
  | [a; b] =>
      map (fun i => map (fun j => get ds v (sel ++ [(dim a, i); (dim b, j)])) (seq 0 (size_of ds (dim b))))
          (seq 0 (size_of ds (dim a)))
  | _ => []
  end.

(* ------------------------------------------------------------------ figures *)
Definition fig_lines_flow (f : plot_flow) (sp : spec) : val :=
  vlist enc_panel (panels sp (fun sel => vlist enc_series (z_series_flow f sp sel))).
Definition fig_hist_flow (f : plot_flow) (sp : spec) (edges : list (list Z)) (scale : Z) : val :=
  VL (mapi_from (fun k p =>
        enc_panel (mkpanel (pn_row p) (pn_col p) (pn_title p) (pn_rlabel p)
                     (vlist enc_hseries (hist_series_flow f sp (nth k edges []) scale (pn_content p)))))
      0%nat (panels sp (fun sel => sel))).
Definition fig_heat_flow (f : plot_flow) (sp : spec) (v xd yd : Z) (lo hi : option Z) (with_colors : bool) : val :=
  vlist enc_panel
    (panels sp (fun sel =>
       let m := mesh_flow f (p_ds sp) v xd yd sel in
       VL [vlist (vlist enc_cell) m;
           if with_colors then vlist (vlist VZ) (mesh_colors sp v lo hi m) else VN])).
