(* The reap entry points of Crop as programs of effect stages (regenerated from cropping.py
   into Gen/GenStages.v), their flattening to primitive steps, and the interpreter that says
   whether the crop directory has been deleted when a stage fails or when all succeed.
   Also the wiring of the shuffle flag between sowing, the saved settings and reaping. *)
From XV Require Import Prelude.
Open Scope Z_scope.

Inductive cu_expr := CuVar | CuFalse | CuTrue | CuNone | CuDefault.
Inductive entry := ERaw | EToDs | ERunner | EHarvest | ESamples.
Inductive farmer_kind := FNone | FRunner | FHarvester | FSampler.

Inductive stage :=
| SCheckReady | SDecide | SLoadInfo | SPure | SGuard
| SReaperEnter | SReapRaw | SReapDs | SReaperExit
| SCall (callee : entry) (cu : cu_expr)
| SRecordLast | SSync | SDefault
| SDeleteIf | SDeleteAlways | SReturn.

(* primitive steps after inlining the calls *)
Inductive prim :=
| PFallible (what : Z)      (* may raise: 1 check-ready, 2 load-info, 3 result loading, 4 dataset
                               construction, 5 leftover results, 6 merge / save, 7 missing farmer *)
| PDelete.                  (* shutil.rmtree of the crop directory *)

Definition eval_cu (e : cu_expr) (cur : option bool) : option bool :=
  match e with
  | CuVar => cur
  | CuFalse => Some false
  | CuTrue => Some true
  | CuNone | CuDefault => None
  end.

Definition decide (cu : option bool) (allow : bool) : bool :=
  match cu with Some b => b | None => negb allow end.

Section Flatten.
  Variable prog : entry -> list stage.
  Variable allow : bool.

  (* [cu] is the current value of the local variable clean_up in the frame being inlined *)
  Fixpoint flatten (fuel : nat) (ss : list stage) (cu : option bool) : list prim :=
    match fuel with
    | O => [PFallible 99]
    | S fuel' =>
        match ss with
        | [] => []
        | s :: rest =>
            match s with
            | SCheckReady => PFallible 1 :: flatten fuel' rest cu
            | SDecide | SDefault => flatten fuel' rest (Some (decide cu allow))
            | SLoadInfo => PFallible 2 :: flatten fuel' rest cu
            | SPure | SReaperEnter | SRecordLast => flatten fuel' rest cu
            | SGuard => PFallible 7 :: flatten fuel' rest cu
            | SReapRaw => PFallible 3 :: flatten fuel' rest cu
            | SReapDs => PFallible 3 :: PFallible 4 :: flatten fuel' rest cu
            | SReaperExit => PFallible 5 :: flatten fuel' rest cu
            | SCall callee e => flatten fuel' (prog callee) (eval_cu e cu) ++ flatten fuel' rest cu
            | SSync => PFallible 6 :: flatten fuel' rest cu
            | SDeleteIf =>
                match cu with
                | Some true => PDelete :: flatten fuel' rest cu
                | Some false => flatten fuel' rest cu
                | None => PFallible 98 :: flatten fuel' rest cu   (* `if None:` never deletes; flagged *)
                end
            | SDeleteAlways => PDelete :: flatten fuel' rest cu
            | SReturn => []
            end
        end
    end.
End Flatten.

(* run the primitive steps; [fail_at = Some k]: the k-th fallible step (from 0) raises.
   Returns (raised?, crop directory deleted?) *)
Fixpoint exec (ps : list prim) (fail_at : option nat) (deleted : bool) : bool * bool :=
  match ps with
  | [] => (false, deleted)
  | PDelete :: rest => exec rest fail_at true
  | PFallible _ :: rest =>
      match fail_at with
      | Some O => (true, deleted)
      | Some (S k) => exec rest (Some k) deleted
      | None => exec rest None deleted
      end
  end.

Definition count_fallible (ps : list prim) : nat :=
  length (filter (fun p => match p with PFallible _ => true | PDelete => false end) ps).

(* no deletion happens before the last step that can fail *)
Fixpoint delete_is_last (ps : list prim) : bool :=
  match ps with
  | [] => true
  | PFallible _ :: rest => delete_is_last rest
  | PDelete :: rest =>
      forallb (fun p => match p with PFallible _ => false | PDelete => true end) rest
  end.

(* ---- the hand model of what cropping.py is meant to do ---- *)
Definition model_prog (e : entry) : list stage :=
  match e with
  | ERaw => [SCheckReady; SDecide; SLoadInfo; SReaperEnter; SReapRaw; SReaperExit; SDeleteIf; SReturn]
  | EToDs => [SCheckReady; SDecide; SLoadInfo; SPure; SReaperEnter; SReapDs; SReaperExit; SDeleteIf; SReturn]
  | ERunner => [SLoadInfo; SCall EToDs CuVar; SRecordLast; SReturn]   (* the constants recorded at sow time *)
  | EHarvest => [SGuard; SCall ERunner CuFalse; SSync; SDefault; SDeleteIf; SReturn]
  | ESamples => [SGuard; SCall ERunner CuFalse; SSync; SDefault; SDeleteIf; SReturn]
  end.
Definition model_dispatch (k : farmer_kind) : entry :=
  match k with FRunner => ERunner | FHarvester => EHarvest | FSampler => ESamples | FNone => ERaw end.

Definition reap_prims (prog : entry -> list stage) (disp : farmer_kind -> entry)
           (k : farmer_kind) (cu : option bool) (allow : bool) : list prim :=
  flatten prog allow 40 (prog (disp k)) cu.

(* ---- shuffle wiring ---- *)
Inductive src := SrcArg | SrcSelf | SrcSaved | SrcNone.
Record wiring := {
  w_sow_combos_default : option Z; (* default of sow_combos' shuffle parameter: Some 0 (False) or None *)
  w_sow_combos_sets_self : bool;   (* sow_combos stores its shuffle argument in self.shuffle unless it is None *)
  w_sow_combos_run : src;          (* what sow_combos passes to combo_runner_core *)
  w_sow_cases_sets_self : bool;
  w_sow_cases_run : src;           (* what sow_cases passes to case_runner *)
  w_saved : src;                   (* what save_info writes into the settings file *)
  w_sync_restores : bool;          (* does loading a crop from disk restore self.shuffle? *)
  w_reap_raw : src;                (* reap_combos *)
  w_reap_ds : src                  (* reap_combos_to_ds *)
}.
Definition model_wiring : wiring :=
  {| w_sow_combos_default := Some 0; w_sow_combos_sets_self := true; w_sow_combos_run := SrcArg;
     w_sow_cases_sets_self := false; w_sow_cases_run := SrcSelf;
     w_saved := SrcSelf; w_sync_restores := false;
     w_reap_raw := SrcSaved; w_reap_ds := SrcSaved |}.

(* shuffle flags are integers (0 = not shuffled); [arg] the argument of the call, [self] the
   attribute of the object making the call, [saved] the value in the settings file *)
Definition eval_src (s : src) (arg self saved : Z) : Z :=
  match s with SrcArg => arg | SrcSelf => self | SrcSaved => saved | SrcNone => 0 end.

(* sowing: (flag used to order the sowing, flag saved with the crop).  [arg] is the shuffle argument of the
   call: None when the caller leaves it out (sow_combos then sees its parameter default; `shuffle=None` is
   falsy for the runner and is not stored); sow_cases has no such argument *)
Definition sow_flags (w : wiring) (via_cases : bool) (arg : option Z) (self0 : Z) : Z * Z :=
  let eff := if via_cases then None else match arg with Some a => Some a | None => w_sow_combos_default w end in
  let sets := if via_cases then w_sow_cases_sets_self w else w_sow_combos_sets_self w in
  let self1 := match eff with Some a => if sets then a else self0 | None => self0 end in
  let a := match eff with Some a => a | None => 0 end in
  (eval_src (if via_cases then w_sow_cases_run w else w_sow_combos_run w) a self1 0,
   eval_src (w_saved w) a self1 0).
(* the attribute of the sowing object afterwards *)
Definition self_after_sow (w : wiring) (via_cases : bool) (arg : option Z) (self0 : Z) : Z :=
  let eff := if via_cases then None else match arg with Some a => Some a | None => w_sow_combos_default w end in
  let sets := if via_cases then w_sow_cases_sets_self w else w_sow_combos_sets_self w in
  match eff with Some a => if sets then a else self0 | None => self0 end.

(* reaping by an object whose attribute is [self_r] (the sowing object's attribute, or the
   constructor default 0 of an object re-created from disk unless loading restores it) *)
Definition reap_flag (w : wiring) (to_ds fresh : bool) (self_sow saved : Z) : Z :=
  let self_r := if fresh then (if w_sync_restores w then saved else 0) else self_sow in
  eval_src (if to_ds then w_reap_ds w else w_reap_raw w) 0 self_r saved.

(* outcome of a reap in which the first step tagged [fail_tag] raises (None: nothing raises):
   (raised?, crop directory deleted?) *)
Fixpoint index_of_tag (ps : list prim) (tag : Z) (acc : nat) : option nat :=
  match ps with
  | [] => None
  | PFallible t :: rest => if t =? tag then Some acc else index_of_tag rest tag (S acc)
  | PDelete :: rest => index_of_tag rest tag acc
  end.
Definition outcome (prog : entry -> list stage) (disp : farmer_kind -> entry)
           (k : farmer_kind) (cu : option bool) (allow : bool) (fail_tag : option Z) : bool * bool :=
  let ps := reap_prims prog disp k cu allow in
  match fail_tag with
  | None => exec ps None false
  | Some t => match index_of_tag ps t 0 with
              | Some n => exec ps (Some n) false
              | None => exec ps None false
              end
  end.
Definition enc_outcome (o : bool * bool) : val := VL [vbool (fst o); vbool (snd o)].

(* ---- description wiring: which form of the swept description (combos, cases) reaches the batch
        planner (choose_batch_settings), the saved settings (prepare -> save_info) and the runner that
        sows; reaping rebuilds the grid from the SAVED description, so the three must be one term ---- *)
Inductive dterm := DArg | DParse (t : dterm) | DSortByName (t : dterm) | DAbsent.
Record descr_sites := mk_descr_sites {
  ds_batch_combos : dterm; ds_batch_cases : dterm;
  ds_saved_combos : dterm; ds_saved_cases : dterm;
  ds_run_combos : dterm; ds_run_cases : dterm }.
Definition model_sow_combos_sites : descr_sites :=
  let cmb := DSortByName (DParse DArg) in let cs := DParse DArg in mk_descr_sites cmb cs cmb cs cmb cs.
Definition model_sow_cases_sites : descr_sites :=
  let cmb := DParse DArg in let cs := DParse DArg in mk_descr_sites cmb cs cmb cs cmb cs.

Fixpoint dterm_eqb (a b : dterm) : bool :=
  match a, b with
  | DArg, DArg | DAbsent, DAbsent => true
  | DParse a', DParse b' | DSortByName a', DSortByName b' => dterm_eqb a' b'
  | _, _ => false
  end.
Definition descr_consistent (s : descr_sites) : bool :=
  dterm_eqb (ds_saved_combos s) (ds_run_combos s) && dterm_eqb (ds_saved_cases s) (ds_run_cases s)
  && dterm_eqb (ds_batch_combos s) (ds_run_combos s) && dterm_eqb (ds_batch_cases s) (ds_run_cases s).

(* meaning over a description given as (argument id, values) pairs: parsing normalises spellings (the
   harness hands over normal forms), sorting orders by argument id, an absent argument is empty *)
Fixpoint insert_by_name (kv : Z * list Z) (l : list (Z * list Z)) : list (Z * list Z) :=
  match l with
  | [] => [kv]
  | y :: l' => if fst kv <=? fst y then kv :: l else y :: insert_by_name kv l'
  end.
Fixpoint dterm_eval (t : dterm) (x : list (Z * list Z)) : list (Z * list Z) :=
  match t with
  | DArg => x
  | DParse t' => dterm_eval t' x
  | DSortByName t' => fold_right insert_by_name [] (dterm_eval t' x)
  | DAbsent => []
  end.
Definition descr_size (x : list (Z * list Z)) : Z := fold_right (fun kv acc => Z.of_nat (length (snd kv)) * acc) 1 x.
