(* The accumulated dataset of a Harvester as a partial map from points to values, the three
   merge policies, and the harvester's memory / disk state machine (xyzpy/gen/farming.py,
   save_merge_ds in manage.py).  A point is [variable; dim1; label1; dim2; label2; ...] with the
   dimensions in a fixed order; only non-null values are stored.  Executable, proof-free. *)
From XV Require Import Prelude Grid Names.
From Coq Require String.
Open Scope Z_scope.

Definition point := list Z.
Definition pmap := list (point * Z).

Fixpoint pget (m : pmap) (k : point) : option Z :=
  match m with
  | [] => None
  | (k', v) :: rest => if list_eqb k' k then Some v else pget rest k
  end.
Fixpoint pset (k : point) (v : Z) (m : pmap) : pmap :=
  match m with
  | [] => [(k, v)]
  | (k', v') :: rest => if list_eqb k' k then (k, v) :: rest else (k', v') :: pset k v rest
  end.
Definition pmem (m : pmap) (k : point) : bool := match pget m k with Some _ => true | None => false end.

Inductive policy := PolNone | PolNew | PolOld.    (* overwrite = None / True / False *)

(* new data wins where it has a value: new.combine_first(old) *)
Definition merge_new (old new : pmap) : pmap := fold_left (fun acc kv => pset (fst kv) (snd kv) acc) new old.
(* old data wins: old.combine_first(new) *)
Definition merge_old (old new : pmap) : pmap :=
  fold_left (fun acc kv => if pmem acc (fst kv) then acc else pset (fst kv) (snd kv) acc) new old.
(* a point with different non-null values on both sides *)
Definition conflict (old new : pmap) : bool :=
  existsb (fun kv => match pget old (fst kv) with Some v => negb (v =? snd kv) | None => false end) new.

Definition merge (pol : policy) (old new : pmap) : res pmap :=
  match pol with
  | PolNone => if conflict old new then Err E_Value else Ok (merge_old old new)
  | PolNew => Ok (merge_new old new)
  | PolOld => Ok (merge_old old new)
  end.

(* files by path *)
Fixpoint fget (d : list (string * pmap)) (p : string) : option pmap :=
  match d with
  | [] => None
  | (p', m) :: rest => if String.eqb p' p then Some m else fget rest p
  end.
Fixpoint fset (p : string) (m : pmap) (d : list (string * pmap)) : list (string * pmap) :=
  match d with
  | [] => [(p, m)]
  | (p', m') :: rest => if String.eqb p' p then (p, m) :: rest else (p', m') :: fset p m rest
  end.

Record hst := mk_hst { h_mem : option pmap; h_disk : list (string * pmap) }.

Inductive hop :=
| HAdd (new : pmap) (sync : bool) (pol : policy)     (* harvest_combos / harvest_cases / add_ds *)
| HNewSession                                        (* a freshly constructed Harvester on the same name *)
| HSaveMerge (new : pmap) (pol : policy)             (* manage.save_merge_ds on the same name *)
| HDrop (dim label : Z)                              (* drop_sel(dim=label), synced *)
| HExtDrop (dim label : Z).                          (* drop_sel by ANOTHER harvester object on the same name *)

Section Harvester.
  Variable st : sites.            (* which path every site touches (regenerated from the code) *)
  Variable name : string.
  Variable e : engine.

  Definition load_path := path_of (p_hload_access st) false name e.
  Definition load_from := path_of (p_hload_load st) true name e.
  Definition save_to := path_of (p_hsave_replace_dst st) false name e.
  Definition merge_test := path_of (p_merge_exists st) false name e.
  Definition merge_from := path_of (p_merge_load st) true name e.
  Definition merge_to := path_of (p_merge_save st) true name e.

  (* load_full_ds: only if the tested path exists *)
  Definition load (s : hst) : hst :=
    match fget (h_disk s) load_path with
    | Some _ => match fget (h_disk s) load_from with
                | Some m => mk_hst (Some m) (h_disk s)
                | None => s
                end
    | None => s
    end.

  Fixpoint has_coord (k : point) (dim label : Z) : bool :=
    match k with
    | d :: l :: rest => ((d =? dim) && (l =? label)) || has_coord rest dim label
    | _ => false
    end.

  (* one operation: new state and whether it raised *)
  Definition hstep (s : hst) (o : hop) : hst * bool :=
    match o with
    | HNewSession => (mk_hst None (h_disk s), false)
    | HAdd new sync pol =>
        let s1 := if sync then load s else s in
        match h_mem s1 with
        | None =>
            if sync then (mk_hst (Some new) (fset save_to new (h_disk s1)), false)
            else (mk_hst (Some new) (h_disk s1), false)
        | Some old =>
            match merge pol old new with
            | Err _ => (s1, true)
            | Ok m =>
                if sync then (mk_hst (Some m) (fset save_to m (h_disk s1)), false)
                else (mk_hst (Some m) (h_disk s1), false)
            end
        end
    | HSaveMerge new pol =>
        let old := match fget (h_disk s) merge_test with
                   | Some _ => match fget (h_disk s) merge_from with Some m => m | None => [] end
                   | None => []
                   end in
        match merge pol old new with
        | Err _ => (s, true)
        | Ok m => (mk_hst (h_mem s) (fset merge_to m (h_disk s)), false)
        end
    | HDrop dim label =>
        let s1 := load s in        (* synced with the on-disk dataset first *)
        match h_mem s1 with
        | None => (s1, true)
        | Some m =>
            let m' := filter (fun kv => negb (has_coord (tl (fst kv)) dim label)) m in
            (mk_hst (Some m') (fset save_to m' (h_disk s1)), false)
        end
    | HExtDrop dim label =>
        match fget (h_disk s) load_path with
        | None => (s, true)
        | Some _ =>
            match fget (h_disk s) load_from with
            | None => (s, true)
            | Some m =>
                let m' := filter (fun kv => negb (has_coord (tl (fst kv)) dim label)) m in
                (mk_hst (h_mem s) (fset save_to m' (h_disk s)), false)
            end
        end
    end.

  Fixpoint hrun (s : hst) (ops : list hop) : list (hst * bool) :=
    match ops with
    | [] => []
    | o :: rest => let r := hstep s o in r :: hrun (fst r) rest
    end.
End Harvester.

(* the specification: one abstract map holding everything ever delivered to the data name *)
Definition spec_step (abs : pmap) (o : hop) : pmap * bool :=
  match o with
  | HNewSession => (abs, false)
  | HAdd new _ pol | HSaveMerge new pol =>
      match merge pol abs new with Err _ => (abs, true) | Ok m => (m, false) end
  | HDrop dim label | HExtDrop dim label =>
      (filter (fun kv => negb (has_coord (tl (fst kv)) dim label)) abs, false)
  end.

(* ---- the sampler's table (xyzpy Sampler): rows appended, synced the same way ---- *)
Definition table := list (list Z).
Record sst := mk_sst { s_mem : option table; s_file : option table }.
Inductive sop := SAdd (rows : table) (sync : bool) | SNewSession | SExtAdd (rows : table)
               | SAddFail (rows : table).     (* a synced run whose table write fails (disk full, unstorable value) *)
Definition sstep (s : sst) (o : sop) : sst :=
  match o with
  | SNewSession => mk_sst None (s_file s)
  | SExtAdd rows =>      (* another sampler object on the same file appended its rows *)
      mk_sst (s_mem s) (Some (match s_file s with Some t => (t ++ rows)%list | None => rows end))
  | SAddFail _ =>        (* the file was re-read; nothing else changes: the rows are in neither table *)
      mk_sst (match s_file s with Some t => Some t | None => s_mem s end) (s_file s)
  | SAdd rows sync =>
      let mem := if sync then match s_file s with Some t => Some t | None => s_mem s end else s_mem s in
      let full := match mem with None => rows | Some t => t ++ rows end in
      mk_sst (Some full) (if sync then Some full else s_file s)
  end.
