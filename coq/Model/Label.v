(* Labelled outputs: the Dataset description built by results_to_ds and the DataFrame rows
   built by results_to_df (xyzpy/gen/combo_runner.py), on top of the runner model.
   Names (arguments, variables, dimensions, attributes) are integers. *)
From XV Require Import Prelude Grid Perm Runner.
Open Scope Z_scope.

Section Label.
  Context {R : Type}.
  Variable comps : R -> list R.          (* a tuple result as its components *)

  (* ---- DataFrame ---- *)
  Definition drop_keys (ks : list Z) (kw : kwargs) : kwargs :=
    filter (fun av => negb (mem (fst av) ks)) kw.

  (* dict.update on an association list: overwrite in place, else append *)
  Fixpoint kw_set (k v : Z) (kw : kwargs) : kwargs :=
    match kw with
    | [] => [(k, v)]
    | (k', v') :: rest => if k =? k' then (k, v) :: rest else (k', v') :: kw_set k v rest
    end.
  Definition kw_update (kw upd : kwargs) : kwargs := fold_left (fun acc av => kw_set (fst av) (snd av) acc) upd kw.

  (* the output columns of one row: zip(var_names, result), or the bare result for a scalar *)
  Definition out_cols (var_names : list Z) (r : R) : list (Z * R) :=
    match comps r with
    | [] => combine var_names [r]
    | cs => combine var_names cs
    end.

  Definition df_row (resources : list Z) (attrs : kwargs) (var_names : list Z) (s : kwargs) (r : R)
    : kwargs * list (Z * R) :=
    (kw_update (drop_keys resources s) attrs, out_cols var_names r).

  Definition df_rows (resources : list Z) (attrs : kwargs) (var_names : list Z)
             (info_settings : list kwargs) (results : list R) : list (kwargs * list (Z * R)) :=
    map (fun sr => df_row resources attrs var_names (fst sr) (snd sr)) (combine info_settings results).

  (* ---- Dataset ---- *)
  Record dsm := mk_dsm {
    dm_coords : list (Z * list Z);                      (* dimension -> coordinate labels *)
    dm_vars : list (Z * (list Z * nest (cell R)));      (* variable -> (dims, data over the swept dims) *)
    dm_attrs : kwargs;
    dm_const_coords : kwargs                            (* constants recorded as coordinates *)
  }.

  Definition lookup_dims (var_dims : list (Z * list Z)) (v : Z) : list Z :=
    match find (fun kd => fst kd =? v) var_dims with Some kd => snd kd | None => [] end.

  (* results_to_ds on the output of the core runner *)
  Definition to_ds (var_names : list Z) (var_dims : list (Z * list Z)) (var_coords : list (Z * list Z))
             (constants attrs : kwargs) (args : list Z) (coords : list (list Z)) (o : out R) : res dsm :=
    let nests :=
      match var_names, o with
      | [_], ONest n => Some [n]
      | _, OSplit os =>
          if Nat.eqb (length os) (length var_names)
          then Some (flat_map (fun x => match x with ONest n => [n] | _ => [] end) os)
          else None
      | _, _ => None
      end in
    match nests with
    | None => Err E_Value
    | Some ns =>
        if negb (Nat.eqb (length ns) (length var_names)) then Err E_Value else
        let all_dims := args ++ flat_map snd var_dims ++ map fst var_coords in
        let is_dim k := mem k all_dims in
        Ok (mk_dsm (combine args coords ++ var_coords)
                   (map (fun vn => (fst vn, (args ++ lookup_dims var_dims (fst vn), snd vn)))
                        (combine var_names ns))
                   (kw_update attrs (filter (fun av => negb (is_dim (fst av))) constants))
                   (filter (fun av => is_dim (fst av)) constants))
    end.
End Label.
