(* A crop on disk and the operations on it (xyzpy/gen/cropping.py): sow, grow, delete a
   result, check_bad, progress queries, reap (complete / incomplete / refused), reload.
   The state is what is on disk plus the attributes of the Crop object in use; a "fresh
   process" is an object whose attributes were loaded from disk.  Executable, proof-free. *)
From XV Require Import Prelude Grid Perm Runner Batch.
Open Scope Z_scope.

(* association lists keyed by batch id *)
Fixpoint zlookup {V} (k : Z) (l : list (Z * V)) : option V :=
  match l with
  | [] => None
  | (k', v) :: rest => if k =? k' then Some v else zlookup k rest
  end.
Fixpoint zremove {V} (k : Z) (l : list (Z * V)) : list (Z * V) :=
  match l with
  | [] => []
  | (k', v) :: rest => if k =? k' then zremove k rest else (k', v) :: zremove k rest
  end.
Definition zset {V} (k : Z) (v : V) (l : list (Z * V)) : list (Z * V) := (k, v) :: zremove k l.
Definition zmem {V} (k : Z) (l : list (Z * V)) : bool :=
  match zlookup k l with Some _ => true | None => false end.

(* number the batches produced by the sower 1, 2, ... *)
Fixpoint number_from {V} (i : Z) (l : list V) : list (Z * V) :=
  match l with [] => [] | x :: rest => (i, x) :: number_from (i + 1) rest end.

Record info := mk_info {
  inf_in : input;            (* combos (sorted by name), cases, flags, saved shuffle as permutation *)
  inf_bs : Z; inf_nb : Z; inf_rem : Z }.

Record obj := mk_obj { o_bs : option Z; o_nb : option Z; o_rem : option Z }.

Section CropModel.
  Context {R : Type}.
  Variable f : kwargs -> option R.     (* the sown function; None = it raises *)
  Variable comps : R -> list R.

  Record disk := mk_disk {
    d_info : option info;
    d_batches : list (Z * list kwargs);
    d_results : list (Z * list R) }.

  Definition empty_disk : disk := mk_disk None [] [].
  Definition fresh_obj : obj := mk_obj None None None.

  (* Crop(name, parent_dir) in a new process: attributes come from the saved settings *)
  Definition reload (d : disk) : obj :=
    match d_info d with
    | None => fresh_obj
    | Some inf => mk_obj (Some (inf_bs inf)) (Some (inf_nb inf)) (Some (inf_rem inf))
    end.

  Definition opt_or {A} (a b : option A) : option A := match a with Some _ => a | None => b end.

  (* sow_combos / sow_cases: [i] is the sweep (combos already sorted by name, i_perm the
     shuffle), [bs] [nb] optional overrides given to the call *)
  Definition sow (o : obj) (d : disk) (i : input) (bs nb : option Z) : res (obj * disk) :=
    let o1 := mk_obj (opt_or bs (o_bs o)) (opt_or nb (o_nb o)) (o_rem o) in
    let order := run_order i in
    match choose (Z.of_nat (length order)) (o_bs o1) (o_nb o1) (o_rem o1) with
    | Err e => Err e
    | Ok (Some s, Some k, Some r) =>
        let bs' := number_from 1 (sow_all s r order) in
        let merged := fold_left (fun acc b => zset (fst b) (snd b) acc) bs' (d_batches d) in
        Ok (mk_obj (Some s) (Some k) (Some r),
            mk_disk (Some (mk_info i s k r)) merged (d_results d))
    | Ok _ => Err E_Type
    end.

  (* all results of a batch, or None if the function raises on one of its settings *)
  Fixpoint run_batch (b : list kwargs) : option (list R) :=
    match b with
    | [] => Some []
    | kw :: rest =>
        match f kw, run_batch rest with
        | Some r, Some rs => Some (r :: rs)
        | _, _ => None
        end
    end.

  (* grow(batch_number): writes only that batch's result, and only if every setting succeeded *)
  Definition grow (d : disk) (id : Z) : res disk :=
    match zlookup id (d_batches d) with
    | None => Err E_Other                               (* no such batch file *)
    | Some [] => Err E_Value
    | Some b =>
        match run_batch b with
        | None => Err E_Other                           (* the function raised: nothing is written *)
        | Some rs => Ok (mk_disk (d_info d) (d_batches d) (zset id rs (d_results d)))
        end
    end.

  Definition delete_result (d : disk) (id : Z) : disk :=
    mk_disk (d_info d) (d_batches d) (zremove id (d_results d)).

  (* check_bad(delete_bad=True): a result whose length differs from its batch is deleted *)
  Definition is_bad (d : disk) (idr : Z * list R) : bool :=
    match zlookup (fst idr) (d_batches d) with
    | Some b => negb (Nat.eqb (length (snd idr)) (length b))
    | None => true
    end.
  Definition check_bad (d : disk) : list Z * disk :=
    let bad := map fst (filter (is_bad d) (d_results d)) in
    (bad, mk_disk (d_info d) (d_batches d) (filter (fun idr => negb (is_bad d idr)) (d_results d))).

  (* progress queries: every query first re-reads the settings from disk if they exist,
     otherwise the object keeps the numbers it last knew *)
  Definition sync (o : obj) (d : disk) : obj :=
    match d_info d with None => o | Some _ => reload d end.
  Definition num_sown (d : disk) : Z :=
    match d_info d with None => -1 | Some _ => Z.of_nat (length (d_batches d)) end.
  Definition num_results (d : disk) : Z :=
    match d_info d with None => -1 | Some _ => Z.of_nat (length (d_results d)) end.
  Definition missing_of (nb : Z) (d : disk) : list Z :=
    filter (fun i => negb (zmem i (d_results d))) (zseq 1 (Z.to_nat nb)).
  Definition missing (o : obj) (d : disk) : list Z :=
    match o_nb (sync o d) with Some nb => missing_of nb d | None => [] end.
  Definition ready (d : disk) : bool := (0 <? num_results d) && (num_results d =? num_sown d).

  (* grow_missing = grow every missing batch, in ascending order; stops at the first failure *)
  Fixpoint grow_list (d : disk) (ids : list Z) : res disk :=
    match ids with
    | [] => Ok d
    | i :: rest => match grow d i with Ok d' => grow_list d' rest | Err e => Err e end
    end.
  Definition grow_missing (o : obj) (d : disk) : res disk := grow_list d (missing o d).

  (* ---- reaping ---- *)
  (* a slot read back: a result, or the placeholder for a setting of a missing batch *)
  Inductive slot := SGot (r : R) | SHole.

  (* the Reaper: for i = 1..nb, the stored results, or placeholders sized by the batch file *)
  Fixpoint reaper_chain (d : disk) (allow : bool) (ids : list Z) : res (list slot) :=
    match ids with
    | [] => Ok []
    | i :: rest =>
        let here :=
          match zlookup i (d_results d) with
          | Some [] => Err E_Value
          | Some rs => Ok (map SGot rs)
          | None =>
              if allow
              then match zlookup i (d_batches d) with
                   | Some b => match b with [] => Err E_Value | _ => Ok (map (fun _ => SHole) b) end
                   | None => Err E_Other
                   end
              else Err E_Other
          end in
        match here, reaper_chain d allow rest with
        | Ok a, Ok b => Ok (a ++ b)
        | Err e, _ => Err e
        | _, Err e => Err e
        end
    end.
End CropModel.

Arguments SGot {R} r.
Arguments SHole {R}.

(* clean-up decision of calc_clean_up_default_res *)
Definition eff_clean_up (clean_up : option bool) (allow_incomplete : bool) : bool :=
  match clean_up with Some b => b | None => negb allow_incomplete end.

Section Reap.
  Context {R : Type}.

  (* reap_combos(allow_incomplete, clean_up), wait = False.  The output is a nest of
     [cell slot]: [Got (SGot r)] a reaped result, [Got SHole] the placeholder of a setting whose
     batch is missing, [Hole first] the default combo_runner_core derives from the first slot
     for locations that were never requested (sparse cases). *)
  Definition reap (d : @disk R) (allow : bool) (clean_up : option bool)
    : res (out (@slot R) * @disk R) :=
    match d_info d with
    | None => Err E_XYZ
    | Some inf =>
        if negb (allow || ready d) then Err E_XYZ             (* refused, nothing touched *)
        else if allow && (match d_results d with [] => true | _ => false end) then Err E_XYZ
        else
          match reaper_chain d allow (zseq 1 (Z.to_nat (inf_nb inf))) with
          | Err e => Err e
          | Ok slots =>
              let n := length (run_order (inf_in inf)) in
              if negb (Nat.eqb (length slots) n) then Err E_XYZ   (* StopIteration / not all reaped *)
              else Ok (finish (fun _ => []) (inf_in inf) slots,
                       if eff_clean_up clean_up allow then empty_disk else d)
          end
    end.
End Reap.
