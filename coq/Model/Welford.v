(* Hand-written model of the running statistics of xyzpy/utils.py:
   RunningStatistics (Welford update), RunningCovariance, RunningCovarianceMatrix and the
   loop of estimate_from_repeats.  Proof-free and executable.  Everything is generic over
   an operations record, with three instances: exact rationals [Q] and binary64
   [PrimFloat] here, the real numbers in Model/WelfordR.v (kept apart so that this file
   needs no axiom).

   Python semantics that the record stands for:
     x + y, x - y, x * y, x / y     on floats            -> add sub mul div
     <float> / <int>, <int> ** 0.5  (int converted first) -> of_nat
     x ** 0.5                                            -> sqrt
     abs(x), x < y, np.inf                               -> abs ltb inf
   Not modelled: ZeroDivisionError (Python raises where IEEE division would give
   inf / nan: covar at count 0, sample_covar at count 1, rel_err at mean 0); the model
   of sample_covar uses the truncated subtraction of nat and is meant for count >= 1. *)
From Coq Require Import ZArith List Bool QArith Qabs.
From Coq Require Floats.PrimFloat Numbers.Cyclic.Int63.Uint63.
From XV Require Import Prelude.
Open Scope Z_scope.

Record ops (T : Type) := mk_ops {
  add : T -> T -> T;
  sub : T -> T -> T;
  mul : T -> T -> T;
  div : T -> T -> T;
  of_nat : nat -> T;
  sqrt : T -> T;
  ltb : T -> T -> bool;
  abs : T -> T;
  inf : T                      (* np.inf, returned by var/std/err on an empty accumulator *)
}.
Arguments add {T} _ _ _. Arguments sub {T} _ _ _. Arguments mul {T} _ _ _.
Arguments div {T} _ _ _. Arguments of_nat {T} _ _. Arguments sqrt {T} _ _.
Arguments ltb {T} _ _ _. Arguments abs {T} _ _. Arguments inf {T} _.

(* ------------------------------------------------------------------ states *)
Record stats (T : Type) := mk_stats { count : nat; mean : T; M2 : T }.
Arguments mk_stats {T} _ _ _. Arguments count {T} _. Arguments mean {T} _. Arguments M2 {T} _.

Record cov (T : Type) := mk_cov { ccount : nat; xmean : T; ymean : T; CC : T }.
Arguments mk_cov {T} _ _ _ _. Arguments ccount {T} _. Arguments xmean {T} _.
Arguments ymean {T} _. Arguments CC {T} _.

Section Generic.
  Context {T : Type}.
  Variable Op : ops T.

  Definition zero : T := of_nat Op 0.

  (* ---------------------------------------------------- RunningStatistics *)
  Definition init : stats T := mk_stats 0%nat zero zero.

  Definition upd (s : stats T) (x : T) : stats T :=
    let n := (count s + 1)%nat in
    let delta := sub Op x (mean s) in
    let m := add Op (mean s) (div Op delta (of_nat Op n)) in
    let delta2 := sub Op x m in
    mk_stats n m (add Op (M2 s) (mul Op delta delta2)).

  Definition update_from_it (s : stats T) (xs : list T) : stats T := fold_left upd xs s.

  (* fed in chunks: each chunk through update_from_it *)
  Definition update_chunks (s : stats T) (chunks : list (list T)) : stats T :=
    fold_left update_from_it chunks s.

  Definition var (s : stats T) : T :=
    match count s with 0%nat => inf Op | _ => div Op (M2 s) (of_nat Op (count s)) end.
  Definition std (s : stats T) : T :=
    match count s with 0%nat => inf Op | _ => sqrt Op (var s) end.
  Definition err (s : stats T) : T :=
    match count s with 0%nat => inf Op | _ => div Op (std s) (sqrt Op (of_nat Op (count s))) end.
  Definition rel_err (s : stats T) : T :=
    match count s with 0%nat => inf Op | _ => div Op (err s) (abs Op (mean s)) end.
  Definition converged (s : stats T) (rtol atol : T) : bool :=
    ltb Op (err s) (add Op (mul Op rtol (abs Op (mean s))) atol).

  (* ---------------------------------------------------- RunningCovariance *)
  Definition cov_init : cov T := mk_cov 0%nat zero zero zero.

  Definition upd_cov (s : cov T) (x y : T) : cov T :=
    let n := (ccount s + 1)%nat in
    let dx := sub Op x (xmean s) in
    let dy := sub Op y (ymean s) in
    let xm := add Op (xmean s) (div Op dx (of_nat Op n)) in
    let ym := add Op (ymean s) (div Op dy (of_nat Op n)) in
    mk_cov n xm ym (add Op (CC s) (mul Op dx (sub Op y ym))).

  Definition upd_cov_p (s : cov T) (p : T * T) : cov T := upd_cov s (fst p) (snd p).

  (* update_from_it(xs, ys) iterates over zip(xs, ys) *)
  Definition update_cov_from_it (s : cov T) (xs ys : list T) : cov T :=
    fold_left upd_cov_p (combine xs ys) s.

  Definition covar (s : cov T) : T := div Op (CC s) (of_nat Op (ccount s)).
  Definition sample_covar (s : cov T) : T := div Op (CC s) (of_nat Op (ccount s - 1)).

  (* ---------------------------------------------- RunningCovarianceMatrix *)
  (* the dict rcs keyed by (i, j), i <= j < n, in the order of the two Python loops *)
  Definition pairs (n : nat) : list (nat * nat) :=
    flat_map (fun i => map (pair i) (seq i (n - i))) (seq 0 n).

  Definition cm := list ((nat * nat) * cov T).

  Definition cm_init (n : nat) : cm := map (fun ij => (ij, cov_init)) (pairs n).

  (* update(x_0, ..., x_{n-1}) *)
  Definition cm_upd (st : cm) (x : list T) : cm :=
    map (fun e => (fst e, upd_cov (snd e) (nth (fst (fst e)) x zero) (nth (snd (fst e)) x zero))) st.

  (* update_from_it(xs_0, ..., xs_{n-1}): each pair runs over zip(xs_i, xs_j) *)
  Definition cm_update_from_it (st : cm) (xs : list (list T)) : cm :=
    map (fun e => (fst e, update_cov_from_it (snd e) (nth (fst (fst e)) xs []) (nth (snd (fst e)) xs []))) st.

  (* column i of a list of rows; the n columns (what update_from_it would be given) *)
  Definition column (rows : list (list T)) (i : nat) : list T := map (fun r => nth i r zero) rows.
  Definition columns (n : nat) (rows : list (list T)) : list (list T) := map (column rows) (seq 0 n).

  Definition key_eqb (a b : nat * nat) : bool :=
    Nat.eqb (fst a) (fst b) && Nat.eqb (snd a) (snd b).

  Definition cm_get (st : cm) (k : nat * nat) : cov T :=
    match find (fun e => key_eqb (fst e) k) st with Some e => snd e | None => cov_init end.

  (* the accumulator behind entry (i, j) of covar_matrix: rcs[i, j] if j >= i else rcs[j, i] *)
  Definition cm_cell (st : cm) (i j : nat) : cov T :=
    if Nat.leb i j then cm_get st (i, j) else cm_get st (j, i).
  Definition cm_covar (st : cm) (i j : nat) : T := covar (cm_cell st i j).
  Definition cm_sample_covar (st : cm) (i j : nat) : T := sample_covar (cm_cell st i j).
  Definition cm_count (st : cm) : nat := ccount (cm_get st (0%nat, 0%nat)).

  (* ------------------------------------------------ estimate_from_repeats *)
  (* the two guards of the loop, on the loop index i = 0, 1, 2, ... *)
  Definition guard_conv (i min_samples : Z) : bool := min_samples <? i.
  Definition guard_max (i max_samples : Z) : bool := max_samples - 1 <=? i.
End Generic.

Module Stopping.
Section Run.
  Context {T : Type}.
  Variable Op : ops T.
  Variables (rtol tol_scale : T) (min_samples max_samples : Z).
  Variable xs : nat -> T.          (* the i-th value returned by fn *)

  Definition atol : T := mul Op tol_scale rtol.

  (* does the loop leave after iteration i, with the statistics s (already updated)? *)
  Definition leaves (i : nat) (s : stats T) : bool :=
    (guard_conv (Z.of_nat i) min_samples && converged Op s rtol atol)
    || guard_max (Z.of_nat i) max_samples.

  (* iteration i, i+1, ... with explicit fuel; None = fuel exhausted before a break *)
  Fixpoint run_from (fuel : nat) (i : nat) (s : stats T) : option (nat * stats T) :=
    match fuel with
    | O => None
    | S f =>
        let s' := upd Op s (xs i) in
        if guard_conv (Z.of_nat i) min_samples && converged Op s' rtol atol then Some (S i, s')
        else if guard_max (Z.of_nat i) max_samples then Some (S i, s')
        else run_from f (S i) s'
    end.

  (* (number of samples drawn, final statistics) *)
  Definition run (fuel : nat) : option (nat * stats T) := run_from fuel 0%nat (init Op).

  (* enough fuel for any run *)
  Definition fuel_for : nat := Z.to_nat (Z.max 1 max_samples).
End Run.
End Stopping.

(* the first c samples of a stream *)
Definition prefix {T} (xs : nat -> T) (c : nat) : list T := map xs (seq 0 c).

(* ------------------------------------------------------------------ instance: Q *)
(* exact arithmetic, reduced after every operation; sqrt is NOT exact on Q: floor to
   2^-64 relative to the denominator, used only by executable examples *)
Definition Qsqrt_approx (q : Q) : Q :=
  Qred (Qmake (Z.sqrt (Qnum q * Zpos (Qden q) * 2 ^ 128)) (Qden q * 2 ^ 64)).
Definition Qltb (a b : Q) : bool := (Qnum a * Zpos (Qden b) <? Qnum b * Zpos (Qden a))%Z.

Definition opsQ : ops Q := {|
  add := fun a b => Qred (Qplus a b);
  sub := fun a b => Qred (Qminus a b);
  mul := fun a b => Qred (Qmult a b);
  div := fun a b => Qred (Qdiv a b);
  of_nat := fun n => inject_Z (Z.of_nat n);
  sqrt := Qsqrt_approx;
  ltb := Qltb;
  abs := Qabs;
  inf := inject_Z 0            (* no infinity in Q; only reached with count = 0 *)
|}.

(* ------------------------------------------------------------------ instance: binary64 *)
Module F.
  Import Floats.FloatClass Floats.PrimFloat Numbers.Cyclic.Int63.Uint63.

  Definition nat_to_float (n : nat) : float := of_uint63 (of_Z (Z.of_nat n)).  (* exact below 2^53 *)

  Definition opsF : ops float :=
    mk_ops float PrimFloat.add PrimFloat.sub PrimFloat.mul PrimFloat.div nat_to_float
           PrimFloat.sqrt PrimFloat.ltb PrimFloat.abs infinity.

  (* canonical observation of a float: [mantissa; exponent] with the value equal to
     mantissa * 2^(exponent - 53), 2^52 <= |mantissa| < 2^53 (as math.frexp gives it),
     zeros, infinities and NaN by name *)
  Definition enc (f : float) : val :=
    match classify f with
    | NaN => VS "nan"
    | PInf => VS "inf"
    | NInf => VS "-inf"
    | PZero => VS "0"
    | NZero => VS "-0"
    | _ =>
        let '(m, e) := frshiftexp f in
        let mz := to_Z (normfr_mantissa m) in
        VL [VZ (if PrimFloat.ltb f zero then - mz else mz); VZ (to_Z e - 2101)]  (* 2101 = FloatOps.shift *)
    end.

  Definition enc_stats (s : stats float) : val :=
    VL [VZ (Z.of_nat (count s)); enc (mean s); enc (M2 s)].
  Definition enc_cov (s : cov float) : val :=
    VL [VZ (Z.of_nat (ccount s)); enc (xmean s); enc (ymean s); enc (CC s)].
  Definition enc_cm (st : list ((nat * nat) * cov float)) : val :=
    VL (map (fun e => VL [VZ (Z.of_nat (fst (fst e))); VZ (Z.of_nat (snd (fst e))); enc_cov (snd e)]) st).

  (* derived quantities of a RunningStatistics: var, std, err *)
  Definition enc_derived (s : stats float) : val :=
    VL [enc (var opsF s); enc (std opsF s); enc (err opsF s)].

  (* a and b equal, or adjacent binary64 numbers up to k steps apart *)
  Fixpoint within_ulps (k : nat) (a b : float) : bool :=
    PrimFloat.eqb a b ||
    match k with
    | O => false
    | S k' => within_ulps k' (next_up a) b || within_ulps k' (next_down a) b
    end.

  Definition lists_of (l : list float) (sizes : list nat) : list (list float) :=
    (fix go (l : list float) (sizes : list nat) {struct sizes} : list (list float) :=
       match sizes with
       | [] => match l with [] => [] | _ => [l] end
       | k :: sizes' => firstn k l :: go (skipn k l) sizes'
       end) l sizes.

  Definition permute (l : list float) (p : list nat) : list float :=
    map (fun i => nth i l zero) p.

  (* a covariance matrix fed in chunks of rows: (true, rows) through update_from_it with
     the columns of the chunk, (false, rows) through update, row by row *)
  Definition cm_feed (n : nat) (chunks : list (bool * list (list float))) : list ((nat * nat) * cov float) :=
    fold_left (fun (st : list ((nat * nat) * cov float)) (ch : bool * list (list float)) =>
                 if fst ch then cm_update_from_it opsF st (columns opsF n (snd ch))
                            else fold_left (cm_upd opsF) (snd ch) st) chunks (cm_init opsF n).
  Definition enc_covar_matrix (n : nat) (st : list ((nat * nat) * cov float)) : val :=
    VL (map (fun i => VL (map (fun j => enc (cm_covar opsF st i j)) (seq 0 n))) (seq 0 n)).
  Definition enc_sample_covar_matrix (n : nat) (st : list ((nat * nat) * cov float)) : val :=
    VL (map (fun i => VL (map (fun j => enc (cm_sample_covar opsF st i j)) (seq 0 n))) (seq 0 n)).

  Definition stream (l : list float) : nat -> float := fun i => nth i l zero.

  Definition enc_run (r : option (nat * stats float)) : val :=
    match r with
    | None => VN
    | Some (c, s) => VL [VZ (Z.of_nat c); enc_stats s]
    end.
End F.
