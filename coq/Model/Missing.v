(* The wiring of the three missing-data functions of xyzpy/gen/case_runner.py: which
   reductions is_case_missing applies, what it answers on KeyError, and which null
   criterion find_missing_cases / parse_into_cases hand down to it.  The translator
   harness/translator/gen_missing.py reads these choices from the source (Gen/GenMissing.v);
   the functions below are the DsMap functions with those choices left open, so that a
   source edit which changes a choice changes what the regenerated definitions compute.
   Executable, proof-free. *)
From XV Require Import Prelude Grid DsMap.
Open Scope Z_scope.

Inductive reducer := RAll | RAny.
(* a call site of is_case_missing passes method=method, or leaves the callee default *)
Inductive msrc := MForward | MDefault.

Record wiring := mk_wiring {
  w_reduce_cells : reducer;        (* sds.all() : over the positions of one variable *)
  w_reduce_vars : reducer;         (* nds.to_array().all() : over the variables *)
  w_keyerror_missing : bool;       (* except KeyError: return True *)
  w_default_method : Z;            (* default of is_case_missing's method parameter *)
  w_find_method : msrc;            (* find_missing_cases -> is_case_missing *)
  w_parse_method : msrc            (* parse_into_cases -> is_case_missing *)
}.

(* what Model/DsMap.v assumes *)
Definition model_wiring : wiring := mk_wiring RAll RAll true M_isnull MForward MForward.

Definition reduce {A} (r : reducer) (f : A -> bool) (l : list A) : bool :=
  match r with RAll => forallb f l | RAny => existsb f l end.

Definition eff_method (w : wiring) (src : msrc) (method : Z) : Z :=
  match src with MForward => method | MDefault => w_default_method w end.

Definition is_case_missing_w (w : wiring) (ds : dataset) (s : setting) (method : Z) : bool :=
  if sel_ok (d_dims ds) s
  then reduce (w_reduce_vars w)
              (fun v => reduce (w_reduce_cells w) (is_null method) (sel_cells (d_dims ds) s v)) (d_vars ds)
  else w_keyerror_missing w.

Definition find_missing_w (w : wiring) (ds : dataset) (ignore : list Z) (method : Z) : list (list Z) :=
  filter (fun loc => is_case_missing_w w ds (setting_of ds ignore loc) (eff_method w (w_find_method w) method))
         (grid ds ignore).

Definition parse_into_cases_w (w : wiring) (combos : list (Z * list Z)) (cases : list setting)
           (ds : option dataset) (method : Z) : list setting :=
  filter (fun s => match ds with
                   | None => true
                   | Some d => is_case_missing_w w d s (eff_method w (w_parse_method w) method)
                   end)
         (requested combos cases).

Definition enc_wiring (w : wiring) : val :=
  let r x := match x with RAll => VS "all" | RAny => VS "any" end in
  let s x := match x with MForward => VS "forwarded" | MDefault => VS "default" end in
  VL [r (w_reduce_cells w); r (w_reduce_vars w); vbool (w_keyerror_missing w); VZ (w_default_method w);
      s (w_find_method w); s (w_parse_method w)].
