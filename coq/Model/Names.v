(* File-name resolution (auto_add_extension), attribute coercion, and the path every
   save / load / merge / delete site actually touches (xyzpy/manage.py, farming.py). *)
From XV Require Import Prelude.
From Coq Require Import String.
Open Scope string_scope.

Inductive engine := Eh5netcdf | Enetcdf4 | Ejoblib | Ezarr.
Definition engine_eqb (a b : engine) : bool :=
  match a, b with
  | Eh5netcdf, Eh5netcdf | Enetcdf4, Enetcdf4 | Ejoblib, Ejoblib | Ezarr, Ezarr => true
  | _, _ => false
  end.

(* python `p in s` on strings *)
Fixpoint is_infix (p s : string) : bool :=
  if String.prefix p s then true
  else match s with EmptyString => false | String _ s' => is_infix p s' end.

Fixpoint ext_of (tbl : list (engine * string)) (e : engine) : string :=
  match tbl with
  | [] => ""
  | (e', x) :: rest => if engine_eqb e e' then x else ext_of rest e
  end.

Definition model_extensions : list (engine * string) :=
  [(Eh5netcdf, ".h5"); (Enetcdf4, ".nc"); (Ejoblib, ".dmp"); (Ezarr, ".zarr")].

Definition auto_add_extension (file_name : string) (e : engine) : string :=
  if negb (existsb (fun ke => is_infix (snd ke) file_name) model_extensions)
  then String.append file_name (ext_of model_extensions e) else file_name.

(* attribute values: the three singletons, strings (by id: 0 "None", 1 "True", 2 "False"), numbers *)
Inductive attr_val := ANone | ATrue | AFalse | AStr (id : Z) | ANum (z : Z).
Definition attr_coerce (e : engine) (a : attr_val) : attr_val :=
  match e with
  | Ejoblib | Ezarr => a
  | _ => match a with ANone => AStr 0 | ATrue => AStr 1 | AFalse => AStr 2 | other => other end
  end.

(* the dtype a variable is written with by a netCDF engine: xarray writes the on-disk dtype it REMEMBERS from an
   earlier load (variable.encoding["dtype"]) unless save_ds forgets it first.  The rule, as data: the kinds of
   remembered dtype and of data it looks at, whether it forgets exactly those remembered dtypes that cannot hold the
   data safely (numpy's can_cast(data, remembered, "safe")), unless the variable is packed (scale_factor /
   add_offset); it sits in the netCDF branch only (joblib pickles the data as it is; zarr is left alone). *)
Inductive dkind := KInt | KUInt | KFloat | KComplex | KBool | KStr.
Definition dkind_eqb (a b : dkind) : bool :=
  match a, b with
  | KInt, KInt | KUInt, KUInt | KFloat, KFloat | KComplex, KComplex | KBool, KBool | KStr, KStr => true
  | _, _ => false
  end.
Definition kmem (k : dkind) (l : list dkind) : bool := existsb (dkind_eqb k) l.
(* a dtype: its kind and its width in bits (8 .. 64) *)
Definition dtype := (dkind * Z)%type.
(* numpy.can_cast(from, to, "safe") on the bool / integer / unsigned / float / complex dtypes (complex: 64, 128 bits) *)
Definition safe_cast (from to : dtype) : bool :=
  let '(k1, b1) := from in let '(k2, b2) := to in
  match k1, k2 with
  | KBool, (KBool | KInt | KUInt | KFloat | KComplex) => true
  | KInt, KInt | KUInt, KUInt | KFloat, KFloat | KComplex, KComplex => (b1 <=? b2)%Z
  | KUInt, KInt => (b1 <? b2)%Z
  | (KInt | KUInt), KFloat => (((b1 <=? 16) && (32 <=? b2)) || (64 <=? b2))%Z
  | (KInt | KUInt), KComplex => (((b1 <=? 16) && (64 <=? b2)) || (128 <=? b2))%Z
  | KFloat, KComplex => (2 * b1 <=? b2)%Z
  | _, _ => false
  end.
(* the bool / integer / unsigned / float / complex dtypes numpy and netCDF share (float16 aside) *)
Definition all_numeric : list dtype :=
  [(KBool, 8); (KInt, 8); (KInt, 16); (KInt, 32); (KInt, 64); (KUInt, 8); (KUInt, 16); (KUInt, 32); (KUInt, 64);
   (KFloat, 32); (KFloat, 64); (KComplex, 64); (KComplex, 128)]%Z.
Record dtype_rule := mk_dtype_rule { dr_disk : list dkind; dr_data : list dkind; dr_unsafe_only : bool;
                                     dr_unless_packed : bool }.
Definition model_dtype_rule : dtype_rule :=
  mk_dtype_rule [KBool; KInt; KUInt; KFloat; KComplex] [KBool; KInt; KUInt; KFloat; KComplex] true true.
Definition forgets (r : dtype_rule) (remembered : dtype) (data : dtype) (packed : bool) : bool :=
  kmem (fst remembered) (dr_disk r) && kmem (fst data) (dr_data r)
  && (if dr_unsafe_only r then negb (safe_cast data remembered) else true)
  && negb (dr_unless_packed r && packed).
Definition written_dtype (r : dtype_rule) (e : engine) (remembered : option dtype) (data : dtype) (packed : bool) : dtype :=
  match e, remembered with
  | Ejoblib, _ => data
  | Ezarr, Some k => k
  | _, Some k => if forgets r k data packed then data else k
  | _, None => data
  end.
Definition enc_dkind (k : dkind) : val :=
  VS (match k with KInt => "i" | KUInt => "u" | KFloat => "f" | KComplex => "c" | KBool => "b" | KStr => "U" end)%string.
Definition enc_dtype (d : dtype) : val := VL [enc_dkind (fst d); VZ (snd d)].

(* how a site derives the path it touches from the user's data name *)
Inductive path_expr := PRaw | PResolved | PRawTmp | PResolvedTmp.
Record sites := {
  p_save_ds_write : path_expr;
  p_load_ds_open : path_expr;
  p_merge_exists : path_expr;
  p_merge_load : path_expr;            (* argument handed to load_ds (which resolves it itself) *)
  p_merge_save : path_expr;
  p_merge_load_passes_engine : bool;
  p_hload_access : path_expr;
  p_hload_load : path_expr;
  p_hsave_tmp_write : path_expr;
  p_hsave_replace_dst : path_expr;
  p_hsave_removes_first : bool;
  p_hdelete : path_expr
}.
Definition model_sites : sites :=
  {| p_save_ds_write := PResolved; p_load_ds_open := PResolved;
     p_merge_exists := PResolved; p_merge_load := PRaw; p_merge_save := PRaw;
     p_merge_load_passes_engine := true;
     p_hload_access := PResolved; p_hload_load := PRaw;
     p_hsave_tmp_write := PResolvedTmp; p_hsave_replace_dst := PResolved;
     p_hsave_removes_first := false; p_hdelete := PResolved |}.

(* the path a site touches; [callee_resolves]: the argument goes to save_ds / load_ds, which
   resolve the name themselves *)
Definition path_of (x : path_expr) (callee_resolves : bool) (name : string) (e : engine) : string :=
  let base := match x with
              | PRaw => name | PResolved => auto_add_extension name e
              | PRawTmp => name ++ ".tmp" | PResolvedTmp => auto_add_extension name e ++ ".tmp"
              end in
  if callee_resolves then auto_add_extension base e else base.
