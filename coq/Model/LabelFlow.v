(* The statement-level shape of results_to_df / results_to_ds (xyzpy/gen/combo_runner.py) as DATA
   (regenerated into Gen/GenLabel.v) and interpreters of that data that, on the model shape, are
   Label.df_row / Label.to_ds (Bridge/BridgeLabel.v).  Executable, proof-free. *)
From XV Require Import Prelude Grid Perm Runner Label.
Open Scope Z_scope.

Inductive row_step := RDropResources | RUpdateAttrs | RUpdateOutputs.
Inductive coord_src := CoCombos | CoVarCoords.
Inductive attr_target := TDatasetOwn | TCallerMapping.      (* whose mapping receives the constants *)
Inductive const_rule := KDimToCoordElseAttr | KAlwaysAttr | KAlwaysCoord.

Record label_flow := mk_label_flow {
  lf_row_pairs_zip : bool;             (* for row, result in zip(settings, results_linear) *)
  lf_row_steps : list row_step;
  lf_row_scalar_fallback : bool;       (* TypeError: a single bare result *)
  lf_count_checked : bool;             (* len(results) != len(var_names) raises *)
  lf_coord_order : list coord_src;     (* coords={**dict(combos), **dict(var_coords)} *)
  lf_dims_args_first : bool;           (* fn_args + var_dims[name] *)
  lf_zip_results_names : bool;         (* for data, name in zip(results, var_names) *)
  lf_attrs_copied : bool;              (* ds.attrs = attrs: xarray stores a copy *)
  lf_const_rule : const_rule;
  lf_const_target : attr_target }.

Definition model_label_flow : label_flow :=
  mk_label_flow true [RDropResources; RUpdateAttrs; RUpdateOutputs] true true [CoCombos; CoVarCoords] true true
                true KDimToCoordElseAttr TDatasetOwn.

Section Flow.
  Context {R : Type}.
  Variable comps : R -> list R.

  Definition row_step_run (resources : list Z) (attrs : kwargs) (var_names : list Z) (r : R)
             (acc : kwargs * list (Z * R)) (st : row_step) : kwargs * list (Z * R) :=
    match st with
    | RDropResources => (drop_keys resources (fst acc), snd acc)
    | RUpdateAttrs => (kw_update (fst acc) attrs, snd acc)
    | RUpdateOutputs => (fst acc, snd acc ++ out_cols comps var_names r)
    end.
  Definition df_row_flow (lf : label_flow) (resources : list Z) (attrs : kwargs) (var_names : list Z)
             (s : kwargs) (r : R) : kwargs * list (Z * R) :=
    fold_left (row_step_run resources attrs var_names r) (lf_row_steps lf) (s, []).

  (* the Dataset description with the coordinate order, dimension order and constant rule taken from the flow;
     [caller] is the attrs mapping of the CALLER after the call (for runs that share one mapping) *)
  Definition to_ds_flow (lf : label_flow) (var_names : list Z) (var_dims var_coords : list (Z * list Z))
             (constants attrs : kwargs) (args : list Z) (coords : list (list Z)) (o : out R)
    : res (@dsm R * kwargs) :=
    match to_ds var_names var_dims var_coords constants attrs args coords o with
    | Err e => Err e
    | Ok d =>
        let all_dims := args ++ flat_map snd var_dims ++ map fst var_coords in
        let is_dim k := mem k all_dims in
        let cs := flat_map (fun c => match c with CoCombos => combine args coords | CoVarCoords => var_coords end)
                           (lf_coord_order lf) in
        let vs := map (fun v => (fst v, ((if lf_dims_args_first lf then args ++ lookup_dims var_dims (fst v)
                                          else lookup_dims var_dims (fst v) ++ args), snd (snd v)))) (dm_vars d) in
        let to_attr := match lf_const_rule lf with
                       | KDimToCoordElseAttr => filter (fun av => negb (is_dim (fst av))) constants
                       | KAlwaysAttr => constants | KAlwaysCoord => [] end in
        let to_coord := match lf_const_rule lf with
                        | KDimToCoordElseAttr => filter (fun av => is_dim (fst av)) constants
                        | KAlwaysAttr => [] | KAlwaysCoord => constants end in
        let ats := kw_update attrs to_attr in
        (* constants written into the caller's mapping leak into it when the Dataset shares it *)
        let caller := match lf_const_target lf, lf_attrs_copied lf with
                      | TDatasetOwn, true => attrs
                      | _, _ => match attrs with [] => [] | _ => ats end
                      end in
        Ok (mk_dsm cs vs ats to_coord, caller)
    end.
End Flow.
