(* The selection logic of gen_cluster_script (which template pieces are concatenated, the array
   range written into the header, the batch ids placed in the embedded program, the PBS
   single-element rewrite), what the resulting script grows when it is run once per array index
   (or once), and the executable well-formedness check of the template strings.
   Executable and proof-free. *)
From XV Require Import Prelude.
Open Scope Z_scope.
Delimit Scope string_scope with string.
Delimit Scope char_scope with char.

Inductive scheduler := SGE | PBS | SLURM.
Inductive mode := MArray | MSingle.
Inductive array_mode := AAll | APartial.

(* the value stored under opts["batch_ids"]: a concrete tuple / range, or (single mode, no ids
   requested) the text of an expression evaluated when the script runs *)
Inductive ids_expr := IdsList (l : list Z) | IdsDynamic.

(* the template constants of cropping.py, one enumerator each *)
Inductive piece :=
| PSgeHeader | PSgeArrayHeader | PPbsHeader | PPbsArrayHeader | PSlurmHeader | PSlurmArrayHeader
| PBase
| PSgeAll | PPbsAll | PSlurmAll
| PSgePartial | PPbsPartial | PSlurmPartial
| PSingle
| PEnd.

Definition all_pieces : list piece :=
  [PSgeHeader; PSgeArrayHeader; PPbsHeader; PPbsArrayHeader; PSlurmHeader; PSlurmArrayHeader; PBase;
   PSgeAll; PPbsAll; PSlurmAll; PSgePartial; PPbsPartial; PSlurmPartial; PSingle; PEnd].

Definition sched_eqb (a b : scheduler) : bool :=
  match a, b with SGE, SGE | PBS, PBS | SLURM, SLURM => true | _, _ => false end.
Definition mode_eqb (a b : mode) : bool :=
  match a, b with MArray, MArray | MSingle, MSingle => true | _, _ => false end.
Definition amode_eqb (a b : array_mode) : bool :=
  match a, b with AAll, AAll | APartial, APartial => true | _, _ => false end.

Definition dynamic_expr : string := "crop.missing_results()"%string.

(* Python's len of the value under opts["batch_ids"]; for the dynamic case it is the length
   of the expression TEXT (the code really takes len of that str) *)
Definition ids_len (e : ids_expr) : Z :=
  match e with
  | IdsList l => Z.of_nat (length l)
  | IdsDynamic => Z.of_nat (String.length dynamic_expr)
  end.

(* range(a, b) *)
Definition zrange (a b : Z) : list Z := zseq a (Z.to_nat (b - a)).
Definition req_ids (o : option (list Z)) : list Z := match o with Some l => l | None => [] end.

(* the batch_ids ARGUMENT of gen_cluster_script as the caller spells it: absent, a single int
   (documented: "int or tuple[int]"), or a sequence of ints *)
Inductive ids_arg := ArgNone | ArgInt (z : Z) | ArgList (l : list Z).
Definition arg_is_some (a : ids_arg) : bool := match a with ArgNone => false | _ => true end.
Definition arg_is_int (a : ids_arg) : bool := match a with ArgInt _ => true | _ => false end.
(* the Python expression (batch_ids,) evaluated where batch_ids is an int *)
Definition arg_singleton (a : ids_arg) : ids_arg := match a with ArgInt z => ArgList [z] | _ => a end.
(* tuple(batch_ids): of a sequence its elements; of an int Python raises TypeError (no ids) *)
Definition arg_ids (a : ids_arg) : list Z := match a with ArgList l => l | _ => [] end.
(* what the request means: an int denotes the one-element list *)
Definition norm_ids (a : ids_arg) : option (list Z) :=
  match a with ArgNone => None | ArgInt z => Some [z] | ArgList l => Some l end.
Definition opt_is_some {A} (o : option A) : bool := match o with Some _ => true | None => false end.

Record selection := mk_sel {
  s_amode : array_mode;
  s_run_start : option Z;       (* opts["run_start"]; None = key absent (single mode) *)
  s_run_stop : option Z;
  s_ids : ids_expr;
  s_pieces : list piece;        (* concatenated in this order, then formatted with opts *)
  s_rewrite : bool              (* the PBS single-element rewrite is applied to the text *)
}.

Definition header (sc : scheduler) : piece :=
  match sc with SGE => PSgeHeader | PBS => PPbsHeader | SLURM => PSlurmHeader end.
Definition array_header (sc : scheduler) : piece :=
  match sc with SGE => PSgeArrayHeader | PBS => PPbsArrayHeader | SLURM => PSlurmArrayHeader end.
Definition grow_all (sc : scheduler) : piece :=
  match sc with SGE => PSgeAll | PBS => PPbsAll | SLURM => PSlurmAll end.
Definition grow_partial (sc : scheduler) : piece :=
  match sc with SGE => PSgePartial | PBS => PPbsPartial | SLURM => PSlurmPartial end.

(* ---- the hand model of gen_cluster_script's selection ---- *)
Definition select (sc : scheduler) (md : mode) (bids : option (list Z)) (nres : Z)
           (missing : list Z) (B : Z) : selection :=
  let ids0 := match bids with
              | Some l => IdsList l
              | None => if nres =? 0 then IdsList (zrange 1 (B + 1)) else IdsList missing
              end in
  let am := match bids with
            | Some _ => APartial
            | None => if nres =? 0 then AAll else APartial
            end in
  match md with
  | MArray =>
      mk_sel am (Some 1) (Some (match am with AAll => B | APartial => ids_len ids0 end)) ids0
             [header sc; array_header sc; PBase;
              match am with AAll => grow_all sc | APartial => grow_partial sc end; PEnd]
             (sched_eqb sc PBS && (ids_len ids0 =? 1))
  | MSingle =>
      let ids := match bids with Some _ => ids0 | None => IdsDynamic end in
      mk_sel am None None ids [header sc; PBase; PSingle; PEnd]
             (sched_eqb sc PBS && (ids_len ids =? 1))
  end.

(* ---- what the generated script does ---- *)

(* the rewrite drops the line "#PBS -J 1-1" and replaces the index variable by this constant *)
Definition rewrite_value : Z := 1.

(* the array range the scheduler reads from the header; None: no array line in the script *)
Definition header_range (s : selection) : option (Z * Z) :=
  match s_run_start s, s_run_stop s with
  | Some a, Some b =>
      if existsb (fun p => match p with PSgeArrayHeader | PPbsArrayHeader | PSlurmArrayHeader => true
                                   | _ => false end) (s_pieces s)
      then (if s_rewrite s && (a =? 1) && (b =? 1) then None else Some (a, b))
      else None
  | _, _ => None
  end.

(* the executions of the script: one per index of the header range (the scheduler sets the index
   variable), or a single execution with no index variable *)
Definition runs (s : selection) : list (option Z) :=
  match header_range s with
  | Some (a, b) => map Some (zseq a (Z.to_nat (b - a + 1)))
  | None => [None]
  end.

(* the value the embedded program sees where the template has the index variable *)
Definition index_value (s : selection) (r : option Z) : option Z :=
  if s_rewrite s then Some rewrite_value else r.

(* Python's l[i] *)
Definition py_index (l : list Z) (i : Z) : option Z :=
  let n := Z.of_nat (length l) in
  if 0 <=? i then nth_error l (Z.to_nat i)
  else if 0 <=? n + i then nth_error l (Z.to_nat (n + i)) else None.

Inductive grow_kind := GIndex | GLookup | GList.
Definition grow_kind_of (p : piece) : option grow_kind :=
  match p with
  | PSgeAll | PPbsAll | PSlurmAll => Some GIndex              (* grow(INDEX, ...) *)
  | PSgePartial | PPbsPartial | PSlurmPartial => Some GLookup (* grow(batch_ids[INDEX - 1], ...) *)
  | PSingle => Some GList                                     (* crop.grow(batch_ids, ...) *)
  | _ => None
  end.

(* batch ids grown by one execution; [missing] is what crop.missing_results() returns when the
   script runs.  A program with no index value, or an index outside the tuple, raises and
   grows nothing *)
Definition grown_by_run (s : selection) (missing : list Z) (r : option Z) : list Z :=
  flat_map (fun p =>
    match grow_kind_of p with
    | None => []
    | Some GList => match s_ids s with IdsList l => l | IdsDynamic => missing end
    | Some GIndex => match index_value s r with Some t => [t] | None => [] end
    | Some GLookup =>
        match index_value s r, s_ids s with
        | Some t, IdsList l => match py_index l (t - 1) with Some i => [i] | None => [] end
        | _, _ => []
        end
    end) (s_pieces s).

Definition tasks_grown (s : selection) (missing : list Z) : list Z :=
  flat_map (grown_by_run s missing) (runs s).

(* the batches the caller intends to have grown *)
Definition intended (bids : option (list Z)) (nres : Z) (missing : list Z) (B : Z) : list Z :=
  match bids with
  | Some l => l
  | None => if nres =? 0 then zrange 1 (B + 1) else missing
  end.

(* canonical observations for the correspondence *)
Definition enc_opt (o : option Z) : val := match o with Some z => VZ z | None => VN end.
Definition enc_range (o : option (Z * Z)) : val :=
  match o with Some (a, b) => VL [VZ a; VZ b] | None => VN end.
Definition enc_ids (e : ids_expr) : val :=
  match e with IdsList l => VL (map VZ l) | IdsDynamic => VS dynamic_expr end.
Definition piece_id (p : piece) : Z :=
  match p with
  | PSgeHeader => 0 | PSgeArrayHeader => 1 | PPbsHeader => 2 | PPbsArrayHeader => 3
  | PSlurmHeader => 4 | PSlurmArrayHeader => 5 | PBase => 6 | PSgeAll => 7 | PPbsAll => 8
  | PSlurmAll => 9 | PSgePartial => 10 | PPbsPartial => 11 | PSlurmPartial => 12 | PSingle => 13
  | PEnd => 14
  end.
(* what can be read off the final script text *)
Definition shows_ids (s : selection) : bool :=
  existsb (fun p => match grow_kind_of p with Some GLookup | Some GList => true | _ => false end) (s_pieces s).
Definition uses_index (s : selection) : bool :=
  existsb (fun p => match grow_kind_of p with Some GIndex | Some GLookup => true | _ => false end) (s_pieces s).
Definition is_array_header (p : piece) : bool :=
  match p with PSgeArrayHeader | PPbsArrayHeader | PSlurmArrayHeader => true | _ => false end.
Definition visible_pieces (s : selection) : list piece :=
  match header_range s with
  | Some _ => s_pieces s
  | None => filter (fun p => negb (is_array_header p)) (s_pieces s)
  end.
(* [header range; ids written into the program (if it has an ids line); is the index a constant
   (if the program uses an index); per execution the ids grown; pieces recognisable in the text] *)
Definition enc_script (s : selection) (missing : list Z) : val :=
  VL [enc_range (header_range s);
      if shows_ids s then enc_ids (s_ids s) else VN;
      if uses_index s then vbool (s_rewrite s) else VN;
      VL (map (fun r => VL (map VZ (grown_by_run s missing r))) (runs s));
      VL (map (fun p => VZ (piece_id p)) (visible_pieces s))].

(* ================= template strings ================= *)
Open Scope string_scope.
Definition nl : string := String.String (Ascii.ascii_of_nat 10) String.EmptyString.
Notation "a +++ b" := (String.append a b) (at level 60, right associativity).

Fixpoint prefixb (p s : string) : bool :=
  match p with
  | String.EmptyString => true
  | String.String c p' =>
      match s with
      | String.EmptyString => false
      | String.String d s' => Ascii.eqb c d && prefixb p' s'
      end
  end.
Fixpoint containsb (needle s : string) : bool :=
  prefixb needle s ||
  match s with String.EmptyString => false | String.String _ s' => containsb needle s' end.
Fixpoint drop (n : nat) (s : string) : string :=
  match n, s with
  | S k, String.String _ s' => drop k s'
  | _, _ => s
  end.
(* the text after the first occurrence of [marker]; None if it does not occur *)
Fixpoint after (marker s : string) : option string :=
  if prefixb marker s then Some (drop (String.length marker) s)
  else match s with String.EmptyString => None | String.String _ s' => after marker s' end.

(* str.format tokens: literal characters and replacement fields {name} / {name:spec};
   doubled braces are literals; anything else with braces is malformed (None) *)
Inductive tok := TLit (c : Ascii.ascii) | TField (name spec : string).
Inductive fstate := FOut | FName (nm : string) | FSpec (nm sp : string).
Definition snoc (s : string) (c : Ascii.ascii) : string := s +++ String.String c String.EmptyString.

Fixpoint tokens_from (st : fstate) (s : string) : option (list tok) :=
  match s with
  | String.EmptyString => match st with FOut => Some [] | _ => None end
  | String.String c rest =>
      match st with
      | FOut =>
          if Ascii.eqb c "{" then
            match rest with
            | String.String d rest' =>
                if Ascii.eqb d "{"
                then option_map (cons (TLit c)) (tokens_from FOut rest')
                else tokens_from (FName String.EmptyString) rest
            | String.EmptyString => None
            end
          else if Ascii.eqb c "}" then
            match rest with
            | String.String d rest' =>
                if Ascii.eqb d "}"
                then option_map (cons (TLit c)) (tokens_from FOut rest')
                else None
            | String.EmptyString => None
            end
          else option_map (cons (TLit c)) (tokens_from FOut rest)
      | FName nm =>
          if Ascii.eqb c "}" then option_map (cons (TField nm String.EmptyString)) (tokens_from FOut rest)
          else if Ascii.eqb c ":" then tokens_from (FSpec nm String.EmptyString) rest
          else if Ascii.eqb c "{" then None
          else tokens_from (FName (snoc nm c)) rest
      | FSpec nm sp =>
          if Ascii.eqb c "}" then option_map (cons (TField nm sp)) (tokens_from FOut rest)
          else if Ascii.eqb c "{" then None
          else tokens_from (FSpec nm (snoc sp c)) rest
      end
  end.
Definition tokens (s : string) : option (list tok) := tokens_from FOut s.

Definition fields (ts : list tok) : list string :=
  flat_map (fun t => match t with TField n _ => [n] | TLit _ => [] end) ts.
Definition str_mem (x : string) (l : list string) : bool := existsb (String.eqb x) l.

(* str.format with an environment of already formatted values (format specs ignored) *)
Fixpoint lookup_str (k : string) (env : list (string * string)) : option string :=
  match env with
  | [] => None
  | (k', v) :: rest => if String.eqb k k' then Some v else lookup_str k rest
  end.
Fixpoint render_toks (env : list (string * string)) (ts : list tok) : option string :=
  match ts with
  | [] => Some String.EmptyString
  | TLit c :: rest => option_map (String.String c) (render_toks env rest)
  | TField n _ :: rest =>
      match lookup_str n env, render_toks env rest with
      | Some v, Some r => Some (v +++ r)
      | _, _ => None
      end
  end.
Definition render (env : list (string * string)) (s : string) : option string :=
  match tokens s with Some ts => render_toks env ts | None => None end.

(* brackets and quotes of Python source, line by line: every line closes what it opens (each
   statement of the templates is one line), replacement fields count as a bracket pair *)
Definition closer (c : Ascii.ascii) : option Ascii.ascii :=
  if Ascii.eqb c "(" then Some ")"%char
  else if Ascii.eqb c "[" then Some "]"%char
  else if Ascii.eqb c "{" then Some "}"%char
  else None.
Definition is_closer (c : Ascii.ascii) : bool :=
  Ascii.eqb c ")" || Ascii.eqb c "]" || Ascii.eqb c "}".
Definition is_nl (c : Ascii.ascii) : bool := Ascii.eqb c (Ascii.ascii_of_nat 10).
Definition is_quote (c : Ascii.ascii) : bool := Ascii.eqb c "'" || Ascii.eqb c (Ascii.ascii_of_nat 34).

(* [stack]: expected closers; [q]: the open quote character; [cm]: inside a comment *)
Fixpoint balanced_from (stack : list Ascii.ascii) (q : option Ascii.ascii) (cm : bool) (s : string) : bool :=
  match s with
  | String.EmptyString => match stack, q with [], None => true | _, _ => false end
  | String.String c rest =>
      if is_nl c then
        match stack, q with [], None => balanced_from [] None false rest | _, _ => false end
      else if cm then balanced_from stack q cm rest
      else match q with
           | Some qc => if Ascii.eqb c qc then balanced_from stack None false rest
                        else balanced_from stack q false rest
           | None =>
               if is_quote c then balanced_from stack (Some c) false rest
               else if Ascii.eqb c "#" then balanced_from stack None true rest
               else match closer c with
                    | Some cl => balanced_from (cl :: stack) None false rest
                    | None =>
                        if is_closer c then
                          match stack with
                          | top :: stack' => if Ascii.eqb c top then balanced_from stack' None false rest else false
                          | [] => false
                          end
                        else balanced_from stack None false rest
                    end
           end
  end.
Definition balanced (s : string) : bool := balanced_from [] None false s.

(* the line that opens the here-document holding the Python program, and the one closing it *)
Definition heredoc_open : string := "read -r -d '' SCRIPT << EOM" +++ nl.
Definition heredoc_close : string := "EOM" +++ nl.

(* the part of a template that ends up inside the Python program *)
Definition python_part (p : piece) (s : string) : option string :=
  match p with
  | PBase => after heredoc_open s
  | PSgeAll | PPbsAll | PSlurmAll | PSgePartial | PPbsPartial | PSlurmPartial | PSingle => Some s
  | _ => Some String.EmptyString
  end.

(* pieces only ever used in array mode (where run_start / run_stop are supplied) *)
Definition array_only (p : piece) : bool :=
  match p with
  | PSgeArrayHeader | PPbsArrayHeader | PSlurmArrayHeader
  | PSgeAll | PPbsAll | PSlurmAll | PSgePartial | PPbsPartial | PSlurmPartial => true
  | _ => false
  end.

Definition index_var (sc : scheduler) : string :=
  match sc with SGE => "$SGE_TASK_ID" | PBS => "$PBS_ARRAY_INDEX" | SLURM => "$SLURM_ARRAY_TASK_ID" end.
Definition range_line (sc : scheduler) : string :=
  match sc with
  | SGE => "#$ -t {run_start}-{run_stop}" +++ nl
  | PBS => "#PBS -J {run_start}-{run_stop}" +++ nl
  | SLURM => "#SBATCH --array={run_start}-{run_stop}" +++ nl
  end.
Definition ids_line : string := "    batch_ids = {batch_ids}" +++ nl.

(* text each template must contain for [grow_kind_of] / [header_range] to describe it *)
Definition requires (p : piece) : list string :=
  match p with
  | PSgeArrayHeader => [range_line SGE] | PPbsArrayHeader => [range_line PBS]
  | PSlurmArrayHeader => [range_line SLURM]
  | PSgeAll => ["    grow(" +++ index_var SGE +++ ", **grow_kwargs)" +++ nl]
  | PPbsAll => ["    grow(" +++ index_var PBS +++ ", **grow_kwargs)" +++ nl]
  | PSlurmAll => ["    grow(" +++ index_var SLURM +++ ", **grow_kwargs)" +++ nl]
  | PSgePartial => [ids_line; "    grow(batch_ids[" +++ index_var SGE +++ " - 1], **grow_kwargs)" +++ nl]
  | PPbsPartial => [ids_line; "    grow(batch_ids[" +++ index_var PBS +++ " - 1], **grow_kwargs)" +++ nl]
  | PSlurmPartial => [ids_line; "    grow(batch_ids[" +++ index_var SLURM +++ " - 1], **grow_kwargs)" +++ nl]
  | PSingle => [ids_line; "    crop.grow(batch_ids, "]
  | PBase => [heredoc_open; "    crop = Crop(name='{name}', parent_dir='{parent_dir}')" +++ nl]
  | PEnd => ["{launcher} -c ""$SCRIPT""" +++ nl]
  | _ => []
  end.
(* text a template must start with *)
Definition starts (p : piece) : string :=
  match p with
  | PEnd => heredoc_close
  | PSgeHeader | PPbsHeader | PSlurmHeader => "#!/bin/bash"
  | _ => String.EmptyString
  end.
(* the index variables may only occur where [requires] says: once, in the array grow piece of
   their own scheduler (the PBS rewrite replaces every occurrence in the whole script) *)
Fixpoint count_sub (needle s : string) : nat :=
  (if prefixb needle s then 1 else 0)%nat +
  match s with String.EmptyString => O | String.String _ s' => count_sub needle s' end.
Definition var_uses (p : piece) (sc : scheduler) : nat :=
  match p, sc with
  | PSgeAll, SGE | PSgePartial, SGE | PPbsAll, PBS | PPbsPartial, PBS
  | PSlurmAll, SLURM | PSlurmPartial, SLURM => 1%nat
  | _, _ => O
  end.

(* [base]: keys of the opts dict literal; [idk]: the key every branch assigns (batch_ids);
   [arr]: keys assigned in array mode only *)
Definition template_ok (base idk arr : list string) (ps : piece * string) : bool :=
  let '(p, s) := ps in
  match tokens s, python_part p s with
  | Some ts, Some py =>
      forallb (fun f => str_mem f (app base (app idk (if array_only p then arr else [])))) (fields ts)
      && balanced py
      && forallb (fun r => containsb r s) (requires p)
      && prefixb (starts p) s
      && forallb (fun sc => Nat.eqb (count_sub (index_var sc) s) (var_uses p sc)) [SGE; PBS; SLURM]
  | _, _ => false
  end.

(* the rewrite of gen_cluster_script: (line dropped, variable replaced, replacement) must be the
   PBS array line rendered for the range 1-1, the PBS index variable, and the text of
   [rewrite_value] *)
Definition rewrite_ok (pbs_array_header drop var val : string) : bool :=
  match render [("run_start", "1"); ("run_stop", "1")] pbs_array_header with
  | Some line => String.eqb line drop
  | None => false
  end
  && String.eqb var (index_var PBS) && String.eqb val "1".

(* the command line grower *)
(* what the CLI does with the crop it opens, and which ids Crop.grow_missing hands to Crop.grow *)
Inductive cli_action := CliGrowMissing | CliOther.
Inductive grow_missing_ids := GmMissingResults | GmOther.
