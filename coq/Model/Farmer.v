(* How a farmer's crop and a direct run describe their labelled output: the source of every
   argument of the Dataset / DataFrame builder, resolved against a runner's fields. *)
From XV Require Import Prelude.

Inductive arg_src :=
| AVarNames | AVarDims | AVarCoords | AConstants | AAttrs | AEmpty | AToDf | AParse | AFalse
| RVarNames | RVarDims | RVarCoords | RConstants | RAttrs | RResources | RConstantsPlusCall
| ASavedCombos | ASavedCases | ASavedShuffle | AReapFn | AFn | ACombos | ACases | AFnArgs.

Record call_args := {
  ca_var_names : arg_src; ca_var_dims : arg_src; ca_var_coords : arg_src;
  ca_constants : arg_src; ca_resources : arg_src; ca_attrs : arg_src; ca_parse : arg_src }.

Inductive const_src := CResources | CRunnerConstants | CCallConstants.

(* which runner field (or call-time value) finally reaches each argument of the builder:
   resolve a callee's argument through the caller's call *)
Inductive field := FVarNames | FVarDims | FVarCoords | FConstants | FConstantsPlusCall | FAttrs | FResources
                 | FEmpty | FUnknown.

Definition resolve (outer : call_args) (a : arg_src) : field :=
  let via x := match x with
               | RVarNames => FVarNames | RVarDims => FVarDims | RVarCoords => FVarCoords
               | RConstants => FConstants | RConstantsPlusCall => FConstantsPlusCall
               | RAttrs => FAttrs | RResources => FResources | AEmpty => FEmpty | _ => FUnknown end in
  match a with
  | AVarNames => via (ca_var_names outer) | AVarDims => via (ca_var_dims outer)
  | AVarCoords => via (ca_var_coords outer) | AConstants => via (ca_constants outer)
  | AAttrs => via (ca_attrs outer) | x => via x
  end.

(* the description the Dataset builder finally receives *)
Definition description (outer inner : call_args) : list field :=
  [resolve outer (ca_var_names inner); resolve outer (ca_var_dims inner); resolve outer (ca_var_coords inner);
   resolve outer (ca_constants inner); resolve outer (ca_attrs inner)].

Definition identity_call : call_args :=
  {| ca_var_names := AVarNames; ca_var_dims := AVarDims; ca_var_coords := AVarCoords;
     ca_constants := AConstants; ca_resources := AEmpty; ca_attrs := AAttrs; ca_parse := AParse |}.

(* the model: what cropping.py / farming.py are meant to pass *)
Definition model_reap_to_ds_call : call_args :=
  {| ca_var_names := AVarNames; ca_var_dims := AVarDims; ca_var_coords := AVarCoords;
     ca_constants := AConstants; ca_resources := AEmpty; ca_attrs := AAttrs; ca_parse := AParse |}.
(* the constants a crop describes its data with: the runner's, overridden by those given at sow time (recorded
   with the crop) -- the same precedence as the call-time constants of a direct run *)
Definition model_reap_runner_call : call_args :=
  {| ca_var_names := RVarNames; ca_var_dims := RVarDims; ca_var_coords := RVarCoords;
     ca_constants := RConstantsPlusCall; ca_resources := AEmpty; ca_attrs := RAttrs; ca_parse := AFalse |}.
Definition model_run_combos_call : call_args :=
  {| ca_var_names := RVarNames; ca_var_dims := RVarDims; ca_var_coords := RVarCoords;
     ca_constants := RConstantsPlusCall; ca_resources := RResources; ca_attrs := RAttrs; ca_parse := AFalse |}.

(* names of call sites in generated tables *)
Definition site (s : string) : string := s.
Arguments site s%string_scope.
