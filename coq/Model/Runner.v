(* Transcription of combo_runner_core (xyzpy/gen/combo_runner.py).
   Arguments and values are integers (the harness maps argument names to ids and swept
   values to integers that preserve their Python order); the swept function is abstract. *)
From XV Require Import Prelude Grid Perm.
Open Scope Z_scope.

Definition kwargs := list (Z * Z).          (* (argument id, value) in dict order *)

(* a slot of the output grid: a computed result, or the all-missing placeholder
   (which the code derives from the reference result [like]) *)
Inductive cell (R : Type) := Got (r : R) | Hole (like : R).
Arguments Got {R} r.
Arguments Hole {R} like.

Inductive out (R : Type) :=
| OFlat (l : list R)
| ONest (n : nest (cell R))
| OSplit (l : list (out R))
| ORejected.
Arguments OFlat {R} l.
Arguments ONest {R} n.
Arguments OSplit {R} l.
Arguments ORejected {R}.

Record input := mk_input {
  i_has_cases : bool;
  i_case_args : list Z;
  i_case_values : list (list Z);      (* one tuple of values per case *)
  i_combo_args : list Z;
  i_combo_values : list (list Z);     (* one list of values per swept argument *)
  i_consts : kwargs;
  i_split : bool;
  i_flat : bool;
  i_perm : option (list nat)          (* None: not shuffled *)
}.

(* sorted(set(...)) on integers *)
Fixpoint zinsert (x : Z) (l : list Z) : list Z :=
  match l with
  | [] => [x]
  | y :: l' => if x <? y then x :: l else if x =? y then l else y :: zinsert x l'
  end.
Definition sort_dedup (l : list Z) : list Z := fold_right zinsert [] l.

Definition mem (x : Z) (l : list Z) : bool := existsb (Z.eqb x) l.
Definition disjointb (a b : list Z) : bool := forallb (fun x => negb (mem x b)) a.

(* python zip-star of ls *)
Fixpoint heads {A} (ls : list (list A)) : option (list A) :=
  match ls with
  | [] => Some []
  | [] :: _ => None
  | (x :: _) :: rest => match heads rest with Some hs => Some (x :: hs) | None => None end
  end.
Fixpoint zip_star_fuel {A} (k : nat) (ls : list (list A)) : list (list A) :=
  match k with
  | O => []
  | S k' => match heads ls with
            | None => []
            | Some hs => hs :: zip_star_fuel k' (map (@tl A) ls)
            end
  end.
Definition zip_star {A} (ls : list (list A)) : list (list A) :=
  match ls with [] => [] | l :: _ => zip_star_fuel (length l) ls end.

Section Core.
  Context {R : Type}.
  Variable f : kwargs -> R.                 (* the swept function *)
  Variable comps : R -> list R.             (* a tuple result seen as its components (split) *)

  Definition eff_case_values (i : input) : list (list Z) :=
    if i_has_cases i then i_case_values i else [[]].
  Definition eff_case_args (i : input) : list Z :=
    if i_has_cases i then i_case_args i else [].

  Definition fn_args (i : input) : list Z := eff_case_args i ++ i_combo_args i.

  (* key location of every setting, cases outermost, itertools.product order inside *)
  Definition locs (i : input) : list (list Z) :=
    flat_map (fun cp => map (app cp) (product (i_combo_values i))) (eff_case_values i).

  Definition kw_of (i : input) (loc : list Z) : kwargs := combine (fn_args i) loc ++ i_consts i.

  Definition settings (i : input) : list kwargs := map (kw_of i) (locs i).

  (* the order in which the function is actually run *)
  Definition run_order (i : input) : list kwargs :=
    match i_perm i with
    | None => settings i
    | Some p => shuffled (settings i) p []
    end.

  (* results in the original order, after the sorted(zip(enum, ...)) un-shuffle *)
  Definition results_linear (i : input) : list R :=
    let rs := map f (run_order i) in
    match i_perm i with None => rs | Some p => unshuffle p rs end.

  (* union of the case values per case argument, sorted *)
  Definition case_coords (i : input) : list (list Z) :=
    map (fun j => sort_dedup (map (fun cv => nth j cv 0) (eff_case_values i)))
        (seq 0 (length (eff_case_args i))).

  Definition all_combo_values (i : input) : list (list Z) := case_coords i ++ i_combo_values i.

  Definition process (i : input) (r : list R) : out R :=
    if i_flat i then OFlat r
    else
      let store := combine (locs i) (map (fun x => Leaf (Got x)) r) in
      match r with
      | [] => ORejected          (* unreachable: there is always at least one setting *)
      | r0 :: _ =>
          if i_has_cases i
          then ONest (unflatten store (all_combo_values i) (Leaf (Hole r0)))
          else ONest (unflatten store (i_combo_values i) (Leaf (Hole r0)))
      end.

  (* everything after the runs: un-shuffle the results (given in run order) and arrange them.
     Also what a reap does with the results read back from disk. *)
  Definition finish (i : input) (rs_run : list R) : out R :=
    let rl := match i_perm i with None => rs_run | Some p => unshuffle p rs_run end in
    if i_split i then OSplit (map (process i) (zip_star (map comps rl))) else process i rl.

  (* output and call log (sequential execution; an executor permutes the log only) *)
  Definition core (i : input) : out R * list kwargs :=
    if negb (disjointb (eff_case_args i) (i_combo_args i)) then (ORejected, [])
    else
      let rl := results_linear i in
      let o := if i_split i
               then OSplit (map (process i) (zip_star (map comps rl)))
               else process i rl in
      (o, run_order i).

  (* info side channel *)
  Definition info_settings (i : input) : list kwargs := settings i.

  (* parse_combos refuses a grid in which two values of one argument are EQUAL (the results are keyed by
     value): nothing is run.  Values are modelled by integers, equal values by equal integers. *)
  Fixpoint dup_free (l : list Z) : bool :=
    match l with [] => true | x :: r => negb (mem x r) && dup_free r end.
  Definition values_ok (i : input) : bool := forallb dup_free (i_combo_values i).
  Definition checked_core (i : input) : out R * list kwargs :=
    if values_ok i then core i else (ORejected, []).
End Core.
