(* The real-number instance of the operations record of Model/Welford.v.  Kept in its own
   file: it is the only part of the model that brings in the axioms of Coq's Reals. *)
From Coq Require Import Reals.
From XV Require Import Prelude Welford.
Open Scope R_scope.

Definition Rltb (a b : R) : bool := if Rlt_dec a b then true else false.

(* inf has no real counterpart: 0 is a placeholder, reached only with count = 0,
   which every theorem excludes *)
Definition opsR : ops R :=
  mk_ops R Rplus Rminus Rmult Rdiv INR R_sqrt.sqrt Rltb Rabs 0.

(* ------------------------------------------------------------------ whole-sample statistics
   (the specification side: computed from the complete list at once) *)
Fixpoint Rsum (l : list R) : R :=
  match l with [] => 0 | x :: l' => x + Rsum l' end.

Definition Rlen {A} (l : list A) : R := INR (length l).
Definition avg (l : list R) : R := Rsum l / Rlen l.
(* sum of squared deviations from m *)
Definition dev2 (l : list R) (m : R) : R := Rsum (map (fun x => (x - m) * (x - m)) l).
Definition wvar (l : list R) : R := dev2 l (avg l) / Rlen l.
Definition wstd (l : list R) : R := R_sqrt.sqrt (wvar l).
Definition werr (l : list R) : R := wstd l / R_sqrt.sqrt (Rlen l).

(* sum of products of deviations of a list of pairs from (a, b) *)
Definition codev (p : list (R * R)) (a b : R) : R :=
  Rsum (map (fun q => (fst q - a) * (snd q - b)) p).
Definition pcodev (p : list (R * R)) : R := codev p (avg (map fst p)) (avg (map snd p)).
(* covariance of two series (paired position by position, as zip does) *)
Definition wcov (xs ys : list R) : R := pcodev (combine xs ys) / Rlen (combine xs ys).
Definition wcov_sample (xs ys : list R) : R :=
  pcodev (combine xs ys) / INR (length (combine xs ys) - 1).

(* the closed form of the accumulator after any feeding of the sample l *)
Definition whole (l : list R) : stats R := mk_stats (length l) (avg l) (dev2 l (avg l)).
