(* Executable, proof-free model of Python's decimal formatting of a binary64 value and of
   xyzpy.utils.format_number_with_error, over EXACT rationals.

   A float is the pair of its sign bit and its exact magnitude (a rational m * 2^e); CPython
   formats floats by correct rounding (round-half-even on the exact binary value, David Gay's
   dtoa), which is what [rhe] does on the exact quotient.

     fmt_e prec q     = (mantissa integer with prec+1 digits, decimal exponent) of f"{q:.{prec}e}"
     fmt_f_int nd q   = the integer N such that f"{q:.{nd}f}" shows N / 10^nd
     fmt_e_str, fmt_f_str, fmt_d_p03  = the strings themselves
     format ops x err = the body of format_number_with_error; every float operation goes through
                        the operations record ops (division, int -> float, 10**k)
     denote s         = the reader of the property statement: "123.45(67)e+05" denotes
                        X = 12345 * u, E = 67 * u with u = 10^(5 - 2)                                *)
From XV Require Import Prelude DecFmtPow.
From Coq Require Import QArith Qabs.
Notation ascii := Ascii.ascii.
Delimit Scope char_scope with char.
Open Scope Z_scope.

Definition E_Overflow : Z := 4.    (* OverflowError: int too large to convert to float *)
Definition E_ZeroDiv : Z := 5.     (* ZeroDivisionError *)

(* a float value: sign bit (kept for zero too) and exact magnitude >= 0 *)
Record fl := mkfl { fneg : bool; fmag : Q }.
Definition fl_val (a : fl) : Q := if fneg a then (- fmag a)%Q else fmag a.
Definition fl_abs (a : fl) : fl := mkfl false (fmag a).
Definition fl_lt (a b : fl) : bool := negb (Qle_bool (fl_val b) (fl_val a)).

(* ------------------------------------------------------------------ rounding *)
(* round-half-even of n / d  (n >= 0, d > 0) *)
Definition rhe (n d : Z) : Z :=
  let q := n / d in
  let r := n mod d in
  match 2 * r ?= d with
  | Lt => q
  | Gt => q + 1
  | Eq => if Z.even q then q else q + 1
  end.

(* ------------------------------------------------------------------ floor(log10) *)
(* Incremental search with a running power of ten; nothing is recomputed.
   norm_up: invariant p = d * 10^e <= n; stops at the last such e.
   norm_dn: invariant p = n * 10^(-e); stops at the first p >= d.
   The fuel is explicit and structural only.  DESIGN.md planned the constant 700 with a range
   hypothesis (10^-350 <= q <= 10^350); [norm_fuel] is derived from the size of the input
   instead (10^fuel > 2^fuel > n, d), so the specification holds for EVERY positive rational
   and C20_core needs no range hypothesis.  For a binary64 magnitude the fuel is at most
   53 + 1074 + 1 and the loop runs at most 324 times. *)
Fixpoint norm_up (fuel : nat) (n p e : Z) : Z * Z :=
  match fuel with
  | O => (e, p)
  | S f => if 10 * p <=? n then norm_up f n (10 * p) (e + 1) else (e, p)
  end.

Fixpoint norm_dn (fuel : nat) (p d e : Z) : Z * Z :=
  match fuel with
  | O => (e, p)
  | S f => if d <=? p then (e, p) else norm_dn f (10 * p) d (e - 1)
  end.

Definition norm_fuel (n d : Z) : nat := S (Z.to_nat (Z.log2 n + Z.log2 d)).

(* n / d = (a / b) * 10^e with b <= a < 10 b   (0 < n, 0 < d) *)
Definition norm10 (n d : Z) : Z * Z * Z :=
  let fuel := norm_fuel n d in
  if d <=? n
  then let '(e, p) := norm_up fuel n d 0 in (e, n, p)
  else let '(e, p) := norm_dn fuel n d 0 in (e, p, d).

(* f"{q:.{prec}e}" for a magnitude q: mantissa integer (prec+1 digits) and decimal exponent
   (the exponent AFTER rounding: 9.96 at prec 1 gives (10, 1)); zero gives (0, 0) *)
Definition fmt_e (prec : Z) (q : Q) : Z * Z :=
  let n := Qnum q in
  let d := Zpos (Qden q) in
  if n <=? 0 then (0, 0)
  else
    let '(e, a, b) := norm10 n d in
    let m := rhe (a * 10 ^ prec) b in
    if m =? 10 ^ (prec + 1) then (10 ^ prec, e + 1) else (m, e).

Definition dexp (prec : Z) (q : Q) : Z := snd (fmt_e prec q).

(* f"{q:.{nd}f}" for a magnitude q shows N / 10^nd *)
Definition fmt_f_int (nd : Z) (q : Q) : Z := rhe (Qnum q * 10 ^ nd) (Zpos (Qden q)).

(* ------------------------------------------------------------------ digits *)
Definition digit_char (d : Z) : ascii :=
  (if d =? 0 then "0" else if d =? 1 then "1" else if d =? 2 then "2" else if d =? 3 then "3"
   else if d =? 4 then "4" else if d =? 5 then "5" else if d =? 6 then "6"
   else if d =? 7 then "7" else if d =? 8 then "8" else "9")%char.

Definition char_digit (c : ascii) : option Z :=
  match c with
  | "0" => Some 0 | "1" => Some 1 | "2" => Some 2 | "3" => Some 3 | "4" => Some 4
  | "5" => Some 5 | "6" => Some 6 | "7" => Some 7 | "8" => Some 8 | "9" => Some 9
  | _ => None
  end%char.

(* little-endian digits of N >= 0, at least one *)
Fixpoint digs_le (fuel : nat) (N : Z) : list Z :=
  match fuel with
  | O => [N mod 10]
  | S f => if N <? 10 then [N] else (N mod 10) :: digs_le f (N / 10)
  end.
Definition udigits (N : Z) : list Z := rev (digs_le (Z.to_nat (Z.log2 N)) N).

(* exactly w digits (zero padded; the low w digits of N) *)
Fixpoint fixw_le (w : nat) (N : Z) : list Z :=
  match w with
  | O => []
  | S w' => (N mod 10) :: fixw_le w' (N / 10)
  end.
Definition fixw (w : nat) (N : Z) : list Z := rev (fixw_le w N).

Definition chars (ds : list Z) : list ascii := map digit_char ds.
Definition val_be (ds : list Z) : Z := fold_left (fun a d => 10 * a + d) ds 0.

Definition sign_l (neg : bool) : list ascii := if neg then ["-"%char] else [].

(* ------------------------------------------------------------------ the formatters *)
(* sign, integer part, and (nd > 0) point and nd decimals *)
Definition fmt_f_l (nd : Z) (v : fl) : list ascii :=
  let N := fmt_f_int nd (fmag v) in
  let p := 10 ^ nd in
  sign_l (fneg v) ++ chars (udigits (N / p))
  ++ (if nd <=? 0 then [] else "."%char :: chars (fixw (Z.to_nat nd) (N mod p))).

(* exponent field of the e format and f"{k:+03d}": sign and at least two digits *)
Definition exp_l (e : Z) : list ascii :=
  (if e <? 0 then "-" else "+")%char
  :: (if Z.abs e <? 10 then "0"%char :: chars [Z.abs e] else chars (udigits (Z.abs e))).

Definition mant_l (prec : Z) (v : fl) : list ascii :=
  let m := fst (fmt_e prec (fmag v)) in
  let p := 10 ^ prec in
  sign_l (fneg v) ++ chars [m / p]
  ++ (if prec <=? 0 then [] else "."%char :: chars (fixw (Z.to_nat prec) (m mod p))).

Definition fmt_e_l (prec : Z) (v : fl) : list ascii :=
  mant_l prec v ++ "e"%char :: exp_l (dexp prec (fmag v)).

(* str.split("e") of a string with exactly one "e" *)
Fixpoint split_e_l (s : list ascii) : list ascii * list ascii :=
  match s with
  | [] => ([], [])
  | c :: r => if Ascii.eqb c "e" then ([], r) else let '(a, b) := split_e_l r in (c :: a, b)
  end.

Definition remove_dot_l (s : list ascii) : list ascii :=
  filter (fun c => negb (Ascii.eqb c ".")) s.

Fixpoint span_digits (s : list ascii) : list Z * list ascii :=
  match s with
  | [] => ([], [])
  | c :: r =>
      match char_digit c with
      | Some d => let '(ds, t) := span_digits r in (d :: ds, t)
      | None => ([], s)
      end
  end.

(* int("+05"): optional sign, digits, nothing else *)
Definition parse_int_l (s : list ascii) : option Z :=
  let '(neg, r) :=
    match s with
    | "-"%char :: r => (true, r)
    | "+"%char :: r => (false, r)
    | _ => (false, s)
    end in
  let '(ds, t) := span_digits r in
  match ds, t with
  | _ :: _, [] => Some (if neg then - val_be ds else val_be ds)
  | _, _ => None
  end.

(* string-level interface (used by the regenerated code) *)
Definition to_str (l : list ascii) : string := String.string_of_list_ascii l.
Definition of_str (s : string) : list ascii := String.list_ascii_of_string s.

Definition fmt_e_str (prec : Z) (v : fl) : string := to_str (fmt_e_l prec v).
Definition fmt_f_str (nd : Z) (v : fl) : string := to_str (fmt_f_l nd v).
Definition fmt_d_p03 (k : Z) : string := to_str (exp_l k).
Definition split_e (s : string) : string * string :=
  let '(a, b) := split_e_l (of_str s) in (to_str a, to_str b).
Definition remove_dot (s : string) : string := to_str (remove_dot_l (of_str s)).
(* int(s) of Python for the strings that occur here; 0 stands for the ValueError that a
   malformed string would raise (never produced by the formatters, see Bridge) *)
Definition int_of_str (s : string) : Z :=
  match parse_int_l (of_str s) with Some z => z | None => 0 end.

(* ------------------------------------------------------------------ the last two lines *)
(* mantissa, exponent = f"{err:.1e}".split("e"); digits without the point; the value with
   max(0, 1 - exponent) decimals; bracket; suffix *)
Definition suffix_l (sfx : option Z) : list ascii :=
  match sfx with None => [] | Some k => "e"%char :: exp_l k end.

Definition render_with (ndrule : Z -> Z) (x err : fl) (sfx : option Z) : list ascii :=
  let '(m, e) := fmt_e 1 (fmag err) in
  fmt_f_l (ndrule e) x ++ "("%char :: sign_l (fneg err) ++ chars (fixw 2 m)
  ++ ")"%char :: suffix_l sfx.

Definition nd_rule (e : Z) : Z := Z.max 0 (1 - e).
Definition nd_rule_old (e : Z) : Z := Z.abs e + 1.       (* the rule before the fix *)

Definition render_l := render_with nd_rule.
Definition render (x err : fl) (sfx : option Z) : string := to_str (render_l x err sfx).
Definition render_old (x err : fl) (sfx : option Z) : string :=
  to_str (render_with nd_rule_old x err sfx).

(* ------------------------------------------------------------------ the function *)
(* float operations used by the function body *)
Record fops := mkfops {
  FT : Type;
  fval : FT -> fl;                 (* sign bit and exact value *)
  fdiv : FT -> FT -> FT;           (* x / y *)
  fofZ : Z -> FT;                  (* int -> float (only the literal 10) *)
  fpow10 : Z -> res FT             (* 10**k as the float it becomes when it meets a float:
                                      k >= 0: the exact int, converted (OverflowError if it
                                      does not fit); k < 0: pow(10.0, k) of libm *)
}.

Section Format.
  Variable ops : fops.

  (* the scaling exponent before the repair: no cap, 10**309 raises OverflowError *)
  Definition x_exponent_old (x err : FT ops) : Z :=
    Z.max (dexp 6 (fmag (fval ops x))) (dexp 6 (fmag (fval ops err)) + 1).

  (* x_exponent = min(x_exponent, 308): 10**309 cannot be converted to a float *)
  Definition x_exponent_of (x err : FT ops) : Z := Z.min (x_exponent_old x err) 308.

  Definition hide_of (k : Z) (x err : FT ops) : bool :=
    ((k =? 0) || (k =? -1))
    || ((k =? 1) && fl_lt (fval ops err) (fl_abs (fval ops (fdiv ops x (fofZ ops 10))))).

  Definition format_with (expo : FT ops -> FT ops -> Z) (x err : FT ops) : res string :=
    let k := expo x err in
    if hide_of k x err
    then Ok (render (fval ops x) (fval ops err) None)
    else
      match fpow10 ops k with
      | Err t => Err t
      | Ok p => Ok (render (fval ops (fdiv ops x p)) (fval ops (fdiv ops err p)) (Some k))
      end.

  Definition format : FT ops -> FT ops -> res string := format_with x_exponent_of.
  Definition format_old : FT ops -> FT ops -> res string := format_with x_exponent_old.
End Format.

(* ------------------------------------------------------------------ the reader *)
Definition q10 (z : Z) : Q := (inject_Z 10 ^ z)%Q.

(* [-]digits[.digits](digits)[e[+-]digits]  ->  (X, E, u):
   u = unit of the last shown digit times the power of ten of the suffix,
   X = the shown number times that power, E = the bracketed digits times u *)
Definition denote_parts (neg : bool) (ip fp ed : list Z) (k : Z) : Q * Q * Q :=
  let u := q10 (k - Z.of_nat (length fp)) in
  let X := (inject_Z (val_be (ip ++ fp)) * u)%Q in
  (Qred (if neg then - X else X)%Q, Qred (inject_Z (val_be ed) * u)%Q, Qred u).

Definition take_sign (s : list ascii) : bool * list ascii :=
  match s with
  | c :: r => if Ascii.eqb c "-" then (true, r) else (false, s)
  | [] => (false, s)
  end.

Definition take_dot (s : list ascii) : list Z * list ascii :=
  match s with
  | c :: r => if Ascii.eqb c "." then span_digits r else ([], s)
  | [] => ([], s)
  end.

Definition denote_close (neg : bool) (ip fp ed : list Z) (s : list ascii) : option (Q * Q * Q) :=
  match ed, s with
  | _ :: _, c :: s6 =>
      if Ascii.eqb c ")" then
        match s6 with
        | [] => Some (denote_parts neg ip fp ed 0)
        | c' :: s7 =>
            if Ascii.eqb c' "e" then
              match parse_int_l s7 with
              | Some k => Some (denote_parts neg ip fp ed k)
              | None => None
              end
            else None
        end
      else None
  | _, _ => None
  end.

Definition denote_tail (neg : bool) (ip fp : list Z) (s : list ascii) : option (Q * Q * Q) :=
  match ip, s with
  | _ :: _, c :: s4 =>
      if Ascii.eqb c "(" then let '(ed, s5) := span_digits s4 in denote_close neg ip fp ed s5
      else None
  | _, _ => None
  end.

Definition denote_l (s : list ascii) : option (Q * Q * Q) :=
  let '(neg, s1) := take_sign s in
  let '(ip, s2) := span_digits s1 in
  let '(fp, s3) := take_dot s2 in
  denote_tail neg ip fp s3.

Definition denote (s : string) : option (Q * Q * Q) := denote_l (of_str s).

(* ------------------------------------------------------------------ rational instances *)
(* floats replaced by signed rationals with exact division (no negative zero) *)
Definition fl_of_Q (q : Q) : fl := mkfl (Qnum q <? 0) (Qabs q).
Definition ops_q (pw : Z -> res Q) : fops :=
  mkfops Q fl_of_Q (fun a b => Qred (a / b)) inject_Z pw.

(* exact powers of ten *)
Definition ops_exact : fops := ops_q (fun k => Ok (q10 k)).

(* powers of ten as Python produces them: the binary64 values of Model/DecFmtPow.v;
   OverflowError above 10**308 (int too large to convert to float); below 10**-323 the
   power is 0.0 and the division raises ZeroDivisionError *)
Definition pow10_entry (k : Z) : option (Z * Z) :=
  if (pow10_lo <=? k) && (k <=? pow10_hi)
  then nth_error pow10_tab (Z.to_nat (k - pow10_lo))
  else None.

Definition dyadic (m e : Z) : Q :=
  if 0 <=? e then inject_Z (Z.shiftl m e) else (m # Z.to_pos (Z.shiftl 1 (- e)))%Q.

Definition pow10_q (k : Z) : res Q :=
  if pow10_hi <? k then Err E_Overflow
  else match pow10_entry k with
       | Some (m, e) => Ok (dyadic m e)
       | None => Err E_ZeroDiv
       end.

Definition ops_table : fops := ops_q pow10_q.

(* observation encoders for the correspondence *)
Definition enc_fmt (r : res string) : val := vres VS r.
