(* C11 -- concurrent growers, one waiting reaper and one progress poller as a small-step
   machine over the shared `results/` directory.  Executable and proof-free.

   File names    : FResult i (xyz-result-i.jbdmp) | FTmp i u (the temporary file of the grower
                   with unique suffix u that is writing batch i).
   Contents      : Whole i (the complete pickle of batch i's results; it depends only on i
                   because the sown function is deterministic) | Torn (empty or a strict prefix).
   File system   : association list name -> content, at most one entry per name.
   Actors        : growers (batch id, unique id, program counter into the publication's
                   operation list), one reaper `reap(wait=True)`, one poller.
   Global step   : `step pb s k` lets actor k perform its next atomic file operation
                   (k < #growers: that grower; k = #growers: the reaper; k = #growers+1: the
                   poller; a finished actor or any other k: no-op).
   `run pb s sched` folds `step` over a schedule (a list of actor numbers).

   The grower's operations are given by a `publish` description, regenerated from
   `write_to_disk` (Gen/GenPublish.v), so that the old in-place publication can be instantiated
   as well (`publish_inplace`).

   Assumptions (documented; they are built into the step function, there is no axiom):
   P1  a torn pickle never unpickles: reading `Torn` makes the reaper fail.
   P2  rename within a directory is atomic (one step) and an opened file keeps reading its own
       inode: the reaper's Open takes the content of the entry it found, its Read uses that
       snapshot.  For the atomic publication this is exact (a visible result inode is never
       written again); for the in-place publication the snapshot is the behaviour of a read
       that follows the open at once.
   Precision: writes are modelled by path.  This is exact when every temporary name has a single
   writer (unique suffixes) and for a single in-place writer per result name. *)
From XV Require Import Prelude.
From Coq Require Import Arith.
Open Scope nat_scope.

(* ------------------------------------------------------------------ files *)
Inductive fname := FResult (i : nat) | FTmp (i u : nat).
Inductive content := Whole (i : nat) | Torn.

Definition fname_eqb (a b : fname) : bool :=
  match a, b with
  | FResult i, FResult j => i =? j
  | FTmp i u, FTmp j v => (i =? j) && (u =? v)
  | _, _ => false
  end.

Definition fs := list (fname * content).

Fixpoint fs_get (n : fname) (d : fs) : option content :=
  match d with
  | [] => None
  | (m, c) :: d' => if fname_eqb n m then Some c else fs_get n d'
  end.

Fixpoint fs_del (n : fname) (d : fs) : fs :=
  match d with
  | [] => []
  | (m, c) :: d' => if fname_eqb n m then fs_del n d' else (m, c) :: fs_del n d'
  end.

Definition fs_set (n : fname) (c : content) (d : fs) : fs := (n, c) :: fs_del n d.

(* ------------------------------------------------------------------ publication *)
Inductive gop := GCreate | GWriteFirst | GWriteLast | GClose | GRename.
Inductive wtarget := TTmp | TFinal.

Record publish := {
  pb_target : wtarget;        (* where the pickle is written: a temporary name or the result name *)
  pb_tmp_unique : bool;       (* the temporary name contains a per-call unique suffix *)
  pb_tmp_globbed : bool;      (* the temporary name matches the result glob xyz-result-*.jbdmp *)
  pb_ops : list gop           (* the effect sequence of write_to_disk *)
}.

Definition publish_atomic : publish :=
  {| pb_target := TTmp; pb_tmp_unique := true; pb_tmp_globbed := false;
     pb_ops := [GCreate; GWriteFirst; GWriteLast; GClose; GRename] |}.

(* the publication before the repair: open(fname,'wb'); pickle.dump; close *)
Definition publish_inplace : publish :=
  {| pb_target := TFinal; pb_tmp_unique := true; pb_tmp_globbed := false;
     pb_ops := [GCreate; GWriteFirst; GWriteLast; GClose] |}.

(* ------------------------------------------------------------------ actors *)
Record grower := { g_batch : nat; g_uid : nat; g_pc : nat; g_err : bool }.

Inductive rphase := RPoll | RStat | ROpen | RRead (c : content).
Inductive rstatus := RRunning | RDone | RFailed.
Record reaper := { r_nb : nat; r_batch : nat; r_phase : rphase; r_read : list nat; r_status : rstatus }.

Inductive pop := PList | PIsFile (i : nat) | PListIfPos.
Record poller := { p_prog : list pop; p_log : list (pop * nat) }.

Record state := { s_fs : fs; s_growers : list grower; s_reaper : reaper; s_poller : poller }.

(* events, for the comparison with the real run: actor, operation, file, result *)
Inductive ekind := ECreate | EWrite1 | EWrite2 | EClose | ERename | EExists | EIsFile | EOpen | ERead | EList.
Inductive efile := OnFile (n : fname) | OnDir.
Record event := { e_actor : nat; e_kind : ekind; e_file : efile; e_res : nat }.

(* ------------------------------------------------------------------ grower step *)
Definition wname (pb : publish) (g : grower) : fname :=
  match pb_target pb with
  | TFinal => FResult (g_batch g)
  | TTmp => FTmp (g_batch g) (if pb_tmp_unique pb then g_uid g else 0)
  end.

Definition g_enabled (pb : publish) (g : grower) : bool :=
  negb (g_err g) && (g_pc g <? length (pb_ops pb)).

Definition g_advance (g : grower) : grower :=
  {| g_batch := g_batch g; g_uid := g_uid g; g_pc := S (g_pc g); g_err := g_err g |}.
Definition g_fail (g : grower) : grower :=
  {| g_batch := g_batch g; g_uid := g_uid g; g_pc := g_pc g; g_err := true |}.

Definition ekind_of_gop (o : gop) : ekind :=
  match o with GCreate => ECreate | GWriteFirst => EWrite1 | GWriteLast => EWrite2
             | GClose => EClose | GRename => ERename end.

(* one operation of grower g on the file system: new file system, new grower *)
Definition grower_op (pb : publish) (o : gop) (g : grower) (d : fs) : fs * grower :=
  let w := wname pb g in
  match o with
  | GCreate => (fs_set w Torn d, g_advance g)               (* O_CREAT|O_TRUNC *)
  | GWriteFirst => (fs_set w Torn d, g_advance g)
  | GWriteLast => (fs_set w Torn d, g_advance g)            (* the rest is still in the writer's buffer *)
  | GClose => (fs_set w (Whole (g_batch g)) d, g_advance g) (* flushed on close: only now complete *)
  | GRename =>
      match fs_get w d with
      | Some c => (fs_set (FResult (g_batch g)) c (fs_del w d), g_advance g)
      | None => (d, g_fail g)                                 (* FileNotFoundError *)
      end
  end.

Fixpoint upd {A} (k : nat) (x : A) (l : list A) : list A :=
  match l, k with
  | [], _ => []
  | _ :: l', O => x :: l'
  | y :: l', S k' => y :: upd k' x l'
  end.

(* ------------------------------------------------------------------ reaper step *)
Definition r_with (r : reaper) (b : nat) (ph : rphase) (rd : list nat) (st : rstatus) : reaper :=
  {| r_nb := r_nb r; r_batch := b; r_phase := ph; r_read := rd; r_status := st |}.

Definition r_enabled (r : reaper) : bool :=
  match r_status r with RRunning => true | _ => false end.

Definition is_some {A} (o : option A) : bool := match o with Some _ => true | None => false end.
Definition b2n (b : bool) : nat := if b then 1 else 0.

(* wait_to_load: `while not exists(x): sleep`; `isfile(x)`; `_load(x)` = open + pickle.load *)
Definition reaper_op (r : reaper) (d : fs) : reaper * ekind * nat :=
  let f := FResult (r_batch r) in
  match r_phase r with
  | RPoll =>
      let ex := is_some (fs_get f d) in
      (if ex then r_with r (r_batch r) RStat (r_read r) RRunning else r, EExists, b2n ex)
  | RStat =>
      let ex := is_some (fs_get f d) in
      (if ex then r_with r (r_batch r) ROpen (r_read r) RRunning
       else r_with r (r_batch r) RStat (r_read r) RFailed, EIsFile, b2n ex)
  | ROpen =>
      match fs_get f d with
      | Some c => (r_with r (r_batch r) (RRead c) (r_read r) RRunning, EOpen, 1)
      | None => (r_with r (r_batch r) ROpen (r_read r) RFailed, EOpen, 0)
      end
  | RRead c =>
      match c with
      | Whole j =>
          let rd := r_read r ++ [j] in
          (if r_batch r <? r_nb r then r_with r (S (r_batch r)) RPoll rd RRunning
           else r_with r (r_batch r) RPoll rd RDone, ERead, 1)
      | Torn => (r_with r (r_batch r) (RRead c) (r_read r) RFailed, ERead, 0)   (* P1 *)
      end
  end.

Definition reaper_init (nb : nat) : reaper :=
  {| r_nb := nb; r_batch := 1; r_phase := RPoll; r_read := [];
     r_status := if nb =? 0 then RDone else RRunning |}.

(* ------------------------------------------------------------------ poller step *)
Definition globbed (pb : publish) (n : fname) : bool :=
  match n with FResult _ => true | FTmp _ _ => pb_tmp_globbed pb end.

Definition visible (pb : publish) (d : fs) : fs := filter (fun e => globbed pb (fst e)) d.
Definition poll_count (pb : publish) (d : fs) : nat := length (visible pb d).

Definition p_enabled (p : poller) : bool := match p_prog p with [] => false | _ => true end.

Definition poller_op (pb : publish) (p : poller) (d : fs) : poller * ekind * efile * nat :=
  match p_prog p with
  | [] => (p, EList, OnDir, 0)
  | PIsFile i :: rest =>
      let r := b2n (is_some (fs_get (FResult i) d)) in
      ({| p_prog := rest; p_log := p_log p ++ [(PIsFile i, r)] |}, EIsFile, OnFile (FResult i), r)
  | _ :: rest =>                                    (* PList, or a PListIfPos that was kept *)
      let c := poll_count pb d in
      let rest' := match rest with
                   | PListIfPos :: r' => if c =? 0 then r' else PList :: r'
                   | _ => rest
                   end in
      ({| p_prog := rest'; p_log := p_log p ++ [(PList, c)] |}, EList, OnDir, c)
  end.

(* ------------------------------------------------------------------ global step *)
Definition step_ev (pb : publish) (s : state) (k : nat) : state * option event :=
  let ng := length (s_growers s) in
  if k <? ng then
    match nth_error (s_growers s) k with
    | Some g =>
        if g_enabled pb g then
          match nth_error (pb_ops pb) (g_pc g) with
          | Some o =>
              let '(d', g') := grower_op pb o g (s_fs s) in
              ({| s_fs := d'; s_growers := upd k g' (s_growers s);
                  s_reaper := s_reaper s; s_poller := s_poller s |},
               Some {| e_actor := k; e_kind := ekind_of_gop o;
                       e_file := OnFile (match o with GRename => FResult (g_batch g) | _ => wname pb g end);
                       e_res := b2n (g_err g') |})
          | None => (s, None)
          end
        else (s, None)
    | None => (s, None)
    end
  else if k =? ng then
    if r_enabled (s_reaper s) then
      let '(r', ek, res) := reaper_op (s_reaper s) (s_fs s) in
      ({| s_fs := s_fs s; s_growers := s_growers s; s_reaper := r'; s_poller := s_poller s |},
       Some {| e_actor := k; e_kind := ek; e_file := OnFile (FResult (r_batch (s_reaper s))); e_res := res |})
    else (s, None)
  else if k =? S ng then
    if p_enabled (s_poller s) then
      let '(p', ek, ef, res) := poller_op pb (s_poller s) (s_fs s) in
      ({| s_fs := s_fs s; s_growers := s_growers s; s_reaper := s_reaper s; s_poller := p' |},
       Some {| e_actor := k; e_kind := ek; e_file := ef; e_res := res |})
    else (s, None)
  else (s, None).

Definition step (pb : publish) (s : state) (k : nat) : state := fst (step_ev pb s k).

Fixpoint run (pb : publish) (s : state) (sched : list nat) : state :=
  match sched with
  | [] => s
  | k :: rest => run pb (step pb s k) rest
  end.

Fixpoint run_trace (pb : publish) (s : state) (sched : list nat) : state * list event :=
  match sched with
  | [] => (s, [])
  | k :: rest =>
      let '(s', e) := step_ev pb s k in
      let '(s'', es) := run_trace pb s' rest in
      (s'', match e with Some x => x :: es | None => es end)
  end.

(* ------------------------------------------------------------------ initial states *)
Definition grower_init (b u : nat) : grower := {| g_batch := b; g_uid := u; g_pc := 0; g_err := false |}.

Definition init_state (gs : list (nat * nat)) (nb : nat) (prog : list pop) : state :=
  {| s_fs := []; s_growers := map (fun bu => grower_init (fst bu) (snd bu)) gs;
     s_reaper := reaper_init nb; s_poller := {| p_prog := prog; p_log := [] |} |}.

(* the harness numbers the growers' unique suffixes by position *)
Definition mk_init (batches : list nat) (nb : nat) (prog : list pop) : state :=
  init_state (combine batches (seq 0 (length batches))) nb prog.

Definition reaper_id (s : state) : nat := length (s_growers s).
Definition poller_id (s : state) : nat := S (length (s_growers s)).

Definition g_done (pb : publish) (g : grower) : bool :=
  negb (g_err g) && (length (pb_ops pb) <=? g_pc g).

(* ------------------------------------------------------------------ progress queries *)
(* The three public queries as sequences of poller operations (regenerated from calc_progress /
   num_results / missing_results / is_ready_to_reap by Gen/GenPublish.v). *)
Inductive query := QNum | QMissing | QReady.

Record query_ops := {
  qo_num : list pop;                 (* num_results: one listing *)
  qo_missing_head : list pop;        (* missing_results: calc_progress first ... *)
  qo_missing_exact_isfile : bool;    (* ... then isfile of the exact result name per batch id *)
  qo_ready : list pop                (* is_ready_to_reap: a listing, and num_sown_batches lists again *)
}.

Definition query_ops_model : query_ops :=
  {| qo_num := [PList]; qo_missing_head := [PList]; qo_missing_exact_isfile := true;
     qo_ready := [PList; PListIfPos] |}.

Definition ops_of_query (qo : query_ops) (nb : nat) (q : query) : list pop :=
  match q with
  | QNum => qo_num qo
  | QMissing => qo_missing_head qo ++ (if qo_missing_exact_isfile qo then map PIsFile (seq 1 nb) else [])
  | QReady => qo_ready qo
  end.

Definition prog_of (qo : query_ops) (nb : nat) (qs : list query) : list pop :=
  flat_map (ops_of_query qo nb) qs.

(* the values the queries return, read back from the poller's log (model query shapes) *)
Fixpoint take_isfiles (n : nat) (log : list (pop * nat)) : option (list nat * list (pop * nat)) :=
  match n with
  | O => Some ([], log)
  | S n' =>
      match log with
      | (PIsFile i, r) :: log' =>
          match take_isfiles n' log' with
          | Some (miss, rest) => Some ((if r =? 0 then [i] else []) ++ miss, rest)
          | None => None
          end
      | _ => None
      end
  end.

Fixpoint answers (nb : nat) (qs : list query) (log : list (pop * nat)) : list val :=
  match qs with
  | [] => []
  | QNum :: qs' =>
      match log with
      | (PList, c) :: log' => VZ (Z.of_nat c) :: answers nb qs' log'
      | _ => []
      end
  | QMissing :: qs' =>
      match log with
      | (PList, _) :: log' =>
          match take_isfiles nb log' with
          | Some (miss, rest) => VL (map (fun i => VZ (Z.of_nat i)) miss) :: answers nb qs' rest
          | None => []
          end
      | _ => []
      end
  | QReady :: qs' =>
      match log with
      | (PList, c) :: log' =>
          let v := VZ (b2z ((0 <? c) && (c =? nb))) in
          if c =? 0 then v :: answers nb qs' log'
          else match log' with
               | (PList, _) :: log'' => v :: answers nb qs' log''
               | _ => []
               end
      | _ => []
      end
  end.

(* ------------------------------------------------------------------ the shape of grow / Reaper *)
(* what `grow` does with its results, and the Reaper's wait loop (regenerated, compared in
   Bridge/BridgePublish.v) *)
Record grow_shape := {
  gs_writes : nat;              (* number of write_to_disk calls in grow *)
  gs_after_loop : bool;         (* the call comes after the loop that collects every result *)
  gs_all_appended : bool;       (* the loop appends every computed result *)
  gs_whole_tuple : bool;        (* the object written is tuple(results) *)
  gs_result_name : bool;        (* the name is results/RSLT_NM.format(batch_number) *)
  gs_rank0_only : bool          (* guarded by rank == 0 and nothing else *)
}.
Definition grow_shape_model : grow_shape :=
  {| gs_writes := 1; gs_after_loop := true; gs_all_appended := true; gs_whole_tuple := true;
     gs_result_name := true; gs_rank0_only := true |}.

Inductive wait_op := WExistsPollSleep | WIsFileElseRaise | WLoad.
Inductive load_op := LOpenRead | LUnpickle.
Definition reaper_wait_model : list wait_op := [WExistsPollSleep; WIsFileElseRaise; WLoad].
Definition load_model : list load_op := [LOpenRead; LUnpickle].

(* ------------------------------------------------------------------ observations for the harness *)
Definition n2v (n : nat) : val := VZ (Z.of_nat n).

Definition ekind_code (k : ekind) : nat :=
  match k with ECreate => 0 | EWrite1 => 1 | EWrite2 => 2 | EClose => 3 | ERename => 4
             | EExists => 5 | EIsFile => 6 | EOpen => 7 | ERead => 8 | EList => 9 end.

(* role: 0 = result name, 1 = temporary name, 2 = the directory listing *)
Definition event_val (e : event) : val :=
  let '(role, b) := match e_file e with
                    | OnFile (FResult i) => (0, i)
                    | OnFile (FTmp i _) => (1, i)
                    | OnDir => (2, 0)
                    end in
  VL [n2v (e_actor e); n2v (ekind_code (e_kind e)); n2v role; n2v b; n2v (e_res e)].

(* grower outcome: 0 running, 1 done, 2 failed *)
Definition grower_val (pb : publish) (g : grower) : val :=
  n2v (if g_err g then 2 else if g_done pb g then 1 else 0).

Definition reaper_val (r : reaper) : val :=
  match r_status r with
  | RRunning => VL [VZ 0; VL (map n2v (r_read r))]
  | RDone => VL [VZ 1; VL (map n2v (r_read r))]
  | RFailed => VL [VZ 2; VL []]
  end.

(* what the harness compares: the event trace, the growers' outcomes, the reaper's outcome with
   the batches it read, and the values returned by the progress queries *)
Definition sched_obs (pb : publish) (qo : query_ops) (batches : list nat) (nb : nat)
           (qs : list query) (sched : list nat) : val :=
  let '(s, es) := run_trace pb (mk_init batches nb (prog_of qo nb qs)) sched in
  VL [VL (map event_val es);
      VL (map (grower_val pb) (s_growers s));
      reaper_val (s_reaper s);
      VL (answers nb qs (p_log (s_poller s)))].
