(* The control flow of Harvester.add_ds / save_full_ds / load_full_ds, Sampler.add_df / save_full_df and
   manage.save_merge_ds as DATA (regenerated from farming.py / manage.py into Gen/GenHarvest.v), and an
   interpreter of that data over the harvester state of Model/Harvest.v.  The interpreter run on the model
   flow is the HAdd step of Harvest.hstep (Proofs/HarvestFlowProofs.v); the failure of the file write, which
   hstep does not have, is interpreted here too.  Executable, proof-free. *)
From XV Require Import Prelude Grid Names Harvest.
Open Scope Z_scope.

Inductive side := SOld | SNew.                    (* self._full_ds / old_ds  |  new_ds / ds *)
(* recv.combine_first(arg): the receiver's values win;  a.merge(b, compat='no_conflicts') / xr.merge([a, b]) *)
Inductive combine := CombineFirst (recv arg : side) | MergeNoConflicts (a b : side).

Definition combine_eval (c : combine) (old new : pmap) : res pmap :=
  match c with
  | CombineFirst SNew SOld => Ok (merge_new old new)
  | CombineFirst SOld SNew => Ok (merge_old old new)
  | CombineFirst SOld SOld => Ok old
  | CombineFirst SNew SNew => Ok new
  | MergeNoConflicts SOld SOld => Ok old
  | MergeNoConflicts SNew SNew => Ok new
  | MergeNoConflicts _ _ => if conflict old new then Err E_Value else Ok (merge_old old new)
  end.

(* the three-way dispatch on [overwrite] *)
Record dispatch := mk_dispatch { d_none : combine; d_new : combine; d_old : combine }.
Definition dispatch_at (d : dispatch) (pol : policy) : combine :=
  match pol with PolNone => d_none d | PolNew => d_new d | PolOld => d_old d end.

Inductive add_stage :=
| SLoad          (* if sync_with_disk: self.load_full_ds(...) *)
| SCombine       (* new_full = copy of the new data if nothing is held, else the dispatch *)
| SStore.        (* if sync_with_disk: self.save_full_ds(new_full) else: self._full_ds = new_full *)

Record add_flow := mk_add_flow {
  af_sync_requires_name : bool;        (* sync_with_disk = sync and (self.data_name is not None) *)
  af_stages : list add_stage;          (* in source order *)
  af_first_is_new : bool;              (* nothing held yet: the new data itself *)
  af_dispatch : dispatch;
  af_else_sets_mem : bool }.           (* the unsynced branch keeps the result in memory *)

Inductive mem_rule := MemAfterWrite | MemBeforeWrite | MemNever.      (* where self._full_ds = new_full_ds sits *)
Inductive reraise_rule := RrAlways | RrIfTmpExists | RrNever.          (* the except branch of the atomic write *)
Record save_flow := mk_save_flow {
  sf_mem : mem_rule;
  sf_reraise : reraise_rule;
  sf_tmp_then_replace : bool }.        (* save to <file>.tmp, then os.replace onto <file> *)

Inductive load_rule := mk_load_rule (if_writable_loads absent_keeps otherwise_raises : bool).

Definition model_ow_dispatch : dispatch :=
  mk_dispatch (MergeNoConflicts SOld SNew) (CombineFirst SNew SOld) (CombineFirst SOld SNew).
Definition model_add_flow : add_flow :=
  mk_add_flow true [SLoad; SCombine; SStore] true model_ow_dispatch true.
Definition model_save_flow : save_flow := mk_save_flow MemAfterWrite RrAlways true.
Definition model_load_rule : load_rule := mk_load_rule true true true.

Section Flow.
  Variable st : sites.
  Variable name : string.
  Variable e : engine.
  Variable af : add_flow.
  Variable sf : save_flow.

  (* what the write does to memory when it succeeds *)
  Definition mem_after_save (s : hst) (m : pmap) : option pmap :=
    match sf_mem sf with MemNever => h_mem s | _ => Some m end.

  (* interpretation state: harvester state, pending combined data, raised *)
  Definition astate := (hst * option pmap * bool)%type.

  Definition astage (new : pmap) (sync : bool) (pol : policy) (a : astate) (g : add_stage) : astate :=
    let '(s, pending, raised) := a in
    if raised then a else
    match g with
    | SLoad => if sync then (load st name e s, pending, false) else a
    | SCombine =>
        match h_mem s with
        | None => (s, Some (if af_first_is_new af then new else []), false)
        | Some old =>
            match combine_eval (dispatch_at (af_dispatch af) pol) old new with
            | Err _ => (s, None, true)
            | Ok m => (s, Some m, false)
            end
        end
    | SStore =>
        match pending with
        | None => (s, None, true)            (* new_full_ds unbound: a NameError *)
        | Some m =>
            if sync then (mk_hst (mem_after_save s m) (fset (save_to st name e) m (h_disk s)), pending, false)
            else if af_else_sets_mem af then (mk_hst (Some m) (h_disk s), pending, false)
            else a
        end
    end.

  Definition hadd_flow (s : hst) (new : pmap) (sync : bool) (pol : policy) : hst * bool :=
    let '(s', _, raised) := fold_left (astage new sync pol) (af_stages af) (s, None, false) in (s', raised).

  (* the same synced add when the file write fails (disk full, unwritable directory, unstorable value):
     [tmp_exists] says whether the temporary file had been created when it failed *)
  Definition astage_wfail (new : pmap) (pol : policy) (tmp_exists : bool) (a : astate) (g : add_stage) : astate :=
    let '(s, pending, raised) := a in
    if raised then a else
    match g with
    | SStore =>
        match pending with
        | None => (s, None, true)
        | Some m =>
            let mem := match sf_mem sf with MemBeforeWrite => Some m | _ => h_mem s end in
            let r := match sf_reraise sf with RrAlways => true | RrIfTmpExists => tmp_exists | RrNever => false end in
            (mk_hst mem (h_disk s), pending, r)
        end
    | _ => astage new true pol a g
    end.

  Definition hadd_wfail (s : hst) (new : pmap) (pol : policy) (tmp_exists : bool) : hst * bool :=
    let '(s', _, raised) := fold_left (astage_wfail new pol tmp_exists) (af_stages af) (s, None, false) in (s', raised).
End Flow.

(* save_merge_ds with a dispatch *)
Definition save_merge_flow (st : sites) (name : string) (e : engine) (d : dispatch) (absent_is_empty : bool)
           (s : hst) (new : pmap) (pol : policy) : hst * bool :=
  let old := match fget (h_disk s) (merge_test st name e) with
             | Some _ => match fget (h_disk s) (merge_from st name e) with Some m => m | None => [] end
             | None => if absent_is_empty then [] else new
             end in
  match combine_eval (dispatch_at d pol) old new with
  | Err _ => (s, true)
  | Ok m => (mk_hst (h_mem s) (fset (merge_to st name e) m (h_disk s)), false)
  end.

(* the sampler: pd.concat([held, new]) and the same store rule *)
Record sadd_flow := mk_sadd_flow {
  sa_sync_requires_name : bool;
  sa_stages : list add_stage;
  sa_first_is_new : bool;
  sa_concat : list side;
  sa_else_sets_mem : bool }.
Definition model_sadd_flow : sadd_flow := mk_sadd_flow true [SLoad; SCombine; SStore] true [SOld; SNew] true.

Definition sconcat (order : list side) (old new : table) : table :=
  flat_map (fun sd => match sd with SOld => old | SNew => new end) order.

Definition sstage (sa : sadd_flow) (sf : save_flow) (rows : table) (sync : bool)
           (a : sst * option table) (g : add_stage) : sst * option table :=
  let '(s, pending) := a in
  match g with
  | SLoad => if sync then (mk_sst (match s_file s with Some t => Some t | None => s_mem s end) (s_file s), pending) else a
  | SCombine =>
      (s, Some (match s_mem s with
                | None => if sa_first_is_new sa then rows else []
                | Some t => sconcat (sa_concat sa) t rows
                end))
  | SStore =>
      match pending with
      | None => a
      | Some full =>
          if sync then (mk_sst (match sf_mem sf with MemNever => s_mem s | _ => Some full end) (Some full), pending)
          else if sa_else_sets_mem sa then (mk_sst (Some full) (s_file s), pending) else a
      end
  end.
Definition sadd_flow_run (sa : sadd_flow) (sf : save_flow) (s : sst) (rows : table) (sync : bool) : sst :=
  fst (fold_left (sstage sa sf rows sync) (sa_stages sa) (s, None)).

(* the same synced run when the table write fails: the file keeps its rows; memory is what the flow says *)
Definition sstage_wfail (sa : sadd_flow) (sf : save_flow) (rows : table)
           (a : sst * option table) (g : add_stage) : sst * option table :=
  let '(s, pending) := a in
  match g with
  | SStore =>
      match pending with
      | None => a
      | Some full => (mk_sst (match sf_mem sf with MemBeforeWrite => Some full | _ => s_mem s end) (s_file s), pending)
      end
  | _ => sstage sa sf rows true a g
  end.
Definition sadd_wfail_run (sa : sadd_flow) (sf : save_flow) (s : sst) (rows : table) : sst :=
  fst (fold_left (sstage_wfail sa sf rows) (sa_stages sa) (s, None)).

(* ---- operation histories interpreted through the flows (used by the correspondence with the
        REGENERATED flows, and by the refinement theorem with the model flows) ---- *)
Inductive fop :=
| FOp (o : hop)
| FWFail (new : pmap) (pol : policy) (tmp_exists : bool).   (* a synced add whose file write fails *)

Record flows := mk_flows { fl_add : add_flow; fl_save : save_flow; fl_merge : dispatch; fl_merge_absent_empty : bool }.
Definition model_flows : flows := mk_flows model_add_flow model_save_flow model_ow_dispatch true.

Definition fstep (fl : flows) (st : sites) (name : string) (e : engine) (s : hst) (o : fop) : hst * bool :=
  match o with
  | FOp (HAdd new sync pol) => hadd_flow st name e (fl_add fl) (fl_save fl) s new sync pol
  | FOp (HSaveMerge new pol) => save_merge_flow st name e (fl_merge fl) (fl_merge_absent_empty fl) s new pol
  | FOp o => hstep st name e s o
  | FWFail new pol tmp => hadd_wfail st name e (fl_add fl) (fl_save fl) s new pol tmp
  end.
Fixpoint frun (fl : flows) (st : sites) (name : string) (e : engine) (s : hst) (ops : list fop) : list (hst * bool) :=
  match ops with
  | [] => []
  | o :: rest => let r := fstep fl st name e s o in r :: frun fl st name e (fst r) rest
  end.
