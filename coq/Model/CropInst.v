(* Executable instance of the crop model for the correspondence checks: operation
   sequences on a crop whose function is the harness function (optionally failing on a
   chosen set of settings), observations after every operation. *)
From XV Require Import Prelude Grid Perm Runner RunnerInst Batch Crop.
Open Scope Z_scope.

Inductive op :=
| OSow (i : input) (bs nb : option Z)
| OGrow (ids : list Z)                 (* Crop.grow(ids): ascending through the list, stops at a failure *)
| OGrowMissing
| ODelete (id : Z)
| OCheckBad
| OCheckBadKeep                        (* check_bad(delete_bad=False): report only *)
| OReload
| OQuery
| OSetFail (codes : list Z)            (* from now on the function raises on these settings *)
| OGrowObserved (id : Z)               (* grow(id) while ANOTHER Crop object queries progress at the moment the
                                          result is written but not yet published *)
| OGrowWriteFails (ids : list Z)       (* Crop.grow(ids) while writing the result file fails (full disk, quota) *)
| OSowDies (i : input) (bs nb : option Z)  (* a sow that fails while its FIRST batch file is written: the settings are
                                          on disk, no batch is *)
| OTearCheck (id : Z) (keep : bool)     (* result file [id] is torn from outside (truncated, as network file systems have
                                          been seen to leave it), then check_bad(delete_bad = negb keep) runs; with
                                          [keep] the torn file is removed by hand afterwards *)
| OReap (allow : bool) (clean_up : option bool).

Record st := mk_st { s_obj : obj; s_disk : @disk rv; s_fail : list Z; s_kind : Z }.

Definition fn_of (s : st) (kw : kwargs) : option rv :=
  if mem (code kw) (s_fail s) then None else Some (hfun (s_kind s) kw).

Definition result_ids (d : @disk rv) : list Z := sort_dedup (map fst (d_results d)).
Definition batch_ids (d : @disk rv) : list Z := sort_dedup (map fst (d_batches d)).

Definition enc_queries (o : obj) (d : @disk rv) : list val :=
  [VZ (num_sown d); VZ (num_results d); vlist VZ (missing o d); vbool (ready d);
   vlist VZ (result_ids d)].

(* placeholders are compared by shape only; [ref] is any finished result of the crop *)
Definition nan_like2 (p : ph) : ph := match p with PNone => PNan | q => q end.
Definition first_result (d : @disk rv) : option rv :=
  match d_results d with (_, r :: _) :: _ => Some r | _ => None end.
Definition enc_slot_cell (ref : option rv) (c : cell (@slot rv)) : val :=
  let hole p := VL [VS "hole"; match ref with Some r => enc_ph (p (nan_like r)) | None => VS "?" end] in
  match c with
  | Got (SGot r) => enc_rv r
  | Got SHole => hole (fun p => p)
  | Hole (SGot r) => VL [VS "hole"; enc_ph (nan_like r)]
  | Hole SHole => hole nan_like2
  end.
Fixpoint enc_slot_nest (ref : option rv) (n : nest (cell (@slot rv))) : val :=
  match n with
  | Leaf c => VL [VS "leaf"; enc_slot_cell ref c]
  | Node l => VL (map (enc_slot_nest ref) l)
  end.
Definition enc_reap_out (ref : option rv) (o : out (@slot rv)) : val :=
  match o with
  | ONest n => VL [VS "nest"; enc_slot_nest ref n]
  | OFlat l => VL [VS "flat"; VL (map (fun s => enc_slot_cell ref (Got s)) l)]
  | _ => VS "other"
  end.

Definition step (s : st) (o : op) : st * val :=
  let ob := s_obj s in let d := s_disk s in
  let ok s' extra := (s', VL (VZ 0 :: enc_queries (s_obj s') (s_disk s') ++ extra)) in
  let err := (s, VL (VZ 1 :: enc_queries ob d)) in
  match o with
  | OSow i bs nb =>
      match sow ob d i bs nb with
      | Ok (ob', d') => ok (mk_st ob' d' (s_fail s) (s_kind s)) []
      | Err _ => err
      end
  | OGrow ids =>
      (* partial progress survives a failure: grow until the first batch that fails *)
      let fix go (d : @disk rv) (ids : list Z) : @disk rv * bool :=
        match ids with
        | [] => (d, true)
        | i :: rest => match grow (fn_of s) d i with Ok d' => go d' rest | Err _ => (d, false) end
        end in
      let '(d', fine) := go d ids in
      let s' := mk_st (sync ob d') d' (s_fail s) (s_kind s) in
      (s', VL (VZ (if fine then 0 else 1) :: enc_queries (s_obj s') d'))
  | OGrowMissing =>
      let fix go (d : @disk rv) (ids : list Z) : @disk rv * bool :=
        match ids with
        | [] => (d, true)
        | i :: rest => match grow (fn_of s) d i with Ok d' => go d' rest | Err _ => (d, false) end
        end in
      let '(d', fine) := go d (missing ob d) in
      let s' := mk_st (sync ob d') d' (s_fail s) (s_kind s) in
      (s', VL (VZ (if fine then 0 else 1) :: enc_queries (s_obj s') d'))
  | ODelete id => ok (mk_st ob (delete_result d id) (s_fail s) (s_kind s)) []
  | OCheckBad =>
      let '(bad, d') := check_bad d in
      ok (mk_st ob d' (s_fail s) (s_kind s)) [vlist VZ (sort_dedup bad)]
  | OCheckBadKeep =>
      let '(bad, _) := check_bad d in
      ok (mk_st ob d (s_fail s) (s_kind s)) [vlist VZ (sort_dedup bad)]
  | OSowDies i bs nb =>
      match sow ob d i bs nb with
      | Ok (ob', d1) =>
          let d' := mk_disk (d_info d1) (d_batches d) (d_results d) in
          (mk_st (sync ob' d') d' (s_fail s) (s_kind s), VL (VZ 1 :: enc_queries (sync ob' d') d'))
      | Err _ => err
      end
  | OTearCheck id keep =>
      (* a torn result no longer has its batch's length: exactly it (and whatever else is bad) is reported *)
      let d1 := mk_disk (d_info d) (d_batches d) (zset id [] (d_results d)) in
      let '(bad, d2) := check_bad d1 in
      ok (mk_st ob (if keep then delete_result d id else d2) (s_fail s) (s_kind s)) [vlist VZ (sort_dedup bad)]
  | OReload => ok (mk_st (reload d) d (s_fail s) (s_kind s)) []
  | OQuery => ok (mk_st (sync ob d) d (s_fail s) (s_kind s)) []
  | OSetFail codes => ok (mk_st ob d codes (s_kind s)) []
  | OGrowObserved i =>
      match grow (fn_of s) d i with
      | Ok d' =>
          let s' := mk_st (sync ob d') d' (s_fail s) (s_kind s) in
          (* the observer sees the state BEFORE the grow: the batch is not finished until it is published *)
          (s', VL (VZ 0 :: enc_queries (s_obj s') d' ++ [VL (enc_queries (reload d) d)]))
      | Err _ => (mk_st (sync ob d) d (s_fail s) (s_kind s), VL (VZ 1 :: enc_queries (sync ob d) d))
      end
  | OGrowWriteFails _ =>
      (* the first batch's result cannot be written: grow raises, nothing is published *)
      (mk_st (sync ob d) d (s_fail s) (s_kind s), VL (VZ 1 :: enc_queries (sync ob d) d))
  | OReap allow cu =>
      match reap d allow cu with
      | Ok (out, d') =>
          let s' := mk_st (sync ob d) d' (s_fail s) (s_kind s) in
          (s', VL (VZ 0 :: enc_queries (s_obj s') d' ++ [enc_reap_out (first_result d) out]))
      | Err _ => (mk_st (sync ob d) d (s_fail s) (s_kind s), VL (VZ 1 :: enc_queries (sync ob d) d))
      end
  end.

Fixpoint run_ops (s : st) (ops : list op) : list val :=
  match ops with
  | [] => []
  | o :: rest => let '(s', v) := step s o in v :: run_ops s' rest
  end.

Definition run_crop (kind : Z) (ops : list op) : val :=
  VL (run_ops (mk_st fresh_obj empty_disk [] kind) ops).

(* the nest inside an encoded core output (for stating examples) *)
Definition enc_nest_of (v : val) : val :=
  match v with VL [_; n] => n | _ => VN end.
