(* Shared vocabulary of every model: a result type with errors, the universal
   canonical observation type [val] in which model outputs and implementation
   observations are compared, and small list helpers.  Proof-free except for the
   trivially structural facts needed to make the definitions usable. *)
From Coq Require Export ZArith List Bool Lia.
From Coq Require String Ascii.
Export Coq.Strings.String.StringSyntax Coq.Strings.Ascii.AsciiSyntax.
Export ListNotations.
Notation string := String.string.
Open Scope Z_scope.

Inductive res (A : Type) := Ok (a : A) | Err (tag : Z).
Arguments Ok {A} a.
Arguments Err {A} tag.

(* error tags shared by Gen and Model (the translator maps Python exception
   classes to these) *)
Definition E_Value : Z := 1.      (* ValueError *)
Definition E_Type : Z := 2.       (* TypeError *)
Definition E_XYZ : Z := 3.        (* XYZError *)
Definition E_Other : Z := 9.

(* canonical observations *)
Inductive val :=
| VZ (z : Z)
| VN                       (* None / NaN / missing *)
| VS (s : string)
| VL (l : list val).
Arguments VS s%string_scope.

Fixpoint val_eqb (a b : val) {struct a} : bool :=
  match a, b with
  | VZ x, VZ y => Z.eqb x y
  | VN, VN => true
  | VS s, VS t => String.eqb s t
  | VL l, VL m =>
      (fix go (l : list val) (m : list val) {struct l} : bool :=
         match l, m with
         | [], [] => true
         | x :: l', y :: m' => andb (val_eqb x y) (go l' m')
         | _, _ => false
         end) l m
  | _, _ => false
  end.

Definition vbool (b : bool) : val := VZ (if b then 1 else 0).
Definition vopt {A} (f : A -> val) (o : option A) : val :=
  match o with Some a => f a | None => VN end.
Definition vlist {A} (f : A -> val) (l : list A) : val := VL (map f l).
Definition vres {A} (f : A -> val) (r : res A) : val :=
  match r with Ok a => VL [VZ 0; f a] | Err t => VL [VZ 1; VZ t] end.

(* indices (from 0) of the cases on which model and implementation differ *)
Fixpoint bad_from (i : nat) (cs : list (val * val)) : list nat :=
  match cs with
  | [] => []
  | (m, o) :: cs' =>
      if val_eqb m o then bad_from (S i) cs' else i :: bad_from (S i) cs'
  end.
Definition bad_idx (cs : list (val * val)) : list nat := bad_from 0 cs.

(* integer helpers *)
Definition cdiv (a b : Z) : Z := (a + b - 1) / b.
Definition b2z (b : bool) : Z := if b then 1 else 0.

Fixpoint zseq (start : Z) (len : nat) : list Z :=
  match len with O => [] | S k => start :: zseq (start + 1) k end.
