(* Executable instance of the runner model used by the correspondence checks: a concrete
   result datatype, the harness's swept function, nan_like_result / infer_shape, encoders. *)
From XV Require Import Prelude Grid Perm Runner.
Open Scope Z_scope.

Inductive rv :=
| RZ (z : Z)                 (* number *)
| RB (b : Z)                 (* bool *)
| RS (s : Z)                 (* str (by id) *)
| RT (l : list rv)           (* tuple / list / array *)
| RD (z : Z).                (* dict / Dataset with one variable holding z *)

(* injective code of a setting: sum over kwargs of (value+1) * 7^arg *)
Definition code (kw : kwargs) : Z :=
  fold_left (fun acc av => acc + (snd av + 1) * 7 ^ (fst av)) kw 0.

(* the harness function, by result kind *)
Definition hfun (kind : Z) (kw : kwargs) : rv :=
  let c := code kw in
  match kind with
  | 0 => RZ c
  | 1 => RB (c mod 2)
  | 2 => RS c
  | 3 => RT [RZ c; RZ (c + 1)]
  | 4 => RT [RZ c; RZ (c + 1); RZ (c + 2)]
  | 5 => RT [RT [RZ c; RZ (c + 1)]; RT [RZ (c + 2); RZ (c + 3)]]
  | 6 => RT [RZ c; RS c; RT [RZ c; RZ c; RZ c]]
  | 7 => RT [RB (c mod 2); RT [RT [RZ c; RZ c]]]
  (* a result that is a sequence of ONE element stays one *)
  | 9 => RT [RZ c]
  | 10 => RT [RZ c]
  (* labelled outputs: k scalar outputs (11..13), k array outputs over an internal axis (21..23) *)
  | 11 => RZ (10 * c)
  | 12 => RT [RZ (10 * c); RZ (10 * c + 1)]
  | 13 => RT [RZ (10 * c); RZ (10 * c + 1); RZ (10 * c + 2)]
  | 21 => RT [RZ (10 * c); RZ (10 * c + 100); RZ (10 * c + 200)]
  | 22 => RT [RT [RZ (10 * c); RZ (10 * c + 100); RZ (10 * c + 200)];
              RT [RZ (10 * c + 1); RZ (10 * c + 101); RZ (10 * c + 201)]]
  | 23 => RT [RT [RZ (10 * c); RZ (10 * c + 100); RZ (10 * c + 200)];
              RT [RZ (10 * c + 1); RZ (10 * c + 101); RZ (10 * c + 201)];
              RT [RZ (10 * c + 2); RZ (10 * c + 102); RZ (10 * c + 202)]]
  (* ONE labelled output that can be iterated over: a string, a pair *)
  | 31 => RS (10 * c)
  | 32 => RT [RZ (10 * c); RZ (10 * c + 1)]
  | _ => RD c
  end.

Definition comps (r : rv) : list rv := match r with RT l => l | _ => [] end.

(* infer_shape: first-element descent; str and scalars have shape () *)
Fixpoint infer_shape (x : rv) : list Z :=
  match x with
  | RT l => Z.of_nat (length l) :: match l with [] => [] | h :: _ => infer_shape h end
  | _ => []
  end.

Inductive ph := PNan | PNone | PTup (shapes : list (list Z)) | PDs.

Definition nan_like (r : rv) : ph :=
  match r with
  | RD _ => PDs
  | RB _ | RS _ => PNone
  | RT l => PTup (map infer_shape l)
  | RZ _ => PNan
  end.

(* true shape of a rectangular nested value *)
Fixpoint rect_shape (x : rv) : option (list Z) :=
  match x with
  | RT l =>
      match l with
      | [] => Some [0]
      | h :: t =>
          match rect_shape h with
          | None => None
          | Some sh =>
              if forallb (fun y => match rect_shape y with
                                   | Some sh' => list_eqb sh sh' | None => false end) t
              then Some (Z.of_nat (length l) :: sh) else None
          end
      end
  | _ => Some []
  end.

(* encoders *)
Fixpoint enc_rv (r : rv) : val :=
  match r with
  | RZ z => VZ z
  | RB b => VL [VS "b"; VZ b]
  | RS s => VL [VS "s"; VZ s]
  | RT l => VL (VS "t" :: map enc_rv l)
  | RD z => VL [VS "d"; VZ z]
  end.
Definition enc_ph (p : ph) : val :=
  match p with
  | PNan => VS "nan"
  | PNone => VN
  | PTup shs => VL (VS "nantuple" :: map (vlist VZ) shs)
  | PDs => VS "nands"
  end.
Definition enc_cell (c : cell rv) : val :=
  match c with Got r => enc_rv r | Hole like => VL [VS "hole"; enc_ph (nan_like like)] end.
Fixpoint enc_nest (n : nest (cell rv)) : val :=
  match n with Leaf c => VL [VS "leaf"; enc_cell c] | Node l => VL (map enc_nest l) end.
Definition enc_kw (k : kwargs) : val := VL (map (fun av => VL [VZ (fst av); VZ (snd av)]) k).
Fixpoint enc_out (o : out rv) : val :=
  match o with
  | OFlat l => VL [VS "flat"; VL (map enc_rv l)]
  | ONest n => VL [VS "nest"; enc_nest n]
  | OSplit l => VL (VS "split" :: map enc_out l)
  | ORejected => VS "rejected"
  end.
Definition enc_core (r : out rv * list kwargs) : val :=
  VL [enc_out (fst r); VL (map enc_kw (snd r))].

Definition run_core (kind : Z) (i : input) : val := enc_core (core (hfun kind) comps i).
Definition run_core_out (kind : Z) (i : input) : val := enc_out (fst (core (hfun kind) comps i)).
Definition run_checked_core (kind : Z) (i : input) : val := enc_core (checked_core (hfun kind) comps i).

(* value at an index vector of a nested output, encoded (for examples and cases) *)
Definition nest_at_val (o : out rv) (idx : list nat) : option val :=
  match o with
  | ONest n => match nest_at n idx with Some (Leaf c) => Some (enc_cell c) | _ => None end
  | _ => None
  end.
