(* Model of xyzpy/plot/infiniplot.py (class Infiniplotter): the mapped visual properties in the
   code's fixed order, init_mapped_dim (fuse -> explicit order -> dropna how='all'), the default style
   values, plot_lines, plot_heatmap and the histogram branch.  Executable and proof-free.

   Conventions.  Dimensions of the dataset are numbered 0..n-1, a coordinate is its position in the
   dimension, a label of a (possibly fused) axis is the list of the coordinates of its dimensions.
   A drawn value is a [cell] = the ids of the non-missing source values it is made of ([] = NaN; one id
   without aggregation; the group under aggregation -- the statistic itself is numpy's and only tested).
   The order in which xarray lists the iterated dimensions is an input ([s_iter]). *)
From XV Require Import Prelude Grid.
From Coq Require Import QArith.
Delimit Scope string_scope with string.
Open Scope Z_scope.

(* ------------------------------------------------------------------ the fixed order of properties *)
Definition P_hue : nat := 0.
Definition P_color : nat := 1.
Definition P_marker : nat := 2.
Definition P_markersize : nat := 3.
Definition P_mec : nat := 4.
Definition P_linestyle : nat := 5.
Definition P_linewidth : nat := 6.
Definition P_col : nat := 7.
Definition P_row : nat := 8.

(* the order of the init_mapped_dim calls in Infiniplotter.__init__ *)
Definition prop_names : list string :=
  ["hue"%string; "color"%string; "marker"%string; "markersize"%string; "markeredgecolor"%string;
   "linestyle"%string; "linewidth"%string; "col"%string; "row"%string].
Definition prop_order : list nat := seq 0 (length prop_names).
(* the style loop of plot_lines (after hue / color) *)
Definition style_loop_names : list string :=
  ["marker"%string; "markersize"%string; "markeredgecolor"%string; "linewidth"%string; "linestyle"%string].

(* default style tables: only their sizes (and that their entries are distinct) matter *)
Definition n_markers : nat := 15.
Definition n_linestyles : nat := 6.
Definition n_colors : nat := 7.
Definition ms_lo : Z := 3.
Definition ms_hi : Z := 9.
Definition lw_lo : Z := 1.
Definition lw_hi : Z := 3.
Definition dropna_how : string := "all"%string.
(* what init_mapped_dim does to the dataset, in order (see init_step), and how a panel is indexed *)
Definition init_step_names : list string := ["stack"%string; "sel"%string; "dropna"%string].
Definition panel_names : list string := ["row"%string; "col"%string].

(* ------------------------------------------------------------------ style values *)
(* np.linspace(lo, hi, N)[k] *)
Definition linspace (lo hi : Z) (N k : nat) : Q :=
  if (N <=? 1)%nat then inject_Z lo
  else (inject_Z lo + inject_Z (Z.of_nat k) * (inject_Z (hi - lo) / inject_Z (Z.of_nat N - 1)))%Q.

(* the hue sweep: np.linspace(h0, h0 + sweep, N, endpoint=False)[k] = h0 + sweep * (k / N): we keep k / N *)
Definition hue_param (N k : nat) : Q := (inject_Z (Z.of_nat k) / inject_Z (Z.of_nat N))%Q.

Inductive sval :=
| SIdx (k : nat)            (* index into a default table *)
| SFrac (q : Q).            (* a linspace value *)

(* value of property p for the k-th of N coordinates ([pal]: a palette / colormap was given) *)
Definition style_val (pal : bool) (p N k : nat) : sval :=
  if (p =? P_marker)%nat then SIdx (k mod n_markers)
  else if (p =? P_linestyle)%nat then SIdx (k mod n_linestyles)
  else if (p =? P_markersize)%nat then SFrac (linspace ms_lo ms_hi N k)
  else if (p =? P_linewidth)%nat then SFrac (linspace lw_lo lw_hi N k)
  else if (p =? P_color)%nat then (if pal then SFrac (linspace 0 1 N k) else SIdx k)
  else SIdx k.

(* ------------------------------------------------------------------ axes and init_mapped_dim *)
Definition label := list Z.
Record axis := mk_axis { a_dims : list nat; a_dom : list label }.
Record mprop := mk_mprop { mp_prop : nat; mp_dims : list nat; mp_order : option (list label) }.

Definition nmem (d : nat) (l : list nat) : bool := existsb (Nat.eqb d) l.
Definition touches (ds : list nat) (a : axis) : bool := existsb (fun d => nmem d ds) (a_dims a).
Definition axis_of (axs : list axis) (d : nat) : axis :=
  match find (fun a => nmem d (a_dims a)) axs with Some a => a | None => mk_axis [d] [] end.

(* the coordinate of every original dimension, given one label per axis *)
Definition assoc (axs : list axis) (ls : list label) : list (nat * Z) :=
  flat_map (fun p => combine (a_dims (fst p)) (snd p)) (combine axs ls).
Fixpoint alook (d : nat) (l : list (nat * Z)) : Z :=
  match l with
  | [] => 0
  | (k, v) :: r => if Nat.eqb k d then v else alook d r
  end.
Definition full_index (ndims : nat) (axs : list axis) (ls : list label) : list Z :=
  map (fun d => alook d (assoc axs ls)) (seq 0 ndims).

Section Init.
  Variable ndims : nat.
  Variable notnull : list Z -> bool.      (* some data variable is present at this full index *)

  (* stack: labels of the fused axis in product order (last dimension fastest) *)
  Definition fuse (axs : list axis) (ds : list nat) : axis :=
    mk_axis ds (map (@concat Z) (product (map (fun d => a_dom (axis_of axs d)) ds))).

  (* does coordinate l of axis a have any data, the other axes being restricted to their domains *)
  Definition label_has_data (others : list axis) (a : axis) (l : label) : bool :=
    existsb (fun ls => notnull (full_index ndims (a :: others) (l :: ls))) (product (map a_dom others)).

  Definition init_step (axs : list axis) (m : mprop) : list axis :=
    let others := filter (fun a => negb (touches (mp_dims m) a)) axs in
    let a0 := fuse axs (mp_dims m) in
    let a1 := mk_axis (a_dims a0) (match mp_order m with Some o => o | None => a_dom a0 end) in
    let a2 := mk_axis (a_dims a1) (filter (label_has_data others a1) (a_dom a1)) in
    others ++ [a2].

  Definition init_axes (shape : list nat) : list axis :=
    map (fun d => mk_axis [d] (map (fun i => [i]) (zseq 0 (nth d shape 0%nat)))) (seq 0 ndims).

  Definition has_prop (p : nat) (ms : list mprop) : bool := existsb (fun m => Nat.eqb (mp_prop m) p) ms.
  (* "if only one is specified allow it to be either": hue alone becomes color *)
  Definition normalize (ms : list mprop) : list mprop :=
    if has_prop P_hue ms && negb (has_prop P_color ms)
    then map (fun m => if Nat.eqb (mp_prop m) P_hue then mk_mprop P_color (mp_dims m) (mp_order m) else m) ms
    else ms.
  Definition sorted_maps (ms : list mprop) : list mprop :=
    flat_map (fun p => filter (fun m => Nat.eqb (mp_prop m) p) ms) prop_order.

  Definition final_axes (shape : list nat) (ms : list mprop) : list axis :=
    fold_left init_step (sorted_maps (normalize ms)) (init_axes shape).
End Init.

(* ------------------------------------------------------------------ the plotting loop *)
Section Loop.
  Variable pt : Type.                        (* what is drawn at one x position *)
  Variable mask : pt -> bool.                (* is it a drawable point *)
  Variable doms : list (list label).         (* domains of the iterated axes, in iteration order *)
  Variable slice : list label -> list pt.    (* the series of a coordinate combination *)
  Variable jam : bool.                       (* join_across_missing *)
  Variable rowpos colpos : option nat.       (* position of the row / col axis among the iterated axes *)
  Variable styled : list (nat * nat).        (* (property, position of its axis) *)
  Variable pal : bool.

  Definition ranges : list (list nat) := map (fun d => seq 0 (length d)) doms.
  Definition labels_at (iloc : list nat) : list label :=
    map (fun di => nth (snd di) (fst di) []) (combine doms iloc).
  Definition pos_idx (p : option nat) (iloc : list nat) : nat :=
    match p with Some q => nth q iloc 0%nat | None => 0%nat end.

  Record line := mk_line {
    l_iloc : list nat;
    l_panel : nat * nat;
    l_style : list (nat * sval);
    l_pts : list pt }.

  Definition has_data (iloc : list nat) : bool := existsb mask (slice (labels_at iloc)).
  Definition style_of (iloc : list nat) : list (nat * sval) :=
    map (fun pq => (fst pq, style_val pal (fst pq) (length (nth (snd pq) doms [])) (nth (snd pq) iloc 0%nat))) styled.
  Definition line_of (iloc : list nat) : line :=
    let s := slice (labels_at iloc) in
    mk_line iloc (pos_idx rowpos iloc, pos_idx colpos iloc) (style_of iloc)
            (if jam then filter mask s else s).

  (* for iloc in itertools.product(ranges): ... if not np.any(mask): continue ... ax.plot(...) *)
  Definition plot_lines : list line :=
    flat_map (fun iloc => if has_data iloc then [line_of iloc] else []) (product ranges).

  (* plot_heatmap: one mesh per combination, nothing skipped *)
  Definition plot_all : list line := map line_of (product ranges).
End Loop.
Arguments l_iloc {pt} l.
Arguments l_panel {pt} l.
Arguments l_style {pt} l.
Arguments l_pts {pt} l.

(* ------------------------------------------------------------------ histogram *)
(* numpy's rule: bins are half open, the last one is closed *)
Definition in_bin (lo hi : Z) (last : bool) (v : Z) : bool :=
  (lo <=? v) && (if last then v <=? hi else v <? hi).
Fixpoint bins_of (edges : list Z) : list (Z * Z * bool) :=
  match edges with
  | a :: ((b :: r) as t) => (a, b, match r with [] => true | _ => false end) :: bins_of t
  | _ => []
  end.
Definition bin_has (b : Z * Z * bool) (v : Z) : bool := in_bin (fst (fst b)) (snd (fst b)) (snd b) v.
Definition count_in (b : Z * Z * bool) (vals : list Z) : nat := length (filter (bin_has b) vals).
Definition hist_counts (edges vals : list Z) : list nat := map (fun b => count_in b vals) (bins_of edges).
Definition total (cs : list nat) : nat := fold_right plus 0%nat cs.
Definition width (b : Z * Z * bool) : Z := snd (fst b) - fst (fst b).
(* density_i = count_i / (total * width_i), each bin with ITS OWN width (edges and widths in units of 1/scale) *)
Definition hist_density (scale : Z) (edges vals : list Z) : list Q :=
  let cs := hist_counts edges vals in
  map (fun bc => (inject_Z (Z.of_nat (snd bc)) * inject_Z scale
                  / (inject_Z (Z.of_nat (total cs)) * inject_Z (width (fst bc))))%Q)
      (combine (bins_of edges) cs).
(* nbins when bins=None: min(max(3, int(size ** 0.5)), 50) *)
Definition default_nbins (size : nat) : nat :=
  Z.to_nat (Z.min (Z.max 3 (Z.sqrt (Z.of_nat size))) 50).

(* ------------------------------------------------------------------ heat map *)
(* pcolormesh(x, y, z.transpose(y, x)): row a of the mesh is y_a, column b is x_b *)
Definition heat_mesh {C} (z : label -> label -> C) (xdom ydom : list label) : list (list C) :=
  map (fun yl => map (fun xl => z xl yl) xdom) ydom.

(* ------------------------------------------------------------------ a concrete case *)
Definition cell := list Z.

Record spec := mk_spec {
  s_shape : list nat;
  s_y : list (option Z);               (* the plotted variable, row major; ids (or scaled values: histogram) *)
  s_x : option (list (option Z));      (* x as a data variable; None: x is the coordinate of s_xdim *)
  s_xdim : option nat;                 (* the dimension along a line (x coordinate or xlink) *)
  s_ydim : option nat;                 (* heat map: the y dimension *)
  s_maps : list mprop;
  s_aggall : bool;                     (* aggregate=True / histogram / heat map: every unmapped dimension *)
  s_agg : list nat;                    (* aggregate=[...] *)
  s_iter : list (list nat);            (* iteration order of the remaining dimensions (read from xarray) *)
  s_jam : bool;
  s_pal : bool;
  s_scale : Z;                         (* histogram: values and edges are in units of 1/scale *)
  s_edges : list Z;
  s_dens : bool;
  s_bins_default : bool }.

Definition ndims_of (s : spec) : nat := length (s_shape s).
Definition flat_pos (shape : list nat) (idx : list Z) : Z :=
  fold_left (fun acc ni => acc * Z.of_nat (fst ni) + snd ni) (combine shape idx) 0.
Definition flat_get (shape : list nat) (flat : list (option Z)) (idx : list Z) : option Z :=
  nth (Z.to_nat (flat_pos shape idx)) flat None.
Definition yv (s : spec) (idx : list Z) : option Z := flat_get (s_shape s) (s_y s) idx.
Definition xv (s : spec) (idx : list Z) : option Z :=
  match s_x s with
  | Some fx => flat_get (s_shape s) fx idx
  | None => match s_xdim s with Some d => Some (nth d idx 0) | None => None end
  end.
Definition is_some {A} (o : option A) : bool := match o with Some _ => true | None => false end.
(* Dataset.dropna counts every data variable *)
Definition notnull_of (s : spec) (idx : list Z) : bool :=
  is_some (yv s idx) || match s_x s with Some fx => is_some (flat_get (s_shape s) fx idx) | None => false end.

Definition axes_of (s : spec) : list axis := final_axes (ndims_of s) (notnull_of s) (s_shape s) (s_maps s).
Definition opt_list {A} (o : option A) : list A := match o with Some a => [a] | None => [] end.
Definition special (s : spec) : list nat := opt_list (s_xdim s) ++ opt_list (s_ydim s).
Definition mapped_dims (s : spec) : list nat := flat_map mp_dims (s_maps s).
Fixpoint nat_list_eqb (a b : list nat) : bool :=
  match a, b with
  | [], [] => true
  | x :: a', y :: b' => Nat.eqb x y && nat_list_eqb a' b'
  | _, _ => false
  end.
Fixpoint index_where {A} (f : A -> bool) (l : list A) : option nat :=
  match l with
  | [] => None
  | a :: r => if f a then Some 0%nat else option_map S (index_where f r)
  end.
Definition nmaps (s : spec) : list mprop := normalize (s_maps s).
Definition style_props : list nat := [P_hue; P_color; P_marker; P_markersize; P_linestyle; P_linewidth].

(* what Infiniplotter.__init__ leaves behind, computed once *)
Record ctx := mk_ctx {
  c_red : list axis;        (* the axes that are reduced (aggregated / binned), in dataset order *)
  c_iter : list axis;       (* the iterated axes, in the order xarray lists them *)
  c_x : axis;
  c_y : axis;
  c_pos : list (option nat) (* for each property of prop_order: position of its axis among c_iter *) }.

Definition ctx_of (s : spec) : ctx :=
  let F := axes_of s in
  let red := filter (fun a => negb (touches (special s) a) &&
                              (if s_aggall s then negb (touches (mapped_dims s) a) else touches (s_agg s) a)) F in
  let valid := filter (fun a => negb (touches (special s ++ flat_map a_dims red) a)) F in
  let it := flat_map (fun ds => filter (fun a => nat_list_eqb (a_dims a) ds) valid) (s_iter s)
            ++ filter (fun a => negb (existsb (nat_list_eqb (a_dims a)) (s_iter s))) valid in
  mk_ctx red it
         (match s_xdim s with Some d => axis_of F d | None => mk_axis [] [[]] end)
         (match s_ydim s with Some d => axis_of F d | None => mk_axis [] [[]] end)
         (map (fun p => match find (fun m => Nat.eqb (mp_prop m) p) (nmaps s) with
                        | Some m => index_where (fun a => nat_list_eqb (a_dims a) (mp_dims m)) it
                        | None => None
                        end) prop_order).

Definition pos_of_prop (c : ctx) (p : nat) : option nat := nth p (c_pos c) None.
Definition styled_of (c : ctx) : list (nat * nat) :=
  flat_map (fun p => match pos_of_prop c p with Some q => [(p, q)] | None => [] end) style_props.
Definition idoms (c : ctx) : list (list label) := map a_dom (c_iter c).

(* the (aggregated) cell of variable v at the given labels of the fixed axes *)
Definition group (s : spec) (c : ctx) (v : list Z -> option Z) (fixed : list axis) (ls : list label) : cell :=
  flat_map (fun als => opt_list (v (full_index (ndims_of s) (fixed ++ c_red c) (ls ++ als))))
           (product (map a_dom (c_red c))).

Definition is_nil {A} (l : list A) : bool := match l with [] => true | _ => false end.
Definition pt_mask (p : cell * cell) : bool := negb (is_nil (fst p)) && negb (is_nil (snd p)).

Definition line_slice (s : spec) (c : ctx) (ls : list label) : list (cell * cell) :=
  map (fun xl => (match s_x s with
                  | Some _ => group s c (xv s) (c_iter c ++ [c_x c]) (ls ++ [xl])
                  | None => xl            (* a coordinate is not aggregated *)
                  end,
                  group s c (yv s) (c_iter c ++ [c_x c]) (ls ++ [xl])))
      (a_dom (c_x c)).

Definition lines_of (s : spec) (c : ctx) : list (line (cell * cell)) :=
  plot_lines (cell * cell) pt_mask (idoms c) (line_slice s c) (s_jam s)
             (pos_of_prop c P_row) (pos_of_prop c P_col) (styled_of c) (s_pal s).
Definition infini_lines (s : spec) : list (line (cell * cell)) := lines_of s (ctx_of s).

(* heat map: one mesh per combination of the iterated (row / col) axes *)
Definition heat_slice (s : spec) (c : ctx) (ls : list label) : list (list cell) :=
  heat_mesh (fun xl yl => group s c (yv s) (c_iter c ++ [c_x c; c_y c]) (ls ++ [xl; yl]))
            (a_dom (c_x c)) (a_dom (c_y c)).
Definition heat_of (s : spec) (c : ctx) : list (line (list cell)) :=
  plot_all (list cell) (fun _ => true) (idoms c) (heat_slice s c) false
           (pos_of_prop c P_row) (pos_of_prop c P_col) [] (s_pal s).
Definition infini_heat (s : spec) : list (line (list cell)) := heat_of s (ctx_of s).

(* histogram: the values of a combination are those of every unmapped dimension *)
Definition hist_values (s : spec) (c : ctx) (ls : list label) : list Z := group s c (yv s) (c_iter c) ls.
Definition hpt := option Q.             (* a bar height; None = NaN (empty density) *)
Definition hist_heights (scale : Z) (edges : list Z) (dens : bool) (vals : list Z) : list hpt :=
  let cs := hist_counts edges vals in
  if dens
  then (if (total cs =? 0)%nat then map (fun _ => None) cs
        else map Some (hist_density scale edges vals))
  else map (fun c => Some (inject_Z (Z.of_nat c))) cs.
Definition hist_slice (s : spec) (c : ctx) (ls : list label) : list hpt :=
  hist_heights (s_scale s) (s_edges s) (s_dens s) (hist_values s c ls).
Definition hist_of (s : spec) (c : ctx) : list (line hpt) :=
  plot_lines hpt (@is_some Q) (idoms c) (hist_slice s c) false
             (pos_of_prop c P_row) (pos_of_prop c P_col) (styled_of c) (s_pal s).
Definition infini_hist (s : spec) : list (line hpt) := hist_of s (ctx_of s).
(* the histogram dimension '__hist_dim__': one entry per combination of the coordinates of the unmapped
   dimensions (stack).  When EVERY dimension is mapped there is nothing to stack and the code adds a length-one
   dimension (expand_dims): one entry, every slice is a single value.  [hist_dim_old] is the code before the
   repair `fix: infiniplot histogram when every dimension is mapped`: stacking the empty list was refused by
   xarray / pandas (None = ValueError). *)
Definition hist_dim (red : list axis) : list (list label) := product (map a_dom red).
Definition hist_dim_old (red : list axis) : option (list (list label)) :=
  match red with [] => None | _ => Some (hist_dim red) end.
Definition hist_dim_shape : string := "stack-or-expand_dims"%string.
(* size of the histogram dimension *)
Definition hist_size (c : ctx) : nat := length (hist_dim (c_red c)).
Definition bins_ok (s : spec) (c : ctx) : bool :=
  if s_bins_default s then Nat.eqb (length (s_edges s)) (S (default_nbins (hist_size c))) else true.

(* ------------------------------------------------------------------ canonical observations *)
Definition enc_q (q : Q) : val := let r := Qred q in VL [VZ (Qnum r); VZ (Zpos (Qden r))].
Definition enc_cell (c : cell) : val := match c with [] => VN | _ => VL (map VZ c) end.
Definition enc_sval (v : sval) : val :=
  match v with
  | SIdx k => VZ (Z.of_nat k)
  | SFrac q => enc_q q
  end.
Definition lookup_style (p : nat) (st : list (nat * sval)) : option sval :=
  match find (fun x => Nat.eqb (fst x) p) st with Some x => Some (snd x) | None => None end.
(* the colour entry: hue and colour together choose (colormap, intensity) *)
Definition enc_colour (st : list (nat * sval)) (hN hk cN ck : nat) : val :=
  match lookup_style P_hue st, lookup_style P_color st with
  | Some _, Some _ => VL [VS "ht"; enc_q (hue_param hN hk); enc_q (linspace 0 1 cN ck)]
  | _, Some (SIdx k) => VL [VS "idx"; VZ (Z.of_nat k)]
  | _, Some (SFrac q) => VL [VS "t"; enc_q q]
  | _, _ => VN
  end.
Definition enc_style_entry (st : list (nat * sval)) (p : nat) : val :=
  match lookup_style p st with Some v => enc_sval v | None => VN end.

Definition dom_len (c : ctx) (p : nat) : nat :=
  match pos_of_prop c p with Some q => length (nth q (idoms c) []) | None => 1%nat end.
Definition idx_of (c : ctx) (p : nat) (iloc : list nat) : nat :=
  match pos_of_prop c p with Some q => nth q iloc 0%nat | None => 0%nat end.

Definition enc_style (c : ctx) {pt} (l : line pt) : val :=
  VL [enc_colour (l_style l) (dom_len c P_hue) (idx_of c P_hue (l_iloc l))
                 (dom_len c P_color) (idx_of c P_color (l_iloc l));
      enc_style_entry (l_style l) P_marker;
      enc_style_entry (l_style l) P_markersize;
      enc_style_entry (l_style l) P_linestyle;
      enc_style_entry (l_style l) P_linewidth].

Definition panel_eqb (a b : nat * nat) : bool := Nat.eqb (fst a) (fst b) && Nat.eqb (snd a) (snd b).
Definition enc_grid {pt} (c : ctx) (enc : line pt -> val) (ls : list (line pt)) : val :=
  let R := dom_len c P_row in
  let C := dom_len c P_col in
  VL [VL [VZ (Z.of_nat R); VZ (Z.of_nat C)];
      VL (flat_map (fun i => map (fun j => VL (map enc (filter (fun l => panel_eqb (l_panel l) (i, j)) ls)))
                                 (seq 0 C)) (seq 0 R))].

Definition enc_pt (p : cell * cell) : val := VL [enc_cell (fst p); enc_cell (snd p)].
Definition enc_lines_c (s : spec) (c : ctx) : val :=
  enc_grid c (fun l => VL [VL (map enc_pt (l_pts l)); enc_style c l]) (lines_of s c).
Definition enc_lines (s : spec) : val := enc_lines_c s (ctx_of s).

Definition enc_mesh_cell (pal : bool) (c : cell) : val :=
  if pal then enc_cell c else (match c with [] => VN | _ => VZ 1 end).
Definition enc_heat_c (s : spec) (c : ctx) : val :=
  enc_grid c (fun l => VL (map (fun row => VL (map (enc_mesh_cell (s_pal s)) row)) (l_pts l))) (heat_of s c).
Definition enc_heat (s : spec) : val := enc_heat_c s (ctx_of s).

Definition enc_hpt (h : hpt) : val := match h with Some q => enc_q q | None => VN end.
Definition enc_hist_c (s : spec) (c : ctx) : val :=
  VL [vbool (bins_ok s c);
      enc_grid c (fun l => VL [VL (map enc_hpt (l_pts l)); enc_style c l]) (hist_of s c)].
Definition enc_hist (s : spec) : val := enc_hist_c s (ctx_of s).
