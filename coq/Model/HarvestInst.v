(* Encoders for the harvester / sampler correspondence: point maps are compared as sorted lists. *)
From XV Require Import Prelude Grid Names Harvest.
Open Scope Z_scope.

Fixpoint lex_leb (a b : list Z) : bool :=
  match a, b with
  | [], _ => true
  | _ :: _, [] => false
  | x :: a', y :: b' => if x <? y then true else if x =? y then lex_leb a' b' else false
  end.
Fixpoint pinsert (kv : point * Z) (l : pmap) : pmap :=
  match l with
  | [] => [kv]
  | y :: l' => if lex_leb (fst kv) (fst y) then kv :: l else y :: pinsert kv l'
  end.
Definition psort (m : pmap) : pmap := fold_right pinsert [] m.

Definition enc_pmap (m : pmap) : val := vlist (fun kv => VL [vlist VZ (fst kv); VZ (snd kv)]) (psort m).
Definition enc_policy (p : Z) : policy := match p with 0 => PolNone | 1 => PolNew | _ => PolOld end.

(* after each operation: [raised?; memory; the file at the resolved path] *)
Definition enc_hstate (name : string) (e : engine) (r : hst * bool) : val :=
  VL [vbool (snd r); vopt enc_pmap (h_mem (fst r));
      vopt enc_pmap (fget (h_disk (fst r)) (auto_add_extension name e))].

Definition run_harvest (st : sites) (name : string) (e : engine) (ops : list hop) : val :=
  VL (map (enc_hstate name e) (hrun st name e (mk_hst None []) ops)).

(* sampler *)
Definition enc_table (t : table) : val := vlist (vlist VZ) t.
Fixpoint srun (s : sst) (ops : list sop) : list val :=
  match ops with
  | [] => []
  | o :: rest => let s' := sstep s o in
                 VL [vopt enc_table (s_mem s'); vopt enc_table (s_file s')] :: srun s' rest
  end.
Definition run_sampler (ops : list sop) : val := VL (srun (mk_sst None None) ops).

(* the same history interpreted through control-flow data (the regenerated flows in the correspondence) *)
From XV Require Import HarvestFlow.
Definition run_harvest_flow (fl : flows) (st : sites) (name : string) (e : engine) (ops : list fop) : val :=
  VL (map (enc_hstate name e) (frun fl st name e (mk_hst None []) ops)).
Fixpoint srun_flow (sa : sadd_flow) (sf : save_flow) (s : sst) (ops : list sop) : list val :=
  match ops with
  | [] => []
  | o :: rest => let s' := match o with
                           | SAdd rows sync => sadd_flow_run sa sf s rows sync
                           | SAddFail rows => sadd_wfail_run sa sf s rows
                           | _ => sstep s o
                           end in
                 VL [vopt enc_table (s_mem s'); vopt enc_table (s_file s')] :: srun_flow sa sf s' rest
  end.
Definition run_sampler_flow (sa : sadd_flow) (sf : save_flow) (ops : list sop) : val :=
  VL (srun_flow sa sf (mk_sst None None) ops).
