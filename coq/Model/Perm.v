(* Shuffling and un-shuffling as done by combo_runner_core: the run order is an
   arbitrary permutation p of 0..n-1 (Python's Mersenne Twister is not modelled; the
   harness reads the actual p from CPython), results are put back with
   sorted(zip(enum, results), key=index). *)
From XV Require Import Prelude.

Section Sort.
  Context {A : Type}.
  Fixpoint insert_by (x : nat * A) (l : list (nat * A)) : list (nat * A) :=
    match l with
    | [] => [x]
    | y :: l' => if Nat.leb (fst x) (fst y) then x :: y :: l' else y :: insert_by x l'
    end.
  Fixpoint isort_by (l : list (nat * A)) : list (nat * A) :=
    match l with [] => [] | x :: l' => insert_by x (isort_by l') end.
End Sort.

(* settings in run order *)
Definition shuffled {A} (l : list A) (p : list nat) (d : A) : list A := map (fun i => nth i l d) p.

(* results (in run order) put back into the original order *)
Definition unshuffle {A} (p : list nat) (rs : list A) : list A :=
  map snd (isort_by (combine p rs)).

Definition is_perm (p : list nat) (n : nat) : bool :=
  Nat.eqb (length p) n && forallb (fun i => existsb (Nat.eqb i) p) (seq 0 n).
