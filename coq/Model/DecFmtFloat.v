(* Executable binary64 instance of the operations record of Model/DecFmt.v: PrimFloat
   division, and 10**k taken from the table Model/DecFmtPow.v.  Used by the correspondence
   only; no theorem reasons about PrimFloat. *)
From XV Require Import Prelude DecFmtPow DecFmt.
From Coq Require Import QArith PrimFloat Uint63 FloatOps SpecFloat.
Open Scope Z_scope.

(* exact value of a (finite) binary64; infinities and NaN are outside the model (value 0) *)
Definition fl_of_float (f : float) : fl :=
  match Prim2SF f with
  | S754_zero s => mkfl s 0%Q
  | S754_finite s m e =>
      mkfl s (dyadic (Zpos m) e)
  | S754_infinity s => mkfl s 0%Q
  | S754_nan => mkfl false 0%Q
  end.

(* the float (-1)^neg * m * 2^e, exact when representable (0 <= m < 2^53) *)
Definition mkfloat (neg : bool) (m e : Z) : float :=
  let f := Z.ldexp (of_uint63 (Uint63.of_Z m)) e in
  if neg then (- f)%float else f.

Definition fpow10_float (k : Z) : res float :=
  if pow10_hi <? k then Err E_Overflow
  else match pow10_entry k with
       | Some (m, e) => Ok (mkfloat false m e)
       | None => Err E_ZeroDiv           (* pow(10.0, k) = 0.0 for k < -323 *)
       end.

Definition ops_float : fops :=
  mkfops float fl_of_float PrimFloat.div (fun z => of_uint63 (Uint63.of_Z z)) fpow10_float.

(* a case of the correspondence: both inputs as sign, integer mantissa, binary exponent *)
Definition fmt_case (xn : bool) (xm xe : Z) (en : bool) (em ee : Z) : val :=
  enc_fmt (format ops_float (mkfloat xn xm xe) (mkfloat en em ee)).

(* bit-exact observation of a float: [sign; m; e] with m odd or zero *)
Definition enc_float (f : float) : val :=
  match Prim2SF f with
  | S754_zero s => VL [vbool s; VZ 0; VZ 0]
  | S754_finite s m e =>
      let t := Z.of_nat (Z.to_nat (Z.log2 (Z.land (Zpos m) (- Zpos m)))) in
      VL [vbool s; VZ (Z.shiftr (Zpos m) t); VZ (e + t)]
  | _ => VN
  end.
Definition enc_pow10 (k : Z) : val := vres enc_float (fpow10_float k).
