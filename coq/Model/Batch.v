(* Hand-written model of how a crop divides N settings into batches
   (Crop.choose_batch_settings + Sower).  Proof-free and executable. *)
From XV Require Import Prelude.
Open Scope Z_scope.

Definition cfg := (option Z * option Z * option Z)%type.   (* batchsize, num_batches, remainder *)

Definition total_n (combos_ne : bool) (prod_combos : Z) (cases_ne : bool) (len_cases : Z) : Z :=
  (if cases_ne then len_cases else 1) * (if combos_ne then prod_combos else 1).

(* choose_batch_settings on N settings *)
Definition choose (n : Z) (bs nb r : option Z) : res cfg :=
  match bs, nb with
  | Some s, Some k =>
      let pos := s * k + match r with Some x => x | None => 0 end in
      if (n <=? pos) && (pos <? n + s) then Ok (bs, nb, r) else Err E_Value
  | _, None =>
      let s := match bs with Some s => s | None => 1 end in
      if s <? 1 then Err E_Value else Ok (Some s, Some (cdiv n s), Some 0)
  | None, Some k =>
      let k' := Z.min n k in
      if k' <? 1 then Err E_Value else Ok (Some (n / k'), Some k', Some (n mod k'))
  end.

(* The Sower: a buffer, the number of settings in it, the number of batches
   written, and the batches written so far (batch i is file i, 1-based). *)
Section Sower.
  Context {A : Type}.
  Variables (bsz rem : Z).

  Record sower := mk_sower {
    s_cur : list A; s_cnt : Z; s_bc : Z; s_done : list (list A) }.

  Definition sower_init : sower := mk_sower [] 0 0 [].

  Definition cut (cnt bc : Z) : bool := cnt =? bsz + b2z (bc <? rem).

  Definition sow_step (st : sower) (x : A) : sower :=
    let cur' := s_cur st ++ [x] in
    let cnt' := s_cnt st + 1 in
    if cut cnt' (s_bc st)
    then mk_sower [] 0 (s_bc st + 1) (s_done st ++ [cur'])
    else mk_sower cur' cnt' (s_bc st) (s_done st).

  Definition sow_exit (st : sower) : list (list A) :=
    match s_cur st with [] => s_done st | _ => s_done st ++ [s_cur st] end.

  Definition sow_all (l : list A) : list (list A) :=
    sow_exit (fold_left sow_step l sower_init).
End Sower.

(* the whole sow: choose, then cut *)
Definition sow {A} (l : list A) (bs nb : option Z) : res (cfg * list (list A)) :=
  match choose (Z.of_nat (length l)) bs nb None with
  | Err e => Err e
  | Ok (Some s, Some k, Some r) => Ok ((Some s, Some k, Some r), sow_all s r l)
  | Ok c => Err E_Type     (* both given and no remainder: `int < None` raises TypeError *)
  end.

(* observation encoders *)
Definition enc_cfg (c : cfg) : val :=
  let '(a, b, r) := c in VL [vopt VZ a; vopt VZ b; vopt VZ r].
Definition enc_choose (r : res cfg) : val := vres enc_cfg r.
Definition enc_sow (r : res (cfg * list (list Z))) : val :=
  vres (fun p => VL [enc_cfg (fst p); vlist (vlist VZ) (snd p)]) r.
