(* itertools.product order, nested results, the iterative _unflatten of
   combo_runner.py and its recursive specification.  Executable, proof-free. *)
From XV Require Import Prelude.
Open Scope Z_scope.

(* itertools.product over ls: last list varies fastest *)
Fixpoint product {A} (ls : list (list A)) : list (list A) :=
  match ls with
  | [] => [[]]
  | l :: rest => flat_map (fun x => map (cons x) (product rest)) l
  end.

Inductive nest (R : Type) :=
| Leaf (r : R)
| Node (l : list (nest R)).
Arguments Leaf {R} r.
Arguments Node {R} l.

Fixpoint nest_at {R} (n : nest R) (idx : list nat) : option (nest R) :=
  match idx with
  | [] => Some n
  | i :: rest =>
      match n with
      | Leaf _ => None
      | Node l => match nth_error l i with Some c => nest_at c rest | None => None end
      end
  end.

Fixpoint list_eqb (a b : list Z) : bool :=
  match a, b with
  | [], [] => true
  | x :: a', y :: b' => (x =? y) && list_eqb a' b'
  | _, _ => false
  end.

(* a Python dict keyed by tuples of values, as an association list; first match *)
Fixpoint lookup {V} (store : list (list Z * V)) (key : list Z) (default : V) : V :=
  match store with
  | [] => default
  | (k, v) :: rest => if list_eqb k key then v else lookup rest key default
  end.

(* the recursive specification: entry at value-tuple (v1..vk) is [look (v1..vk)] *)
Fixpoint build {R} (dims : list (list Z)) (look : list Z -> nest R) (prefix : list Z) : nest R :=
  match dims with
  | [] => look prefix
  | d :: ds => Node (map (fun v => build ds look (prefix ++ [v])) d)
  end.

(* one round of the while loop of _unflatten: pop the last dimension [last], and for each
   remaining combination p store the tuple of the entries p + (v,) (default when absent) *)
Definition unflatten_round {R} (store : list (list Z * nest R)) (dims : list (list Z))
           (last : list Z) (default : nest R) : list (list Z * nest R) :=
  map (fun p => (p, Node (map (fun v => lookup store (p ++ [v]) default) last))) (product dims).

(* the loop: dimensions are consumed from the right; [rdims] is the reversed list *)
Fixpoint unflatten_loop {R} (store : list (list Z * nest R)) (rdims : list (list Z))
         (default : nest R) : list (list Z * nest R) :=
  match rdims with
  | [] => store
  | last :: rest => unflatten_loop (unflatten_round store (rev rest) last default) rest default
  end.

Definition unflatten {R} (store : list (list Z * nest R)) (dims : list (list Z))
           (default : nest R) : nest R :=
  lookup (unflatten_loop store (rev dims) default) [] default.

(* value tuple at an index vector *)
Fixpoint vals_at (dims : list (list Z)) (idx : list nat) : option (list Z) :=
  match dims, idx with
  | [], [] => Some []
  | d :: ds, i :: is_ =>
      match nth_error d i, vals_at ds is_ with
      | Some v, Some vs => Some (v :: vs)
      | _, _ => None
      end
  | _, _ => None
  end.
