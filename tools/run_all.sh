#!/bin/bash
# usage: run_all.sh [seed] [tier]  -- runs every claimed check once on the current tree; lists the ones that alarm
cd "$(dirname "$0")/.."
SEED=${1:-0}; TIER=${2:-quick}
FAIL=0
for p in $(/venv/bin/python -c "import json; print(' '.join(c['property_id'] for c in json.load(open('MANIFEST.json'))['checks']))"); do
  OUT=$(VERIF_SEED=$SEED ./check $p --tier $TIER 2>/dev/null | grep -E "VIOLATION|KNOWN-FINDING|^\[$p\]")
  RC=${PIPESTATUS[0]}
  echo "$OUT" | tail -3
  if echo "$OUT" | grep -q VIOLATION; then FAIL=1; fi
done
python3-vt - <<'PY'
import json, jsonschema, glob
s = json.load(open('/root/.vp/EVIDENCE.schema.json'))
m = json.load(open('/verif/MANIFEST.json'))
for c in m['checks']:
    try:
        e = json.load(open(c['evidence_file']))
        jsonschema.validate(e, s)
        cov = e['coverage']
        if e['level'] == 'proof' and cov.get('obligations') != cov.get('discharged'):
            print('EVIDENCE', c['property_id'], 'discharged != obligations')
    except Exception as ex:
        print('EVIDENCE', c['property_id'], 'invalid:', str(ex)[:100])
PY
exit $FAIL
