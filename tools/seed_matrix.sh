#!/bin/bash
# usage: seed_matrix.sh [seed-id ...]
# Runs, for every seeded change under /verif/seeded (or the ones named), the quick check of the property it
# breaks against a SCRATCH copy of /repo with the change applied, using a scratch copy of /verif (so that the
# shared Gen/ files and evidence of /verif are not disturbed).  Prints one line per seed and writes
# /verif/seeded/MATRIX.json.  Needs the Coq project to be built in /verif (the copy re-uses the .vo files).
set -u
W=${XV_MATRIX_W:-/var/tmp/seedrun}
rm -rf $W; mkdir -p $W
rsync -a --exclude .git --exclude 'coq/Run/*' /verif/ $W/verif/
git -C /repo worktree remove --force $W/repo 2>/dev/null
git -C /repo worktree add -q --detach $W/repo HEAD
cd $W/verif
SEEDS="$@"
[ -z "$SEEDS" ] && SEEDS=$(ls /verif/seeded | grep -v MATRIX)
RES=$W/results.jsonl; : > $RES
for S in $SEEDS; do
  D=/verif/seeded/$S
  [ -f $D/patch.diff ] || continue
  P=$(/venv/bin/python -c "import json;print(json.load(open('$D/meta.json'))['property'])")
  [ -f $W/verif/harness/props/$(echo $P | tr A-Z a-z).py ] || { echo "$S: no check for $P yet"; continue; }
  git -C $W/repo checkout -q -- . ; git -C $W/repo clean -fdq
  if ! git -C $W/repo apply $D/patch.diff 2>/dev/null; then echo "$S: PATCH DOES NOT APPLY to HEAD"; echo "{\"seed\":\"$S\",\"property\":\"$P\",\"result\":\"patch-does-not-apply\"}" >> $RES; continue; fi
  OUT=$(XV_REPO=$W/repo PYTHONPATH=$W/repo:$W/verif PYTHONHASHSEED=0 MPLBACKEND=Agg XYZPY_VERIF=1 \
        timeout 1500 /venv/bin/python -W ignore -m harness.main $P --tier quick 2>/dev/null | grep -E "VIOLATION|KNOWN-FINDING|^\[$P\]")
  NV=$(echo "$OUT" | grep -c "^VIOLATION")
  NF=$(echo "$OUT" | grep "^VIOLATION" | grep -vc "no-failing-input-found")
  if [ "$NV" -gt 0 ] && [ "$NF" -gt 0 ]; then R="caught-with-failing-input"; elif [ "$NV" -gt 0 ]; then R="caught-no-failing-input-found"; else R="MISSED"; fi
  echo "$S ($P): $R   $(echo "$OUT" | tail -1)"
  echo "{\"seed\":\"$S\",\"property\":\"$P\",\"result\":\"$R\",\"violation_lines\":$NV}" >> $RES
done
/venv/bin/python - $RES <<'PY'
import json, sys
rows = [json.loads(l) for l in open(sys.argv[1])]
old = {}
try:
    old = {r["seed"]: r for r in json.load(open("/verif/seeded/MATRIX.json"))}
except Exception:
    pass
for r in rows:
    old[r["seed"]] = r
json.dump(sorted(old.values(), key=lambda r: r["seed"]), open("/verif/seeded/MATRIX.json", "w"), indent=1)
PY
git -C /repo worktree remove --force $W/repo
rm -rf $W
