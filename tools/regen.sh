#!/bin/bash
# Regenerate coq/Gen/*.v from /repo (use after experimenting with a modified /repo)
cd "$(dirname "$0")/.." && PYTHONPATH=/repo:/verif /venv/bin/python -W ignore -c "
from harness import core
for k, v in core.regen().items(): print('gen', k, v['ok'], v['detail'][:120])"
