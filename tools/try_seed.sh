#!/bin/bash
# usage: try_seed.sh <seed-id> [property] [extra args for the check]
# Runs one check of the CURRENT /verif working tree (copied) against a scratch copy of /repo with one seeded
# change applied; prints the VIOLATION / summary lines.  Does not touch /verif/seeded/MATRIX.json.
set -u
S="$1"; D=/verif/seeded/$S
P="${2:-$(/venv/bin/python -c "import json;print(json.load(open('$D/meta.json'))['property'])")}"
shift; shift 2>/dev/null
W=/var/tmp/seedtry-$S-$$
rm -rf $W; mkdir -p $W
rsync -a --exclude .git --exclude 'coq/Run/*' /verif/ $W/verif/
git -C /repo worktree add -q --detach $W/repo HEAD
git -C $W/repo apply $D/patch.diff || { echo "PATCH DOES NOT APPLY"; }
cd $W/verif
XV_REPO=$W/repo PYTHONPATH=$W/repo:$W/verif PYTHONHASHSEED=0 MPLBACKEND=Agg XYZPY_VERIF=1 \
  timeout 1800 /venv/bin/python -W ignore -m harness.main $P --tier quick "$@" 2>&1 | grep -E "VIOLATION|KNOWN-FINDING|^\[$P\]|Traceback|Error" | head -${XV_LINES:-12}
if [ -n "${XV_KEEP:-}" ]; then echo "kept $W"; else cd /; git -C /repo worktree remove --force $W/repo; rm -rf $W; fi
