#!/bin/bash
# Runs the repository's pinned test suite with the verification guard OFF and
# checks that every test listed as stable_pass in /root/.vp/BASELINE.json passes.
unset XYZPY_VERIF
OUT=$(mktemp /var/tmp/xv-baseline-XXXXXX.xml)
trap 'rm -f "$OUT"' EXIT
cd /repo && /venv/bin/python -m pytest -ra -q -p no:cacheprovider --timeout=900 \
  --continue-on-collection-errors --junitxml="$OUT" >/dev/null 2>&1
/venv/bin/python - "$OUT" <<'EOF'
import json, sys, xml.etree.ElementTree as ET
base = json.load(open('/root/.vp/BASELINE.json'))
want = set(base['stable_pass'])
passed = set()
for tc in ET.parse(sys.argv[1]).getroot().iter('testcase'):
    bad = any(ch.tag in ('failure', 'error', 'skipped') for ch in tc)
    if not bad:
        passed.add(tc.get('classname') + '::' + tc.get('name'))
missing = sorted(want - passed)
print(f"baseline: {len(want & passed)}/{len(want)} stable tests pass; {len(passed)} passed in total")
for m in missing[:20]:
    print("  NOT PASSING:", m)
sys.exit(1 if missing else 0)
EOF
