#!/usr/bin/env python3
"""Writes /verif/MANIFEST.json from the table below (one entry per claimed property)."""
import json
import os

HERE = os.path.dirname(os.path.dirname(os.path.abspath(__file__)))
ALL = [f"C{i:02d}" for i in range(1, 21)]

CLAIMED = {
    "C01": {
        "level": "proof",
        "text": "Coq theorems for every grid (any arity and sizes), every permutation and every swept function: "
                "exactly-once calls, placement of every result, strategy independence, flat and split outputs, and "
                "equality of the iterative _unflatten with its recursive specification; the hand model of "
                "combo_runner_core is tied to the code by differential execution under 11 execution strategies "
                "(including adversarial completion orders and real process pools) with an independent oracle.",
        "note": "Trusted: Coq kernel; hand transcription Model/Runner.v, Grid.v, Perm.v (validated by "
                "correspondence, not translated); E1 futures return their own job's value; R1 random.shuffle is a "
                "permutation (read from CPython per case). No axioms.",
        "technique": "Coq proof (induction over dimension lists, permutation/sortedness lemmas) + differential correspondence by vm_compute",
        "design_ref": "DESIGN.md section 4, C01",
    },
    "C02": {
        "level": "proof",
        "text": "Coq theorems over the cases branch of the combo_runner_core model: calls are exactly the requested "
                "settings, the grid spans the sorted union of case values, requested slots hold their own result, "
                "every other slot holds the placeholder, overlap is rejected with no call, placeholder shape; "
                "differential execution against combo_runner / case_runner on random case sets and result kinds.",
        "note": "Trusted as C01; value order is the harness's rank map; xarray.full_like placeholder for "
                "dict/Dataset results is checked by test only. No axioms.",
        "technique": "Coq proof (lookup/association-list lemmas, sorted-union lemmas) + differential correspondence by vm_compute",
        "design_ref": "DESIGN.md section 4, C02",
    },
    "C03": {
        "level": "proof",
        "text": "DataFrame rows are proved (for every shuffle permutation) to pair each setting with its own outputs, "
                "over the data flow of combo_runner_core regenerated from the source by abstract interpretation "
                "(which list is run, the un-shuffle, which list becomes info['settings']); Dataset description: dims = "
                "swept arguments followed by declared internal dims, coordinates = swept values, label-wise selection = "
                "the function's value, constants as coordinate iff they name a dimension, resources never recorded. "
                "Differential execution through every entry point (functions, Runner, label) with an independent oracle.",
        "note": "Trusted: Coq kernel; gen_runner translator; hand model Model/Label.v validated by correspondence; "
                "xarray / pandas construction and multi_concat are library behaviour (oracle-tested). No axioms.",
        "technique": "Coq proof over a translator-regenerated data flow + hand model of labelling + differential correspondence",
        "design_ref": "DESIGN.md section 4, C03",
    },
    "C04": {
        "level": "proof",
        "text": "Coq theorem C04_roundtrip: for every sweep, batch size or count, shuffle permutation and grow history "
                "(any order, grouping, repetition) the reap equals the direct sweep and the crop is deleted iff "
                "clean_up is in effect; the crop invariant, idempotent/local grows, reload = function of the disk state, "
                "and the shuffle-flag alignment between sow / saved settings / reap (wiring regenerated from "
                "cropping.py); differential execution of random histories incl. fresh OS processes.",
        "note": "Trusted: Coq kernel; hand model Model/Crop.v validated by correspondence; translators gen_batch / "
                "gen_stages; R2 (same seed, same permutation in every process); pickle round trips. No axioms.",
        "technique": "Coq proof (invariant + induction over grow histories, association-list lemmas) + translated wiring + differential op-sequence correspondence",
        "design_ref": "DESIGN.md section 4, C04",
    },
    "C08": {
        "level": "proof",
        "text": "Coq theorems: the crop invariant (every result file is the whole result of its own batch) holds after "
                "every history of grows with arbitrary failures, deletions, check_bad and re-sows; finished = successful "
                "grow since the last deletion; reported numbers, missing ids and ready flag as functions of the finished "
                "set; grow is local; failed grows write nothing; grow_missing makes the crop ready; re-sow keeps results. "
                "Differential execution of random operation sequences on real crop directories with a ghost-state oracle.",
        "note": "Trusted: Coq kernel; hand model Model/Crop.v; GenReap bridge for the ready test and missing range; "
                "crash-free histories (torn files: C10/C11). No axioms.",
        "technique": "Coq proof (invariant by induction over operation histories) + translated predicates + differential op-sequence correspondence",
        "design_ref": "DESIGN.md section 4, C08",
    },
    "C09": {
        "level": "proof",
        "text": "Coq theorem C09_partial: for ANY non-empty set of finished batches the allow_incomplete reap equals the "
                "direct sweep of the function masked by batch-finishedness; nothing deleted by default; later full reap "
                "exact; refusal without allow_incomplete. Exhaustive differential execution over every proper subset "
                "of finished batches of crops with up to 7 batches.",
        "note": "Trusted: Coq kernel; hand model; GenReap bridge (use_default, placeholder size from the batch file, "
                "clean-up rule, refusal); placeholders compared by kind/shape. No axioms.",
        "technique": "Coq proof (reaper chain lemma, NoDup masking argument) + translated decision logic + exhaustive subset correspondence",
        "design_ref": "DESIGN.md section 4, C09",
    },
    "C10": {
        "level": "proof",
        "text": "Coq theorems over ALL crash prefixes k, any number of batches, every permutation of the deletion order "
                "and states reached through any number of crashed operations and crashed recoveries: a later reap "
                "refuses, errors, or returns exactly the direct run's data (also with allow_incomplete); the documented "
                "recovery is exact and re-entrant; data already in the harvester file survives every crash (atomic "
                "replace); the old remove-then-write and in-place publication are refuted by witnesses. REAL process "
                "deaths (os._exit at every interposed file-operation boundary incl. torn write prefixes, cross-checked "
                "with strace SIGKILL injection in the thorough tier) on sow / grow / reap of raw, Runner, Harvester and "
                "Sampler crops, second crashes during recovery, compared with the model state after the same prefix.",
        "note": "PARTIAL: durability across power loss (fsync, directory entries) is below the model; P1 (a torn pickle "
                "never unpickles) and atomic rename are assumptions. One KNOWN FINDING: a sampler crop killed between "
                "the table save and the crop's deletion re-appends its rows on recovery (C10_sampler_window_refuted). "
                "'Sown files incomplete' includes the crop's sub-directories. Trusted: Coq kernel, gen_crash translator, "
                "the interposition layer. No axioms.",
        "technique": "Coq proof (invariants over crash prefixes and recovery) + translated step order + real kills at every file-operation boundary",
        "design_ref": "DESIGN.md section 4, C10",
    },
    "C11": {
        "level": "proof",
        "text": "Coq theorems for ANY number of growers, batches and ANY schedule (induction over the schedule): every "
                "visible result file is whole (temporary names never match the result pattern); a waiting reaper never "
                "fails and, when done, has read exactly batches 1..B, each whole; every count a progress query reports is "
                "of whole results of growers that have renamed; two growers of the same batch never interfere; the old "
                "in-place publication is refuted by schedules. The publication protocol (unique temp file + os.replace, one "
                "write after the whole batch) is regenerated from cropping.py and bridged. A deterministic scheduler runs "
                "the REAL grow / reap(wait=True) / progress queries as threads with interposed file operations: "
                "sleep-set DFS over schedules (exhaustive for 1-3 growers x 1-3 batches in the thorough tier) plus seeded "
                "random schedules, compared with the model and an independent oracle.",
        "note": "Assumptions: P1 a torn pickle never unpickles; P2 rename within a directory is atomic and an opened file "
                "keeps reading its own inode; file steps are atomic at the granularity of the interposed calls. "
                "Trusted: Coq kernel, gen_publish translator, the thread scheduler. No axioms.",
        "technique": "Coq proof (invariant by induction over schedules) + translated publication protocol + systematic schedule exploration of the real code",
        "design_ref": "DESIGN.md section 4, C11",
    },
    "C12": {
        "level": "proof",
        "text": "The reap entry points are regenerated from cropping.py as ordered stage programs; Coq proves by "
                "computation over the finite space kind x clean_up x allow_incomplete that every deletion follows the "
                "last fallible stage (so any failure keeps the crop), that success deletes iff the effective clean_up, "
                "and that harvester/sampler crops are deleted only after merge-and-save; real failures are injected at "
                "every stage and a corrected retry must deliver exact data.",
        "note": "Trusted: Coq kernel (vm_compute on a finite domain stated in the theorems); translator gen_stages "
                "(statement classification, fail closed); which stages can raise is validated by injection. No axioms.",
        "technique": "Coq proof by computation on translator-regenerated stage programs + general ordering lemma + failure-injection correspondence",
        "design_ref": "DESIGN.md section 4, C12",
    },
    "C05": {
        "level": "proof",
        "text": "Coq theorems on point maps: the value at every point after a merge is the one the overwrite policy "
                "decides; default-policy conflicts raise and leave file and memory unchanged; untouched points are never "
                "dropped or altered; the harvester state machine (memory + file, new sessions, long-lived objects with "
                "stale memory, save_merge_ds, drop_sel) refines one abstract merged dataset over every synced history; "
                "every site resolves a data name (with or without extension) to the same path, over the sites "
                "regenerated from manage.py / farming.py. Differential execution against real Harvesters and files.",
        "note": "Trusted: Coq kernel; gen_names translator; hand model Model/Harvest.v; xarray merge / combine_first / "
                "outer join / dtype promotion and the h5netcdf / joblib round trips are library behaviour validated by "
                "correspondence only; expand_dims is oracle-tested only. No axioms.",
        "technique": "Coq proof (refinement of an abstract map by induction over histories) + translated path sites + differential correspondence",
        "design_ref": "DESIGN.md section 4, C05",
    },
    "C13": {
        "level": "proof",
        "text": "Coq theorems for any dataset (any number of dimensions, variables, sizes): find_missing reports exactly "
                "the grid locations that are all-null, never one with data, as a sublist of the grid in product order "
                "(duplicate-free); parse_into_cases returns exactly the requested settings that are absent or all-null; "
                "harvesting the reported cases leaves nothing missing; plus a structural tie (which criterion / dims are "
                "forwarded) regenerated from case_runner.py. Differential execution on random xarray Datasets incl. the "
                "find -> harvest -> find loop on a real Harvester.",
        "note": "xarray sel / isnull / all / dims order are modelled (Model/DsMap.v) and validated by correspondence, not "
                "proved. Trusted: Coq kernel, gen_missing translator. No axioms.",
        "technique": "Coq proof (filter / product lemmas over a dataset model) + translated wiring + differential correspondence",
        "design_ref": "DESIGN.md section 4, C13",
    },
    "C14": {
        "level": "proof",
        "text": "PARTIAL. Proved (over definitions regenerated from manage.py / farming.py): the file used is the given "
                "name with the engine's extension added when it has none, identically at every save / load / merge / "
                "delete site; resolution is idempotent and leaves the temporary name alone; attribute coercion rewrites "
                "exactly None/True/False for netCDF engines. Tested (differential save -> load comparison, labelled as "
                "a test in the evidence): dims, coords, dtypes, complex values, NaNs, attributes, lazy loading.",
        "note": "The data round trip is HDF5 / joblib / xarray behaviour that no Gallina model expresses: not proved. "
                "netcdf4 / zarr engines are not importable here. Trusted: Coq kernel, gen_names translator. No axioms.",
        "technique": "Coq proof of the name-resolution / coercion logic over translator-regenerated definitions + differential round-trip test",
        "design_ref": "DESIGN.md section 4, C14",
    },
    "C15": {
        "level": "proof",
        "text": "Coq theorems: every synced sampling run appends exactly its rows and changes no earlier row; memory "
                "equals the file; a new sampler (or a long-lived one with stale memory) continues from the file; the rows "
                "of a run pair each drawn setting with the function's value at exactly that setting for every shuffle "
                "permutation (the DataFrame-row theorem over the regenerated data flow of combo_runner_core). "
                "Differential execution of random histories incl. crops, csv / pickle and two interleaved samplers.",
        "note": "The random draws are inputs of the model (recorded and checked against the allowed choices by the "
                "oracle). pandas concat / IO is library behaviour validated by correspondence. No axioms.",
        "technique": "Coq proof (append-only state machine + C03 row theorem) + differential history correspondence",
        "design_ref": "DESIGN.md section 4, C15",
    },
    "C06": {
        "level": "proof",
        "text": "Coq: the labelled-output description that reaches the Dataset / DataFrame builder through a farmer's "
                "crop (reap_runner -> reap_combos_to_ds) is the runner's own, with constants passed as constants, and "
                "the sown settings merge resources / constants with the precedence of a direct run (wiring regenerated "
                "from cropping.py / farming.py); C06_runner composes C04's round-trip theorem with the labelling model: "
                "the Dataset built from the reaped crop equals the one built from the direct sweep. Differential "
                "execution of Runner / Harvester / Sampler crops against direct runs, incl. reload by name in the same "
                "and in a fresh OS process, last-result recording and the on-disk harvester / sampler data.",
        "note": "Trusted: Coq kernel; gen_farmer translator; Dataset equality is checked on real xarray objects up to "
                "axis order; constants given only at sow time are not persisted (documented limitation). No axioms.",
        "technique": "Coq proof (composition of C04 round trip with the labelling model over translated call wiring) + differential farmer-crop correspondence",
        "design_ref": "DESIGN.md section 4, C06",
    },
    "C07": {
        "level": "proof",
        "text": "Coq theorems (unbounded N, batch size, batch count) over a model of choose_batch_settings and the "
                "Sower that is regenerated from cropping.py by a fail-closed translator on every run and tied to "
                "the hand model by bridge lemmas; plus differential execution of model and real sow on disk "
                "(exhaustive N<=48 in the thorough tier) with an independent oracle of the property statement.",
        "note": "Trusted: Coq kernel, translator (pyz.py, gen_batch.py), pickle round trip of batch files, "
                "math.ceil(n/s) exact for n < 2^53. No axioms (Print Assumptions: closed under the global context).",
        "technique": "Coq proof (induction over the settings list, lia/nia) + translator-regenerated model + bridge lemmas + differential correspondence",
        "design_ref": "DESIGN.md section 4, C07",
    },
    "C16": {
        "level": "proof",
        "text": "Coq theorems for all B and all id lists: the tasks a generated script grows are exactly the requested ids "
                "(list or single int), the missing ids when some results exist, or 1..B; the header range covers exactly "
                "those tasks; the PBS single-element rewrite; single mode runs once; template well-formedness (every "
                "{field} supplied, balanced Python lines) by computation on the template strings regenerated from "
                "cropping.py; the CLI grows exactly the missing batches. Selection logic and templates are regenerated by a "
                "translator and bridged. Every generated script is checked with bash -n, its embedded program compiled, "
                "and EXECUTED with bash once per array index with stub scheduler variables; the crop state is compared.",
        "note": "PARTIAL in that shell / Python syntactic validity is decided by bash -n and compile(), not proved. "
                "Real schedulers are absent (stub variables). Two defects found here were repaired (known_findings.json). "
                "Trusted: Coq kernel, gen_templates translator. No axioms.",
        "technique": "Coq proof of the selection logic + vm_compute well-formedness of translator-regenerated templates + end-to-end execution of generated scripts",
        "design_ref": "DESIGN.md section 4, C16",
    },
    "C17": {
        "level": "proof",
        "text": "PARTIAL. Proved over a model of series extraction (Model/PlotSeries.v), for all datasets and sizes: one "
                "series per z value / variable in order with its label; drawn points = the (x, y) pairs where both are "
                "finite, with c / y_err / x_err under the same mask; all-NaN series present and empty; histogram bins "
                "partition the range and counts add up; heat-map mesh orientation; panel (i, j) of a row/col grid and its "
                "titles; colour index monotone, with exact end points and from the dataset-wide scale. Tested (artist "
                "level differential test with an independent oracle, labelled as a test): that matplotlib artists hold "
                "exactly those arrays, Axes.hist binning, Normalize / Colormap in binary64, purity of the input dataset.",
        "note": "No translator unit (the code is xarray / numpy / matplotlib calls): the model is tied by differential "
                "execution only. Rendering (pixels, layout, fonts) is out of scope. Seven option-combination defects found "
                "by this check were repaired (known_findings.json, status fixed). No axioms.",
        "technique": "Coq proof of the series / binning / mesh / panel / colour-index logic + artist-level differential test against matplotlib (Agg)",
        "design_ref": "DESIGN.md section 4, C17",
    },
    "C18": {
        "level": "proof",
        "text": "PARTIAL. Proved over a model of infiniplot's mapping logic (Model/Infini.v, structural parts regenerated "
                "from infiniplot.py by a fail-closed translator): every mapped-coordinate combination that has data is "
                "drawn exactly once, in product order, in the panel of its row and column, with exactly its slice's data "
                "(gaps kept or removed); styles are a function of the mapped coordinate and injective while distinct "
                "defaults remain; heat-map mesh; histogram bins partition and the density integrates to one over the true "
                "bin widths. Tested (artist-level differential test): matplotlib artists, numpy statistics of "
                "aggregation (tolerance 1e-9), colour tables, purity.",
        "note": "xarray stack / sel / dropna and the iteration order are modelled and validated by correspondence. "
                "Rendering is out of scope. One known finding: histogram mode with every dimension mapped raises. "
                "No axioms.",
        "technique": "Coq proof of the slice / panel / style / binning logic over a partly translator-regenerated model + artist-level differential test",
        "design_ref": "DESIGN.md section 4, C18",
    },
    "C19": {
        "level": "proof",
        "text": "Coq theorems over the reals for any list (no length bound): Welford's running count / mean / M2 / "
                "variance / std / err, running covariance and covariance matrix equal the whole-sample quantities; "
                "chunking and order independence; the stopping rule of estimate_from_repeats (all five clauses) for "
                "any operations record. The model is regenerated from utils.py by a fail-closed translator and "
                "bridged; the binary64 (PrimFloat) instance is compared bit for bit with CPython; an exact-arithmetic "
                "oracle tests the floating-point accuracy clause.",
        "note": "PARTIAL: the rounding-error clause ('to floating-point accuracy') is tested, not proved. Axioms "
                "(stdlib Reals only): ClassicalDedekindReals.sig_forall_dec, sig_not_dec, "
                "FunctionalExtensionality.functional_extensionality_dep. Trusted: Coq kernel, gen_welford translator, "
                "x**0.5 (libm pow) vs correctly rounded sqrt within 1 ulp.",
        "technique": "Coq proof over Reals (induction on the sample list) + translator-regenerated model + bit-exact PrimFloat correspondence",
        "design_ref": "DESIGN.md section 4, C19",
    },
    "C20": {
        "level": "proof",
        "text": "Coq theorems, no axioms: C20_core for ALL rationals (the printed string denotes the error rounded to two "
                "significant figures and the value rounded to the same last digit), C20_branches / C20_full over an "
                "abstract float operations record under named hypotheses on division and 10**k accuracy, C20_full_table "
                "with Python's actual 10**k table (nothing left to assume), the old digit rule and the old un-capped "
                "exponent refuted by witnesses; the model is regenerated from utils.py by a translator and bridged; "
                "string-exact correspondence between the PrimFloat instance and the real function incl. dense boundary streams.",
        "note": "IEEE-754 division accuracy (H_div) is a hypothesis of C20_full, not derived from the PrimFloat "
                "specification; subnormal err is covered by correspondence only. Trusted: Coq kernel, gen_fmt translator, "
                "CPython's correctly rounded float formatting.",
        "technique": "Coq proof over exact rationals (decimal rounding lemmas) + translator-regenerated model + string-exact PrimFloat correspondence",
        "design_ref": "DESIGN.md section 4, C20",
    },
}


def main():
    checks = []
    for pid in ALL:
        if pid not in CLAIMED:
            continue
        c = CLAIMED[pid]
        checks.append({
            "property_id": pid,
            "quick_cmd": f"./check {pid} --tier quick",
            "thorough_cmd": f"./check {pid} --tier thorough",
            "evidence_file": f"/verif/evidence/{pid}.json",
            "replay_cmd_template": f"./check {pid} --replay {{path}}",
            "engine": "coq-xv",
            "level_claimed": {"category": c["level"], "text": c["text"], "design_ref": c["design_ref"]},
            "level_note": c["note"],
            "technique": c["technique"],
        })
    na = [{"property_id": p,
           "reason": "check not built yet in this revision of /verif (work in progress; the property is in scope "
                     "of the Coq development, see DESIGN.md section 4)"}
          for p in ALL if p not in CLAIMED]
    m = {
        "version": 1,
        "setup_cmd": "./tools/setup.sh",
        "hooks": {
            "guard": "XYZPY_VERIF",
            "enable": "no source hooks: checks observe xyzpy from the harness side (file-system interposition, "
                      "subprocess kills); XYZPY_VERIF=1 is exported by ./check but nothing in /repo reads it",
            "baseline_off_cmd": "./tools/baseline_off.sh",
            "source_commits": [],
            "add_only": True,
        },
        "engines": [{
            "name": "coq-xv",
            "path": "/verif/coq",
            "serves_properties": sorted(CLAIMED),
            "kind_free_text": "Coq 8.16.1 development (Model/ Gen/ Bridge/ Proofs/ Props/), Gen regenerated from "
                              "/repo by harness/translator, correspondence by vm_compute on generated case files",
        }],
        "checks": checks,
        "not_applicable": na,
        "notes": "Fixes committed to /repo are listed in known_findings.json (status fixed).",
    }
    with open(os.path.join(HERE, "MANIFEST.json"), "w") as f:
        json.dump(m, f, indent=1)
    print(f"{len(checks)} checks, {len(na)} not claimed")


if __name__ == "__main__":
    main()
