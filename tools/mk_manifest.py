#!/usr/bin/env python3
"""Writes /verif/MANIFEST.json from the table below (one entry per claimed property)."""
import json
import os

HERE = os.path.dirname(os.path.dirname(os.path.abspath(__file__)))
ALL = [f"C{i:02d}" for i in range(1, 21)]

CLAIMED = {
    "C07": {
        "level": "proof",
        "text": "Coq theorems (unbounded N, batch size, batch count) over a model of choose_batch_settings and the "
                "Sower that is regenerated from cropping.py by a fail-closed translator on every run and tied to "
                "the hand model by bridge lemmas; plus differential execution of model and real sow on disk "
                "(exhaustive N<=48 in the thorough tier) with an independent oracle of the property statement.",
        "note": "Trusted: Coq kernel, translator (pyz.py, gen_batch.py), pickle round trip of batch files, "
                "math.ceil(n/s) exact for n < 2^53. No axioms (Print Assumptions: closed under the global context).",
        "technique": "Coq proof (induction over the settings list, lia/nia) + translator-regenerated model + bridge lemmas + differential correspondence",
        "design_ref": "DESIGN.md section 4, C07",
    },
}


def main():
    checks = []
    for pid in ALL:
        if pid not in CLAIMED:
            continue
        c = CLAIMED[pid]
        checks.append({
            "property_id": pid,
            "quick_cmd": f"./check {pid} --tier quick",
            "thorough_cmd": f"./check {pid} --tier thorough",
            "evidence_file": f"/verif/evidence/{pid}.json",
            "replay_cmd_template": f"./check {pid} --replay {{path}}",
            "engine": "coq-xv",
            "level_claimed": {"category": c["level"], "text": c["text"], "design_ref": c["design_ref"]},
            "level_note": c["note"],
            "technique": c["technique"],
        })
    na = [{"property_id": p,
           "reason": "check not built yet in this revision of /verif (work in progress; the property is in scope "
                     "of the Coq development, see DESIGN.md section 4)"}
          for p in ALL if p not in CLAIMED]
    m = {
        "version": 1,
        "setup_cmd": "./tools/setup.sh",
        "hooks": {
            "guard": "XYZPY_VERIF",
            "enable": "no source hooks: checks observe xyzpy from the harness side (file-system interposition, "
                      "subprocess kills); XYZPY_VERIF=1 is exported by ./check but nothing in /repo reads it",
            "baseline_off_cmd": "./tools/baseline_off.sh",
            "source_commits": [],
            "add_only": True,
        },
        "engines": [{
            "name": "coq-xv",
            "path": "/verif/coq",
            "serves_properties": sorted(CLAIMED),
            "kind_free_text": "Coq 8.16.1 development (Model/ Gen/ Bridge/ Proofs/ Props/), Gen regenerated from "
                              "/repo by harness/translator, correspondence by vm_compute on generated case files",
        }],
        "checks": checks,
        "not_applicable": na,
        "notes": "Fixes committed to /repo are listed in known_findings.json (status fixed).",
    }
    with open(os.path.join(HERE, "MANIFEST.json"), "w") as f:
        json.dump(m, f, indent=1)
    print(f"{len(checks)} checks, {len(na)} not claimed")


if __name__ == "__main__":
    main()
