#!/bin/bash
# usage: confirm_seed.sh <src dir with patch.diff demo.py meta.json> <seed id> <property>
# Confirms in a scratch worktree of /repo HEAD: demo passes on clean code, patch applies, the test-suite result is
# unchanged, demo fails with the patch.  On success copies the triple to /verif/seeded/<seed id>/.
SRC="$1"; ID="$2"; PROP="$3"
WT=/var/tmp/seedcheck-$ID
git -C /repo worktree remove --force $WT 2>/dev/null; rm -rf $WT
git -C /repo worktree add -q --detach $WT HEAD || exit 2
run_demo() { (cd /var/tmp && PYTHONPATH=$WT MPLBACKEND=Agg timeout 600 /venv/bin/python -W ignore "$SRC/demo.py" >/var/tmp/seed-demo-$ID.log 2>&1); echo $?; }
if [ ! -f /var/tmp/mut/baseline_head.txt ] || [ "$(cat /var/tmp/mut/baseline_head.sha 2>/dev/null)" != "$(git -C /repo rev-parse HEAD)" ]; then
  /var/tmp/mut/run_tests.sh $WT > /var/tmp/mut/baseline_head.txt; git -C /repo rev-parse HEAD > /var/tmp/mut/baseline_head.sha
fi
CLEAN=$(run_demo)
if ! git -C $WT apply "$SRC/patch.diff"; then echo "$ID: PATCH DOES NOT APPLY"; git -C /repo worktree remove --force $WT; exit 3; fi
/var/tmp/mut/run_tests.sh $WT > /var/tmp/seed-tests-$ID.txt
if diff -q /var/tmp/mut/baseline_head.txt /var/tmp/seed-tests-$ID.txt >/dev/null; then TESTS=same; else TESTS=DIFFERENT; fi
MUT=$(run_demo)
git -C /repo worktree remove --force $WT; rm -rf $WT
echo "$ID: demo clean=$CLEAN mutated=$MUT tests=$TESTS"
if [ "$CLEAN" = "0" ] && [ "$MUT" != "0" ] && [ "$TESTS" = "same" ]; then
  mkdir -p /verif/seeded/$ID && cp "$SRC/patch.diff" "$SRC/demo.py" /verif/seeded/$ID/
  /venv/bin/python - "$SRC/meta.json" /verif/seeded/$ID/meta.json "$PROP" <<'PY'
import json, sys
try: m = json.load(open(sys.argv[1]))
except Exception: m = {}
m["property"] = sys.argv[3]
m["confirmed"] = {"by": "tools/confirm_seed.sh in a scratch worktree of /repo HEAD",
                  "demo_exit_clean": 0, "demo_exit_mutated": "non-zero", "test_suite": "identical set of non-passing tests"}
json.dump(m, open(sys.argv[2], "w"), indent=1)
PY
  echo "$ID: kept"
else
  echo "$ID: NOT kept"; tail -5 /var/tmp/seed-demo-$ID.log
fi
rm -f /var/tmp/seed-tests-$ID.txt /var/tmp/seed-demo-$ID.log
