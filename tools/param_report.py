#!/venv/bin/python
"""List, per wrapped entry point, the parameters never passed by any check (or passed with one value class)."""
import importlib, inspect, json, sys
sys.path.insert(0, "/verif"); sys.path.insert(0, "/repo")
from harness.paramcov import TARGETS
seen = json.load(open(sys.argv[1]))
for mod, names in TARGETS.items():
    m = importlib.import_module(mod)
    for q in names:
        try:
            f = getattr(getattr(m, q.split(".")[0]), q.split(".")[1]) if "." in q else getattr(m, q)
            sig = inspect.signature(f)
        except Exception as e:
            continue
        rec = seen.get(f"{mod}.{q}")
        if rec is None:
            print(f"NEVER CALLED  {mod}.{q}")
            continue
        never = [p for p in sig.parameters if p != "self" and p not in rec and sig.parameters[p].kind not in (2, 4)]
        single = [f"{p}={rec[p][0]}" for p in sig.parameters if p in rec and len(rec[p]) == 1 and p != "self"]
        extra = sorted(k for k in rec if k.startswith("**"))
        print(f"{mod}.{q}\n   never: {never}\n   one class only: {single}\n   via **kwargs: {extra}")
