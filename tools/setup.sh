#!/bin/bash
# Build the whole Coq development once (full .vo build), after regenerating Gen/ from /repo.
set -e
cd "$(dirname "$0")/.."
export PYTHONPATH=/repo:/verif PYTHONHASHSEED=0 PYTHONWARNINGS=ignore
mkdir -p coq/Run coq/Gen evidence/replay
/venv/bin/python -W ignore -c "
from harness import core
st = core.regen()
for k, v in st.items(): print('gen', k, v['ok'], v['detail'][:200])
"
cd coq
coq_makefile -f _CoqProject -o Makefile
timeout 3000 make -k -j16 2>&1 | grep -v "^COQDEP" | tail -40
echo "setup: make finished with status ${PIPESTATUS[0]} (each check rebuilds and verifies its own closure)"
