"""Driver for C18: builds an xarray Dataset from a plain (JSON-able) case description, calls the
real `ds.xyz.infiniplot(...)` from /repo under backend Agg and reads back the artists of every Axes
of the returned (fig, axs).  Nothing here knows what the plot *should* look like."""
import copy
import math
import traceback
import warnings

import numpy as np

DIM_NAMES = "abcde"


def arr(flat, sizes):
    a = np.array([np.nan if v is None else float(v) for v in flat], dtype=float)
    return a.reshape(tuple(sizes))


def dataset(cfg):
    """cfg['names'], cfg['sizes'], cfg['coords'] (labels per dim), cfg['vals'] (flat, None = NaN) for the
    main variable, optional cfg['xvals'] for the variable used as x."""
    import xarray as xr
    names, sizes = cfg["names"], cfg["sizes"]
    dv = {cfg["var"]: (names, arr(cfg["vals"], sizes))}
    if cfg.get("xvals") is not None:
        dv[cfg["xvar"]] = (names, arr(cfg["xvals"], sizes))
    coords = {n: np.array(c) for n, c in zip(names, cfg["coords"])}
    return xr.Dataset(dv, coords=coords)


def dims_arg(cfg, dims):
    """A mapped-property argument: a dimension name or, for fused dimensions, a tuple of names."""
    nm = [cfg["names"][d] for d in dims]
    return nm[0] if len(nm) == 1 else tuple(nm)


def label_value(cfg, dims, lab):
    """Coordinate value(s) of a label given as coordinate positions (one per fused dimension)."""
    vs = [cfg["coords"][d][i] for d, i in zip(dims, lab)]
    return vs[0] if len(vs) == 1 else tuple(vs)


def call_args(cfg):
    """Positional and keyword arguments of the infiniplot call described by cfg."""
    names = cfg["names"]
    kw = {}
    for m in cfg["maps"]:
        kw[m["prop"]] = dims_arg(cfg, m["dims"])
        if m.get("order") is not None:
            kw[m["prop"] + "_order"] = [label_value(cfg, m["dims"], lab) for lab in m["order"]]
    mode = cfg["mode"]
    if mode == "lines":
        args = (names[cfg["xdim"]], cfg["var"])
    elif mode == "xvar":
        args = (cfg["xvar"], cfg["var"])
        kw["xlink"] = names[cfg["xdim"]]
    elif mode == "hist":
        args = (cfg["var"],)
        b = cfg.get("bins")
        if b is not None:
            kw["bins"] = b if isinstance(b, int) else (np.array(b, dtype=float) if cfg.get("bins_as_array") else list(b))
        kw["bins_density"] = bool(cfg.get("bins_density", True))
    elif mode == "heat":
        args = (names[cfg["xdim"]], names[cfg["ydim"]], cfg["var"])
    else:
        raise ValueError(mode)
    agg = cfg.get("agg")
    if agg is not None:
        if agg is True:
            kw["aggregate"] = True
        elif agg != "default":          # "default": heat map left to aggregate by itself (it warns)
            kw["aggregate"] = [names[d] for d in agg]
            if cfg.get("agg_as_str") and len(agg) == 1:
                kw["aggregate"] = names[agg[0]]
        if cfg.get("agg_err") is not None:
            kw["aggregate_err_range"] = cfg["agg_err"]
        if cfg.get("agg_method") is not None:
            kw["aggregate_method"] = cfg["agg_method"]
        if cfg.get("err_style") is not None:
            kw["err_style"] = cfg["err_style"]
    if cfg.get("jam"):
        kw["join_across_missing"] = True
    if cfg.get("palette") is not None:
        kw["palette"] = cfg["palette"]
    if cfg.get("legend") is not None:
        kw["legend"] = cfg["legend"]
    if cfg.get("legend_merge"):
        kw["legend_merge"] = True
    return args, kw


def fnum(v):
    v = float(v)
    return None if math.isnan(v) else v


def read_line(ln):
    import matplotlib.colors as mc
    xy = ln.get_xydata()
    return {
        "xy": [[fnum(a), fnum(b)] for a, b in np.asarray(xy, dtype=float).tolist()],
        "color": [float(c) for c in mc.to_rgba(ln.get_color())],
        "marker": ln.get_marker() if isinstance(ln.get_marker(), str) else repr(ln.get_marker()),
        "markersize": float(ln.get_markersize()),
        "mec": [float(c) for c in mc.to_rgba(ln.get_markeredgecolor())],
        "linewidth": float(ln.get_linewidth()),
        "dash": dash_of(ln),
        "linestyle": ln.get_linestyle(),
        "drawstyle": ln.get_drawstyle(),
        "label": ln.get_label(),
    }


def dash_of(ln):
    """(offset, on/off sequence | None) before scaling by the line width."""
    off, seq = ln._unscaled_dash_pattern
    return [float(off), None if seq is None else [float(s) for s in seq]]


def read_mesh(qm):
    a = qm.get_array()
    coords = np.asarray(qm.get_coordinates(), dtype=float)     # (ny + 1, nx + 1, 2) corners
    out = {"coords_shape": list(coords.shape),
           "xedges": coords[0, :, 0].tolist(), "yedges": coords[:, 0, 1].tolist(),
           "xedges_const": bool(np.all(coords[:, :, 0] == coords[0:1, :, 0])),
           "yedges_const": bool(np.all(coords[:, :, 1] == coords[:, 0:1, 1]))}
    a = np.ma.asarray(a)
    out["shape"] = list(a.shape)
    if a.ndim == 3:                                            # explicit RGBA per cell
        out["rgba"] = np.asarray(a, dtype=float).tolist()
    else:
        filled = np.ma.filled(a.astype(float), np.nan)
        out["z"] = [[fnum(v) for v in row] for row in filled.tolist()]
    return out


def read_poly(pc):
    """Vertices of every path of a PolyCollection (error bands, histogram fill)."""
    return [[[fnum(a), fnum(b)] for a, b in np.asarray(p.vertices, dtype=float).tolist()] for p in pc.get_paths()]


def read_axes(ax):
    from matplotlib.collections import LineCollection, PolyCollection, QuadMesh
    meshes, polys, lcs = [], [], []
    for col in ax.collections:
        if isinstance(col, QuadMesh):
            meshes.append(read_mesh(col))
        elif isinstance(col, PolyCollection):
            polys.append(read_poly(col))
        elif isinstance(col, LineCollection):
            lcs.append([[[fnum(a), fnum(b)] for a, b in np.asarray(s, dtype=float).tolist()] for s in col.get_segments()])
    return {"lines": [read_line(ln) for ln in ax.lines], "meshes": meshes, "polys": polys, "segments": lcs,
            "texts": [t.get_text() for t in ax.texts], "xlabel": ax.get_xlabel(), "ylabel": ax.get_ylabel()}


def observe(cfg, probe=True):
    """Run the real code; returns the observation dict (or {'error': ...})."""
    import matplotlib.pyplot as plt
    import xyzpy  # noqa: F401  (registers the .xyz accessor)
    ds = dataset(cfg)
    before = ds.copy(deep=True)
    args, kw = call_args(cfg)
    obs = {}
    fig = None
    try:
        with warnings.catch_warnings():
            warnings.simplefilter("ignore")
            fig, axs = ds.xyz.infiniplot(*args, **kw)
        axs = np.asarray(axs)
        obs["shape"] = list(axs.shape)
        obs["panels"] = [[read_axes(axs[i, j]) for j in range(axs.shape[1])] for i in range(axs.shape[0])]
        obs["fig_is_figure"] = fig is not None and all(ax.figure is fig for ax in axs.flat)
    except Exception as e:  # every exception is an observation
        tb = traceback.extract_tb(e.__traceback__)
        obs["error"] = type(e).__name__
        obs["message"] = str(e)[:300]
        obs["where"] = [f"{f.filename.split('/')[-1]}:{f.name}" for f in tb][-4:]
    finally:
        if fig is not None:
            plt.close(fig)
        plt.close("all")
    obs["pure"] = bool(ds.identical(before))
    if "error" not in obs and probe:
        obs["iter_dims"] = probe_iteration_order(cfg)
    return obs


def probe_iteration_order(cfg):
    """The order in which xarray lists the dimensions that plot_lines / plot_heatmap iterate over
    (`Infiniplotter.remaining_dims`).  This order is library behaviour (Dataset.sizes after stack / sel /
    dropna / reductions); the model takes it as an input.  No figure is created (dummy `axs`)."""
    from xyzpy.plot.infiniplot import Infiniplotter
    ds = dataset(cfg)
    args, kw = call_args(cfg)
    kw = copy.deepcopy(kw)
    try:
        with warnings.catch_warnings():
            warnings.simplefilter("ignore")
            p = Infiniplotter(ds, *(list(args) + [None] * (3 - len(args))), axs=np.empty((1, 1), dtype=object), **kw)
        return [str(d) for d in p.remaining_dims]
    except Exception as e:
        return {"probe_error": f"{type(e).__name__}: {e}"[:200]}
