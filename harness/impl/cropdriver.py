"""Runs operation sequences on a real crop directory (xyzpy.Crop from /repo) and returns the
canonical observation after every operation, in the vocabulary of Model/CropInst.v."""
import functools
import glob
import json
import os
import re
import shutil

from harness.core import zlist, natlist, zopt
from harness.impl import runner as R
from harness.impl.crops import py_perm


def swept_failing(logpath, ranks, kind, failfile, **kw):
    c = 0
    for a, v in kw.items():
        aid = R.ARGS.index(a) if a in R.ARGS else R.CONST_ARGS[a]
        r = ranks[a][v] if a in ranks else v
        c += (r + 1) * 7 ** aid
    try:
        with open(failfile) as f:
            fails = json.load(f)
    except FileNotFoundError:
        fails = []
    exc = "RuntimeError"
    if isinstance(fails, dict):
        fails, exc = fails["codes"], fails["exc"]
    if c in fails:
        raise {"RuntimeError": RuntimeError, "ValueError": ValueError, "StopIteration": StopIteration,
               "KeyError": KeyError, "ZeroDivisionError": ZeroDivisionError}[exc](
            f"injected failure on setting with code {c}")
    if os.environ.get("XV_SLOW_EVEN") and c % 2 == 0:
        # (only set while a batch is grown by a worker pool) settings with an even code take longer, so that
        # the cases of a batch complete in an order different from the one they were submitted in
        import time
        time.sleep(0.06)
    if logpath:
        fd = os.open(logpath, os.O_WRONLY | os.O_APPEND | os.O_CREAT, 0o644)
        try:
            os.write(fd, (str(c) + "\n").encode())
        finally:
            os.close(fd)
    return R.result_of_kind(kind, c)


class SownSweep:
    """A sweep as a crop sees it: combos sorted by argument NAME (cropping.py sorts them)."""

    def __init__(self, sw, shuffle=False, via="combos", ctor_shuffle=None):
        # via == "combos-default": the Crop is CONSTRUCTED with shuffle=ctor_shuffle and sow_combos is called
        # without a shuffle argument (its default, False, then decides: sown and recorded unshuffled)
        self.sw, self.shuffle, self.via = sw, shuffle, via
        self.ctor_shuffle = ctor_shuffle
        if via == "combos-default":
            self.shuffle = False
        # sow_combos sorts the combos by argument name; sow_cases keeps them as given
        self.sorted_combos = sorted(sw.combos, key=lambda x: x[0]) if via != "cases" else list(sw.combos)

    def n(self):
        return self.sw.n_settings()

    def perm(self):
        return py_perm(self.shuffle, self.n()) if self.shuffle else None

    def coq_input(self):
        sw = self.sw
        cv = "[" + "; ".join(zlist([sw.rank[a][v] for a, v in zip(sw.case_args, c)]) for c in sw.cases) + "]"
        cmb = "[" + "; ".join(zlist([sw.rank[a][v] for v in vals]) for a, vals in self.sorted_combos) + "]"
        consts = "[" + "; ".join(f"({sw.argid(k)}, {v})" for k, v in sw.consts.items()) + "]"
        p = self.perm()
        ps = "None" if p is None else f"(Some {natlist(p)})"
        return (f"(mk_input {'true' if sw.cases else 'false'} {zlist([sw.argid(a) for a in sw.case_args])} "
                f"{cv} {zlist([sw.argid(a) for a, _ in self.sorted_combos])} {cmb} {consts} false false {ps})")

    def depth(self):
        return len(self.sw.case_args) + len(self.sw.combo_args)

    def codes(self):
        """codes of all settings (for choosing failing ones)"""
        from harness.props.sweepcheck import expected_settings
        return [self.sw.code(kw) for kw in expected_settings(self.sw)]


class observed_result_write:
    """While active, `callback()` runs at the moment a result file has been written and closed under whatever
    name the crop writes it to, just BEFORE the os.replace / rename that follows (or, if the crop writes in
    place, just before the file is closed)."""

    def __init__(self, callback):
        self.callback = callback

    def __enter__(self):
        import builtins
        import xyzpy.gen.cropping as M
        self.M = M
        self.saved = {n: (n in M.__dict__, M.__dict__.get(n)) for n in ("open", "os")}
        cb, fired = self.callback, []

        class Writer:
            def __init__(self, real, final):
                self.real, self.final = real, final

            def write(self, data):
                return self.real.write(data)

            def close(self):
                if self.final and not fired:      # written in place: look before the data is flushed
                    fired.append(1)
                    cb()
                self.real.close()

            def __enter__(self):
                return self

            def __exit__(self, *a):
                self.close()
                return False

            def __getattr__(self, n):
                return getattr(self.real, n)

        def x_open(path, mode="r", *a, **k):
            real = builtins.open(path, mode, *a, **k)
            b = os.path.basename(str(path))
            if "xyz-result-" in b and "w" in mode:
                return Writer(real, b.endswith(".jbdmp"))
            return real

        real_os = M.os

        class OsProxy:
            def __getattr__(self, n):
                return getattr(real_os, n)

            @staticmethod
            def replace(a, b, **k):
                if "xyz-result-" in os.path.basename(str(b)) and not fired:
                    fired.append(1)
                    cb()
                return real_os.replace(a, b, **k)
            rename = replace
        M.open = x_open
        M.os = OsProxy()
        return self

    def __exit__(self, *exc):
        for n, (had, val) in self.saved.items():
            if had:
                setattr(self.M, n, val)
            elif n in self.M.__dict__:
                delattr(self.M, n)
        return False


class failing_result_write:
    """While active, writing a result file of a crop fails like a full disk: stage 'write' -- half of the data
    reaches the file, then write() raises; stage 'close' -- the data is still buffered when close() fails to
    flush it (the file stays empty).  Done by replacing `open` in xyzpy.gen.cropping for result files only."""

    def __init__(self, stage, pattern="xyz-result-"):
        self.stage, self.pattern = stage, pattern

    def __enter__(self):
        import builtins
        import xyzpy.gen.cropping as M
        self.M = M
        self.had = "open" in M.__dict__
        self.old = M.__dict__.get("open")
        stage, pattern = self.stage, self.pattern

        class Writer:
            def __init__(self, real):
                self.real = real

            def write(self, data):
                if stage == "write":
                    data = bytes(data)
                    self.real.write(data[:len(data) // 2])
                    self.real.flush()
                    raise OSError(28, "No space left on device (injected)")
                return len(data)          # buffered, never flushed

            def flush(self):
                pass

            def close(self):
                self.real.close()
                if stage == "close":
                    raise OSError(28, "No space left on device (injected at close)")

            def __enter__(self):
                return self

            def __exit__(self, *a):
                self.close()
                return False

            def __getattr__(self, n):
                return getattr(self.real, n)

        def x_open(path, mode="r", *a, **k):
            real = builtins.open(path, mode, *a, **k)
            if pattern in os.path.basename(str(path)) and "w" in mode:
                return Writer(real)
            return real
        M.open = x_open
        return self

    def __exit__(self, *exc):
        if self.had:
            self.M.open = self.old
        else:
            del self.M.open
        return False


class CropRun:
    def __init__(self, tmp, kind, name="cx", style="named"):
        # style: "named" (fn and name given), "inferred-name" (the crop is named after its function),
        #        "fn-assigned" (the crop is constructed by name, the function assigned to crop.fn afterwards)
        if style == "inferred-name":
            name = "swept_failing"
        self.tmp, self.kind, self.name, self.style = tmp, kind, name, style
        self.parent = os.path.join(tmp, "parent")
        os.makedirs(self.parent, exist_ok=True)
        shutil.rmtree(os.path.join(self.parent, f".xyz-{name}"), ignore_errors=True)
        self.failfile = os.path.join(tmp, "fail.json")
        with open(self.failfile, "w") as f:
            json.dump([], f)
        self.crop = None
        self.sown = None

    def fn(self, sw):
        return functools.partial(swept_failing, None, sw.rank, self.kind, self.failfile)

    def location(self):
        return os.path.join(self.parent, f".xyz-{self.name}")

    def new_crop(self, sw=None, **kw):
        from xyzpy.gen.cropping import Crop
        if os.path.exists(os.path.join(self.location(), "xyz-settings.jbdmp")):
            return Crop(name=self.name, parent_dir=self.parent, **kw)
        fn = self.fn(sw if sw is not None else self.sown.sw)
        if self.style == "inferred-name":
            return Crop(fn=fn, parent_dir=self.parent, **kw)
        if self.style == "fn-assigned":
            crop = Crop(name=self.name, parent_dir=self.parent, **kw)
            crop.fn = fn
            return crop
        return Crop(fn=fn, name=self.name, parent_dir=self.parent, **kw)

    def result_ids(self):
        fs = glob.glob(os.path.join(glob.escape(self.location()), "results", "xyz-result-*.jbdmp"))
        return sorted(int(re.findall(r"xyz-result-(\d+)\.jbdmp$", f)[0]) for f in fs)

    def listing(self):
        out = []
        for root, _, fs in os.walk(self.location()):
            for f in fs:
                p = os.path.join(root, f)
                out.append((os.path.relpath(p, self.location()), os.path.getsize(p)))
        return sorted(out)

    def queries(self):
        c = self.crop
        return [c.num_sown_batches, c.num_results, list(c.missing_results()), bool(c.is_ready_to_reap()),
                self.result_ids()]

    def do(self, op):
        """op: tuple; returns the canonical observation list."""
        kind = op[0]
        status, extra = 0, []
        try:
            if kind == "sow":
                _, sown, bs, nb = op
                if self.crop is None:
                    self.crop = self.new_crop(sown.sw, shuffle=(sown.shuffle if sown.via == "cases" else
                                                                sown.ctor_shuffle if sown.via == "combos-default"
                                                                else False))
                self.sown = sown
                sw = sown.sw
                if sown.via == "cases":
                    self.crop.shuffle = sown.shuffle
                    self.crop.sow_cases(tuple(sw.case_args), [tuple(c) for c in sw.cases],
                                        combos=dict(sw.combos) or None, constants=sw.consts or None,
                                        verbosity=0, batchsize=bs, num_batches=nb)
                elif sown.via == "combos-default":
                    self.crop.sow_combos(dict(sw.combos) if sw.combos else None,
                                         cases=sw.cases_dicts() if sw.cases else None,
                                         constants=sw.consts or None, verbosity=0,
                                         batchsize=bs, num_batches=nb)
                else:
                    self.crop.sow_combos(dict(sw.combos) if sw.combos else None,
                                         cases=sw.cases_dicts() if sw.cases else None,
                                         constants=sw.consts or None, shuffle=sown.shuffle, verbosity=0,
                                         batchsize=bs, num_batches=nb)
            elif kind == "sow_dies":
                # the very first sow fails while its first batch file is written (full disk): the settings are
                # there, no batch is
                _, sown, bs, nb = op
                self.crop = self.new_crop(sown.sw)
                self.sown = sown
                sw = sown.sw
                with failing_result_write("write", pattern="xyz-batch-"):
                    self.crop.sow_combos(dict(sw.combos) if sw.combos else None,
                                         cases=sw.cases_dicts() if sw.cases else None,
                                         constants=sw.consts or None, shuffle=sown.shuffle, verbosity=0,
                                         batchsize=bs, num_batches=nb)
            elif kind == "grow":
                how = op[2] if len(op) > 2 else "crop.grow"
                if how == "function":
                    from xyzpy.gen.cropping import grow
                    for i in op[1]:
                        grow(i, crop=self.crop, verbosity=0)
                elif how == "workers":
                    self.crop.grow(tuple(op[1]), num_workers=2)
                elif how == "function-workers":
                    # the path the cluster scripts take: grow(i, crop, num_workers=k) with cases of unequal
                    # duration (a fresh pool, so that the workers see the environment variable)
                    from xyzpy.gen.cropping import grow
                    from joblib.externals.loky import get_reusable_executor
                    os.environ["XV_SLOW_EVEN"] = "1"
                    try:
                        get_reusable_executor(max_workers=3, kill_workers=True)
                        for i in op[1]:
                            grow(i, crop=self.crop, num_workers=3, verbosity=0)
                    finally:
                        os.environ.pop("XV_SLOW_EVEN", None)
                        get_reusable_executor(max_workers=3, kill_workers=True)
                else:
                    self.crop.grow(tuple(op[1]) if len(op[1]) != 1 else op[1][0], verbosity=0)
            elif kind == "grow_observed":
                self.mid_obs = None

                def look():
                    from xyzpy.gen.cropping import Crop
                    other = Crop(name=self.name, parent_dir=self.parent)
                    self.mid_obs = [other.num_sown_batches, other.num_results, list(other.missing_results()),
                                    bool(other.is_ready_to_reap()), self.result_ids()]
                with observed_result_write(look):
                    self.crop.grow(op[1], verbosity=0)
                if self.mid_obs is not None:
                    extra = [self.mid_obs]
            elif kind == "grow_wfail":
                with failing_result_write(op[2]):
                    self.crop.grow(tuple(op[1]) if len(op[1]) != 1 else op[1][0], verbosity=0)
            elif kind == "grow_missing":
                self.crop.grow_missing(verbosity=0)
            elif kind == "delete":
                os.remove(os.path.join(self.location(), "results", f"xyz-result-{op[1]}.jbdmp"))
            elif kind == "check_bad":
                import contextlib, io
                with contextlib.redirect_stdout(io.StringIO()):
                    bad = self.crop.check_bad()
                extra = [sorted(int(b) for b in bad)]
            elif kind == "check_bad_keep":
                import contextlib, io
                with contextlib.redirect_stdout(io.StringIO()):
                    bad = self.crop.check_bad(delete_bad=False)
                extra = [sorted(int(b) for b in bad)]
            elif kind == "tear_check":
                # the result file is truncated from outside, then check_bad must report (and delete) exactly it
                import contextlib, io
                f = os.path.join(self.location(), "results", f"xyz-result-{op[1]}.jbdmp")
                size = os.path.getsize(f)
                with open(f, "r+b") as fh:
                    fh.truncate(max(1, size // 2))
                with contextlib.redirect_stdout(io.StringIO()):
                    bad = self.crop.check_bad(delete_bad=not op[2])
                extra = [sorted(int(b) for b in bad)]
                if op[2]:
                    os.remove(f)
            elif kind == "reload":
                self.reloads = getattr(self, "reloads", 0) + 1
                if self.reloads % 3 == 0 and os.path.exists(os.path.join(self.location(), "xyz-settings.jbdmp")):
                    # every third reload goes through load_crops(<the directory the crops live in>)
                    from xyzpy.gen.cropping import load_crops
                    self.crop = load_crops(self.parent)[self.name]
                else:
                    self.crop = self.new_crop()
            elif kind == "query":
                pass
            elif kind == "setfail":
                with open(self.failfile, "w") as f:
                    json.dump({"codes": list(op[1]), "exc": op[2] if len(op) > 2 else "RuntimeError"}, f)
            elif kind == "reap":
                _, allow, cu = op
                out = self.crop.reap_combos(allow_incomplete=allow, clean_up=cu)
                extra = [["nest", R.canon_nest(out, self.sown.depth())]]
            else:
                raise ValueError(kind)
        except Exception as e:   # noqa
            status = 1
            self.last_error = f"{type(e).__name__}: {str(e)[:160]}"
        if os.path.exists(self.location()) or self.crop is not None:
            try:
                q = self.queries()
            except Exception as e:  # noqa
                q = ["query-error", f"{type(e).__name__}: {str(e)[:100]}"]
        return [status] + q + (extra if status == 0 else [])


def coq_op(op):
    k = op[0]
    if k == "sow":
        _, sown, bs, nb = op
        return f"OSow {sown.coq_input()} {zopt(bs)} {zopt(nb)}"
    if k == "grow":
        return f"OGrow {zlist(op[1])}"
    if k == "grow_wfail":
        return f"OGrowWriteFails {zlist(op[1])}"
    if k == "grow_observed":
        return f"OGrowObserved {op[1]}"
    if k == "grow_missing":
        return "OGrowMissing"
    if k == "delete":
        return f"ODelete {op[1]}"
    if k == "check_bad":
        return "OCheckBad"
    if k == "sow_dies":
        return f"OSowDies {op[1].coq_input()} {zopt(op[2])} {zopt(op[3])}"
    if k == "tear_check":
        return f"OTearCheck {op[1]} {'true' if op[2] else 'false'}"
    if k == "check_bad_keep":
        return "OCheckBadKeep"
    if k == "reload":
        return "OReload"
    if k == "query":
        return "OQuery"
    if k == "setfail":
        return f"OSetFail {zlist(op[1])}"
    if k == "reap":
        cu = "None" if op[2] is None else f"(Some {'true' if op[2] else 'false'})"
        return f"OReap {'true' if op[1] else 'false'} {cu}"
    raise ValueError(k)


def describe_op(op):
    if op[0] in ("sow", "sow_dies"):
        return [op[0], op[1].sw.describe(), {"shuffle": op[1].shuffle, "via": op[1].via, "ctor_shuffle": op[1].ctor_shuffle, "bs": op[2], "nb": op[3]}]
    return list(op)
