"""The function sown into the crops of C16.  It must be importable by name from a fresh python
process started by a generated cluster script (PYTHONPATH contains /verif); it logs every call
to the file named by XV_C16_LOG (one line per call, O_APPEND) so that the check can tell which
process evaluated which batch and how often."""
import os


def fn(a, b):
    if os.environ.get("XV_C16_SLOW") and b == 0:
        # (set for scripts that grow with a worker pool) the first case of every batch takes longer than the
        # second, so that the cases complete in an order different from the batch order
        import time
        time.sleep(0.25)
    log = os.environ.get("XV_C16_LOG")
    if log:
        fd = os.open(log, os.O_WRONLY | os.O_APPEND | os.O_CREAT, 0o644)
        try:
            os.write(fd, f"{a} {b}\n".encode())
        finally:
            os.close(fd)
    return 100 * a + 7 * b + 1
