"""Generation of sweep inputs, the logging swept function, executors with adversarial
completion orders, and canonicalisation of combo_runner outputs (C01, C02, C03)."""
import concurrent.futures as cf
import functools
import math
import multiprocessing
import os
import random
import threading

import numpy as np

from harness.core import zlist, natlist
from harness.impl.crops import py_perm

ARGS = ["q", "b", "z", "a", "mu", "chi"]   # argument id = index; deliberately unsorted names, two of several letters
CONST_ARGS = {"k1": 6, "k2": 7}


def value_pool(rng, ty, n):
    if ty == "int":
        vals = rng.sample(range(-5, 40), n)
    elif ty == "float":
        vals = [x / 4 for x in rng.sample(range(-9, 60), n)]
    else:
        vals = ["s" + chr(97 + i) * (1 + i % 2) for i in rng.sample(range(12), n)]
    return vals


class Sweep:
    """A generated sweep: real Python inputs plus their integer images for the model."""

    def __init__(self, rng, with_cases=None, max_args=5, max_vals=4, kind=None, allow_consts=True):
        nargs = rng.randint(1, max_args)
        names = rng.sample(ARGS, nargs)
        self.types = {a: rng.choice(["int", "int", "float", "str"]) for a in names}
        with_cases = rng.random() < 0.5 if with_cases is None else with_cases
        if with_cases:
            ncase = rng.randint(1, min(4, nargs))
            self.case_args = names[:ncase]
            self.combo_args = names[ncase:]
        else:
            self.case_args, self.combo_args = [], names
        self.pools = {a: value_pool(rng, self.types[a], rng.randint(1, max_vals)) for a in names}
        self.combos = [(a, list(self.pools[a])) for a in self.combo_args]
        self.cases = []
        if with_cases:
            allc = [tuple(rng.choice(self.pools[a]) for a in self.case_args) for _ in range(rng.randint(1, 6))]
            seen = []
            for c in allc:
                if c not in seen:
                    seen.append(c)
            self.cases = seen
        self.consts = {}
        if allow_consts and rng.random() < 0.4:
            for k in rng.sample(sorted(CONST_ARGS), rng.randint(1, 2)):
                self.consts[k] = rng.randint(0, 5)
        self.kind = rng.choice([0, 0, 1, 2, 3, 4, 5, 6, 7, 8, 9, 10]) if kind is None else kind
        # rank maps (order preserving) for every swept argument
        self.rank = {a: {v: i for i, v in enumerate(sorted(self.pools[a]))} for a in names}
        self.unrank = {a: {i: v for v, i in self.rank[a].items()} for a in names}

    # ---- spellings handed to xyzpy
    def combos_arg(self, rng, iterators=False):
        """The grid as handed to xyzpy: a dict, a tuple of pairs or a single pair; with [iterators] the values
        of an argument may be a one-shot iterable (generator, iter, map) instead of a list -- usable ONCE."""
        if not self.combos:
            return None
        combos = list(self.combos)
        if iterators and rng.random() < 0.3:
            def one_shot(vals):
                k = rng.randrange(4)
                if k == 0:
                    return iter(list(vals))
                if k == 1:
                    return (v for v in list(vals))
                if k == 2:
                    return map(lambda v: v, list(vals))
                return tuple(vals)
            combos = [(a, one_shot(v) if rng.random() < 0.6 else v) for a, v in combos]
        if rng.random() < 0.5:
            return dict(combos)
        if len(combos) == 1 and rng.random() < 0.5:
            return combos[0]            # single ('a', [..]) tuple spelling
        return tuple(combos)

    def cases_dicts(self, rng=None):
        out = []
        for c in self.cases:
            items = list(zip(self.case_args, c))
            if rng is not None and len(items) > 1 and rng.random() < 0.5:
                rng.shuffle(items)           # dict keys in a different order
            out.append(dict(items))
        return out

    # ---- model side
    def argid(self, a):
        return ARGS.index(a) if a in ARGS else CONST_ARGS[a]

    def coq_input(self, split, flat, perm):
        cv = "[" + "; ".join(zlist([self.rank[a][v] for a, v in zip(self.case_args, c)]) for c in self.cases) + "]"
        cmb = "[" + "; ".join(zlist([self.rank[a][v] for v in vals]) for a, vals in self.combos) + "]"
        consts = "[" + "; ".join(f"({self.argid(k)}, {v})" for k, v in self.consts.items()) + "]"
        p = "None" if perm is None else f"(Some {natlist(perm)})"
        return (f"(mk_input {'true' if self.cases else 'false'} {zlist([self.argid(a) for a in self.case_args])} "
                f"{cv} {zlist([self.argid(a) for a in self.combo_args])} {cmb} {consts} "
                f"{'true' if split else 'false'} {'true' if flat else 'false'} {p})")

    def n_settings(self):
        return max(1, len(self.cases)) * math.prod(len(v) for _, v in self.combos)

    def code(self, kw):
        c = 0
        for a, v in kw.items():
            r = self.rank[a][v] if a in self.rank else v
            c += (r + 1) * 7 ** self.argid(a)
        return c

    def canon_kw(self, kw, order=None):
        """kwargs dict -> [[argid, rank], ...] in dict order."""
        return [[self.argid(a), (self.rank[a][v] if a in self.rank else v)] for a, v in kw.items()]

    def describe(self):
        return {"case_args": self.case_args, "cases": [list(c) for c in self.cases],
                "combos": [[a, v] for a, v in self.combos], "consts": self.consts, "kind": self.kind}


# --------------------------------------------------------------- the swept function
def result_of_kind(kind, c):
    if kind == 0:
        return c
    if kind == 1:
        return c % 2 == 1
    if kind == 2:
        return f"s{c}"
    if kind == 3:
        return (c, c + 1)
    if kind == 4:
        return np.array([c, c + 1, c + 2])
    if kind == 5:
        return [[c, c + 1], [c + 2, c + 3]]
    if kind == 6:
        return (c, f"s{c}", [c, c, c])
    if kind == 7:
        return (c % 2 == 1, [[c, c]])
    if kind == 9:
        return (c,)
    if kind == 10:
        return [c]
    return {"v": c}


def swept(logpath, ranks, kind, **kw):
    """Module-level (picklable) swept function: logs its call, returns the coded result."""
    c = 0
    items = []
    for a, v in kw.items():
        aid = ARGS.index(a) if a in ARGS else CONST_ARGS[a]
        r = ranks[a][v] if a in ranks else v
        items.append(f"{aid}:{r}")
        c += (r + 1) * 7 ** aid
    fd = os.open(logpath, os.O_WRONLY | os.O_APPEND | os.O_CREAT, 0o644)
    try:
        os.write(fd, (",".join(items) + "\n").encode())
    finally:
        os.close(fd)
    return result_of_kind(kind, c)


def make_fn(sweep, logpath, kind=None):
    return functools.partial(swept, logpath, sweep.rank, sweep.kind if kind is None else kind)


def read_log(logpath):
    if not os.path.exists(logpath):
        return []
    out = []
    for line in open(logpath):
        line = line.strip()
        out.append([[int(x) for x in it.split(":")] for it in line.split(",")] if line else [])
    return out


# --------------------------------------------------------------- canonical results
def canon_result(r):
    import xarray as xr
    if isinstance(r, (bool, np.bool_)):
        return ["b", int(r)]
    if isinstance(r, str):
        return ["s", int(r[1:])] if (r[:1] == "s" and r[1:].lstrip("-").isdigit()) else ["s?", r]
    if isinstance(r, dict):
        return ["d", int(r["v"])]
    if isinstance(r, (xr.Dataset,)):
        return ["d", int(r["v"])]
    if isinstance(r, (tuple, list)):
        return ["t"] + [canon_result(x) for x in r]
    if isinstance(r, np.ndarray):
        if r.ndim == 0:
            return canon_result(r.item())
        return ["t"] + [canon_result(x) for x in r]
    if isinstance(r, (int, np.integer)):
        return int(r)
    if isinstance(r, float) and r == int(r):
        return int(r)
    raise TypeError(f"cannot canonicalise result {r!r}")


def is_nan_scalar(x):
    try:
        return isinstance(x, (float, np.floating)) and math.isnan(x)
    except Exception:
        return False


def canon_leaf(x):
    """A leaf of the nested output: a real result or one of the placeholders."""
    import xarray as xr
    if x is None:
        return ["hole", None]
    if is_nan_scalar(x):
        return ["hole", "nan"]
    if isinstance(x, (xr.Dataset, xr.DataArray)):
        ds = x if isinstance(x, xr.Dataset) else x.to_dataset(name="v")
        if all(bool(ds[v].isnull().all()) for v in ds.data_vars):
            return ["hole", "nands"]
        return ["d", int(ds["v"])]
    if isinstance(x, tuple) and x and all(isinstance(e, np.ndarray) and e.dtype.kind == "f"
                                         and bool(np.isnan(e).all()) for e in x):
        return ["hole", ["nantuple"] + [list(e.shape) for e in x]]
    return canon_result(x)


def canon_nest(x, depth):
    if depth == 0:
        return ["leaf", canon_leaf(x)]
    return [canon_nest(e, depth - 1) for e in x]


# --------------------------------------------------------------- executors
class LazyFuture:
    def __init__(self, pool, idx):
        self.pool, self.idx = pool, idx

    def result(self):
        self.pool.run_all()
        return self.pool.results[self.idx]


class AdversarialExecutor:
    """submit-style executor that runs the submitted jobs in a chosen (non submission) order
    the first time any result is asked for."""

    def __init__(self, order_seed):
        self.jobs, self.results, self.seed, self.ran = [], {}, order_seed, False

    def submit(self, fn, *a, **kw):
        self.jobs.append((fn, a, kw))
        return LazyFuture(self, len(self.jobs) - 1)

    def run_all(self):
        if self.ran:
            return
        self.ran = True
        order = list(range(len(self.jobs)))
        random.Random(self.seed).shuffle(order)
        if self.seed % 2:
            order = order[::-1]
        for i in order:
            fn, a, kw = self.jobs[i]
            self.results[i] = fn(*a, **kw)


class ApplyAsyncOnly:
    """ipyparallel-like view: only apply_async(fn, *args, **kwargs) returning .get()."""

    class _R:
        def __init__(self, v):
            self.v = v

        def get(self):
            return self.v

    def apply_async(self, fn, *a, **kw):
        return self._R(fn(*a, **kw))


STRATEGIES = ["seq", "shuffle_true", "shuffle_int", "adversarial", "apply_async", "thread",
              "shuffle_thread", "process", "mp_pool", "loky_parallel", "loky_workers", "loky_parallel_int"]
CHEAP = STRATEGIES[:7]


def strategy_opts(name, rng, n):
    """-> (runner keyword options, permutation used or None, cleanup callable)."""
    opts, perm, cleanup = {}, None, (lambda: None)
    if name in ("shuffle_true", "shuffle_thread"):
        opts["shuffle"] = True
        perm = py_perm(True, n)
    if name == "shuffle_int":
        s = rng.randint(2, 10 ** 6)
        opts["shuffle"] = s
        perm = py_perm(s, n)
    if name == "adversarial":
        opts["executor"] = AdversarialExecutor(rng.randint(0, 10 ** 6))
        if rng.random() < 0.5:
            s = rng.randint(2, 999)
            opts["shuffle"] = s
            perm = py_perm(s, n)
    if name == "apply_async":
        opts["executor"] = ApplyAsyncOnly()
    if name in ("thread", "shuffle_thread"):
        ex = cf.ThreadPoolExecutor(3)
        opts["executor"] = ex
        cleanup = ex.shutdown
    if name == "process":
        ex = cf.ProcessPoolExecutor(2, mp_context=multiprocessing.get_context("spawn"))
        opts["executor"] = ex
        cleanup = ex.shutdown
    if name == "mp_pool":
        ex = multiprocessing.get_context("spawn").Pool(2)
        opts["executor"] = ex
        cleanup = lambda: (ex.close(), ex.join())
    if name == "loky_parallel":
        opts["parallel"] = True
        opts["num_workers"] = 2
    if name == "loky_workers":
        opts["num_workers"] = 2
    if name == "loky_parallel_int":
        opts["parallel"] = 2               # "parallel : bool or int": the number of workers
    return opts, perm, cleanup


def shutdown_loky():
    try:
        from joblib.externals.loky import get_reusable_executor
        get_reusable_executor().shutdown(wait=True, kill_workers=True)
    except Exception:
        pass
