"""Driver for the classic plots (C17): raw datasets whose finite values are all distinct and
exactly representable (value = id / scale, id a non-zero integer), conversion to xarray, the call
into xyzpy and the reading of the matplotlib artists back into ids.

Raw dataset (JSON-serialisable, so that a failing case can be replayed verbatim):
  {"dims": {name: size}, "coords": {dim: {"kind": "int"|"float"|"str", "ids": [...]} | {"kind": "str",
   "vals": [...]}}, "vars": {name: {"dims": [...], "scale": 4 | 4096, "cells": [id | "nan" | "inf" | "-inf"]}}}
cells are row-major over the variable's own dimension order.
"""
import copy
import itertools
import math

NONFIN = ("nan", "inf", "-inf")
SCALE = 4          # data values are id / 4
ESCALE = 4096      # error-bar values are id / 4096  (so that y +- e is exact in binary64)


# ------------------------------------------------------------------ raw datasets
def cell_value(c, scale):
    if c == "nan":
        return math.nan
    if c == "inf":
        return math.inf
    if c == "-inf":
        return -math.inf
    return c / scale


def coord_values(co):
    if co["kind"] == "str":
        return list(co["vals"])
    if co["kind"] == "int":
        return [i // SCALE for i in co["ids"]]
    return [i / SCALE for i in co["ids"]]


def to_xarray(raw):
    import numpy as np
    import xarray as xr
    coords = {}
    for d, co in raw["coords"].items():
        vals = coord_values(co)
        if co["kind"] == "int":
            coords[d] = np.array(vals, dtype=co.get("dtype", "int64"))
        elif co["kind"] == "float":
            coords[d] = np.array(vals, dtype=np.float64)
        else:
            coords[d] = np.array(vals, dtype=str)
    data_vars = {}
    for v, var in raw["vars"].items():
        shape = [raw["dims"][d] for d in var["dims"]]
        arr = np.array([cell_value(c, var["scale"]) for c in var["cells"]], dtype=np.float64).reshape(shape)
        data_vars[v] = (tuple(var["dims"]), arr)
    return xr.Dataset(coords=coords, data_vars=data_vars)


def var_get(raw, name, env):
    """cell of variable / coordinate `name` at the index assignment env (dim -> index)."""
    if name in raw["vars"]:
        var = raw["vars"][name]
        k = 0
        for d in var["dims"]:
            k = k * raw["dims"][d] + env[d]
        return var["cells"][k]
    co = raw["coords"][name]
    return co["ids"][env[name]]


def var_dims(raw, name):
    return list(raw["vars"][name]["dims"]) if name in raw["vars"] else [name]


def var_scale(raw, name):
    return raw["vars"][name]["scale"] if name in raw["vars"] else SCALE


def envs(raw, dims):
    """all index assignments over dims, row-major (last fastest)"""
    for idx in itertools.product(*[range(raw["dims"][d]) for d in dims]):
        yield dict(zip(dims, idx))


def is_fin(c):
    return not isinstance(c, str)


# ------------------------------------------------------------------ id recovery
def to_id(v, scale):
    """float drawn by matplotlib -> id (exact), None for a non-finite value, "?" + repr for a
    finite value that is not id/scale for an integer id"""
    v = float(v)
    if not math.isfinite(v):
        return None
    if abs(v) > 2.0 ** 40:
        return "?" + repr(v)
    s = v * scale          # exact: scale is a power of two
    if s != math.floor(s):
        return "?" + repr(v)
    return int(s)


# ------------------------------------------------------------------ calling xyzpy
class Interpose:
    """Records what xyzpy hands to Axes.hist (Python-level interposition installed by the harness)."""

    def __init__(self):
        self.hist_calls = []

    def __enter__(self):
        import matplotlib.axes as maxes
        self._real = maxes.Axes.hist
        rec = self.hist_calls
        real = self._real

        def hist(ax, x, *a, **kw):
            out = real(ax, x, *a, **kw)
            rec.append({"ax": ax, "x": x, "kw": dict(kw), "ret": out})
            return out
        maxes.Axes.hist = hist
        return self

    def __exit__(self, *exc):
        import matplotlib.axes as maxes
        maxes.Axes.hist = self._real
        return False


def call_plot(case, ds, arrays=None):
    """Run the entry point of the case on the xarray dataset ds; returns the figure.  The numpy arrays handed
    to an auto_* function are appended to `arrays` as (array, copy made before the call)."""
    import numpy as np
    import xyzpy
    kind, opts = case["kind"], dict(case["opts"])
    if "colors" in opts and isinstance(opts["colors"], list):
        opts["colors"] = list(opts["colors"])
    grid = {k: case[k] for k in ("row", "col") if case.get(k) is not None}
    if case.get("auto"):
        if kind == "lineplot" or kind == "scatter":
            if case.get("auto_x2d"):
                xv = ds[case["x"]].transpose("z", "x").values
                yz = ds[case["y"]].transpose("z", "x").values
            else:
                xv = ds[case["x"]].values
                yz = ds[case["y"]].transpose(case["z"], case["x"]).values if case.get("z") else ds[case["y"]].values
            if case.get("auto_transposed"):
                yz = np.transpose(yz)
            fn = xyzpy.auto_lineplot if kind == "lineplot" else xyzpy.auto_scatter
            xv, yz = np.array(xv), np.array(yz)
            if arrays is not None:
                arrays += [(xv, xv.copy()), (yz, yz.copy())]
            return fn(xv, yz, return_fig=True, **opts)
        if kind == "histogram":
            arr = np.array(ds[case["x"]].values)
            if arrays is not None:
                arrays.append((arr, arr.copy()))
            return xyzpy.auto_histogram(arr, return_fig=True, **opts)
        if kind == "heatmap":
            # auto_heatmap(array): array[y, z] -> x axis = first axis, y axis = second axis
            arr = np.array(ds[case["z"]].transpose(case["x"], case["y"]).values)
            if arrays is not None:
                arrays.append((arr, arr.copy()))
            return xyzpy.auto_heatmap(arr, return_fig=True, **opts)
    if kind in ("lineplot", "scatter"):
        kw = {k: case[k] for k in ("c", "y_err", "x_err") if case.get(k) is not None}
        fn = ds.xyz.lineplot if kind == "lineplot" else ds.xyz.scatter
        y = case["y"]
        if case.get("z") is not None:
            return fn(case["x"], y, case["z"], return_fig=True, **kw, **grid, **opts)
        return fn(case["x"], y, return_fig=True, **kw, **grid, **opts)
    if kind == "histogram":
        if case.get("z") is not None:
            return ds.xyz.histogram(case["x"], case["z"], return_fig=True, **grid, **opts)
        return ds.xyz.histogram(case["x"], return_fig=True, **grid, **opts)
    if kind == "heatmap":
        return ds.xyz.heatmap(case["x"], case["y"], case["z"], return_fig=True, **grid, **opts)
    raise ValueError(kind)


# ------------------------------------------------------------------ reading artists
def rgba(c):
    from matplotlib.colors import to_rgba
    return tuple(float(v) for v in to_rgba(c))


def data_axes(fig):
    return [ax for ax in fig.axes if not hasattr(ax, "_colorbar")]


def panel_pos(ax):
    try:
        ss = ax.get_subplotspec()
    except Exception:
        ss = None
    if ss is None:
        return (0, 0)
    return (ss.rowspan.start, ss.colspan.start)


def read_line_series(ax, case):
    """[{label, color, marker, xy: [(xid, yid)], ye: [...]|None, xe: [...]|None}] in drawing order"""
    import numpy as np
    out = []
    with_err = case.get("y_err") is not None or case.get("x_err") is not None
    xs = var_scale(case["ds"], case["x"])
    if with_err and case["kind"] == "lineplot":
        for cont in ax.containers:
            ln = cont.lines[0]
            xy = np.asarray(ln.get_xydata(), dtype=float).reshape(-1, 2)
            lab = cont.get_label()
            s = {"label": None if (lab is None or str(lab).startswith("_")) else lab, "color": rgba(ln.get_color()), "marker": ln.get_marker(),
                 "xy": [(to_id(a, xs), to_id(b, SCALE)) for a, b in xy], "ye": None, "xe": None}
            for lc in cont.lines[2]:
                segs = [np.asarray(sg, dtype=float) for sg in lc.get_segments()]
                if any(sg.shape != (2, 2) or not np.all(np.isfinite(sg)) for sg in segs):
                    # a bar through a non-finite point: not a drawable error bar
                    s["ye" if s["ye"] is None and case.get("y_err") else "xe"] = ["?non-finite-bar"]
                    continue
                if not segs:
                    # an empty bar collection: orientation unknown; attribute to the requested ones in order
                    key = "xe" if (case.get("x_err") is not None and s["xe"] is None) else "ye"
                    s[key] = []
                    continue
                horiz = all(sg[0][1] == sg[1][1] for sg in segs) and not all(sg[0][0] == sg[1][0] for sg in segs)
                vals = []
                # matplotlib emits one bar per point, in point order: [p - e, p + e] along the bar's axis
                for k, sg in enumerate(segs):
                    if k >= len(xy):
                        vals.append("?extra-bar")
                        continue
                    px, py = float(xy[k][0]), float(xy[k][1])
                    if horiz:
                        lo, hi, other, centre, want_other = sg[0][0], sg[1][0], sg[0][1], px, py
                    else:
                        lo, hi, other, centre, want_other = sg[0][1], sg[1][1], sg[0][0], py, px
                    e = hi - centre
                    if other != want_other or (centre - lo) != e:
                        vals.append("?misplaced-bar")
                    else:
                        vals.append(to_id(e, ESCALE))
                if len(segs) != len(xy):
                    vals.append("?bar-count")
                s["xe" if horiz else "ye"] = vals
            out.append(s)
        return out
    in_container = set()
    for cont in ax.containers:
        for ln in cont.lines[:1]:
            in_container.add(id(ln))
    for ln in ax.get_lines():
        if ln.get_transform() is not ax.transData or id(ln) in in_container:
            continue
        xy = np.asarray(ln.get_xydata(), dtype=float).reshape(-1, 2)
        lab = ln.get_label()
        out.append({"label": None if (lab is None or str(lab).startswith("_")) else lab,
                    "color": rgba(ln.get_color()), "marker": ln.get_marker(),
                    "xy": [(to_id(a, xs), to_id(b, SCALE)) for a, b in xy], "ye": None, "xe": None})
    return out


def read_scatter_series(ax, case):
    import numpy as np
    from matplotlib.collections import PathCollection
    out = []
    xs = var_scale(case["ds"], case["x"])
    for col in ax.collections:
        if not isinstance(col, PathCollection):
            continue
        off = np.asarray(col.get_offsets(), dtype=float).reshape(-1, 2)
        arr = col.get_array()
        s = {"label": None if str(col.get_label()).startswith("_") else col.get_label(),
             "xy": [(to_id(a, xs), to_id(b, SCALE)) for a, b in off], "carr": None, "colors": None, "color": None,
             "norm": None, "cmap": None}
        if arr is not None:
            col.update_scalarmappable()
            s["carr"] = [to_id(v, SCALE) for v in np.ma.filled(np.ma.asarray(arr, dtype=float), np.nan)]
            s["colors"] = [tuple(float(v) for v in fc) for fc in col.get_facecolors()]
            s["norm"] = (None if col.norm.vmin is None else float(col.norm.vmin),
                         None if col.norm.vmax is None else float(col.norm.vmax))
            s["cmap"] = col.get_cmap().name
        else:
            fcs = col.get_facecolors()
            s["color"] = tuple(float(v) for v in fcs[0]) if len(fcs) else None
        out.append(s)
    return out


def read_hist_series(ax, case, hist_calls):
    """from the recorded Axes.hist call on this axes: fed values, edges and heights of the polygons"""
    import numpy as np
    calls = [h for h in hist_calls if h["ax"] is ax]
    if len(calls) != 1:
        return {"error": f"{len(calls)} hist calls on the axes"}
    h = calls[0]
    n, bins, patches = h["ret"]
    xs = h["x"]
    labels = h["kw"].get("label")
    from matplotlib.patches import Polygon
    if len(patches) and isinstance(patches[0], Polygon):
        plist = [patches]              # one data set: a list holding its single Polygon
    else:
        plist = [p for p in patches]   # several: one list per data set
    series = []
    for i, (fed, pp) in enumerate(zip(xs, plist)):
        poly = list(pp)[0]
        xy = np.asarray(poly.get_xy(), dtype=float)
        nb = (len(xy) + 3) // 4
        edges = [float(v) for v in xy[0:2 * nb - 1:2, 0]]
        heights = [float(v) for v in xy[1:2 * nb - 1:2, 1]]
        lab = poly.get_label()
        # Axes.hist turns a missing label into the text 'None'
        series.append({"label": None if (lab is None or str(lab).startswith("_") or lab == "None") else lab,
                       "fed": [to_id(v, SCALE) if math.isfinite(float(v)) else repr(float(v)) for v in np.asarray(fed, dtype=float)],
                       "edges": edges, "heights": heights,
                       "edgecolor": tuple(float(v) for v in poly.get_edgecolor()),
                       "facecolor": tuple(float(v) for v in poly.get_facecolor())})
    return {"series": series, "bins": [float(b) for b in np.asarray(bins, dtype=float)],
            "stacked": bool(h["kw"].get("stacked")), "density": bool(h["kw"].get("density"))}


def read_heatmap(ax, case):
    import numpy as np
    from matplotlib.collections import QuadMesh
    meshes = [c for c in ax.collections if isinstance(c, QuadMesh)]
    if len(meshes) != 1:
        return {"error": f"{len(meshes)} meshes"}
    m = meshes[0]
    arr = np.ma.asarray(m.get_array())
    co = np.asarray(m.get_coordinates(), dtype=float)
    ny, nx = co.shape[0] - 1, co.shape[1] - 1
    arr = arr.reshape(ny, nx)
    filled = np.ma.filled(arr.astype(float), np.nan)
    m.update_scalarmappable()
    fcs = np.asarray(m.get_facecolors(), dtype=float).reshape(ny, nx, 4)
    return {"cells": [[to_id(filled[i, j], SCALE) for j in range(nx)] for i in range(ny)],
            "xedges": [float(v) for v in co[0, :, 0]], "yedges": [float(v) for v in co[:, 0, 1]],
            "colors": [[tuple(float(v) for v in fcs[i, j]) for j in range(nx)] for i in range(ny)],
            "norm": (float(m.norm.vmin), float(m.norm.vmax)), "cmap": m.get_cmap().name}


def read_figure(fig, case, hist_calls):
    obs = {"panels": [], "n_axes": len(fig.axes)}
    axes = data_axes(fig)
    for ax in axes:
        p = {"pos": panel_pos(ax) if (case.get("row") or case.get("col")) else (0, 0),
             "title": ax.get_title(), "ylabel": ax.get_ylabel(), "ylabel_pos": ax.yaxis.get_label_position(),
             "xlabel": ax.get_xlabel(), "xscale": ax.get_xscale(), "yscale": ax.get_yscale()}
        if case["kind"] == "lineplot":
            p["series"] = read_line_series(ax, case)
        elif case["kind"] == "scatter":
            p["series"] = read_scatter_series(ax, case)
        elif case["kind"] == "histogram":
            p["hist"] = read_hist_series(ax, case, hist_calls)
        else:
            p["heat"] = read_heatmap(ax, case)
        leg = ax.get_legend()
        p["legend"] = None if leg is None else [t.get_text() for t in leg.get_texts()]
        obs["panels"].append(p)
    obs["fig_legend"] = [t.get_text() for t in fig.legends[0].get_texts()] if fig.legends else None
    cbs = [ax for ax in fig.axes if hasattr(ax, "_colorbar")]
    obs["colorbars"] = []
    for ax in cbs:
        cb = ax._colorbar
        obs["colorbars"].append({"vmin": float(cb.norm.vmin) if cb.norm.vmin is not None else None,
                                 "vmax": float(cb.norm.vmax) if cb.norm.vmax is not None else None,
                                 "cmap": cb.cmap.name, "title": ax.get_title()})
    return obs


def run_case(case):
    """Build the dataset, call xyzpy, read the artists.  Returns the observation dict; an exception
    of the call is reported as obs["error"] (with the innermost xyzpy/matplotlib frame)."""
    import traceback
    import matplotlib.pyplot as plt
    ds = to_xarray(case["ds"])
    before = ds.copy(deep=True)
    obs = {}
    fig = None
    arrays = []
    with Interpose() as ip:
        try:
            fig = call_plot(case, ds, arrays)
        except Exception as e:       # noqa
            tb = traceback.extract_tb(e.__traceback__)
            where = [f"{t.filename.split('/')[-1]}:{t.name}" for t in tb[-4:]]
            obs["error"] = f"{type(e).__name__}: {str(e)[:160]}"
            obs["where"] = where
        if fig is not None and "error" not in obs:
            try:
                obs.update(read_figure(fig, case, ip.hist_calls))
            except Exception as e:      # noqa
                tb = traceback.extract_tb(e.__traceback__)
                obs["read_error"] = f"{type(e).__name__}: {str(e)[:160]} at {tb[-1].name}"
    try:
        import numpy as np
        obs["pure"] = bool(ds.identical(before)) and all(
            a.shape == b.shape and np.array_equal(a, b, equal_nan=True) for a, b in arrays)
    except Exception as e:   # noqa
        obs["pure"] = False
    plt.close("all")
    return obs


def clone(x):
    return copy.deepcopy(x)
