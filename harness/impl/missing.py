"""Driver for C13 (missing-data discovery): builds real xarray Datasets from JSON-able
descriptions, runs the real find_missing_cases / is_case_missing / parse_into_cases and the
find -> harvest -> find loop on a real Harvester, canonicalises what it observes (labels ->
integer ranks, cells -> CVal / CNan / CInf), writes the dataset as a Gallina literal for
Model/DsMap.v, and provides the plain-numpy oracle of the property statement (positional
indexing only: no sel, no isnull, no xarray reductions)."""
import itertools
import math
import os

import numpy as np

from harness.core import zlist

METHOD_ID = {"isnull": 0, "isfinite": 1}
NAN_OBJ = "<NaN>"          # cell token: a float NaN object stored in an object (str) variable


# ------------------------------------------------------------------ description -> xarray
def _decode_cell(tok, dtype):
    if dtype == "float":
        return {"nan": math.nan, "inf": math.inf, "-inf": -math.inf}[tok] if isinstance(tok, str) else float(tok)
    if dtype == "str":
        return math.nan if tok == NAN_OBJ else tok          # None stays None
    return int(tok)


def build_ds(desc):
    """desc = {"dims": [{"name", "labels" | None, "size"}], "vars": [{"name", "dims", "dtype", "cells"}],
    "coord_order": [names]}.  Cells are the flat C-order list of tokens of the variable."""
    import xarray as xr
    sizes = {d["name"]: d["size"] for d in desc["dims"]}
    data_vars = {}
    for v in desc["vars"]:
        shape = tuple(sizes[d] for d in v["dims"])
        if v["dtype"] == "float":
            arr = np.array([_decode_cell(t, "float") for t in v["cells"]], dtype=float).reshape(shape)
        elif v["dtype"] == "str":
            arr = np.empty(len(v["cells"]), dtype=object)
            for i, t in enumerate(v["cells"]):
                arr[i] = _decode_cell(t, "str")
            arr = arr.reshape(shape)
        else:
            arr = np.array([int(t) for t in v["cells"]], dtype=np.int64).reshape(shape)
        data_vars[v["name"]] = (tuple(v["dims"]), arr)
    by_name = {d["name"]: d for d in desc["dims"]}
    coords = {}
    for name in desc["coord_order"]:
        d = by_name[name]
        if d["labels"] is not None:
            coords[name] = (name, np.array(d["labels"]))
    return xr.Dataset(data_vars, coords=coords)


# ------------------------------------------------------------------ views of a real dataset
class View:
    """Plain-python/numpy view of an xarray Dataset or DataArray: dimension order, coordinate
    labels (python scalars, dataset order), raw arrays.  Everything the oracle and the model
    literal need, read once with positional access."""

    def __init__(self, ds, only_var=None):
        if only_var is not None:
            da = ds[only_var]
            self.dims = list(da.dims)
            self.vars = [(only_var, list(da.dims), np.asarray(da.values))]
            src = da
        else:
            self.dims = list(ds.dims)
            self.vars = [(str(k), list(ds[k].dims), np.asarray(ds[k].values)) for k in sorted(ds.data_vars)]
            src = ds
        self.labels = {d: np.asarray(src[d].values).tolist() for d in self.dims}
        self.pos = {d: {l: i for i, l in enumerate(ls)} for d, ls in self.labels.items()}

    # ---- the null criterion on raw arrays (numpy only)
    @staticmethod
    def null_mask(arr, method):
        if arr.dtype == object:
            flat = [(x is None) or (isinstance(x, float) and x != x) for x in arr.ravel()]
            m = np.array(flat, dtype=bool).reshape(arr.shape)
            if method == "isfinite":
                raise TypeError("isfinite on object data is outside the quantifier")
            return m
        if arr.dtype.kind in "iub":
            return np.zeros(arr.shape, dtype=bool)
        return np.isnan(arr) if method == "isnull" else ~np.isfinite(arr)

    def masks(self, method):
        return [(name, dims, self.null_mask(arr, method)) for name, dims, arr in self.vars]

    # ---- the statement: absent coordinate, or every position of every variable null
    def expected_missing(self, setting, method, masks=None):
        for d, l in setting.items():
            if d not in self.pos or l not in self.pos[d]:
                return True
        masks = self.masks(method) if masks is None else masks
        for _, dims, m in masks:
            idx = tuple(self.pos[d][setting[d]] if d in setting else slice(None) for d in dims)
            if not bool(np.all(m[idx])):
                return False
        return True

    def expected_find(self, ignore, method):
        fn_args = [d for d in self.dims if d not in ignore]
        masks = self.masks(method)
        out = []
        for loc in itertools.product(*[self.labels[d] for d in fn_args]):
            if self.expected_missing(dict(zip(fn_args, loc)), method, masks):
                out.append(list(loc))
        return fn_args, out


# ------------------------------------------------------------------ integer images for the model
class Ranks:
    """dim / var names -> ids, labels -> integer ranks (order preserving within a dimension).
    The universe of a dimension = the dataset's labels plus every label the queries mention."""

    def __init__(self, dim_names, var_names, universe):
        self.dim_id = {n: i + 1 for i, n in enumerate(sorted(dim_names))}
        self.var_id = {n: i + 1 for i, n in enumerate(sorted(var_names))}
        self.rank = {d: {l: i for i, l in enumerate(sorted(set(ls)))} for d, ls in universe.items()}

    def r(self, d, label):
        if hasattr(label, "item"):
            label = label.item()
        return self.rank[d][label]

    def setting(self, setting):
        return [[self.dim_id[d], self.r(d, l)] for d, l in setting.items()]


def gallina_setting(pairs):
    return "[" + "; ".join(f"({d}, {l})" for d, l in pairs) + "]"


def _cell_kind(x):
    if x is None:
        return "CNan"
    if isinstance(x, (float, np.floating)):
        if x != x:
            return "CNan"
        if x in (math.inf, -math.inf):
            return "CInf"
    return "CVal 1"


def gallina_ds(view, rk):
    """The dataset as a term of type DsMap.dataset (NaN cells are left out: absent = NaN)."""
    dims = "; ".join(f"({rk.dim_id[d]}, {zlist([rk.r(d, l) for l in view.labels[d]])})" for d in view.dims)
    vs = []
    for name, vdims, arr in view.vars:
        cells = []
        for idx in np.ndindex(*arr.shape):
            k = _cell_kind(arr[idx])
            if k != "CNan":
                key = zlist([rk.r(d, view.labels[d][i]) for d, i in zip(vdims, idx)])
                cells.append(f"({key}, {k})")
        vs.append(f"mk_var {rk.var_id[name]} {zlist([rk.dim_id[d] for d in vdims])} [" + "; ".join(cells) + "]")
    return f"(mk_ds [{dims}] [" + "; ".join(vs) + "])"


def observed_pattern(view0, ds1, method):
    """Null flags of ds1, per variable of view0 (sorted names), over the product of view0's coordinate
    order of that variable's dimensions in view0's dimension order of the variable."""
    out = []
    for name, vdims, _ in view0.vars:
        da = ds1[name].transpose(*vdims)
        arr = np.asarray(da.values)
        mask = View.null_mask(arr, method)
        pos1 = {d: {l: i for i, l in enumerate(np.asarray(ds1[d].values).tolist())} for d in vdims}
        flags = []
        for key in itertools.product(*[view0.labels[d] for d in vdims]):
            idx = tuple(pos1[d][l] for d, l in zip(vdims, key))
            flags.append(bool(mask[idx]))
        out.append(flags)
    return out


# ------------------------------------------------------------------ running the real code
def spell_ignore(ignore, spell):
    if spell == "none":
        return None
    if spell == "str":
        return ignore[0]
    return {"set": set, "list": list, "tuple": tuple, "frozenset": frozenset}[spell](ignore)


def real_find(ds, ignore, spell, method):
    from xyzpy.gen.case_runner import find_missing_cases
    fn_args, cases = find_missing_cases(ds, spell_ignore(ignore, spell), method)
    return list(fn_args), [[x.item() if hasattr(x, "item") else x for x in c] for c in cases]


def real_icm(ds, setting, method, da=None):
    from xyzpy.gen.case_runner import is_case_missing
    out = is_case_missing(ds if da is None else ds[da], dict(setting), method)
    return bool(out)


def real_parse(ds, combos, cases, method):
    from xyzpy.gen.case_runner import parse_into_cases
    out = parse_into_cases(combos, cases, ds, method)
    return [dict(c) for c in out]


class HarvestFn:
    """The harvested function: one non-null result per variable (arrays over the internal dims)."""

    def __init__(self, var_shapes):
        self.var_shapes = var_shapes        # [(name, shape of internal dims)]

    def __call__(self, **kw):
        outs = []
        for i, (_, shape) in enumerate(self.var_shapes):
            base = 1000.0 + 10 * i
            outs.append(np.full(shape, base) + np.arange(int(np.prod(shape, dtype=int))).reshape(shape)
                        if shape else base)
        return tuple(outs) if len(outs) > 1 else outs[0]


def real_loop(ds, desc, ignore, method, path):
    """Pre-populate the data file of a real Harvester with ds, then find -> harvest_cases(missing) -> find.
    Returns (ds0 as loaded, fn_args0, missing0, ds1, fn_args1, missing1)."""
    import xyzpy
    from xyzpy.gen.case_runner import find_missing_cases
    if os.path.exists(path):
        os.remove(path)
    xyzpy.save_ds(ds, path, engine="h5netcdf")
    sizes = {d["name"]: d["size"] for d in desc["dims"]}
    internal = [d["name"] for d in desc["dims"] if d["internal"]]
    params = [d["name"] for d in desc["dims"] if not d["internal"]]
    var_names = [v["name"] for v in desc["vars"]]
    var_dims = {v["name"]: [d for d in v["dims"] if d in internal] for v in desc["vars"]}
    var_coords = {d["name"]: d["labels"] for d in desc["dims"] if d["internal"] and d["labels"] is not None}
    fn = HarvestFn([(n, tuple(sizes[d] for d in var_dims[n])) for n in var_names])
    # the runner's own argument order differs from the dataset's dimension order (the reported fn_args decide)
    runner = xyzpy.Runner(fn, var_names=var_names, fn_args=list(reversed(params)), var_dims=var_dims,
                          var_coords=var_coords)
    h = xyzpy.Harvester(runner, data_name=path, engine="h5netcdf")
    try:
        ds0 = h.full_ds.load()
        fa0, miss0 = find_missing_cases(ds0, set(ignore), method)
        if miss0:
            ow = True if method == "isfinite" else None
            if len(miss0) % 2 == 0:
                # exactly as reported: tuples of values together with the reported argument order
                h.harvest_cases([tuple(c) for c in miss0], fn_args=tuple(fa0), verbosity=0, overwrite=ow)
            else:
                # as mappings; every other one spells its keys in the opposite order (a mapping has no order)
                h.harvest_cases([dict(zip(fa0, c)) if k % 2 == 0 else dict(reversed(list(zip(fa0, c))))
                                 for k, c in enumerate(miss0)], verbosity=0, overwrite=ow)
        ds1 = h.full_ds.load()
        fa1, miss1 = find_missing_cases(ds1, set(ignore), method)
        py = lambda cs: [[x.item() if hasattr(x, "item") else x for x in c] for c in cs]   # noqa
        return ds0, list(fa0), py(miss0), ds1, list(fa1), py(miss1)
    finally:
        if h._full_ds is not None:
            h._full_ds.close()
