"""Drivers that run the real xyzpy crop machinery from /repo and canonicalise what they see."""
import glob
import itertools
import math
import os
import pickle
import random
import re
import shutil

import xyzpy
from xyzpy.gen import cropping
from xyzpy.gen.cropping import Crop
from xyzpy.gen.combo_runner import combo_runner_core
from xyzpy.gen.prepare import parse_combos, parse_cases


def py_perm(seed, n):
    """The permutation CPython's random.shuffle produces after random.seed(int(seed)):
    position j of the shuffled list holds original index p[j]."""
    st = random.getstate()
    try:
        random.seed(int(seed))
        l = list(range(n))
        random.shuffle(l)
        return l
    finally:
        random.setstate(st)


def factor_shapes(n, rng, max_args=3):
    """A random way of writing n as a product of 1..max_args factors (each >= 1)."""
    k = rng.randint(1, max_args)
    dims = []
    m = n
    for _ in range(k - 1):
        divs = [d for d in range(1, m + 1) if m % d == 0]
        d = rng.choice(divs)
        dims.append(d)
        m //= d
    dims.append(m)
    rng.shuffle(dims)
    return dims


ARG_NAMES = ["q", "b", "z", "a", "m"]   # deliberately not in alphabetical order


def make_grid(dims, rng=None):
    """combos (in the given, unsorted order) with integer values, distinct per argument."""
    combos = []
    for i, d in enumerate(dims):
        vals = [10 * (i + 1) + j for j in range(d)]
        combos.append((ARG_NAMES[i], vals))
    return combos


def product_settings(combos, cases=None, constants=None):
    """Independent enumeration of the settings of a sweep in itertools.product order
    (cases outermost), as list of kwargs dicts."""
    out = []
    names = [a for a, _ in combos]
    for case in (cases or [{}]):
        for vals in itertools.product(*[v for _, v in combos]):
            kw = dict(case)
            kw.update(zip(names, vals))
            kw.update(constants or {})
            out.append(kw)
    return out


def freeze(kw):
    return tuple(sorted((k, repr(v)) for k, v in kw.items()))


def read_pickle(path):
    with open(path, "rb") as f:
        return pickle.load(f)


def batch_files(crop):
    fs = glob.glob(os.path.join(glob.escape(crop.location), "batches", "xyz-batch-*.jbdmp"))
    ids = sorted(int(re.findall(r"xyz-batch-(\d+)\.jbdmp$", f)[0]) for f in fs)
    return ids


def result_ids(crop):
    fs = glob.glob(os.path.join(glob.escape(crop.location), "results", "xyz-result-*.jbdmp"))
    return sorted(int(re.findall(r"xyz-result-(\d+)\.jbdmp$", f)[0]) for f in fs)


def read_batches(crop, index_of):
    """[(id, [setting index ...])] for every batch file, ids ascending."""
    out = []
    for i in batch_files(crop):
        b = read_pickle(os.path.join(crop.location, "batches", f"xyz-batch-{i}.jbdmp"))
        # a sown setting that a direct run would never pass has no index: -1 (flagged by the oracle)
        out.append((i, [index_of.get(freeze(kw), -1) for kw in b]))
    return out


def crop_numbers(crop):
    return [crop.batchsize, crop.num_batches, crop._batch_remainder]
